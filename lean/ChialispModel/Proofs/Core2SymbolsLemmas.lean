/-
  Proofs/Core2SymbolsLemmas.lean — the symbol table of a core2 program (Lang/Core2Symbols.lean).
  Part 1 (same structure as Proofs/CoreSymbolsLemmas.lean, over `Core2.FnDef`): what
  `add_defun`'s inserts leave in the table, where every recorded code sits in the emitted
  program, and that `extract_program_and_env` + `path_to_function` + `rewrite_in_program` build a
  program that runs the function's code on `(ENV . args)`.
  Part 2: how the emitted functions relate to the functions of the SOURCE program (renaming,
  inline expansion and let hoisting change bodies only; inline functions are dropped), and the
  symbol-table theorems stated about the source program.
-/
import ChialispModel.Lang.Core2Symbols
import ChialispModel.Proofs.Core2Lemmas
import ChialispModel.Proofs.CoreSymbolsLemmas

namespace Core2
open Clvm
open Core (SymKey SymVal SymTab symInsert symGet addDefun symGet_insert_self symGet_insert_ne
  get_fn_addDefun get_leftEnv_addDefun get_arguments_addDefun get_main_addDefun
  withEnv extract_withEnv subtree_withEnv path_in_quoted ev_rewrite lookupNat_subtree buildTree_complete
  extractProgramAndEnv rewriteInProgram composeRunFunction OpsCore ev_wrap qv wrap codeTree_lookup)

-- the `add_defun` loop as a fold over (function, code) pairs ----------------------------------

/-- the functions paired with their compiled codes. -/
def pairs : List FnDef → List (Bytes × Val) → List (FnDef × Val)
  | f :: fs, e :: es => (f, e.2) :: pairs fs es
  | _, _ => []

def addAll (H : Bytes → Bytes) : List (FnDef × Val) → SymTab → SymTab
  | [], t => t
  | x :: r, t => addAll H r (addDefun H x.1.name x.1.params x.2 t)

theorem addDefuns_eq (H : Bytes → Bytes) (FS : List FnDef) (es : List (Bytes × Val)) (t : SymTab) :
    addDefuns H FS es t = addAll H (pairs FS es) t := by
  induction FS generalizing es t with
  | nil => simp [addDefuns, pairs, addAll]
  | cons f fs ih =>
    cases es with
    | nil => simp [addDefuns, pairs, addAll]
    | cons e es => simp [addDefuns, pairs, addAll, ih]

/-- the LAST pair whose code has tree hash `h` (the one whose inserts survive). -/
def lastWith (H : Bytes → Bytes) (h : Bytes) : List (FnDef × Val) → Option (FnDef × Val)
  | [] => none
  | x :: r =>
    match lastWith H h r with
    | some y => some y
    | none => if Val.treeHash H x.2 = h then some x else none

theorem lastWith_mem (H : Bytes → Bytes) (h : Bytes) (S : List (FnDef × Val)) (y : FnDef × Val)
    (hy : lastWith H h S = some y) : y ∈ S ∧ Val.treeHash H y.2 = h := by
  induction S with
  | nil => simp [lastWith] at hy
  | cons x r ih =>
    simp only [lastWith] at hy
    cases hr : lastWith H h r with
    | some z =>
      rw [hr] at hy; simp at hy; subst hy
      obtain ⟨h1, h2⟩ := ih hr
      exact ⟨by simp [h1], h2⟩
    | none =>
      rw [hr] at hy
      simp only at hy
      split at hy
      · rename_i hx
        simp at hy; subst hy
        exact ⟨by simp, hx⟩
      · simp at hy

theorem lastWith_some (H : Bytes → Bytes) (S : List (FnDef × Val)) (x : FnDef × Val)
    (hx : x ∈ S) : (lastWith H (Val.treeHash H x.2) S).isSome = true := by
  induction S with
  | nil => simp at hx
  | cons z r ih =>
    simp only [lastWith]
    cases hr : lastWith H (Val.treeHash H x.2) r with
    | some y => simp
    | none =>
      simp only [List.mem_cons] at hx
      rcases hx with rfl | hx
      · simp
      · have := ih hx
        rw [hr] at this; simp at this

/-- the last pair with a hash is the given one when no LATER pair has that hash. -/
theorem lastWith_unique (H : Bytes → Bytes) (S : List (FnDef × Val)) (x : FnDef × Val)
    (hx : x ∈ S) (huniq : ∀ y ∈ S, Val.treeHash H y.2 = Val.treeHash H x.2 → y = x) :
    lastWith H (Val.treeHash H x.2) S = some x := by
  have hs := lastWith_some H S x hx
  cases hl : lastWith H (Val.treeHash H x.2) S with
  | none => rw [hl] at hs; simp at hs
  | some y =>
    obtain ⟨h1, h2⟩ := lastWith_mem H _ S y hl
    rw [huniq y h1 h2]

/-- EXACT content of the function entries: the three entries of a hash belong to the last
    function recorded with that hash. -/
theorem get_fn_addAll (H : Bytes → Bytes) (S : List (FnDef × Val)) (t : SymTab) (h : Bytes) :
    symGet (.fn h) (addAll H S t) =
      match lastWith H h S with
      | some y => some (.name y.1.name)
      | none => symGet (.fn h) t := by
  induction S generalizing t with
  | nil => simp [addAll, lastWith]
  | cons x r ih =>
    simp only [addAll, lastWith]
    rw [ih]
    cases lastWith H h r with
    | some y => rfl
    | none =>
      simp only
      rw [get_fn_addDefun]
      split <;> rfl

theorem get_arguments_addAll (H : Bytes → Bytes) (S : List (FnDef × Val)) (t : SymTab) (h : Bytes) :
    symGet (.arguments h) (addAll H S t) =
      match lastWith H h S with
      | some y => some (.pattern y.1.params)
      | none => symGet (.arguments h) t := by
  induction S generalizing t with
  | nil => simp [addAll, lastWith]
  | cons x r ih =>
    simp only [addAll, lastWith]
    rw [ih]
    cases lastWith H h r with
    | some y => rfl
    | none =>
      simp only
      rw [get_arguments_addDefun]
      split <;> rfl

theorem get_leftEnv_addAll (H : Bytes → Bytes) (S : List (FnDef × Val)) (t : SymTab) (h : Bytes) :
    symGet (.leftEnv h) (addAll H S t) =
      match lastWith H h S with
      | some _ => some .one
      | none => symGet (.leftEnv h) t := by
  induction S generalizing t with
  | nil => simp [addAll, lastWith]
  | cons x r ih =>
    simp only [addAll, lastWith]
    rw [ih]
    cases lastWith H h r with
    | some y => rfl
    | none =>
      simp only
      rw [get_leftEnv_addDefun]
      split <;> rfl

theorem get_main_addAll (H : Bytes → Bytes) (S : List (FnDef × Val)) (t : SymTab) :
    symGet .mainArguments (addAll H S t) = symGet .mainArguments t := by
  induction S generalizing t with
  | nil => rfl
  | cons x r ih => simp only [addAll]; rw [ih, get_main_addDefun]

-- functions and their codes ---------------------------------------------------------------------

theorem compileFns_pairs (names : List Bytes) (FS : List FnDef) (es : List (Bytes × Val))
    (h : compileFns names FS = some es) :
    (∀ x ∈ pairs FS es, x.1 ∈ FS ∧ fnCode names x.1 = some x.2) ∧
    (∀ f ∈ FS, ∃ c, fnCode names f = some c ∧ (f, c) ∈ pairs FS es) := by
  induction FS generalizing es with
  | nil => simp [pairs]
  | cons f r ih =>
    simp only [compileFns] at h
    cases hc : compileE (Lang.envShape names f.params) f.body with
    | none => rw [hc] at h; simp at h
    | some c =>
      rw [hc] at h
      cases hr : compileFns names r with
      | none => rw [hr] at h; simp at h
      | some cs =>
        rw [hr] at h; simp at h; subst h
        obtain ⟨ih1, ih2⟩ := ih cs hr
        have hfc : fnCode names f = some (wrap c) := by simp [fnCode, hc]
        constructor
        · intro x hx
          simp only [pairs, List.mem_cons] at hx
          rcases hx with rfl | hx
          · exact ⟨by simp, hfc⟩
          · obtain ⟨h1, h2⟩ := ih1 x hx
            exact ⟨by simp [h1], h2⟩
        · intro g hg
          simp only [List.mem_cons] at hg
          rcases hg with rfl | hg
          · exact ⟨wrap c, hfc, by simp [pairs]⟩
          · obtain ⟨c', h1, h2⟩ := ih2 g hg
            exact ⟨c', h1, by simp [pairs, h2]⟩


section Live
variable (FS : List FnDef) (entries : List (Bytes × Val))

/-- the code of a function of the table sits in the function environment at the path its name
    has in the balanced name tree (`compute_env_shape` / `finalize_env` agree). -/
theorem fn_code_at (hwf : WF FS) (hent : compileFns (FS.map (·.name)) FS = some entries)
    (f : FnDef) (hf : f ∈ FS) :
    ∃ c q, fnCode (FS.map (·.name)) f = some c ∧
      Lang.nameLookup f.name (Lang.buildTree (FS.map (·.name)) ((FS.map (·.name)).length + 1)) = some q ∧
      Path.lookupNat q (funcs entries) = .ok c := by
  obtain ⟨hs1, hs2⟩ := compileFns_spec _ FS entries hent
  have hatN : ∀ m ∈ FS.map (·.name), m ≠ [64] := by
    intro m hm
    simp only [List.mem_map] at hm
    obtain ⟨g, hg, rfl⟩ := hm
    exact hwf.noAt g hg
  obtain ⟨q, hq⟩ := buildTree_complete ((FS.map (·.name)).length + 1) (FS.map (·.name)) (by omega) hatN
    f.name (List.mem_map.mpr ⟨f, hf, rfl⟩)
  have hlenE : entries.length = (FS.map (·.name)).length := by
    have := congrArg List.length hs1
    simpa using this
  have hq' : Lang.nameLookup f.name (Lang.buildTree (entries.map (·.1)) (entries.length + 1)) = some q := by
    rw [hs1, hlenE]; exact hq
  obtain ⟨c, hc1, hc2⟩ := codeTree_lookup (entries.length + 1) entries (by omega) (by
    intro e he
    obtain ⟨g, hg, hn, _⟩ := hs2 e he
    rw [← hn]; exact hwf.noAt g hg) f.name q hq'
  obtain ⟨g, hg, hn, cb, hcb, he2⟩ := hs2 (f.name, c) hc1
  have hgf : g = f := name_unique FS hwf.nodup g f hg hf hn
  subst hgf
  refine ⟨c, q, ?_, hq, hc2⟩
  simp only at he2
  simp [fnCode, hcb, he2]

end Live

section Call
variable (ops : OpSem) (H : Bytes → Bytes)
  (FS : List FnDef) (entries : List (Bytes × Val))

/-- the code of a function of the table occurs in the emitted program and is found by
    `path_to_function` in the quoted environment. -/
theorem fn_code_found (hwf : WF FS) (hent : compileFns (FS.map (·.name)) FS = some entries)
    (f : FnDef) (hf : f ∈ FS) (c : Val) (hc : fnCode (FS.map (·.name)) f = some c) (main : Val) :
    Lang.Subtree c (funcs entries) ∧ Lang.Subtree c (withEnv main (funcs entries)) ∧
    (Lang.pathToFunction H (qv (funcs entries)) (Val.treeHash H c)).isSome = true ∧
    (Lang.pathToFunction H (withEnv main (funcs entries)) (Val.treeHash H c)).isSome = true := by
  obtain ⟨c', q, hc', hq, hl⟩ := fn_code_at FS entries hwf hent f hf
  rw [hc] at hc'; simp at hc'; subst hc'
  have hs : Lang.Subtree c (funcs entries) :=
    lookupNat_subtree q (Lang.nameLookup_pos _ _ _ hq) _ _ hl
  refine ⟨hs, subtree_withEnv main _ c hs, ?_, ?_⟩
  · exact Lang.pathToFunction_complete H _ c _ (.right _ hs) rfl
  · exact Lang.pathToFunction_complete H _ c _ (subtree_withEnv main _ c hs) rfl

/-- calling through the symbol table: the program `compose_run_function` builds for the hash
    of a function's code computes that function's body (target meaning `eval`). -/
theorem call_through_hash (hops : OpsCore ops) (hfr : OpsFR ops) (hH : Function.Injective (Val.treeHash H)) (hwf : WF FS)
    (hent : compileFns (FS.map (·.name)) FS = some entries)
    (f : FnDef) (hf : f ∈ FS) (c : Val) (hc : fnCode (FS.map (·.name)) f = some c)
    (p : Nat) (hp : Lang.pathToFunction H (qv (funcs entries)) (Val.treeHash H c) = some p)
    (n : Nat) (args v : Val) (he : eval ops FS n f.params args f.body = .ok v) :
    Evaluates ops (rewriteInProgram p (qv (funcs entries))) args v := by
  unfold fnCode at hc
  cases hcb : compileE (Lang.envShape (FS.map (·.name)) f.params) f.body with
  | none => rw [hcb] at hc; simp at hc
  | some cb =>
    rw [hcb] at hc; simp at hc; subst hc
    have hl := path_in_quoted H hH (funcs entries) _ p hp
    have hrun := (compile_sound ops FS entries hops hfr hwf hent n).1 f.params args f.body v cb
      (hwf.patOk f hf) (hwf.disjoint f hf) (hwf.bodyOk f hf) he hcb
    exact ev_rewrite ops hops p (funcs entries) (wrap cb) args v hl (ev_wrap ops cb _ v hrun)

end Call

-- Part 2: emitted functions vs source functions ------------------------------------------------------

/-- every function `expandFns` returns is a non-inline function of the list with its body expanded. -/
theorem expandFns_mem_inv (all : List FnDef) (fuel : Nat) : ∀ (L FT : List FnDef), expandFns all fuel L = some FT →
    ∀ g ∈ FT, ∃ f ∈ L, f.inline = false ∧ ∃ b, expand all fuel f.params .top f.body = some b ∧
      g = { f with body := b } := by
  intro L
  induction L with
  | nil => intro FT h g hg; simp [expandFns] at h; subst h; simp at hg
  | cons x xs ih =>
    intro FT hE g hg
    simp only [expandFns] at hE
    by_cases hx : x.inline = true
    · rw [if_pos hx] at hE
      obtain ⟨f, hf, r⟩ := ih FT hE g hg
      exact ⟨f, by simp [hf], r⟩
    · rw [if_neg hx] at hE
      cases hb : expand all fuel x.params .top x.body with
      | none => rw [hb] at hE; simp at hE
      | some b =>
        cases hr : expandFns all fuel xs with
        | none => rw [hb, hr] at hE; simp at hE
        | some fs =>
          rw [hb, hr] at hE
          simp at hE; subst hE
          simp only [List.mem_cons] at hg
          rcases hg with rfl | hg
          · exact ⟨x, by simp, by simpa using hx, b, hb, rfl⟩
          · obtain ⟨f, hf, r⟩ := ih fs hr g hg
            exact ⟨f, by simp [hf], r⟩

/-- every non-inline function of the list is returned by `expandFns` with its body expanded. -/
theorem expandFns_mem_of (all : List FnDef) (fuel : Nat) : ∀ (L FT : List FnDef), expandFns all fuel L = some FT →
    ∀ f ∈ L, f.inline = false → ∃ b, expand all fuel f.params .top f.body = some b ∧
      ({ f with body := b } : FnDef) ∈ FT := by
  intro L
  induction L with
  | nil => intro FT _ f hf; simp at hf
  | cons x xs ih =>
    intro FT hE f hf hinl
    simp only [expandFns] at hE
    by_cases hx : x.inline = true
    · rw [if_pos hx] at hE
      simp only [List.mem_cons] at hf
      rcases hf with rfl | hf
      · rw [hx] at hinl; simp at hinl
      · exact ih FT hE f hf hinl
    · rw [if_neg hx] at hE
      cases hb : expand all fuel x.params .top x.body with
      | none => rw [hb] at hE; simp at hE
      | some b =>
        cases hr : expandFns all fuel xs with
        | none => rw [hb, hr] at hE; simp at hE
        | some fs =>
          rw [hb, hr] at hE
          simp at hE; subst hE
          simp only [List.mem_cons] at hf
          rcases hf with rfl | hf
          · exact ⟨b, hb, by simp⟩
          · obtain ⟨b', h1, h2⟩ := ih fs hr f hf hinl
            exact ⟨b', h1, by simp [h2]⟩

/-- the names of the emitted functions are the names of the live non-inline functions, in source order. -/
theorem expandFns_keep_names (all : List FnDef) (fuel : Nat) (live : List Bytes) : ∀ (L FT : List FnDef),
    expandFns all fuel L = some FT →
    (keep FT live).map (·.name) = (L.filter (fun f => !f.inline && live.contains f.name)).map (·.name) := by
  intro L
  induction L with
  | nil => intro FT h; simp [expandFns] at h; subst h; simp [keep]
  | cons x xs ih =>
    intro FT hE
    simp only [expandFns] at hE
    by_cases hx : x.inline = true
    · rw [if_pos hx] at hE
      rw [ih FT hE]
      simp [List.filter_cons, hx]
    · rw [if_neg hx] at hE
      cases hb : expand all fuel x.params .top x.body with
      | none => rw [hb] at hE; simp at hE
      | some b =>
        cases hr : expandFns all fuel xs with
        | none => rw [hb, hr] at hE; simp at hE
        | some fs =>
          rw [hb, hr] at hE
          simp at hE; subst hE
          have hx' : x.inline = false := by simpa using hx
          have := ih fs hr
          unfold keep at this ⊢
          simp only [List.filter_cons, hx', Bool.not_false, Bool.true_and]
          by_cases hl : live.contains x.name = true
          · simp only [hl, if_true, List.map_cons, this]
          · have hl' : live.contains x.name = false := by simpa using hl
            simp only [hl', Bool.false_eq_true, if_false]
            exact this

-- renaming changes neither calls nor liveness ---------------------------------------------------------

mutual
theorem callsOf_rename : ∀ (e : Expr) (r : List (Bytes × Bytes)) (d : Nat), callsOf (renameE r d e) = callsOf e
  | .var _, _, _ => rfl
  | .lit _, _, _ => rfl
  | .argsv, _, _ => rfl
  | .op _ as, r, d => by simp only [renameE, callsOf]; exact callsOfs_rename as r d
  | .ite c a b, r, d => by
    simp only [renameE, callsOf]; rw [callsOf_rename c, callsOf_rename a, callsOf_rename b]
  | .call _ as, r, d => by simp only [renameE, callsOf]; rw [callsOfs_rename as r d]
  | .letE names es body, r, d => by
    simp only [renameE, callsOf]; rw [callsOfs_rename es r d, callsOf_rename body]
theorem callsOfs_rename : ∀ (es : Exprs) (r : List (Bytes × Bytes)) (d : Nat), callsOfs (renameEs r d es) = callsOfs es
  | .nil, _, _ => rfl
  | .cons e rest, r, d => by simp only [renameEs, callsOfs]; rw [callsOf_rename e, callsOfs_rename rest]
end

theorem liveStep_rename (FS : List FnDef) (live : List Bytes) : liveStep (FS.map renameFn) live = liveStep FS live := by
  unfold liveStep
  rw [List.foldl_map]
  congr 1
  funext acc f
  simp only [renameFn, callsOf_rename]

theorem liveIter_rename (FS : List FnDef) (k : Nat) (live : List Bytes) :
    liveIter (FS.map renameFn) k live = liveIter FS k live := by
  induction k generalizing live with
  | zero => rfl
  | succ k ih => simp only [liveIter, liveStep_rename, ih]

theorem liveSet_rename (P : Prog) : liveSet (renameProg P) = liveSet P := by
  simp only [liveSet, renameProg, List.length_map, callsOf_rename, liveIter_rename]

/-- renaming changes neither the names, nor the inline flags, nor the liveness of the functions. -/
theorem emitted_names (P : Prog) : (emittedNS (renameProg P)).map (·.name) = (emitted P).map (·.name) := by
  unfold emittedNS emitted
  rw [liveSet_rename]
  simp only [renameProg, List.filter_map, List.map_map]
  rfl

-- the table of a whole compilation --------------------------------------------------------------------

section Table
variable (H : Bytes → Bytes)

theorem get_fn_symbolsWith (FS : List FnDef) (es : List (Bytes × Val)) (params : Rich) (h : Bytes) :
    symGet (.fn h) (symbolsWith H FS es params) =
      match lastWith H h (pairs FS es) with
      | some y => some (.name y.1.name)
      | none => none := by
  unfold symbolsWith
  rw [symGet_insert_ne _ _ _ _ (by simp), addDefuns_eq, get_fn_addAll]
  cases lastWith H h (pairs FS es) <;> rfl

theorem get_arguments_symbolsWith (FS : List FnDef) (es : List (Bytes × Val)) (params : Rich) (h : Bytes) :
    symGet (.arguments h) (symbolsWith H FS es params) =
      match lastWith H h (pairs FS es) with
      | some y => some (.pattern y.1.params)
      | none => none := by
  unfold symbolsWith
  rw [symGet_insert_ne _ _ _ _ (by simp), addDefuns_eq, get_arguments_addAll]
  cases lastWith H h (pairs FS es) <;> rfl

theorem get_leftEnv_symbolsWith (FS : List FnDef) (es : List (Bytes × Val)) (params : Rich) (h : Bytes) :
    symGet (.leftEnv h) (symbolsWith H FS es params) =
      match lastWith H h (pairs FS es) with
      | some _ => some .one
      | none => none := by
  unfold symbolsWith
  rw [symGet_insert_ne _ _ _ _ (by simp), addDefuns_eq, get_leftEnv_addAll]
  cases lastWith H h (pairs FS es) <;> rfl

theorem get_main_symbolsWith (FS : List FnDef) (es : List (Bytes × Val)) (params : Rich) :
    symGet .mainArguments (symbolsWith H FS es params) = some (.pattern params) := by
  unfold symbolsWith
  exact symGet_insert_self _ _ _

end Table

theorem progWFNS_spec (Q : Prog) (hwf : progWFNS Q = true) :
    ∃ FT main, expandFns Q.fns (expandFuel Q) Q.fns = some FT ∧
      expand Q.fns (expandFuel Q) Q.params .top Q.body = some main ∧
      expandProg Q = some (FT, main) ∧ fnsWF Q.fns = true ∧ targetWF FT = true ∧
      liveClosed FT (liveSet Q) = true := by
  unfold progWFNS at hwf
  cases hxp : expandProg Q with
  | none => rw [hxp] at hwf; simp at hwf
  | some r =>
    obtain ⟨FT, main⟩ := r
    rw [hxp] at hwf
    simp only [Bool.and_eq_true] at hwf
    obtain ⟨⟨⟨hfns, _⟩, _⟩, ⟨⟨⟨⟨htw, _⟩, _⟩, hcl⟩, _⟩⟩ := hwf
    have hx := hxp
    unfold expandProg at hx
    cases hE : expandFns Q.fns (expandFuel Q) Q.fns with
    | none => rw [hE] at hx; simp at hx
    | some FT' =>
      cases hM : expand Q.fns (expandFuel Q) Q.params .top Q.body with
      | none => rw [hE, hM] at hx; simp at hx
      | some main' =>
        rw [hE, hM] at hx
        simp at hx
        obtain ⟨h1, h2⟩ := hx
        subst h1; subst h2
        exact ⟨FT', main', rfl, rfl, rfl, hfns, htw, hcl⟩

theorem compileNSSyms_spec (H : Bytes → Bytes) (Q : Prog) (prog : Val) (tab : SymTab)
    (hwf : progWFNS Q = true) (hc : compileNSSyms H Q = some (prog, tab)) :
    ∃ FT mainc entries,
      expandFns Q.fns (expandFuel Q) Q.fns = some FT ∧
      compileFns ((keep FT (liveSet Q)).map (·.name)) (keep FT (liveSet Q)) = some entries ∧
      prog = withEnv mainc (funcs entries) ∧
      tab = symbolsWith H (keep FT (liveSet Q)) entries Q.params ∧
      compileNS Q = some prog ∧ fnsWF Q.fns = true ∧ WF (keep FT (liveSet Q)) ∧
      liveClosed FT (liveSet Q) = true := by
  obtain ⟨FT, main, hE, _, hxp, hfns, htw, hcl⟩ := progWFNS_spec Q hwf
  unfold compileNSSyms at hc
  rw [hxp] at hc
  simp only at hc
  cases hcw : compileWith (keep FT (liveSet Q)) Q.params main with
  | none => rw [hcw] at hc; simp at hc
  | some code =>
    cases hent : compileFns ((keep FT (liveSet Q)).map (·.name)) (keep FT (liveSet Q)) with
    | none => rw [hcw, hent] at hc; simp at hc
    | some entries =>
      rw [hcw, hent] at hc
      simp only [Option.some.injEq, Prod.mk.injEq] at hc
      obtain ⟨h1, h2⟩ := hc
      subst h1
      have hns : compileNS Q = some code := by
        unfold compileNS; rw [hxp]; exact hcw
      unfold compileWith at hcw
      cases hm : compileE (Lang.envShape ((keep FT (liveSet Q)).map (·.name)) Q.params) main with
      | none => rw [hm] at hcw; simp at hcw
      | some mainc =>
        rw [hm, hent] at hcw
        simp only [Option.some.injEq] at hcw
        exact ⟨FT, mainc, entries, hE, hent, hcw.symm, h2.symm, hns, hfns,
          wf_keep FT (liveSet Q) (targetWF_sound FT htw), hcl⟩

/-- the code `compileFns` records for the expansion of a source function is `codeOfNS`. -/
theorem fnCode_target (Q : Prog) (FT : List FnDef) (hE : expandFns Q.fns (expandFuel Q) Q.fns = some FT)
    (f : FnDef) (hinl : f.inline = false) (b : Expr)
    (hb : expand Q.fns (expandFuel Q) f.params .top f.body = some b) :
    fnCode ((keep FT (liveSet Q)).map (·.name)) { f with body := b } = codeOfNS Q f := by
  unfold codeOfNS targetBodyNS
  rw [if_neg (by simp [hinl]), hb]
  simp only
  rw [expandFns_keep_names _ _ _ _ _ hE]
  rfl

theorem mem_keep (FT : List FnDef) (live : List Bytes) (g : FnDef) :
    g ∈ keep FT live ↔ g ∈ FT ∧ live.contains g.name = true := by
  unfold keep
  exact List.mem_filter

-- the theorems on a shadow-free program -----------------------------------------------------------------

section NS
variable (H : Bytes → Bytes) (Q : Prog) (prog : Val) (tab : SymTab)

/-- an emitted function is the expansion of a live non-inline source function, and its code is
    that function's `codeOfNS`. -/
theorem emitted_source (FT : List FnDef) (hE : expandFns Q.fns (expandFuel Q) Q.fns = some FT)
    (g : FnDef) (hg : g ∈ keep FT (liveSet Q)) :
    ∃ f ∈ Q.fns, f.inline = false ∧ (liveSet Q).contains f.name = true ∧ g.name = f.name ∧ g.params = f.params ∧
      ∃ b, expand Q.fns (expandFuel Q) f.params .top f.body = some b ∧ g = { f with body := b } ∧
      fnCode ((keep FT (liveSet Q)).map (·.name)) g = codeOfNS Q f := by
  obtain ⟨hg1, hg2⟩ := (mem_keep _ _ g).mp hg
  obtain ⟨f, hf, hinl, b, hb, hgf⟩ := expandFns_mem_inv _ _ _ _ hE g hg1
  subst hgf
  exact ⟨f, hf, hinl, hg2, rfl, rfl, b, hb, rfl, fnCode_target Q FT hE f hinl b hb⟩

/-- a live non-inline source function is emitted (with its body expanded). -/
theorem source_emitted (FT : List FnDef) (hE : expandFns Q.fns (expandFuel Q) Q.fns = some FT)
    (f : FnDef) (hf : f ∈ Q.fns) (hinl : f.inline = false) (hl : (liveSet Q).contains f.name = true) :
    ∃ b, expand Q.fns (expandFuel Q) f.params .top f.body = some b ∧
      ({ f with body := b } : FnDef) ∈ keep FT (liveSet Q) ∧
      fnCode ((keep FT (liveSet Q)).map (·.name)) { f with body := b } = codeOfNS Q f := by
  obtain ⟨b, hb, hm⟩ := expandFns_mem_of _ _ _ _ hE f hf hinl
  exact ⟨b, hb, (mem_keep _ _ _).mpr ⟨hm, hl⟩, fnCode_target Q FT hE f hinl b hb⟩

theorem entry_sound_NS (hwf : progWFNS Q = true) (hc : compileNSSyms H Q = some (prog, tab))
    (h : Bytes) (val : SymVal) (hg : symGet (.fn h) tab = some val) :
    ∃ f ∈ Q.fns, f.inline = false ∧ (liveSet Q).contains f.name = true ∧
      ∃ c, val = .name f.name ∧ codeOfNS Q f = some c ∧ Val.treeHash H c = h ∧
      symGet (.arguments h) tab = some (.pattern f.params) ∧
      symGet (.leftEnv h) tab = some .one ∧ Lang.Subtree c prog := by
  obtain ⟨FT, mainc, entries, hE, hent, hprog, htab, _, _, hW, _⟩ := compileNSSyms_spec H Q prog tab hwf hc
  subst htab hprog
  rw [get_fn_symbolsWith] at hg
  rw [get_arguments_symbolsWith, get_leftEnv_symbolsWith]
  cases hl : lastWith H h (pairs (keep FT (liveSet Q)) entries) with
  | none => rw [hl] at hg; simp at hg
  | some y =>
    rw [hl] at hg
    simp only [Option.some.injEq] at hg
    obtain ⟨hy1, hy2⟩ := lastWith_mem H h _ y hl
    obtain ⟨hy3, hy4⟩ := (compileFns_pairs _ _ _ hent).1 y hy1
    obtain ⟨f, hf, hinl, hlive, hn, hp, b, _, _, hcode⟩ := emitted_source Q FT hE y.1 hy3
    refine ⟨f, hf, hinl, hlive, y.2, ?_, ?_, hy2, ?_, rfl, ?_⟩
    · rw [← hg, hn]
    · rw [← hcode]; exact hy4
    · simp only [hp]
    · exact (fn_code_found H (keep FT (liveSet Q)) entries hW hent y.1 hy3 y.2 hy4 mainc).2.1

/-- a value that is a function name sits under a plain `<hash>` key. -/
theorem name_value_key_NS (hwf : progWFNS Q = true) (hc : compileNSSyms H Q = some (prog, tab)) (k : SymKey) (n : Bytes)
    (hg : symGet k tab = some (.name n)) : ∃ h, k = .fn h := by
  obtain ⟨FT, mainc, entries, _, _, _, htab, _⟩ := compileNSSyms_spec H Q prog tab hwf hc
  subst htab
  cases k with
  | fn h => exact ⟨h, rfl⟩
  | arguments h =>
    rw [get_arguments_symbolsWith] at hg
    cases hl : lastWith H h (pairs (keep FT (liveSet Q)) entries) <;> rw [hl] at hg <;> simp at hg
  | leftEnv h =>
    rw [get_leftEnv_symbolsWith] at hg
    cases hl : lastWith H h (pairs (keep FT (liveSet Q)) entries) <;> rw [hl] at hg <;> simp at hg
  | mainArguments =>
    rw [get_main_symbolsWith] at hg
    simp at hg

/-- values that are function names name live non-inline source functions only. -/
theorem name_value_live_NS (hwf : progWFNS Q = true) (hc : compileNSSyms H Q = some (prog, tab))
    (k : SymKey) (n : Bytes) (hg : symGet k tab = some (.name n)) :
    ∃ f ∈ Q.fns, f.inline = false ∧ (liveSet Q).contains f.name = true ∧ f.name = n ∧
      ∃ c, codeOfNS Q f = some c ∧ k = .fn (Val.treeHash H c) := by
  obtain ⟨h, rfl⟩ := name_value_key_NS H Q prog tab hwf hc k n hg
  obtain ⟨f, hf, hinl, hlive, c, hv, hcode, hch, _⟩ := entry_sound_NS H Q prog tab hwf hc h _ hg
  simp only [SymVal.name.injEq] at hv
  exact ⟨f, hf, hinl, hlive, hv.symm, c, hcode, by rw [hch]⟩

theorem present_NS (hwf : progWFNS Q = true) (hc : compileNSSyms H Q = some (prog, tab))
    (f : FnDef) (hf : f ∈ Q.fns) (hinl : f.inline = false) (hlive : (liveSet Q).contains f.name = true) :
    ∃ code, codeOfNS Q f = some code ∧ Lang.Subtree code prog ∧
      (Lang.pathToFunction H prog (Val.treeHash H code)).isSome = true ∧
      (∃ main env q, extractProgramAndEnv prog = some (qv main, qv env) ∧
        Lang.nameLookup f.name (Lang.buildTree ((emittedNS Q).map (·.name)) (((emittedNS Q).map (·.name)).length + 1)) = some q ∧
        Path.lookupNat q env = .ok code) ∧
      ∃ g ∈ Q.fns, g.inline = false ∧ (liveSet Q).contains g.name = true ∧
        ∃ cg, codeOfNS Q g = some cg ∧ Val.treeHash H cg = Val.treeHash H code ∧
        symGet (.fn (Val.treeHash H code)) tab = some (.name g.name) ∧
        symGet (.arguments (Val.treeHash H code)) tab = some (.pattern g.params) ∧
        symGet (.leftEnv (Val.treeHash H code)) tab = some .one := by
  obtain ⟨FT, mainc, entries, hE, hent, hprog, htab, _, _, hW, _⟩ := compileNSSyms_spec H Q prog tab hwf hc
  subst htab hprog
  obtain ⟨b, hb, hmem, hcode⟩ := source_emitted Q FT hE f hf hinl hlive
  obtain ⟨c, hc1, hc2⟩ := (compileFns_pairs _ _ _ hent).2 _ hmem
  obtain ⟨c', q, hc', hq, hl⟩ := fn_code_at (keep FT (liveSet Q)) entries hW hent _ hmem
  rw [hc1] at hc'; simp at hc'; subst hc'
  obtain ⟨_, hs2, _, hs4⟩ := fn_code_found H (keep FT (liveSet Q)) entries hW hent _ hmem c hc1 mainc
  have hnames : (keep FT (liveSet Q)).map (·.name) = (emittedNS Q).map (·.name) :=
    expandFns_keep_names _ _ _ _ _ hE
  refine ⟨c, by rw [← hcode]; exact hc1, hs2, hs4, ⟨mainc, funcs entries, q, extract_withEnv _ _, ?_, hl⟩, ?_⟩
  · rw [← hnames]; exact hq
  have hsome := lastWith_some H _ _ hc2
  cases hlw : lastWith H (Val.treeHash H c) (pairs (keep FT (liveSet Q)) entries) with
  | none => rw [hlw] at hsome; simp at hsome
  | some y =>
    obtain ⟨hy1, hy2⟩ := lastWith_mem H _ _ y hlw
    obtain ⟨hy3, hy4⟩ := (compileFns_pairs _ _ _ hent).1 y hy1
    obtain ⟨g, hg, hginl, hglive, hn, hp, _, _, _, hgcode⟩ := emitted_source Q FT hE y.1 hy3
    refine ⟨g, hg, hginl, hglive, y.2, by rw [← hgcode]; exact hy4, hy2, ?_, ?_, ?_⟩
    · rw [get_fn_symbolsWith, hlw]; simp only [hn]
    · rw [get_arguments_symbolsWith, hlw]; simp only [hp]
    · rw [get_leftEnv_symbolsWith, hlw]

/-- truth on a shadow-free program: under hash injectivity a tree whose hash is a key IS the code
    of the named function, and the program `compose_run_function` builds for that key computes
    the call of that source function. -/
theorem truth_NS (ops : OpSem) (hops : OpsCore ops) (hfr : OpsFR ops) (hH : Function.Injective (Val.treeHash H))
    (hwf : progWFNS Q = true) (hc : compileNSSyms H Q = some (prog, tab))
    (h : Bytes) (val : SymVal) (hg : symGet (.fn h) tab = some val)
    (sub : Val) (hsub : Val.treeHash H sub = h) :
    ∃ f ∈ Q.fns, f.inline = false ∧ (liveSet Q).contains f.name = true ∧
      val = .name f.name ∧ codeOfNS Q f = some sub ∧ Lang.Subtree sub prog ∧
      symGet (.arguments h) tab = some (.pattern f.params) ∧
      symGet (.leftEnv h) tab = some .one ∧
      ∃ qmain qenv p, extractProgramAndEnv prog = some (qmain, qenv) ∧
        Lang.pathToFunction H qenv h = some p ∧
        composeRunFunction H prog h = some (rewriteInProgram p qenv) ∧
        ∀ n args v, bindsOk f.params args = true → eval ops Q.fns n f.params args f.body = .ok v →
          Evaluates ops (rewriteInProgram p qenv) args v := by
  obtain ⟨f, hf, hinl, hlive, c, hv, hcode, hch, ha, hl, hs⟩ := entry_sound_NS H Q prog tab hwf hc h val hg
  have hcs : c = sub := hH (by rw [hch, hsub])
  subst hcs
  obtain ⟨FT, mainc, entries, hE, hent, hprog, htab, _, hfns, hW, hcl⟩ := compileNSSyms_spec H Q prog tab hwf hc
  subst hprog
  obtain ⟨b, hb, hmem, hfc⟩ := source_emitted Q FT hE f hf hinl hlive
  rw [hcode] at hfc
  obtain ⟨_, _, hs3, _⟩ := fn_code_found H (keep FT (liveSet Q)) entries hW hent _ hmem c hfc mainc
  cases hp : Lang.pathToFunction H (qv (funcs entries)) (Val.treeHash H c) with
  | none => rw [hp] at hs3; simp at hs3
  | some p =>
    subst hch
    refine ⟨f, hf, hinl, hlive, hv, hcode, hs, ha, hl, qv mainc, qv (funcs entries), p, extract_withEnv _ _, hp, ?_, ?_⟩
    · simp [composeRunFunction, extract_withEnv, hp]
    · intro n args v hbo he
      simp only [fnsWF, Bool.and_eq_true, List.all_eq_true, bne_iff_ne, ne_eq] at hfns
      have hFS : ∀ f fd, findFn f Q.fns = some fd → patWF fd.params = true ∧ exprWF fd.params fd.body = true := by
        intro f fd hf
        obtain ⟨hmem, _⟩ := findFn_mem f Q.fns fd hf
        exact ⟨(hfns.2 fd hmem).1.2, (hfns.2 fd hmem).2⟩
      have hFT : ∀ f fd, findFn f Q.fns = some fd → fd.inline = false →
          ∃ fd' k, findFn f FT = some fd' ∧ fd'.params = fd.params ∧
            expand Q.fns k fd.params .top fd.body = some fd'.body := by
        intro f fd hf hinl
        obtain ⟨fd', h1, h2, h3⟩ := expandFns_find Q.fns (expandFuel Q) Q.fns FT hE f fd hf hinl
        exact ⟨fd', expandFuel Q, h1, h2, h3⟩
      obtain ⟨m, hm⟩ := (expand_sound ops Q.fns FT hops hfr hFS hFT n).1 (expandFuel Q) f.params args .top
        f.body b v f.params args (hfns.2 f hf).1.2 hbo (hfns.2 f hf).2 ⟨rfl, rfl⟩ hb he
      obtain ⟨hm1, hm2⟩ := (mem_keep _ _ _).mp hmem
      have hcalls : (callsOf b).all (liveSet Q).contains = true := by
        have h := hcl
        unfold liveClosed at h
        rw [List.all_eq_true] at h
        have := h _ hm1
        simp only [hm2, Bool.not_true, Bool.false_or] at this
        exact this
      have hk := (eval_keep ops FT (liveSet Q) hcl m).1 f.params args b v hcalls hm
      exact call_through_hash ops H (keep FT (liveSet Q)) entries hops hfr hH hW hent _ hmem c hfc p hp m args v hk

end NS

-- the theorems on the source program (lets may shadow) -----------------------------------------------------

theorem progWF_ns (P : Prog) (hwf : progWF P = true) : progWFNS (renameProg P) = true := by
  simp only [progWF, Bool.and_eq_true] at hwf
  exact hwf.2

theorem fns_nodup (Q : Prog) (hwf : progWFNS Q = true) : (Q.fns.map (·.name)).Nodup := by
  obtain ⟨_, _, _, _, _, hfns, _, _⟩ := progWFNS_spec Q hwf
  simp only [fnsWF, Bool.and_eq_true] at hfns
  exact Core.nodupB_sound _ hfns.1

/-- the lexically scoped meaning of a function body is the meaning of the renamed body among
    the renamed functions (the function-level instance of `rename_sound`). -/
theorem rename_fn_sound (ops : OpSem) (P : Prog) (hwf : progWF P = true) (f : FnDef) (hf : f ∈ P.fns)
    (n : Nat) (args v : Val) (hbo : bindsOk f.params args = true)
    (he : evalL ops P.fns n f.params args f.body = .ok v) :
    eval ops (renameProg P).fns n (renameFn f).params args (renameFn f).body = .ok v := by
  have hns := progWF_ns P hwf
  simp only [progWF, Bool.and_eq_true, List.all_eq_true] at hwf
  obtain ⟨⟨hlf, _⟩, _⟩ := hwf
  obtain ⟨_, _, _, _, _, hfns, _, _⟩ := progWFNS_spec _ hns
  simp only [fnsWF, Bool.and_eq_true, List.all_eq_true, bne_iff_ne, ne_eq] at hfns
  have hfnsE : (renameProg P).fns = P.fns.map renameFn := rfl
  have hFS : ∀ f fd, findFn f P.fns = some fd →
      lexWF fd.body = true ∧ patWF fd.params = true ∧ exprWF fd.params (renameE [] 0 fd.body) = true := by
    intro f fd hf
    obtain ⟨hmem, _⟩ := findFn_mem f P.fns fd hf
    have hm : renameFn fd ∈ (renameProg P).fns := by
      rw [hfnsE]; exact List.mem_map_of_mem hmem
    have := hfns.2 (renameFn fd) hm
    exact ⟨hlf fd hmem, this.1.2, this.2⟩
  have hm : renameFn f ∈ (renameProg P).fns := by
    rw [hfnsE]; exact List.mem_map_of_mem hf
  have hthis := hfns.2 (renameFn f) hm
  rw [hfnsE]
  exact (rename_sound ops P.fns hFS n).1 f.params args f.params args [] 0 f.body v
    (patWF_parts hthis.1.2).1 hbo hthis.1.2 hbo (hlf f hf) hthis.2 (rel_nil _ _) he

section Program
variable (H : Bytes → Bytes) (P : Prog) (prog : Val) (tab : SymTab)

theorem entry_sound (hwf : progWF P = true) (hc : compileCore2Syms H P = some (prog, tab))
    (h : Bytes) (val : SymVal) (hg : symGet (.fn h) tab = some val) :
    ∃ f ∈ P.fns, f.inline = false ∧ (liveSet P).contains f.name = true ∧
      ∃ c, val = .name f.name ∧ codeOf P f = some c ∧ Val.treeHash H c = h ∧
      symGet (.arguments h) tab = some (.pattern f.params) ∧
      symGet (.leftEnv h) tab = some .one ∧ Lang.Subtree c prog := by
  obtain ⟨f', hf', hinl, hlive, c, hv, hcode, r⟩ :=
    entry_sound_NS H (renameProg P) prog tab (progWF_ns P hwf) hc h val hg
  obtain ⟨f, hf, rfl⟩ := List.mem_map.mp hf'
  rw [liveSet_rename] at hlive
  exact ⟨f, hf, hinl, hlive, c, hv, hcode, r⟩

theorem name_value_live (hwf : progWF P = true) (hc : compileCore2Syms H P = some (prog, tab))
    (k : SymKey) (n : Bytes) (hg : symGet k tab = some (.name n)) :
    ∃ f ∈ P.fns, f.inline = false ∧ (liveSet P).contains f.name = true ∧ f.name = n ∧
      ∃ c, codeOf P f = some c ∧ k = .fn (Val.treeHash H c) := by
  obtain ⟨f', hf', hinl, hlive, hn, r⟩ :=
    name_value_live_NS H (renameProg P) prog tab (progWF_ns P hwf) hc k n hg
  obtain ⟨f, hf, rfl⟩ := List.mem_map.mp hf'
  rw [liveSet_rename] at hlive
  exact ⟨f, hf, hinl, hlive, hn, r⟩

theorem present (hwf : progWF P = true) (hc : compileCore2Syms H P = some (prog, tab))
    (f : FnDef) (hf : f ∈ P.fns) (hinl : f.inline = false) (hlive : (liveSet P).contains f.name = true) :
    ∃ code, codeOf P f = some code ∧ Lang.Subtree code prog ∧
      (Lang.pathToFunction H prog (Val.treeHash H code)).isSome = true ∧
      (∃ main env q, extractProgramAndEnv prog = some (qv main, qv env) ∧
        Lang.nameLookup f.name (Lang.buildTree ((emitted P).map (·.name)) (((emitted P).map (·.name)).length + 1)) = some q ∧
        Path.lookupNat q env = .ok code) ∧
      ∃ g ∈ P.fns, g.inline = false ∧ (liveSet P).contains g.name = true ∧
        ∃ cg, codeOf P g = some cg ∧ Val.treeHash H cg = Val.treeHash H code ∧
        symGet (.fn (Val.treeHash H code)) tab = some (.name g.name) ∧
        symGet (.arguments (Val.treeHash H code)) tab = some (.pattern g.params) ∧
        symGet (.leftEnv (Val.treeHash H code)) tab = some .one := by
  have hf' : renameFn f ∈ (renameProg P).fns := List.mem_map_of_mem hf
  obtain ⟨code, h1, h2, h3, h4, g', hg', hginl, hglive, r⟩ :=
    present_NS H (renameProg P) prog tab (progWF_ns P hwf) hc (renameFn f) hf' hinl
      (by rw [liveSet_rename]; exact hlive)
  obtain ⟨g, hg, rfl⟩ := List.mem_map.mp hg'
  rw [liveSet_rename] at hglive
  rw [emitted_names] at h4
  exact ⟨code, h1, h2, h3, h4, g, hg, hginl, hglive, r⟩

theorem truth (ops : OpSem) (hops : OpsCore ops) (hfr : OpsFR ops) (hH : Function.Injective (Val.treeHash H))
    (hwf : progWF P = true) (hc : compileCore2Syms H P = some (prog, tab))
    (h : Bytes) (val : SymVal) (hg : symGet (.fn h) tab = some val)
    (sub : Val) (hsub : Val.treeHash H sub = h) :
    ∃ f ∈ P.fns, f.inline = false ∧ (liveSet P).contains f.name = true ∧
      val = .name f.name ∧ codeOf P f = some sub ∧ Lang.Subtree sub prog ∧
      symGet (.arguments h) tab = some (.pattern f.params) ∧
      symGet (.leftEnv h) tab = some .one ∧
      ∃ qmain qenv p, extractProgramAndEnv prog = some (qmain, qenv) ∧
        Lang.pathToFunction H qenv h = some p ∧
        composeRunFunction H prog h = some (rewriteInProgram p qenv) ∧
        ∀ n args v, bindsOk f.params args = true → evalL ops P.fns n f.params args f.body = .ok v →
          Evaluates ops (rewriteInProgram p qenv) args v := by
  obtain ⟨f', hf', hinl, hlive, hv, hcode, hs, ha, hl, qmain, qenv, p, h1, h2, h3, hrun⟩ :=
    truth_NS H (renameProg P) prog tab ops hops hfr hH (progWF_ns P hwf) hc h val hg sub hsub
  obtain ⟨f, hf, rfl⟩ := List.mem_map.mp hf'
  rw [liveSet_rename] at hlive
  refine ⟨f, hf, hinl, hlive, hv, hcode, hs, ha, hl, qmain, qenv, p, h1, h2, h3, ?_⟩
  intro n args v hbo he
  exact hrun n args v hbo (rename_fn_sound ops P hwf f hf n args v hbo he)

/-- no entry names an inline function. -/
theorem inline_absent (hwf : progWF P = true) (hc : compileCore2Syms H P = some (prog, tab))
    (d : FnDef) (hd : d ∈ P.fns) (hinl : d.inline = true) (k : SymKey) :
    symGet k tab ≠ some (.name d.name) := by
  intro hg
  obtain ⟨f', hf', hfinl, _, hn, _⟩ :=
    name_value_live_NS H (renameProg P) prog tab (progWF_ns P hwf) hc k d.name hg
  have hd' : renameFn d ∈ (renameProg P).fns := List.mem_map_of_mem hd
  have := name_unique _ (fns_nodup _ (progWF_ns P hwf)) f' (renameFn d) hf' hd' hn
  subst this
  rw [show (renameFn d).inline = d.inline from rfl, hinl] at hfinl
  simp at hfinl

/-- no entry names a dead (tree-shaken) function. -/
theorem dead_absent (hwf : progWF P = true) (hc : compileCore2Syms H P = some (prog, tab))
    (d : FnDef) (hdead : (liveSet P).contains d.name = false) (k : SymKey) :
    symGet k tab ≠ some (.name d.name) := by
  intro hg
  obtain ⟨f, _, _, hlive, hn, _⟩ := name_value_live H P prog tab hwf hc k d.name hg
  rw [hn, hdead] at hlive
  simp at hlive

/-- every value that is a name is the name of a function written in the source: no
    compiler-generated helper (`letbinding_$_N`) is ever named. -/
theorem names_are_source_names (hwf : progWF P = true) (hc : compileCore2Syms H P = some (prog, tab))
    (k : SymKey) (n : Bytes) (hg : symGet k tab = some (.name n)) :
    n ∈ (emitted P).map (·.name) := by
  obtain ⟨f, hf, hinl, hlive, hn, _⟩ := name_value_live H P prog tab hwf hc k n hg
  refine List.mem_map.mpr ⟨f, ?_, hn⟩
  unfold emitted
  exact List.mem_filter.mpr ⟨hf, by rw [hinl, hlive]; rfl⟩

/-- two emitted functions with the same code hash cannot both be named in the table. -/
theorem same_code_one_entry (hwf : progWF P = true) (hc : compileCore2Syms H P = some (prog, tab))
    (f g : FnDef) (hf : f ∈ P.fns) (hg : g ∈ P.fns) (hne : f.name ≠ g.name)
    (cf cg : Val) (hcf : codeOf P f = some cf) (hcg : codeOf P g = some cg)
    (hsame : Val.treeHash H cf = Val.treeHash H cg) :
    ¬ ((∃ k, symGet k tab = some (.name f.name)) ∧ (∃ k, symGet k tab = some (.name g.name))) := by
  rintro ⟨⟨k1, h1⟩, ⟨k2, h2⟩⟩
  have hnd : (P.fns.map (·.name)).Nodup := by
    have := fns_nodup _ (progWF_ns P hwf)
    simpa [renameProg, List.map_map, Function.comp_def, renameFn] using this
  obtain ⟨f', hf', _, _, hn1, c1, hc1, hk1⟩ := name_value_live H P prog tab hwf hc k1 _ h1
  obtain ⟨g', hg', _, _, hn2, c2, hc2, hk2⟩ := name_value_live H P prog tab hwf hc k2 _ h2
  have e1 : f' = f := name_unique P.fns hnd f' f hf' hf hn1
  have e2 : g' = g := name_unique P.fns hnd g' g hg' hg hn2
  subst e1 e2
  rw [hcf] at hc1; rw [hcg] at hc2
  simp only [Option.some.injEq] at hc1 hc2
  subst hc1 hc2
  rw [hk1] at h1; rw [hk2, ← hsame] at h2
  rw [h1] at h2
  simp only [Option.some.injEq, SymVal.name.injEq] at h2
  exact hne h2

theorem main_arguments (hwf : progWF P = true) (hc : compileCore2Syms H P = some (prog, tab)) :
    symGet .mainArguments tab = some (.pattern P.params) := by
  obtain ⟨_, _, _, _, _, _, htab, _⟩ := compileNSSyms_spec H (renameProg P) prog tab (progWF_ns P hwf) hc
  subst htab
  exact get_main_symbolsWith H _ _ _

theorem program_is_compiled (hwf : progWF P = true) (hc : compileCore2Syms H P = some (prog, tab)) :
    compileCore2 P = some prog := by
  obtain ⟨_, _, _, _, _, _, _, h, _⟩ := compileNSSyms_spec H (renameProg P) prog tab (progWF_ns P hwf) hc
  exact h

end Program

end Core2
