/-
  Proofs/SymbolsLemmas.lean — correctness and completeness of `pathToFunction`.
-/
import ChialispModel.Lang.Symbols
import ChialispModel.Proofs.PathLemmas

namespace Path

theorem ofBits_pos (bs : List Bool) : 1 ≤ ofBits bs := by
  induction bs with
  | nil => simp [ofBits]
  | cons b r ih => simp only [ofBits]; omega

theorem bitsOf_ofBits (bs : List Bool) : bitsOf (ofBits bs) = bs := by
  induction bs with
  | nil => simp [ofBits, bitsOf, bitsOfAux]
  | cons b r ih =>
    cases b with
    | false =>
      have : ofBits (false :: r) = 2 * ofBits r := by simp [ofBits]
      rw [this, bitsOf_double _ (ofBits_pos r), ih]
    | true =>
      have : ofBits (true :: r) = 2 * ofBits r + 1 := by simp [ofBits]
      rw [this, bitsOf_double_succ _ (ofBits_pos r), ih]

theorem lookupNat_ofBits (bs : List Bool) (v : Val) : lookupNat (ofBits bs) v = walk bs v := by
  have h := ofBits_pos bs
  have h0 : ofBits bs ≠ 0 := by omega
  simp [lookupNat, h0, bitsOf_ofBits]

end Path

namespace Lang

theorem inner_correct (H : Bytes → Bytes) (h : Bytes) (v : Val) (mask cur p : Nat)
    (hp : pathToFunctionInner H h v mask cur = some p) :
    ∃ bs sub, Path.walk bs v = .ok sub ∧ Val.treeHash H sub = h ∧ p = cur + mask * Path.ofBits bs := by
  induction v generalizing mask cur p with
  | atom x =>
    simp only [pathToFunctionInner] at hp
    split at hp
    · rename_i he
      simp at hp
      exact ⟨[], .atom x, rfl, by simpa using he, by simp [Path.ofBits, hp]⟩
    · simp at hp
  | pair a b iha ihb =>
    simp only [pathToFunctionInner] at hp
    cases hl : pathToFunctionInner H h a (2 * mask) cur with
    | some q =>
      rw [hl] at hp; simp at hp; subst hp
      obtain ⟨bs, sub, hw, hh, he⟩ := iha (2 * mask) cur q hl
      refine ⟨false :: bs, sub, by simpa [Path.walk] using hw, hh, ?_⟩
      simp only [Path.ofBits]; rw [he]; simp [Nat.mul_assoc, Nat.mul_comm]
    | none =>
      rw [hl] at hp
      cases hr : pathToFunctionInner H h b (2 * mask) (cur + mask) with
      | some q =>
        rw [hr] at hp; simp at hp; subst hp
        obtain ⟨bs, sub, hw, hh, he⟩ := ihb (2 * mask) (cur + mask) q hr
        refine ⟨true :: bs, sub, by simpa [Path.walk] using hw, hh, ?_⟩
        simp only [Path.ofBits]; rw [he]
        simp [Nat.mul_add, Nat.mul_assoc, Nat.mul_comm, Nat.add_assoc]
        omega
      | none =>
        rw [hr] at hp
        simp only at hp
        split at hp
        · rename_i he
          simp at hp
          exact ⟨[], .pair a b, rfl, by simpa using he, by simp [Path.ofBits, hp]⟩
        · simp at hp

theorem pathToFunction_correct (H : Bytes → Bytes) (prog : Val) (h : Bytes) (p : Nat)
    (hp : pathToFunction H prog h = some p) :
    ∃ sub, Path.lookupNat p prog = .ok sub ∧ Val.treeHash H sub = h := by
  obtain ⟨bs, sub, hw, hh, he⟩ := inner_correct H h prog 1 0 p hp
  refine ⟨sub, ?_, hh⟩
  have : p = Path.ofBits bs := by simpa using he
  rw [this, Path.lookupNat_ofBits]; exact hw

theorem inner_self (H : Bytes → Bytes) (h : Bytes) (v : Val) (hh : Val.treeHash H v = h) (mask cur : Nat) :
    (pathToFunctionInner H h v mask cur).isSome = true := by
  cases v with
  | atom x => simp [pathToFunctionInner, hh]
  | pair a b =>
    simp only [pathToFunctionInner]
    cases pathToFunctionInner H h a (2 * mask) cur with
    | some q => simp
    | none =>
      cases pathToFunctionInner H h b (2 * mask) (cur + mask) with
      | some q => simp
      | none => simp [hh]

theorem inner_complete (H : Bytes → Bytes) (h : Bytes) (v sub : Val) (hs : Subtree sub v)
    (hh : Val.treeHash H sub = h) (mask cur : Nat) :
    (pathToFunctionInner H h v mask cur).isSome = true := by
  induction hs generalizing mask cur with
  | refl => exact inner_self H h _ hh mask cur
  | left d _ ih =>
    simp only [pathToFunctionInner]
    have := ih (2 * mask) cur
    cases hl : pathToFunctionInner H h _ (2 * mask) cur with
    | some q => simp
    | none => rw [hl] at this; simp at this
  | right a _ ih =>
    simp only [pathToFunctionInner]
    cases pathToFunctionInner H h a (2 * mask) cur with
    | some q => simp
    | none =>
      have := ih (2 * mask) (cur + mask)
      cases hr : pathToFunctionInner H h _ (2 * mask) (cur + mask) with
      | some q => simp
      | none => rw [hr] at this; simp at this

theorem pathToFunction_complete (H : Bytes → Bytes) (prog sub : Val) (h : Bytes)
    (hs : Subtree sub prog) (hh : Val.treeHash H sub = h) :
    (pathToFunction H prog h).isSome = true :=
  inner_complete H h prog sub hs hh 1 0

end Lang
