/-
  Proofs/PassesLemmas.lean — lemmas for the soundness of the modern compiler's CLVM-level
  passes (model: Opt/Passes.lean) with respect to the consensus evaluator `Clvm.evalC`:
  what the selectors say about the converted value, one-directional evaluation lemmas for
  `a` / `i` forms with arbitrary operand tails, the three root rewrites, and the recursive
  passes (`null_optimization`, `remove_double_apply` for every fuel, `brief_path_selection`).
-/
import ChialispModel.Opt.Passes
import ChialispModel.Proofs.OptRules
import ChialispModel.Proofs.BytesLemmas
import ChialispModel.Proofs.IntBytesLemmas

namespace Passes
open Clvm Rich Opt

/-- what the pass theorems assume about the operator table, beyond `CoreOps` (`f`, `r`, `c`):
    `i` selects by nil-ness of its first operand, and the operator `0x71` (the letter `q`, which
    `null_optimization` also takes for a quote head) does not return a non-nil value on no
    operands (it is unknown to clvmr: an error, or nil in the lenient mode). -/
structure PassOps (ops : OpSem) : Prop where
  core : CoreOps ops
  if_inv : ∀ args v, ops.apply [3] args = .ok v →
    ∃ c a b t, args = .pair c (.pair a (.pair b t)) ∧ v = if Val.nilp c then b else a
  q113 : ∀ v, ops.apply [113] Val.nil = .ok v → v = Val.nil

-- ---------------------------------------------------------------------------------------
-- selectors and conversion
-- ---------------------------------------------------------------------------------------

theorem ofInt_ne_zero_bytes {i : Int} {name : Bytes} (h : Bytes.ofInt i = name) (h0 : name ≠ [0]) :
    i ≠ 0 := by
  intro hi; subst hi; rw [Bytes.ofInt_zero] at h; exact h0 h.symm

/-- a node accepted by `AtomValue::Here(name)` converts to the atom `name` (both modes). -/
theorem toClvm_of_isAtomValue {m : Mode} {name : Bytes} {r : Rich} (hn : name ≠ []) (h0 : name ≠ [0])
    (h : isAtomValue name r = true) : toClvm m r = .atom name := by
  cases r with
  | nil => simp [isAtomValue] at h; exact absurd h hn
  | atom n => simp [isAtomValue] at h; simp [toClvm, h]
  | qstr q n => simp [isAtomValue] at h; simp [toClvm, h]
  | int i =>
    simp [isAtomValue] at h
    have := ofInt_ne_zero_bytes h h0
    simp [toClvm, this, h]
  | cons a d => simp [isAtomValue] at h

theorem toClvm_int_bytes (m : Mode) (i : Int) :
    ∃ b, toClvm m (.int i) = .atom b ∧ (b = [] ∨ b = Bytes.ofInt i) := by
  by_cases h : (m && i == 0) = true
  · exact ⟨[], by simp [toClvm, h], Or.inl rfl⟩
  · exact ⟨Bytes.ofInt i, by simp only [toClvm, h]; simp, Or.inr rfl⟩

/-- a non-cons node that `AtomValue::Here([1])` rejects converts to an atom other than `01`. -/
theorem toClvm_of_not_q {m : Mode} {r : Rich} (hc : isCons r = false) (h : isAtomValue [1] r = false) :
    ∃ op, toClvm m r = .atom op ∧ op ≠ [1] := by
  cases r with
  | nil => exact ⟨[], rfl, by decide⟩
  | atom n => simp [isAtomValue] at h; exact ⟨n, rfl, h⟩
  | qstr q n => simp [isAtomValue] at h; exact ⟨n, rfl, h⟩
  | int i =>
    simp [isAtomValue] at h
    obtain ⟨b, hb, hor⟩ := toClvm_int_bytes m i
    refine ⟨b, hb, ?_⟩
    rcases hor with rfl | rfl
    · decide
    · exact h
  | cons a d => simp [isCons] at hc

theorem atomizeName_toClvm {m : Mode} {r : Rich} {n : Bytes} (h : atomizeName r = some n) (h0 : n ≠ [0]) :
    toClvm m r = .atom n := by
  cases r with
  | nil => simp [atomizeName] at h
  | atom b => simp [atomizeName] at h; simp [toClvm, h]
  | qstr q b => simp [atomizeName] at h; simp [toClvm, h]
  | int i =>
    simp [atomizeName] at h
    have := ofInt_ne_zero_bytes h h0
    simp [toClvm, this, h]
  | cons a d => simp [atomizeName] at h

theorem toClvm_of_isOpAtom {m : Mode} {k : UInt8} {r : Rich} (hk : k ≠ 0) (h : isOpAtom k r = true) :
    toClvm m r = .atom [k] := by
  unfold isOpAtom at h
  cases hn : atomizeName r with
  | none => rw [hn] at h; cases h
  | some n =>
    rw [hn] at h
    simp only [beq_iff_eq] at h
    subst h
    exact atomizeName_toClvm hn (by simp [hk])

/-- a non-cons head that `null_optimization` does not take for a quote converts to an atom other
    than `01`. -/
theorem toClvm_of_not_qname {m : Mode} {r : Rich} (hc : isCons r = false) (h : isQName r = false) :
    ∃ op, toClvm m r = .atom op ∧ op ≠ [1] := by
  cases r with
  | nil => exact ⟨[], rfl, by decide⟩
  | atom n =>
    simp [isQName, atomizeName] at h; exact ⟨n, rfl, h.1⟩
  | qstr q n => simp [isQName, atomizeName] at h; exact ⟨n, rfl, h.1⟩
  | int i =>
    simp [isQName, atomizeName] at h
    obtain ⟨b, hb, hor⟩ := toClvm_int_bytes m i
    refine ⟨b, hb, ?_⟩
    rcases hor with rfl | rfl
    · decide
    · exact h.1
  | cons a d => simp [isCons] at hc

theorem isQName_cases {r : Rich} (h : isQName r = true) :
    atomizeName r = some [1] ∨ atomizeName r = some [113] := by
  unfold isQName at h
  cases hn : atomizeName r with
  | none => rw [hn] at h; cases h
  | some n =>
    rw [hn] at h
    simp only [Bool.or_eq_true, beq_iff_eq] at h
    rcases h with rfl | rfl
    · exact Or.inl rfl
    · exact Or.inr rfl

/-- a `nilp` node converts to the empty atom, except `Integer 0` in the legacy mode (`0x00`). -/
theorem toClvm_of_nilp {m : Mode} {b : Rich} (h : nilp b = true) (hf : nullQuoteFlag m b = false) :
    toClvm m b = Val.nil := by
  cases b with
  | nil => rfl
  | atom n => simp [nilp] at h; simp [toClvm, h, Val.nil]
  | qstr q n => simp [nilp] at h; simp [toClvm, h, Val.nil]
  | int i =>
    simp [nilp] at h
    simp [nullQuoteFlag] at hf
    simp [toClvm, h, hf, Val.nil]
  | cons a d => simp [nilp] at h

theorem nilp_not_cons {b : Rich} (h : nilp b = true) : isCons b = false := by
  cases b <;> simp_all [nilp, isCons]

/-- any `nilp` node converts to an atom (so it is never a pair). -/
theorem toClvm_nilp_atom (m : Mode) {b : Rich} (h : nilp b = true) : ∃ x, toClvm m b = .atom x := by
  cases b with
  | nil => exact ⟨[], rfl⟩
  | atom n => exact ⟨n, rfl⟩
  | qstr q n => exact ⟨n, rfl⟩
  | int i => obtain ⟨b, hb, _⟩ := toClvm_int_bytes m i; exact ⟨b, hb⟩
  | cons a d => simp [nilp] at h

theorem toClvm_noncons_atom (m : Mode) {b : Rich} (h : isCons b = false) : ∃ x, toClvm m b = .atom x := by
  cases b with
  | nil => exact ⟨[], rfl⟩
  | atom n => exact ⟨n, rfl⟩
  | qstr q n => exact ⟨n, rfl⟩
  | int i => obtain ⟨b, hb, _⟩ := toClvm_int_bytes m i; exact ⟨b, hb⟩
  | cons a d => simp [isCons] at h

-- ---------------------------------------------------------------------------------------
-- evaluation of `a` / `i` / `q` forms with arbitrary operand tails (one direction)
-- ---------------------------------------------------------------------------------------

theorem sn3 : Ops.smallNumber [3] = some 3 := by decide
theorem sn113 : Ops.smallNumber [113] = some 113 := by decide

theorem twoArgs_pair2 {a b rs p e : Val} (h : twoArgs (.pair a (.pair b rs)) = some (p, e)) :
    p = a ∧ e = b := by
  cases hx : rs.elems with
  | nil => simp [twoArgs, Ops.getArgs, Val.elems, hx] at h; exact ⟨h.1.symm, h.2.symm⟩
  | cons x xs => simp [twoArgs, Ops.getArgs, Val.elems, hx] at h

/-- `(a P . T)` returns ⇒ `P` returns a program, and that program returns the value in some
    environment. -/
theorem eval_apply_first {ops : OpSem} {P T e v : Val}
    (h : Evaluates ops (.pair (.atom [2]) (.pair P T)) e v) :
    ∃ p e', Evaluates ops P e p ∧ Evaluates ops p e' v := by
  rw [evaluates_op_iff (sn_ne Ops.smallNumber_2 (by decide))] at h
  obtain ⟨vals, hl, ha⟩ := h
  obtain ⟨p, rs, rfl, hP, _⟩ := evalArgs_pair_iff.1 hl
  obtain ⟨p', e', ht, hv⟩ := (applies_apply_iff Ops.smallNumber_2).1 ha
  have := twoArgs_first ht
  subst this
  exact ⟨p', e', hP, hv⟩

/-- `(a P E . T)` returns ⇒ `P` returns a program, `E` an environment, and the program returns the
    value in that environment. -/
theorem eval_apply_two {ops : OpSem} {P E T e v : Val}
    (h : Evaluates ops (.pair (.atom [2]) (.pair P (.pair E T))) e v) :
    ∃ p e', Evaluates ops P e p ∧ Evaluates ops E e e' ∧ Evaluates ops p e' v := by
  rw [evaluates_op_iff (sn_ne Ops.smallNumber_2 (by decide))] at h
  obtain ⟨vals, hl, ha⟩ := h
  obtain ⟨p, rs, rfl, hP, hr⟩ := evalArgs_pair_iff.1 hl
  obtain ⟨e1, rs2, rfl, hE, _⟩ := evalArgs_pair_iff.1 hr
  obtain ⟨p', e', ht, hv⟩ := (applies_apply_iff Ops.smallNumber_2).1 ha
  obtain ⟨rfl, rfl⟩ := twoArgs_pair2 ht
  exact ⟨p', e', hP, hE, hv⟩

/-- `(i C A B . T)` returns ⇒ all three return and the value is selected by nil-ness of `C`'s. -/
theorem eval_if_inv {ops : OpSem} (po : PassOps ops) {Cd A B T e v : Val}
    (h : Evaluates ops (.pair (.atom [3]) (.pair Cd (.pair A (.pair B T)))) e v) :
    ∃ c a b, Evaluates ops Cd e c ∧ Evaluates ops A e a ∧ Evaluates ops B e b ∧
      v = if Val.nilp c then b else a := by
  rw [evaluates_op_iff (sn_ne sn3 (by decide))] at h
  obtain ⟨vals, hl, ha⟩ := h
  obtain ⟨c, r1, rfl, hC, hr1⟩ := evalArgs_pair_iff.1 hl
  obtain ⟨a, r2, rfl, hA, hr2⟩ := evalArgs_pair_iff.1 hr1
  obtain ⟨b, r3, rfl, hB, _⟩ := evalArgs_pair_iff.1 hr2
  have happ := (applies_op_iff (sn_ne sn3 (by decide)) (sn_ne sn3 (by decide))).1 ha
  obtain ⟨c', a', b', t', heq, hv⟩ := po.if_inv _ _ happ
  cases heq
  exact ⟨_, _, _, hC, hA, hB, hv⟩

theorem lookup_zero_of_toNatBE {b : Bytes} (h : Bytes.toNatBE b = 0) (e : Val) :
    Path.lookup b e = .ok Val.nil := by
  simp [Path.lookup, h, Path.lookupNat]

-- ---------------------------------------------------------------------------------------
-- the three root rewrites
-- ---------------------------------------------------------------------------------------

theorem ofInt_one : Bytes.ofInt 1 = [1] := by decide

theorem toClvm_primquote (m : Mode) (b : Rich) : toClvm m (primquote b) = .pair (.atom [1]) (toClvm m b) := by
  simp [primquote, toClvm, ofInt_one]

/-- **change_double_to_single_apply** `(a (q . X) 1 . ANY) ⇒ X`, any input, both modes. -/
theorem changeDoubleToSingleApply_sound {ops : OpSem} (m : Mode) (r : Rich) {e v : Val}
    (h : Evaluates ops (toClvm m r) e v) :
    Evaluates ops (toClvm m (changeDoubleToSingleApply r).2) e v := by
  unfold changeDoubleToSingleApply
  split
  · rename_i hd q inner one t
    split
    · rename_i hc
      simp only [Bool.and_eq_true] at hc
      obtain ⟨⟨h2, hq⟩, h1⟩ := hc
      simp only [toClvm] at h
      rw [toClvm_of_isAtomValue (by decide) (by decide) h2,
        toClvm_of_isAtomValue (by decide) (by decide) hq,
        toClvm_of_isAtomValue (by decide) (by decide) h1] at h
      obtain ⟨p, e', hP, hE, hv⟩ := eval_apply_two h
      have hp := eval_quote.1 hP
      subst hp
      have he := evaluates_atom_iff.1 hE
      rw [lookup_one] at he
      cases he
      exact hv
    · exact h
  · exact h

/-- **change_apply_double_quote** `(a (q 1 . BODY) . ANY) ⇒ (q . BODY)`, any input, both modes. -/
theorem changeApplyDoubleQuote_sound {ops : OpSem} (m : Mode) (r : Rich) {e v : Val}
    (h : Evaluates ops (toClvm m r) e v) :
    Evaluates ops (toClvm m (changeApplyDoubleQuote r).2) e v := by
  unfold changeApplyDoubleQuote
  split
  · rename_i hd q one body t
    split
    · rename_i hc
      simp only [Bool.and_eq_true] at hc
      obtain ⟨⟨h2, hq⟩, h1⟩ := hc
      simp only [toClvm] at h
      rw [toClvm_of_isAtomValue (by decide) (by decide) h2,
        toClvm_of_isAtomValue (by decide) (by decide) hq,
        toClvm_of_isAtomValue (by decide) (by decide) h1] at h
      obtain ⟨p, e', hP, hv⟩ := eval_apply_first h
      have hp := eval_quote.1 hP
      subst hp
      have hb := eval_quote.1 hv
      subst hb
      simp only [toClvm_primquote]
      exact eval_quote.2 rfl
    · exact h
  · exact h

theorem toNatBE_zero_of_toInt_zero {b : Bytes} (h : Bytes.toInt b = 0) : Bytes.toNatBE b = 0 := by
  have := BytesAlg.toInt_nonneg_eq (b := b) (by omega)
  omega

/-- a node that `truthy` calls false converts to a path atom of value 0 (it evaluates to nil). -/
theorem falsy_path_zero {m : Mode} {c : Rich} (h : Step.truthy m c = false) :
    ∃ x, toClvm m c = .atom x ∧ Bytes.toNatBE x = 0 := by
  cases c with
  | nil => exact ⟨[], rfl, rfl⟩
  | cons a d => cases m <;> simp [Step.truthy, Step.atomValue] at h
  | atom a =>
    cases m with
    | true =>
      simp [Step.truthy] at h
      exact ⟨a, rfl, by rw [h]; rfl⟩
    | false =>
      simp [Step.truthy, Step.atomValue] at h
      exact ⟨a, rfl, toNatBE_zero_of_toInt_zero h⟩
  | qstr q a =>
    cases m with
    | true =>
      simp [Step.truthy] at h
      exact ⟨a, rfl, by rw [h]; rfl⟩
    | false =>
      simp [Step.truthy, Step.atomValue] at h
      exact ⟨a, rfl, toNatBE_zero_of_toInt_zero h⟩
  | int i =>
    have hi : i = 0 := by cases m <;> simpa [Step.truthy, Step.atomValue] using h
    subst hi
    cases m with
    | true => exact ⟨[], by simp [toClvm], rfl⟩
    | false => exact ⟨[0], by simp [toClvm, Bytes.ofInt_zero], by decide⟩

theorem falsy_evaluates_nil {ops : OpSem} {m : Mode} {c : Rich} (h : Step.truthy m c = false) {e w : Val}
    (hw : Evaluates ops (toClvm m c) e w) : w = Val.nil := by
  obtain ⟨x, hx, h0⟩ := falsy_path_zero h
  rw [hx, evaluates_atom_iff, lookup_zero_of_toNatBE h0] at hw
  cases hw; rfl

theorem nilp_nil : Val.nilp Val.nil = true := rfl

/-- `truthy_when_converted` IS CLVM truthiness of the converted value, in both integer modes. -/
theorem truthyWhenConverted_eq (m : Mode) (x : Rich) : truthyWhenConverted m x = clvmTruthy m x := by
  cases x with
  | nil => rfl
  | cons a d => simp [truthyWhenConverted, clvmTruthy, toClvm, Val.nilp]
  | atom a => simp [truthyWhenConverted, clvmTruthy, toClvm, Val.nilp]
  | qstr q a => simp [truthyWhenConverted, clvmTruthy, toClvm, Val.nilp]
  | int i =>
    have hne := Bytes.ofInt_ne_nil i
    have hb : (Bytes.ofInt i).isEmpty = false := by
      cases hb : Bytes.ofInt i with
      | nil => exact absurd hb hne
      | cons _ _ => rfl
    cases m with
    | false => simp [truthyWhenConverted, clvmTruthy, toClvm, Val.nilp, hb]
    | true =>
      by_cases hi : i = 0
      · subst hi; simp [truthyWhenConverted, clvmTruthy, toClvm, Val.nilp]
      · simp [truthyWhenConverted, clvmTruthy, toClvm, Val.nilp, hi, hb]

/-- **collapse_constant_condition** `(i COND A B . ANY) ⇒ A | B` for a constant COND: sound for
    every input in both integer modes (a quoted condition is decided by `truthy_when_converted`,
    which is CLVM truthiness of the converted value; an unquoted one only when it is a zero path). -/
theorem collapseConstantCondition_sound {ops : OpSem} (po : PassOps ops) (m : Mode) (r : Rich)
    {e v : Val} (h : Evaluates ops (toClvm m r) e v) :
    Evaluates ops (toClvm m (collapseConstantCondition m r).2) e v := by
  unfold collapseConstantCondition
  split
  · rename_i hd cond a b t
    split
    · rename_i h3
      have h' := h
      simp only [toClvm] at h'
      rw [toClvm_of_isAtomValue (by decide) (by decide) h3] at h'
      obtain ⟨c, va, vb, hC, hA, hB, hv⟩ := eval_if_inv po h'
      cases cond with
      | cons qh x =>
        simp only [constCond]
        by_cases hq : isAtomValue [1] qh = true
        · simp only [hq, if_true]
          simp only [toClvm] at hC
          rw [toClvm_of_isAtomValue (by decide) (by decide) hq] at hC
          have hc := eval_quote.1 hC
          subst hc
          have hs := truthyWhenConverted_eq m x
          cases ht : truthyWhenConverted m x with
          | true =>
            simp only
            rw [ht] at hs
            have : Val.nilp (toClvm m x) = false := by
              simpa [clvmTruthy] using hs.symm
            rw [this] at hv
            simp at hv; subst hv; exact hA
          | false =>
            simp only
            rw [ht] at hs
            have : Val.nilp (toClvm m x) = true := by
              simpa [clvmTruthy] using hs.symm
            rw [this] at hv
            simp at hv; subst hv; exact hB
        · simp only [hq]
          have : Step.truthy m (.cons qh x) = true := by cases m <;> simp [Step.truthy, Step.atomValue]
          simp [this]
          exact h
      | nil =>
        simp only [constCond]
        have ht : Step.truthy m .nil = false := by cases m <;> simp [Step.truthy, Step.atomValue]
        simp only [ht, Bool.not_false, if_true]
        have := falsy_evaluates_nil ht hC
        subst this
        rw [nilp_nil] at hv; simp at hv; subst hv; exact hB
      | atom x =>
        simp only [constCond]
        cases ht : Step.truthy m (.atom x) with
        | true => simp; exact h
        | false =>
          simp
          have := falsy_evaluates_nil ht hC
          subst this
          rw [nilp_nil] at hv; simp at hv; subst hv; exact hB
      | qstr q x =>
        simp only [constCond]
        cases ht : Step.truthy m (.qstr q x) with
        | true => simp; exact h
        | false =>
          simp
          have := falsy_evaluates_nil ht hC
          subst this
          rw [nilp_nil] at hv; simp at hv; subst hv; exact hB
      | int i =>
        simp only [constCond]
        cases ht : Step.truthy m (.int i) with
        | true => simp; exact h
        | false =>
          simp
          have := falsy_evaluates_nil ht hC
          subst this
          rw [nilp_nil] at hv; simp at hv; subst hv; exact hB
    · exact h
  · exact h

/-- in the fixed integer mode `truthy` IS CLVM truthiness of the converted value. -/
theorem truthy_fixed (x : Rich) : Step.truthy true x = clvmTruthy true x := by
  cases x with
  | nil => rfl
  | cons a d => simp [Step.truthy, Step.atomValue, clvmTruthy, toClvm, Val.nilp]
  | atom a => simp [Step.truthy, clvmTruthy, toClvm, Val.nilp]
  | qstr q a => simp [Step.truthy, clvmTruthy, toClvm, Val.nilp]
  | int i =>
    by_cases hi : i = 0
    · subst hi; simp [Step.truthy, Step.atomValue, clvmTruthy, toClvm, Val.nilp]
    · have hne := Bytes.ofInt_ne_nil i
      simp [Step.truthy, Step.atomValue, clvmTruthy, toClvm, Val.nilp, hi]
      cases hb : Bytes.ofInt i with
      | nil => exact absurd hb hne
      | cons _ _ => simp [hi]

theorem changeApplyDoubleQuote_unchanged (r : Rich) (h : (changeApplyDoubleQuote r).1 = false) :
    (changeApplyDoubleQuote r).2 = r := by
  unfold changeApplyDoubleQuote at h ⊢
  split
  · split
    · rename_i hc; simp [hc] at h
    · rfl
  · rfl

theorem changeDoubleToSingleApply_unchanged (r : Rich) (h : (changeDoubleToSingleApply r).1 = false) :
    (changeDoubleToSingleApply r).2 = r := by
  unfold changeDoubleToSingleApply at h ⊢
  split
  · split
    · rename_i hc; simp [hc] at h
    · rfl
  · rfl

theorem collapseConstantCondition_unchanged (m : Mode) (r : Rich)
    (h : (collapseConstantCondition m r).1 = false) : (collapseConstantCondition m r).2 = r := by
  unfold collapseConstantCondition at h ⊢
  split
  · split
    · rename_i h3
      split
      · rename_i hc; simp [hc, h3] at h
      · rename_i hc; simp [hc, h3] at h
      · rfl
    · rfl
  · rfl

/-- the chain of root rewrites is sound on every input. -/
theorem rootRewrites_sound {ops : OpSem} (po : PassOps ops) (m : Mode) (x : Rich)
    {e v : Val} (h : Evaluates ops (toClvm m x) e v) :
    Evaluates ops (toClvm m (rootRewrites m true x).out) e v := by
  simp only [rootRewrites, if_true]
  exact collapseConstantCondition_sound po m _
    (changeDoubleToSingleApply_sound m _ (changeApplyDoubleQuote_sound m x h))

theorem rootRewrites_flag (m : Mode) (sp : Bool) (x : Rich) : (rootRewrites m sp x).flag = false := by
  cases sp <;> simp [rootRewrites, same]

theorem rootRewrites_unchanged (m : Mode) (sp : Bool) (x : Rich)
    (h : (rootRewrites m sp x).changed = false) : (rootRewrites m sp x).out = x := by
  cases sp with
  | false => rfl
  | true =>
    simp only [rootRewrites, if_true, Bool.or_eq_false_iff] at h ⊢
    obtain ⟨⟨h1, h2⟩, h3⟩ := h
    rw [collapseConstantCondition_unchanged m _ h3]
    have e1 := changeApplyDoubleQuote_unchanged x h1
    rw [e1] at h2 ⊢
    exact changeDoubleToSingleApply_unchanged x h2

-- ---------------------------------------------------------------------------------------
-- preservation relation for the recursive passes
-- ---------------------------------------------------------------------------------------

/-- `out` means what `s` means: as an expression (`expr = true`: every value of `s` is a value of
    `out`) or as an operand list (every evaluated operand list of `s` is one of `out`). -/
def Pres (ops : OpSem) (m : Mode) (expr : Bool) (s out : Rich) : Prop :=
  if expr then ∀ e v, Evaluates ops (toClvm m s) e v → Evaluates ops (toClvm m out) e v
  else ∀ e vals, EvalArgs ops (toClvm m s) e vals → EvalArgs ops (toClvm m out) e vals

theorem Pres.refl (ops : OpSem) (m : Mode) (x : Bool) (s : Rich) : Pres ops m x s s := by
  cases x <;> simp [Pres]

theorem Pres.trans {ops : OpSem} {m : Mode} {x : Bool} {a b c : Rich}
    (h1 : Pres ops m x a b) (h2 : Pres ops m x b c) : Pres ops m x a c := by
  cases x with
  | true => simp only [Pres, if_true] at *; exact fun e v h => h2 e v (h1 e v h)
  | false =>
    simp only [Pres] at *
    exact fun e v h => h2 e v (h1 e v h)

/-- operand lists: element-wise. -/
theorem pres_list_cons {ops : OpSem} {m : Mode} {a b a' b' : Rich}
    (ha : Pres ops m true a a') (hb : Pres ops m false b b') :
    Pres ops m false (.cons a b) (.cons a' b') := by
  simp only [Pres, if_true] at ha
  simp only [Pres] at hb ⊢
  intro e vals h
  simp only [toClvm] at h ⊢
  obtain ⟨v, rs, rfl, hv, hr⟩ := evalArgs_pair_iff.1 h
  exact evalArgs_pair_iff.2 ⟨v, rs, rfl, ha e v hv, hb e rs hr⟩

/-- operator calls with an atom head other than `q`: through the operand list. -/
theorem pres_call {ops : OpSem} {m : Mode} {a b b' : Rich} {op : Bytes}
    (ha : toClvm m a = .atom op) (hq : op ≠ [1]) (hb : Pres ops m false b b') :
    Pres ops m true (.cons a b) (.cons a b') := by
  simp only [Pres] at hb
  simp only [Pres, if_true]
  intro e v h
  simp only [toClvm, ha] at h ⊢
  rw [evaluates_op_iff (Ops.smallNumber_ne_one hq)] at h ⊢
  obtain ⟨vals, hl, hap⟩ := h
  exact ⟨vals, hb e vals hl, hap⟩

-- ---------------------------------------------------------------------------------------
-- null_optimization
-- ---------------------------------------------------------------------------------------

theorem nullOpt_noncons (m : Mode) {r : Rich} (h : isCons r = false) (sp : Bool) : nullOpt m r sp = same r := by
  cases r <;> simp_all [nullOpt, isCons]

theorem nullOpt_unchanged (m : Mode) (r : Rich) (sp : Bool) (h : (nullOpt m r sp).changed = false) :
    (nullOpt m r sp).out = r := by
  cases r with
  | cons a b =>
    simp only [nullOpt] at h ⊢
    split
    · rename_i hc
      rw [if_pos hc] at h
      split
      · rename_i hn; rw [if_pos hn] at h; cases h
      · rfl
    · rename_i hc
      rw [if_neg hc] at h
      simp only [nullJoin] at h ⊢
      split
      · rename_i h2; rw [if_pos h2] at h; cases h
      · rfl
  | nil => rfl
  | atom _ => rfl
  | qstr _ _ => rfl
  | int _ => rfl

theorem eval_nil_val {ops : OpSem} (e : Val) : Evaluates ops Val.nil e Val.nil :=
  evaluates_atom_iff.2 (lookup_nil e)

/-- `null_optimization` preserves meaning at every node it visits with a clear flag: as an
    expression for `spine = false`, as an operand list for `spine = true`. -/
theorem nullOpt_pres {ops : OpSem} (po : PassOps ops) (m : Mode) : ∀ (r : Rich) (sp : Bool),
    (nullOpt m r sp).flag = false → Pres ops m (!sp) r (nullOpt m r sp).out := by
  intro r
  induction r with
  | nil => intro sp _; exact Pres.refl ..
  | atom _ => intro sp _; exact Pres.refl ..
  | qstr _ _ => intro sp _; exact Pres.refl ..
  | int _ => intro sp _; exact Pres.refl ..
  | cons a b iha ihb =>
    intro sp hf
    cases sp with
    | true =>
      -- list tail: never a quote form
      simp only [nullOpt, Bool.not_true, Bool.and_false, Bool.false_eq_true, if_false] at hf ⊢
      simp only [nullJoin] at hf ⊢
      split
      · rename_i hc
        rw [if_pos hc] at hf
        simp only [Bool.or_false, Bool.or_eq_false_iff] at hf
        exact pres_list_cons (iha false hf.1) (ihb true hf.2)
      · exact Pres.refl ..
    | false =>
      simp only [nullOpt, Bool.not_false, Bool.and_true] at hf ⊢
      by_cases hq : isQName a = true
      · rw [if_pos hq] at hf ⊢
        by_cases hn : nilp b = true
        · rw [if_pos hn] at hf ⊢
          simp only at hf ⊢
          have hb := toClvm_of_nilp hn hf
          simp only [Pres, if_true]
          intro e v h
          simp only [toClvm, hb] at h ⊢
          rcases isQName_cases hq with h1 | h113
          · rw [atomizeName_toClvm h1 (by decide)] at h
            have := eval_quote.1 h
            subst this
            exact eval_nil_val e
          · rw [atomizeName_toClvm h113 (by decide)] at h
            rw [evaluates_op_iff (sn_ne sn113 (by decide))] at h
            obtain ⟨vals, hl, hap⟩ := h
            rw [show Val.nil = Val.atom [] from rfl, evalArgs_atom_iff] at hl
            obtain ⟨_, rfl⟩ := hl
            have := (applies_op_iff (sn_ne sn113 (by decide)) (sn_ne sn113 (by decide))).1 hap
            have := po.q113 _ this
            subst this
            exact eval_nil_val e
        · rw [if_neg hn]; exact Pres.refl ..
      · rw [if_neg hq] at hf ⊢
        simp only [nullJoin] at hf ⊢
        split
        · rename_i hc
          rw [if_pos hc] at hf
          simp only [Bool.or_eq_false_iff] at hf
          obtain ⟨⟨hfa, hfb⟩, hca⟩ := hf
          rw [nullOpt_noncons m hca false]
          obtain ⟨op, hop, hne⟩ := toClvm_of_not_qname (m := m) hca (by simpa using hq)
          exact pres_call hop hne (ihb true hfb)
        · exact Pres.refl ..

/-- `null_optimization(cell, true)` on an expression whose head is an atom other than `q`: the
    list view of the root cell gives the expression view. -/
theorem nullOpt_root_pres {ops : OpSem} (po : PassOps ops) (m : Mode) (a b : Rich)
    (hnq : isAtomValue [1] a = false) (hnc : isCons a = false)
    (hf1 : (nullOpt m (.cons a b) true).flag = false) :
    Pres ops m true (.cons a b) (nullOpt m (.cons a b) true).out := by
  obtain ⟨op, hop, hne⟩ := toClvm_of_not_q (m := m) hnc hnq
  simp only [nullOpt, Bool.not_true, Bool.and_false, Bool.false_eq_true, if_false, nullJoin] at hf1 ⊢
  rw [nullOpt_noncons m hnc false] at hf1 ⊢
  simp only [same, Bool.false_or] at hf1 ⊢
  split
  · rename_i hcb
    rw [if_pos hcb] at hf1
    simp only [Bool.false_or, Bool.or_false] at hf1
    exact pres_call hop hne (nullOpt_pres po m b true hf1)
  · exact Pres.refl ..

/-- **null_optimization** as the strategies call it (`spine = false`: `ExistingStrategy`,
    `null_optimization(root, false)`; `spine = true`: `Strategy23`,
    `null_optimization_of_expression(root)` — a quote form is left alone, otherwise the root cell
    is treated as a list tail). -/
theorem nullPass_pres {ops : OpSem} (po : PassOps ops) (m : Mode) (r : Rich) (sp : Bool)
    (hf : (nullPass m r sp).flag = false) : Pres ops m true r (nullPass m r sp).out := by
  cases sp with
  | false =>
    simp only [nullPass, Bool.false_eq_true, if_false] at hf ⊢
    exact nullOpt_pres po m r false hf
  | true =>
    simp only [nullPass, if_true, Bool.or_eq_false_iff] at hf ⊢
    obtain ⟨hf1, hf2⟩ := hf
    unfold nullOfExpression at hf1 hf2 ⊢
    by_cases hq : isQuoted r = true
    · rw [if_pos hq]; exact Pres.refl ..
    · rw [if_neg hq] at hf1 hf2 ⊢
      by_cases hc : (nullOpt m r true).changed = true
      · simp only [hc, Bool.true_and] at hf2
        cases r with
        | cons a b =>
          simp only [nullRootFlag] at hf2
          have hnq : isAtomValue [1] a = false := by simpa [isQuoted] using hq
          exact nullOpt_root_pres po m a b hnq hf2 hf1
        | nil => exact Pres.refl ..
        | atom _ => exact Pres.refl ..
        | qstr _ _ => exact Pres.refl ..
        | int _ => exact Pres.refl ..
      · have : (nullOpt m r true).changed = false := by simpa using hc
        rw [nullOpt_unchanged m r true this]
        exact Pres.refl ..

-- ---------------------------------------------------------------------------------------
-- remove_double_apply (every fuel)
-- ---------------------------------------------------------------------------------------

theorem rdaLoop_noncons (m : Mode) (f : Nat) {s : Rich} (h : isCons s = false) (sp was fl oo : Bool) :
    (rdaLoop m f s sp was fl oo).out = s ∧ (rdaLoop m f s sp was fl oo).changed = was := by
  cases f with
  | zero => simp [rdaLoop]
  | succ f => cases s <;> simp_all [rdaLoop, isCons]

theorem rda_noncons (m : Mode) (f : Nat) {s : Rich} (h : isCons s = false) (sp : Bool) :
    (rda m f s sp).out = s := by
  cases f with
  | zero => simp [rda]
  | succ f =>
    simp only [rda]
    split
    · rfl
    · exact (rdaLoop_noncons m f h sp false false false).1

/-- the accumulated ghost flag only grows. -/
theorem rdaLoop_flag_mono (m : Mode) : ∀ (f : Nat) (s : Rich) (sp was fl oo : Bool),
    (rdaLoop m f s sp was fl oo).flag = false → fl = false := by
  intro f
  induction f with
  | zero => intro s sp was fl oo h; simpa [rdaLoop] using h
  | succ f ih =>
    intro s sp was fl oo h
    cases s with
    | cons a b =>
      simp only [rdaLoop] at h
      split at h
      · exact h
      · split at h
        · have := ih _ _ _ _ _ h
          simp only [Bool.or_eq_false_iff] at this
          exact this.1.1.1.1
        · simp only [Bool.or_eq_false_iff] at h
          exact h.1.1.1.1
    | nil => simpa [rdaLoop] using h
    | atom _ => simpa [rdaLoop] using h
    | qstr _ _ => simpa [rdaLoop] using h
    | int _ => simpa [rdaLoop] using h

/-- `was_transformed` only grows. -/
theorem rdaLoop_was_mono (m : Mode) : ∀ (f : Nat) (s : Rich) (sp fl oo : Bool),
    (rdaLoop m f s sp true fl oo).changed = true := by
  intro f
  induction f with
  | zero => intro s sp fl oo; simp [rdaLoop]
  | succ f ih =>
    intro s sp fl oo
    cases s with
    | cons a b =>
      simp only [rdaLoop]
      split
      · rfl
      · split
        · exact ih ..
        · rfl
    | nil => simp [rdaLoop]
    | atom _ => simp [rdaLoop]
    | qstr _ _ => simp [rdaLoop]
    | int _ => simp [rdaLoop]

/-- a run that reports "not transformed" returns its input (the rebuilt tree is the same tree). -/
theorem rda_unchanged (m : Mode) : ∀ (f : Nat),
    (∀ s sp, (rda m f s sp).changed = false → (rda m f s sp).out = s) ∧
    (∀ s sp was fl oo, (rdaLoop m f s sp was fl oo).changed = false → (rdaLoop m f s sp was fl oo).out = s) := by
  intro f
  induction f with
  | zero => exact ⟨fun s sp _ => by simp [rda], fun s sp was fl oo _ => by simp [rdaLoop]⟩
  | succ f ih =>
    obtain ⟨ihR, ihL⟩ := ih
    constructor
    · intro s sp h
      simp only [rda] at h ⊢
      split
      · rfl
      · rename_i hc
        rw [if_neg hc] at h
        exact ihL _ _ _ _ _ h
    · intro s sp was fl oo h
      cases s with
      | cons a b =>
        simp only [rdaLoop] at h ⊢
        split
        · rfl
        · rename_i hg
          rw [if_neg hg] at h
          split
          · rename_i hc
            rw [if_pos hc] at h
            rw [rdaLoop_was_mono] at h
            cases h
          · rename_i hc
            simp only [Bool.or_eq_true, not_or, Bool.not_eq_true] at hc
            obtain ⟨⟨hca, hcb⟩, hcr⟩ := hc
            simp only
            rw [rootRewrites_unchanged m sp _ hcr, ihR a true hca, ihR b false hcb]
      | nil => simp [rdaLoop]
      | atom _ => simp [rdaLoop]
      | qstr _ _ => simp [rdaLoop]
      | int _ => simp [rdaLoop]

/-- one loop iteration's recursive part: `Cons(a, b)` ⇒ `Cons(new_a, new_b)`; at an expression
    root the cell is not a quote form (`hnq`: the entry check, or the loop's re-check). -/
theorem rda_step_pres {ops : OpSem} (m : Mode) (sp : Bool) (a b : Rich) (ra rb : PR)
    (houtA : isCons a = false → ra.out = a)
    (hunA : ra.changed = false → ra.out = a) (hunB : rb.changed = false → rb.out = b)
    (hpa : Pres ops m true a ra.out) (hpb : Pres ops m false b rb.out)
    (hnq : sp = true → isAtomValue [1] a = false)
    (hshape : (rdaShapeFlag sp a b && (ra.changed || rb.changed)) = false) :
    Pres ops m sp (.cons a b) (.cons ra.out rb.out) := by
  cases sp with
  | false => exact pres_list_cons hpa hpb
  | true =>
    by_cases hsub : (ra.changed || rb.changed) = true
    · simp only [hsub, Bool.and_true, rdaShapeFlag, Bool.true_and] at hshape
      rw [houtA hshape]
      obtain ⟨op, hop, hne⟩ := toClvm_of_not_q (m := m) hshape (hnq rfl)
      exact pres_call hop hne hpb
    · simp only [Bool.or_eq_true, not_or, Bool.not_eq_true] at hsub
      rw [hunA hsub.1, hunB hsub.2]
      exact Pres.refl ..

/-- `remove_double_apply` preserves meaning for EVERY fuel (a run that exhausts its fuel returns
    an intermediate tree, which still means what the input means) whenever the ghost flag is
    clear: as an expression for `spine = true`, as an operand list for `spine = false`.
    (`rdaLoop`: entered at an expression root that is not a quote form unless a transformation
    has already happened — then the loop re-checks.) -/
theorem rda_pres {ops : OpSem} (po : PassOps ops) (m : Mode) : ∀ (f : Nat),
    (∀ s sp, (rda m f s sp).flag = false → Pres ops m sp s (rda m f s sp).out) ∧
    (∀ s sp was fl oo, (sp && !was && isQuoted s) = false → (rdaLoop m f s sp was fl oo).flag = false →
      Pres ops m sp s (rdaLoop m f s sp was fl oo).out) := by
  intro f
  induction f with
  | zero =>
    exact ⟨fun s sp _ => by simp only [rda]; exact Pres.refl ..,
           fun s sp was fl oo _ _ => by simp only [rdaLoop]; exact Pres.refl ..⟩
  | succ f ih =>
    obtain ⟨ihR, ihL⟩ := ih
    constructor
    · intro s sp h
      simp only [rda] at h ⊢
      split
      · exact Pres.refl ..
      · rename_i hc
        rw [if_neg hc] at h
        exact ihL _ _ _ _ _ (by simpa using hc) h
    · intro s sp was fl oo hq h
      cases s with
      | cons a b =>
        simp only [rdaLoop] at h ⊢
        split
        · exact Pres.refl ..
        · rename_i hg
          rw [if_neg hg] at h
          -- at an expression root this cell is not a quote form
          have hnq : sp = true → isAtomValue [1] a = false := by
            intro hsp
            subst hsp
            cases was <;> simp_all [isQuoted]
          -- the accumulated flag of this iteration is clear in both branches
          have hfl : (fl || (rda m f a true).flag || (rda m f b false).flag ||
              (rootRewrites m sp (.cons (rda m f a true).out (rda m f b false).out)).flag ||
              (rdaShapeFlag sp a b && ((rda m f a true).changed || (rda m f b false).changed))) = false := by
            split at h
            · exact rdaLoop_flag_mono m _ _ _ _ _ _ h
            · exact h
          simp only [Bool.or_eq_false_iff] at hfl
          obtain ⟨⟨⟨⟨_, hfa⟩, hfb⟩, _⟩, hsh⟩ := hfl
          have hstep : Pres ops m sp (.cons a b) (.cons (rda m f a true).out (rda m f b false).out) :=
            rda_step_pres m sp a b _ _ (fun hc => rda_noncons m f hc true)
              ((rda_unchanged m f).1 a true) ((rda_unchanged m f).1 b false)
              (ihR a true hfa) (ihR b false hfb) hnq hsh
          have hroot : Pres ops m sp (.cons (rda m f a true).out (rda m f b false).out)
              (rootRewrites m sp (.cons (rda m f a true).out (rda m f b false).out)).out := by
            cases sp with
            | false => exact Pres.refl ..
            | true =>
              simp only [Pres, if_true]
              exact fun e v hv => rootRewrites_sound po m _ hv
          split
          · rename_i hc
            rw [if_pos hc] at h
            exact (hstep.trans hroot).trans (ihL _ _ _ _ _ (by simp) h)
          · exact hstep.trans hroot
      | nil => simp only [rdaLoop]; exact Pres.refl ..
      | atom _ => simp only [rdaLoop]; exact Pres.refl ..
      | qstr _ _ => simp only [rdaLoop]; exact Pres.refl ..
      | int _ => simp only [rdaLoop]; exact Pres.refl ..

-- ---------------------------------------------------------------------------------------
-- brief_path_selection
-- ---------------------------------------------------------------------------------------

theorem toClvm_of_not_op1 {m : Mode} {r : Rich} (hc : isCons r = false) (h : isOpAtom 1 r = false) :
    ∃ op, toClvm m r = .atom op ∧ op ≠ [1] := by
  cases r with
  | nil => exact ⟨[], rfl, by decide⟩
  | atom n => simp [isOpAtom, atomizeName] at h; exact ⟨n, rfl, h⟩
  | qstr q n => simp [isOpAtom, atomizeName] at h; exact ⟨n, rfl, h⟩
  | int i =>
    simp [isOpAtom, atomizeName] at h
    obtain ⟨b, hb, hor⟩ := toClvm_int_bytes m i
    refine ⟨b, hb, ?_⟩
    rcases hor with rfl | rfl
    · decide
    · exact h
  | cons a d => simp [isCons] at hc

/-- the value of `body`, then the path `target` into it. -/
def ViaPath (ops : OpSem) (m : Mode) (body : Rich) (target : Nat) (e v : Val) : Prop :=
  ∃ y, Evaluates ops (toClvm m body) e y ∧ Path.lookupNat target y = .ok v

/-- `(OP ARG . T)` with `T.nilp()` and a one-operand operator: the operand's value and the
    operator's result. -/
theorem eval_unary_inv {ops : OpSem} {m : Mode} {k : UInt8} {cmd arg t : Rich}
    (hk : k ≠ 0) (hk1 : k ≠ 1) (hk2 : Ops.smallNumber [k] ≠ some 2) (hk36 : Ops.smallNumber [k] ≠ some 36)
    (hcmd : isOpAtom k cmd = true) (ht : nilp t = true) {e y : Val}
    (h : Evaluates ops (toClvm m (.cons cmd (.cons arg t))) e y) :
    ∃ z, Evaluates ops (toClvm m arg) e z ∧ ops.apply [k] (.pair z Val.nil) = .ok y := by
  simp only [toClvm] at h
  rw [toClvm_of_isOpAtom hk hcmd] at h
  obtain ⟨x, hx⟩ := toClvm_nilp_atom m ht
  rw [hx] at h
  have hne : Ops.smallNumber [k] ≠ some 1 := Ops.smallNumber_ne_one (by simp [hk1])
  rw [evaluates_op_iff hne] at h
  obtain ⟨vals, hl, hap⟩ := h
  obtain ⟨z, rs, rfl, hz, hr⟩ := evalArgs_pair_iff.1 hl
  obtain ⟨_, rfl⟩ := evalArgs_atom_iff.1 hr
  exact ⟨z, hz, (applies_op_iff hk2 hk36).1 hap⟩

theorem viaPath_first {ops : OpSem} (co : CoreOps ops) {m : Mode} {cmd arg t : Rich} {target : Nat}
    (hcmd : isOpAtom 5 cmd = true) (ht : nilp t = true) (hp : 1 ≤ target) {e v : Val}
    (h : ViaPath ops m (.cons cmd (.cons arg t)) target e v) : ViaPath ops m arg (target * 2) e v := by
  obtain ⟨y, hy, hl⟩ := h
  obtain ⟨z, hz, hap⟩ := eval_unary_inv (k := 5) (by decide) (by decide)
    (sn_ne Ops.smallNumber_5 (by decide)) (sn_ne Ops.smallNumber_5 (by decide)) hcmd ht hy
  obtain ⟨d, rfl⟩ := co.first_inv _ _ hap
  refine ⟨_, hz, ?_⟩
  rw [PathAlg.lookupNat_step (by omega)]
  have h1 : target * 2 / 2 = target := by omega
  have h2 : ¬ (target * 2 % 2 = 1) := by omega
  rw [h1, if_neg h2]; exact hl

theorem viaPath_rest {ops : OpSem} (co : CoreOps ops) {m : Mode} {cmd arg t : Rich} {target : Nat}
    (hcmd : isOpAtom 6 cmd = true) (ht : nilp t = true) (hp : 1 ≤ target) {e v : Val}
    (h : ViaPath ops m (.cons cmd (.cons arg t)) target e v) : ViaPath ops m arg (target * 2 + 1) e v := by
  obtain ⟨y, hy, hl⟩ := h
  obtain ⟨z, hz, hap⟩ := eval_unary_inv (k := 6) (by decide) (by decide)
    (sn_ne Ops.smallNumber_6 (by decide)) (sn_ne Ops.smallNumber_6 (by decide)) hcmd ht hy
  obtain ⟨a, rfl⟩ := co.rest_inv _ _ hap
  refine ⟨_, hz, ?_⟩
  rw [PathAlg.lookupNat_step (by omega)]
  have h1 : (target * 2 + 1) / 2 = target := by omega
  have h2 : (target * 2 + 1) % 2 = 1 := by omega
  rw [h1, if_pos h2]; exact hl

/-- the scan loop keeps "value of the remaining body, then `target_path` into it". -/
theorem briefScan_pres {ops : OpSem} (co : CoreOps ops) (m : Mode) (body : Rich) (found target : Nat)
    (hp : 1 ≤ target) (hinv : found = 0 ∨ 2 ≤ target) :
    1 ≤ (briefScan body found target).2.1 ∧
    ((briefScan body found target).1 = 0 ∨ 2 ≤ (briefScan body found target).2.1) ∧
    ∀ e v, ViaPath ops m body target e v →
      ViaPath ops m (briefScan body found target).2.2 (briefScan body found target).2.1 e v := by
  fun_induction briefScan body found target with
  | case1 cmd arg t found target ht hq => exact ⟨hp, hinv, fun _ _ h => h⟩
  | case2 cmd arg t found target ht hq h5 ih =>
    obtain ⟨i1, i2, i3⟩ := ih (by omega) (Or.inr (by omega))
    exact ⟨i1, i2, fun e v h => i3 e v (viaPath_first co h5 ht hp h)⟩
  | case3 cmd arg t found target ht hq h5 h6 ih =>
    obtain ⟨i1, i2, i3⟩ := ih (by omega) (Or.inr (by omega))
    exact ⟨i1, i2, fun e v h => i3 e v (viaPath_rest co h6 ht hp h)⟩
  | case4 cmd arg t found target ht hq h5 h6 => exact ⟨hp, hinv, fun _ _ h => h⟩
  | case5 cmd arg t found target ht => exact ⟨hp, hinv, fun _ _ h => h⟩
  | case6 body found target hne => exact ⟨hp, hinv, fun _ _ h => h⟩

theorem toNatBE_toClvm_int (m : Mode) (n : Nat) :
    ∃ b, toClvm m (.int (n : Int)) = .atom b ∧ Bytes.toNatBE b = n := by
  by_cases h0 : n = 0
  · subst h0
    cases m
    · exact ⟨[0], by simp [toClvm, Bytes.ofInt_zero], by decide⟩
    · exact ⟨[], by simp [toClvm], rfl⟩
  · have hne : ((n : Int) == 0) = false := by simp [h0]
    exact ⟨Bytes.ofInt n, by simp [toClvm, hne], Bytes.toNatBE_ofInt_ofNat n⟩

theorem composePathsInt_le (n target : Nat) (h : n ≤ 1) :
    composePathsInt (n : Int) target = (target : Int) := by
  have : ((n : Int) ≤ 1) := by omega
  simp [composePathsInt, this]

theorem composePathsInt_gt (n target : Nat) (h : 2 ≤ n) (ht : 1 ≤ target) :
    composePathsInt (n : Int) target = ((Path.compose n target : Nat) : Int) := by
  have : ¬ ((n : Int) ≤ 1) := by omega
  simp [composePathsInt, this, NodePath.composePaths_eq n target ht]

/-- **brief_path_selection_single**: `(f (r (f … I)))` on an `Integer` path `I ≥ 0` ⇒ the composed
    path (flag: `I < 0`). -/
theorem briefSingle_pres {ops : OpSem} (po : PassOps ops) (m : Mode) (body : Rich)
    (hf : (briefSingle body).flag = false) : Pres ops m true body (briefSingle body).out := by
  simp only [Pres, if_true]
  intro e v h
  obtain ⟨hp, hinv, hvia⟩ := briefScan_pres po.core m body 0 1 (by omega) (Or.inl rfl)
  have hv := hvia e v ⟨v, h, PathAlg.lookupNat_one v⟩
  unfold briefSingle at hf ⊢
  generalize briefScan body 0 1 = r at *
  obtain ⟨found, target, b⟩ := r
  simp only at hp hinv hv
  simp only [briefFinish] at hf ⊢
  split
  · rename_i hfound
    have h2 : 2 ≤ target := by rcases hinv with h0 | h2 <;> omega
    rw [if_pos hfound] at hf
    cases b with
    | int i =>
      simp only at hf ⊢
      have hi : 0 ≤ i := by simpa using hf
      obtain ⟨n, rfl⟩ := Int.eq_ofNat_of_zero_le hi
      obtain ⟨y, hy, hl⟩ := hv
      obtain ⟨bb, hbb, hnat⟩ := toNatBE_toClvm_int m n
      rw [hbb, evaluates_atom_iff] at hy
      simp only [Path.lookup, hnat] at hy
      -- the result as a path
      have key : ∀ p : Nat, Path.lookupNat p e = .ok v →
          Evaluates ops (toClvm m (.int (p : Int))) e v := by
        intro p hl'
        obtain ⟨b2, hb2, hn2⟩ := toNatBE_toClvm_int m p
        rw [hb2, evaluates_atom_iff]
        simp only [Path.lookup, hn2]; exact hl'
      by_cases hn0 : n = 0
      · subst hn0
        simp [Path.lookupNat] at hy
        subst hy
        exact absurd hl (PathAlg.lookupNat_atom h2 _ _)
      by_cases hn1 : n = 1
      · subst hn1
        rw [PathAlg.lookupNat_one] at hy
        cases hy
        rw [composePathsInt_le 1 target (by omega)]
        exact key target hl
      · rw [composePathsInt_gt n target (by omega) (by omega)]
        apply key
        rw [PathAlg.lookup_compose (by omega) (by omega), hy]
        exact hl
    | nil => exact h
    | atom _ => exact h
    | qstr _ _ => exact h
    | cons _ _ => exact h
  · exact h

theorem briefPath_noncons {r : Rich} (h : isCons r = false) : briefPath r = same r := by
  cases r <;> simp_all [briefPath, isCons]

theorem isProper_noncons {r : Rich} (hc : isCons r = false) (h : isProper r = true) : nilp r = true := by
  cases r <;> simp_all [isProper, isCons]

/-- **brief_path_selection**: as an expression (`briefPath`), and element-wise on the operand list
    it rebuilds onto `Nil` (`briefList`, for a proper list). -/
theorem brief_pres {ops : OpSem} (po : PassOps ops) (m : Mode) : ∀ r : Rich,
    ((briefPath r).flag = false → Pres ops m true r (briefPath r).out) ∧
    ((briefList r).flag = false → isProper r = true → Pres ops m false r (briefList r).out) := by
  intro r
  have leaf : ∀ r : Rich, isCons r = false →
      ((briefPath r).flag = false → Pres ops m true r (briefPath r).out) ∧
      ((briefList r).flag = false → isProper r = true → Pres ops m false r (briefList r).out) := by
    intro r hc
    constructor
    · intro _; rw [briefPath_noncons hc]; exact Pres.refl ..
    · intro _ hp
      have hn := isProper_noncons hc hp
      have hl : briefList r = same .nil := by cases r <;> simp_all [briefList, isCons]
      rw [hl]
      simp only [Pres, same]
      intro e vals h
      obtain ⟨x, hx⟩ := toClvm_nilp_atom m hn
      rw [hx] at h
      obtain ⟨rfl, rfl⟩ := evalArgs_atom_iff.1 h
      exact evalArgs_atom_iff.2 ⟨rfl, rfl⟩
  induction r with
  | nil => exact leaf _ rfl
  | atom _ => exact leaf _ rfl
  | qstr _ _ => exact leaf _ rfl
  | int _ => exact leaf _ rfl
  | cons h t ihh iht =>
    constructor
    · intro hf
      rw [briefPath] at hf ⊢
      split
      · rename_i hc
        rw [if_pos hc] at hf
        exact briefSingle_pres po m _ hf
      · rename_i hc
        rw [if_neg hc] at hf
        split
        · rename_i hp
          rw [if_pos hp] at hf
          simp only [Bool.and_eq_true, Bool.not_eq_true'] at hp
          obtain ⟨⟨hprop, _⟩, hnq⟩ := hp
          simp only [briefJoin, Bool.or_eq_false_iff, Bool.and_eq_false_iff] at hf ⊢
          obtain ⟨⟨hfa, hfd⟩, hph⟩ := hf
          by_cases hch : isCons h = true
          · -- pair-headed: the rebuilt list is the original
            rcases hph with hx | hx
            · rw [hch] at hx; cases hx
            · have : Rich.cons (briefPath h).out (briefList t).out = Rich.cons h t := by
                simpa using hx
              rw [this]; exact Pres.refl ..
          · have hch' : isCons h = false := by simpa using hch
            rw [briefPath_noncons hch']
            obtain ⟨op, hop, hne⟩ := toClvm_of_not_op1 (m := m) hch' hnq
            exact pres_call hop hne (iht.2 hfd hprop)
        · exact Pres.refl ..
    · intro hf hp
      rw [briefList] at hf ⊢
      simp only [briefJoin, Bool.or_false, Bool.or_eq_false_iff] at hf ⊢
      have hpt : isProper t = true := by simpa [isProper] using hp
      exact pres_list_cons (ihh.1 hf.1) (iht.2 hf.2 hpt)

-- ---------------------------------------------------------------------------------------
-- sequencing
-- ---------------------------------------------------------------------------------------

/-- the `Strategy23` sequence null → double apply → brief (and "the input when nothing worked")
    preserves meaning, for every fuel of the double-apply loop. -/
theorem strategy23_pres {ops : OpSem} (po : PassOps ops) (m : Mode) (fuel : Nat) (r : Rich)
    (hf : (strategy23 m fuel r).flag = false) : Pres ops m true r (strategy23 m fuel r).out := by
  simp only [strategy23] at hf ⊢
  have hfl : ((nullPass m r true).flag || (rda m fuel (nullPass m r true).out true).flag ||
      (briefPath (rda m fuel (nullPass m r true).out true).out).flag) = false := by
    split at hf <;> exact hf
  simp only [Bool.or_eq_false_iff] at hfl
  obtain ⟨⟨hn, hd⟩, hb⟩ := hfl
  split
  · exact ((nullPass_pres po m r true hn).trans ((rda_pres po m fuel).1 _ true hd)).trans
      ((brief_pres po m _).1 hb)
  · exact Pres.refl ..

theorem existingStrategy_pres {ops : OpSem} (po : PassOps ops) (m : Mode) (fe : Bool) (st : Option Int)
    (r : Rich) (hf : (existingStrategy m fe st r).flag = false) :
    Pres ops m true r (existingStrategy m fe st r).out := by
  unfold existingStrategy at hf ⊢
  by_cases hc : (fe && steppingAbove22 st) = true
  · rw [if_pos hc] at hf ⊢
    split
    · rename_i hch
      rw [if_pos hch] at hf
      exact nullPass_pres po m r false hf
    · exact Pres.refl ..
  · rw [if_neg hc]; exact Pres.refl ..

-- ---------------------------------------------------------------------------------------
-- termination of the double-apply loop
-- ---------------------------------------------------------------------------------------

theorem rsize_pos (r : Rich) : 1 ≤ rsize r := by cases r <;> simp [rsize] <;> omega

theorem changeApplyDoubleQuote_size (r : Rich) (h : (changeApplyDoubleQuote r).1 = true) :
    rsize (changeApplyDoubleQuote r).2 < rsize r := by
  unfold changeApplyDoubleQuote at h ⊢
  split
  · rename_i hd q one body t
    split
    · simp only [primquote, rsize]
      have := rsize_pos hd; have := rsize_pos q; have := rsize_pos t; have := rsize_pos one
      omega
    · rename_i hc; simp [hc] at h
  · rename_i hn; simp at h

theorem changeDoubleToSingleApply_size (r : Rich) (h : (changeDoubleToSingleApply r).1 = true) :
    rsize (changeDoubleToSingleApply r).2 < rsize r := by
  unfold changeDoubleToSingleApply at h ⊢
  split
  · rename_i hd q inner one t
    split
    · simp only [rsize]
      omega
    · rename_i hc; simp [hc] at h
  · simp at h

theorem collapseConstantCondition_size (m : Mode) (r : Rich) (h : (collapseConstantCondition m r).1 = true) :
    rsize (collapseConstantCondition m r).2 < rsize r := by
  unfold collapseConstantCondition at h ⊢
  split
  · rename_i hd cond a b t
    split
    · split
      · simp only [rsize]; omega
      · simp only [rsize]; omega
      · rename_i h3 _ hc; simp [h3, hc] at h
    · rename_i hc; simp [hc] at h
  · simp at h

theorem rootRewrites_size (m : Mode) (sp : Bool) (x : Rich) :
    rsize (rootRewrites m sp x).out ≤ rsize x ∧
    ((rootRewrites m sp x).changed = true → rsize (rootRewrites m sp x).out < rsize x) := by
  cases sp with
  | false => simp [rootRewrites, same]
  | true =>
    simp only [rootRewrites, if_true]
    have s1 : rsize (changeApplyDoubleQuote x).2 ≤ rsize x ∧
        ((changeApplyDoubleQuote x).1 = true → rsize (changeApplyDoubleQuote x).2 < rsize x) := by
      cases h : (changeApplyDoubleQuote x).1 with
      | true => exact ⟨Nat.le_of_lt (changeApplyDoubleQuote_size x h), fun _ => changeApplyDoubleQuote_size x h⟩
      | false => rw [changeApplyDoubleQuote_unchanged x h]; exact ⟨Nat.le_refl _, fun hc => by cases hc⟩
    generalize (changeApplyDoubleQuote x).2 = y at s1 ⊢
    have s2 : rsize (changeDoubleToSingleApply y).2 ≤ rsize y ∧
        ((changeDoubleToSingleApply y).1 = true → rsize (changeDoubleToSingleApply y).2 < rsize y) := by
      cases h : (changeDoubleToSingleApply y).1 with
      | true => exact ⟨Nat.le_of_lt (changeDoubleToSingleApply_size y h), fun _ => changeDoubleToSingleApply_size y h⟩
      | false => rw [changeDoubleToSingleApply_unchanged y h]; exact ⟨Nat.le_refl _, fun hc => by cases hc⟩
    generalize (changeDoubleToSingleApply y).2 = z at s2 ⊢
    have s3 : rsize (collapseConstantCondition m z).2 ≤ rsize z ∧
        ((collapseConstantCondition m z).1 = true → rsize (collapseConstantCondition m z).2 < rsize z) := by
      cases h : (collapseConstantCondition m z).1 with
      | true => exact ⟨Nat.le_of_lt (collapseConstantCondition_size m z h), fun _ => collapseConstantCondition_size m z h⟩
      | false => rw [collapseConstantCondition_unchanged m z h]; exact ⟨Nat.le_refl _, fun hc => by cases hc⟩
    refine ⟨by omega, ?_⟩
    intro hc
    simp only [Bool.or_eq_true] at hc
    rcases hc with (h1 | h2) | h3
    · have := s1.2 h1; omega
    · have := s2.2 h2; omega
    · have := s3.2 h3; omega


/-- every transformation removes at least one node. -/
theorem rda_size (m : Mode) : ∀ (f : Nat),
    (∀ s sp, rsize (rda m f s sp).out ≤ rsize s ∧
      ((rda m f s sp).changed = true → rsize (rda m f s sp).out < rsize s)) ∧
    (∀ s sp was fl oo, rsize (rdaLoop m f s sp was fl oo).out ≤ rsize s ∧
      ((rdaLoop m f s sp was fl oo).changed = true → was = true ∨ rsize (rdaLoop m f s sp was fl oo).out < rsize s)) := by
  intro f
  induction f with
  | zero =>
    refine ⟨fun s sp => by simp [rda], fun s sp was fl oo => ?_⟩
    simp only [rdaLoop]
    exact ⟨Nat.le_refl _, fun h => Or.inl h⟩
  | succ f ih =>
    obtain ⟨ihR, ihL⟩ := ih
    constructor
    · intro s sp
      simp only [rda]
      split
      · simp [same]
      · obtain ⟨h1, h2⟩ := ihL s sp false false false
        refine ⟨h1, fun hc => ?_⟩
        rcases h2 hc with h | h
        · cases h
        · exact h
    · intro s sp was fl oo
      cases s with
      | cons a b =>
        simp only [rdaLoop]
        split
        · exact ⟨Nat.le_refl _, fun h => Or.inl h⟩
        obtain ⟨a1, a2⟩ := ihR a true
        obtain ⟨b1, b2⟩ := ihR b false
        obtain ⟨r1, r2⟩ := rootRewrites_size m sp (.cons (rda m f a true).out (rda m f b false).out)
        have hsz : rsize (Rich.cons (rda m f a true).out (rda m f b false).out) ≤ rsize (Rich.cons a b) := by
          simp only [rsize]; omega
        split
        · rename_i hc
          have hlt : rsize (rootRewrites m sp (.cons (rda m f a true).out (rda m f b false).out)).out
              < rsize (Rich.cons a b) := by
            simp only [Bool.or_eq_true] at hc
            rcases hc with (ha | hb) | hr
            · have := a2 ha; simp only [rsize] at hsz r1 ⊢; omega
            · have := b2 hb; simp only [rsize] at hsz r1 ⊢; omega
            · have := r2 hr; omega
          obtain ⟨l1, _⟩ := ihL (rootRewrites m sp (.cons (rda m f a true).out (rda m f b false).out)).out sp true
            (fl || (rda m f a true).flag || (rda m f b false).flag ||
              (rootRewrites m sp (.cons (rda m f a true).out (rda m f b false).out)).flag ||
              (rdaShapeFlag sp a b && ((rda m f a true).changed || (rda m f b false).changed)))
            (oo || (rda m f a true).oof || (rda m f b false).oof)
          exact ⟨by omega, fun _ => Or.inr (by omega)⟩
        · exact ⟨by show rsize (rootRewrites m sp _).out ≤ _; omega, fun h => Or.inl h⟩
      | nil => simp only [rdaLoop]; exact ⟨Nat.le_refl _, fun h => Or.inl h⟩
      | atom _ => simp only [rdaLoop]; exact ⟨Nat.le_refl _, fun h => Or.inl h⟩
      | qstr _ _ => simp only [rdaLoop]; exact ⟨Nat.le_refl _, fun h => Or.inl h⟩
      | int _ => simp only [rdaLoop]; exact ⟨Nat.le_refl _, fun h => Or.inl h⟩

/-- **termination of the `while any_transformation` loop**: fuel `2 * size + 2` is never
    exhausted, at any depth of the recursion. -/
theorem rda_fuel_enough (m : Mode) : ∀ (f : Nat),
    (∀ s sp, 2 * rsize s + 2 ≤ f → (rda m f s sp).oof = false) ∧
    (∀ s sp was fl, 2 * rsize s + 1 ≤ f → (rdaLoop m f s sp was fl false).oof = false) := by
  intro f
  induction f with
  | zero =>
    refine ⟨fun s sp h => ?_, fun s sp was fl h => ?_⟩ <;> omega
  | succ f ih =>
    obtain ⟨ihR, ihL⟩ := ih
    constructor
    · intro s sp h
      simp only [rda]
      split
      · rfl
      · exact ihL s sp false false (by omega)
    · intro s sp was fl h
      cases s with
      | cons a b =>
        simp only [rdaLoop]
        split
        · rfl
        have ha := rsize_pos a
        have hb := rsize_pos b
        simp only [rsize] at h
        have oa := ihR a true (by omega)
        have ob := ihR b false (by omega)
        simp only [oa, ob, Bool.or_false]
        split
        · rename_i hc
          obtain ⟨a1, a2⟩ := (rda_size m f).1 a true
          obtain ⟨b1, b2⟩ := (rda_size m f).1 b false
          obtain ⟨r1, r2⟩ := rootRewrites_size m sp (.cons (rda m f a true).out (rda m f b false).out)
          have hlt : rsize (rootRewrites m sp (.cons (rda m f a true).out (rda m f b false).out)).out
              < 1 + rsize a + rsize b := by
            simp only [Bool.or_eq_true] at hc
            simp only [rsize] at r1 r2
            rcases hc with (hca | hcb) | hr
            · have := a2 hca; omega
            · have := b2 hcb; omega
            · have := r2 hr; omega
          exact ihL _ sp true _ (by omega)
        · rfl
      | nil => simp [rdaLoop]
      | atom _ => simp [rdaLoop]
      | qstr _ _ => simp [rdaLoop]
      | int _ => simp [rdaLoop]

theorem removeDoubleApply_terminates (m : Mode) (r : Rich) (sp : Bool) :
    (removeDoubleApply m r sp).oof = false :=
  (rda_fuel_enough m (rdaFuel r)).1 r sp (by simp [rdaFuel])

theorem nullOpt_size (m : Mode) : ∀ (r : Rich) (sp : Bool), rsize (nullOpt m r sp).out ≤ rsize r := by
  intro r
  induction r with
  | nil => intro sp; simp [nullOpt, same]
  | atom _ => intro sp; simp [nullOpt, same]
  | qstr _ _ => intro sp; simp [nullOpt, same]
  | int _ => intro sp; simp [nullOpt, same]
  | cons a b iha ihb =>
    intro sp
    simp only [nullOpt]
    split
    · split
      · simp only [rsize]; omega
      · simp [same]
    · simp only [nullJoin]
      split
      · have := iha false; have := ihb true
        simp only [rsize]; omega
      · simp

theorem strategy23_terminates (m : Mode) (r : Rich) : (strategy23 m (strategy23Fuel r) r).oof = false := by
  have hn : rsize (nullPass m r true).out ≤ rsize r := by
    simp only [nullPass, if_true, nullOfExpression]
    split
    · exact Nat.le_refl _
    · exact nullOpt_size m r true
  have := (rda_fuel_enough m (strategy23Fuel r)).1 (nullPass m r true).out true
    (by simp only [strategy23Fuel, rdaFuel]; omega)
  simp only [strategy23]
  split <;> exact this

-- ---------------------------------------------------------------------------------------
-- code-generator shape: which exclusions cannot arise on expression-shaped code
-- ---------------------------------------------------------------------------------------

theorem isOpAtom_one_iff (h : Rich) : isOpAtom 1 h = isAtomValue [1] h := by
  cases h <;> simp [isOpAtom, atomizeName, isAtomValue]

theorem isQName_of_isAtomValue {h : Rich} (hq : isAtomValue [1] h = true) : isQName h = true := by
  cases h <;> simp_all [isQName, atomizeName, isAtomValue]

theorem briefScan_shape : ∀ (body : Rich) (found target : Nat), exprShape body = true →
    exprShape (briefScan body found target).2.2 = true := by
  intro body found target
  fun_induction briefScan body found target with
  | case1 cmd arg t found target ht hq => exact fun h => h
  | case2 cmd arg t found target ht hq h5 ih =>
    intro h
    apply ih
    simp only [exprShape, argsShape, Bool.or_eq_true, Bool.and_eq_true] at h
    rw [← isOpAtom_one_iff] at h
    rcases h with h | h
    · rw [h] at hq; exact absurd rfl hq
    · exact h.2.1
  | case3 cmd arg t found target ht hq h5 h6 ih =>
    intro h
    apply ih
    simp only [exprShape, argsShape, Bool.or_eq_true, Bool.and_eq_true] at h
    rw [← isOpAtom_one_iff] at h
    rcases h with h | h
    · rw [h] at hq; exact absurd rfl hq
    · exact h.2.1
  | case4 cmd arg t found target ht hq h5 h6 => exact fun h => h
  | case5 cmd arg t found target ht => exact fun h => h
  | case6 body found target hne => exact fun h => h

theorem briefSingle_flag_of_shape (body : Rich) (h : exprShape body = true) : (briefSingle body).flag = false := by
  unfold briefSingle
  have hs := briefScan_shape body 0 1 h
  generalize briefScan body 0 1 = r at hs
  obtain ⟨found, target, b⟩ := r
  simp only [briefFinish]
  split
  · cases b with
    | int i => simp only [exprShape] at hs; simp only; simpa using hs
    | nil => rfl
    | atom _ => rfl
    | qstr _ _ => rfl
    | cons _ _ => rfl
  · rfl

/-- on expression-shaped code `brief_path_selection` never meets an excluded shape. -/
theorem brief_flag_of_shape : ∀ r : Rich,
    (exprShape r = true → (briefPath r).flag = false) ∧ (argsShape r = true → (briefList r).flag = false) := by
  intro r
  induction r with
  | nil => exact ⟨fun _ => by simp [briefPath, same], fun _ => by simp [briefList, same]⟩
  | atom _ => exact ⟨fun _ => by simp [briefPath, same], fun _ => by simp [briefList, same]⟩
  | qstr _ _ => exact ⟨fun _ => by simp [briefPath, same], fun _ => by simp [briefList, same]⟩
  | int _ => exact ⟨fun _ => by simp [briefPath, same], fun _ => by simp [briefList, same]⟩
  | cons h t ihh iht =>
    constructor
    · intro hs
      rw [briefPath]
      split
      · exact briefSingle_flag_of_shape _ hs
      · split
        · rename_i hp
          simp only [Bool.and_eq_true, Bool.not_eq_true'] at hp
          obtain ⟨_, hnq⟩ := hp
          simp only [exprShape, Bool.or_eq_true, Bool.and_eq_true, Bool.not_eq_true'] at hs
          rw [← isOpAtom_one_iff, hnq] at hs
          rcases hs with hs | ⟨hc, ha⟩
          · cases hs
          · simp only [briefJoin, hc, Bool.false_and, Bool.or_false, Bool.or_eq_false_iff]
            rw [briefPath_noncons hc]
            exact ⟨rfl, iht.2 ha⟩
        · rfl
    · intro hs
      simp only [argsShape, Bool.and_eq_true] at hs
      rw [briefList]
      simp only [briefJoin, Bool.or_false, Bool.or_eq_false_iff]
      exact ⟨ihh.1 hs.1, iht.2 hs.2⟩

/-- on expression-shaped code, in the fixed integer mode, `null_optimization` never meets an
    excluded shape (expression entry for `spine = false`, operand-list entry for `spine = true`). -/
theorem null_flag_of_shape : ∀ (r : Rich) (sp : Bool),
    (if sp then argsShape r else exprShape r) = true → (nullOpt true r sp).flag = false := by
  intro r
  induction r with
  | nil => intro sp _; simp [nullOpt, same]
  | atom _ => intro sp _; simp [nullOpt, same]
  | qstr _ _ => intro sp _; simp [nullOpt, same]
  | int _ => intro sp _; simp [nullOpt, same]
  | cons a b iha ihb =>
    intro sp hs
    cases sp with
    | true =>
      simp only [if_true, argsShape, Bool.and_eq_true] at hs
      simp only [nullOpt, Bool.not_true, Bool.and_false, Bool.false_eq_true, if_false, nullJoin]
      have h1 := iha false (by simpa using hs.1)
      have h2 := ihb true (by simpa using hs.2)
      split <;> simp [h1, h2]
    | false =>
      simp only [Bool.false_eq_true, if_false, exprShape, Bool.or_eq_true, Bool.and_eq_true, Bool.not_eq_true'] at hs
      simp only [nullOpt, Bool.not_false, Bool.and_true]
      by_cases hq : isQName a = true
      · rw [if_pos hq]
        split
        · cases b <;> simp [nullQuoteFlag]
        · rfl
      · rw [if_neg hq]
        rcases hs with hs | ⟨hc, ha⟩
        · exact absurd (isQName_of_isAtomValue hs) hq
        · have h2 := ihb true (by simpa using ha)
          rw [nullOpt_noncons true hc false]
          simp only [nullJoin, same, hc, Bool.false_and, Bool.or_false, Bool.false_or]
          split <;> simp [h2]

theorem nullPass_flag_of_shape (r : Rich) (sp : Bool) (h : exprShape r = true) :
    (nullPass true r sp).flag = false := by
  cases sp with
  | false =>
    simp only [nullPass, Bool.false_eq_true, if_false]
    exact null_flag_of_shape r false (by simpa using h)
  | true =>
    simp only [nullPass, if_true, nullOfExpression]
    by_cases hq : isQuoted r = true
    · simp [hq, same]
    · rw [if_neg hq]
      cases r with
      | cons a b =>
        have hnq : isAtomValue [1] a = false := by simpa [isQuoted] using hq
        simp only [exprShape, hnq, Bool.false_or, Bool.and_eq_true, Bool.not_eq_true'] at h
        obtain ⟨hc, ha⟩ := h
        have hb := null_flag_of_shape b true (by simpa using ha)
        simp only [nullOpt, Bool.not_true, Bool.and_false, Bool.false_eq_true, if_false, nullJoin,
          nullOpt_noncons true hc false, same, nullRootFlag, hc, Bool.and_false, Bool.or_false, Bool.false_or]
        split <;> simp [hb]
      | nil => simp [nullOpt, same, nullRootFlag]
      | atom _ => simp [nullOpt, same, nullRootFlag]
      | qstr _ _ => simp [nullOpt, same, nullRootFlag]
      | int _ => simp [nullOpt, same, nullRootFlag]

end Passes
