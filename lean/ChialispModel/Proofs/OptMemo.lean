/-
  Proofs/OptMemo.lean — the memo of `optimize_sexp_` is transparent: started from a memo whose
  entries are results of the memo-less optimiser, the memoised optimiser (Opt/ClassicMemo.lean)
  only ever returns what the memo-less optimiser returns (with enough fuel), whatever subset of
  the present entries the lookups happen to see, and it keeps the memo in that state — also
  when it stops with an error.
-/
import ChialispModel.Opt.ClassicMemo
import ChialispModel.Proofs.OptBasics

namespace Opt

variable {ops : OpSem} {ef : Nat}

/-- `y` is what the memo-less optimiser returns for `x` with any sufficiently large fuel. -/
def Justified (ops : OpSem) (ef : Nat) (x y : Val) : Prop :=
  ∃ N, ∀ N', N ≤ N' → optimizeSexp ops false ef N' x = .ok y

def MemoOK (ops : OpSem) (ef : Nat) (m : Memo) : Prop :=
  ∀ k v, memoGet k m = some v → Justified ops ef k v

/-- a memo-threading computation agrees with the fuel-indexed memo-less computation `F`. -/
def Spec {α : Type} (ops : OpSem) (ef : Nat) (F : Nat → Except EvalErr α) (out : Except EvalErr α × Memo) : Prop :=
  MemoOK ops ef out.2 ∧ ∀ y, out.1 = .ok y → ∃ N, ∀ N', N ≤ N' → F N' = .ok y

def RecMOK (ops : OpSem) (ef : Nat) (rec : RecM) : Prop :=
  ∀ m x, MemoOK ops ef m → Spec ops ef (fun N => optimizeSexp ops false ef N x) (rec m x)

theorem optimizeSexp_atom' (strict : Bool) (n : Nat) (b : Bytes) :
    optimizeSexp ops strict ef n (.atom b) = .ok (.atom b) := by
  cases n <;> simp [optimizeSexp]

theorem spec_const {α : Type} {m : Memo} (hm : MemoOK ops ef m) (res : Except EvalErr α) :
    Spec ops ef (fun _ => res) (res, m) :=
  ⟨hm, fun y h => ⟨0, fun _ _ => h⟩⟩

theorem mapResM_spec {rec : RecM} (hr : RecMOK ops ef rec) : ∀ (l : List Val) (m : Memo), MemoOK ops ef m →
    Spec ops ef (fun N => mapRes (optimizeSexp ops false ef N) l) (mapResM rec m l) := by
  intro l
  induction l with
  | nil => intro m hm; exact ⟨hm, fun y h => ⟨0, fun _ _ => by simpa [mapRes, mapResM] using h⟩⟩
  | cons x xs ih =>
    intro m hm
    obtain ⟨hm1, hx⟩ := hr m x hm
    simp only [mapResM]
    cases hres : rec m x with
    | mk res m1 =>
      rw [hres] at hm1 hx
      simp only at hm1 hx
      cases res with
      | error e => exact ⟨hm1, fun y h => by cases h⟩
      | ok y =>
        simp only
        obtain ⟨hm2, hxs⟩ := ih m1 hm1
        cases hres2 : mapResM rec m1 xs with
        | mk res2 m2 =>
          rw [hres2] at hm2 hxs
          simp only at hm2 hxs
          cases res2 with
          | error e => exact ⟨hm2, fun y h => by cases h⟩
          | ok ys =>
            refine ⟨hm2, fun l' h => ?_⟩
            simp only [Except.ok.injEq] at h
            subst h
            obtain ⟨N1, h1⟩ := hx y rfl
            obtain ⟨N2, h2⟩ := hxs ys rfl
            refine ⟨max N1 N2, fun N' hN => ?_⟩
            simp only [mapRes]
            rw [h1 N' (by omega), h2 N' (by omega)]

theorem childrenOptimizerM_spec {rec : RecM} (hr : RecMOK ops ef rec) (m : Memo) (r : Val)
    (hm : MemoOK ops ef m) :
    Spec ops ef (fun N => childrenOptimizer false (optimizeSexp ops false ef N) r) (childrenOptimizerM rec m r) := by
  unfold childrenOptimizerM childrenOptimizer
  cases hp : properList r with
  | none => exact spec_const hm _
  | some l =>
    cases l with
    | nil => exact spec_const hm _
    | cons hd t =>
      simp only
      split
      · exact spec_const hm _
      · simp only [Bool.false_and, Bool.false_eq_true, if_false]
        obtain ⟨hm1, hl⟩ := mapResM_spec hr (hd :: t) m hm
        cases hres : mapResM rec m (hd :: t) with
        | mk res m1 =>
          rw [hres] at hm1 hl
          simp only at hm1 hl
          cases res with
          | error e => exact ⟨hm1, fun y h => by cases h⟩
          | ok l =>
            refine ⟨hm1, fun y h => ?_⟩
            simp only [Except.ok.injEq] at h
            subst h
            obtain ⟨N, hN⟩ := hl l rfl
            exact ⟨N, fun N' h' => by simp only [hN N' h']⟩

theorem varChangeKeepM_spec {rec : RecM} (hr : RecMOK ops ef rec) (m : Memo) (r s : Val)
    (hm : MemoOK ops ef m) :
    Spec ops ef (fun N => varChangeKeep false (optimizeSexp ops false ef N) r s) (varChangeKeepM rec m r s) := by
  unfold varChangeKeepM varChangeKeep
  split
  · exact hr m s hm
  · cases hp : properList s with
    | none => exact spec_const hm _
    | some l =>
      cases l with
      | nil => exact spec_const hm _
      | cons hd t =>
        simp only [Bool.false_and, Bool.false_eq_true, if_false]
        obtain ⟨hm1, hl⟩ := mapResM_spec hr (hd :: t) m hm
        cases hres : mapResM rec m (hd :: t) with
        | mk res m1 =>
          rw [hres] at hm1 hl
          simp only at hm1 hl
          cases res with
          | error e => exact ⟨hm1, fun y h => by cases h⟩
          | ok opt =>
            simp only
            obtain ⟨N, hN⟩ := hl opt rfl
            split
            · rename_i hc
              refine ⟨hm1, fun y h => ?_⟩
              simp only [Except.ok.injEq] at h
              subst h
              exact ⟨N, fun N' h' => by simp only [hN N' h']; simp [hc]⟩
            · rename_i hc
              refine ⟨hm1, fun y h => ?_⟩
              simp only [Except.ok.injEq] at h
              subst h
              exact ⟨N, fun N' h' => by simp only [hN N' h']; simp [hc]⟩

theorem varChangeOptimizerM_spec {rec : RecM} (hr : RecMOK ops ef rec) (m : Memo) (r : Val)
    (hm : MemoOK ops ef m) :
    Spec ops ef (fun N => varChangeOptimizer false (optimizeSexp ops false ef N) r) (varChangeOptimizerM rec m r) := by
  unfold varChangeOptimizerM varChangeOptimizer
  cases h1 : matchSexp patQA r [] with
  | none => exact spec_const hm _
  | some bs =>
    simp only
    cases ha : lookupB kArgs bs with
    | none => exact spec_const hm _
    | some args =>
      cases hs : lookupB kSexp bs with
      | none => exact spec_const hm _
      | some call =>
        simp only [Bool.false_and, Bool.false_eq_true, if_false]
        exact varChangeKeepM_spec hr m r _ hm

theorem tryRuleM_spec {r : Val} {F G : Nat → Res} {res : Res × Memo} {k : Memo → Res × Memo}
    (hF : Spec ops ef F res) (hG : ∀ m1, MemoOK ops ef m1 → Spec ops ef G (k m1)) :
    Spec ops ef (fun N => tryRule r (F N) (fun _ => G N)) (tryRuleM r res k) := by
  obtain ⟨res1, m⟩ := res
  obtain ⟨hm, hf⟩ := hF
  simp only at hm hf
  unfold tryRuleM
  cases res1 with
  | error e => exact ⟨hm, fun y h => by cases h⟩
  | ok r1 =>
    simp only
    obtain ⟨N1, h1⟩ := hf r1 rfl
    split
    · rename_i he
      have : r1 = r := by simpa using he
      subst this
      obtain ⟨hm2, hg⟩ := hG m hm
      refine ⟨hm2, fun y h => ?_⟩
      obtain ⟨N2, h2⟩ := hg y h
      refine ⟨max N1 N2, fun N' hN => ?_⟩
      simp only [tryRule, h1 N' (by omega), beq_self_eq_true, if_true]
      exact h2 N' (by omega)
    · rename_i he
      refine ⟨hm, fun y h => ?_⟩
      simp only [Except.ok.injEq] at h
      subst h
      refine ⟨N1, fun N' hN => ?_⟩
      simp only [tryRule, h1 N' hN]
      rw [if_neg he]

theorem stepM_spec {rec : RecM} (hr : RecMOK ops ef rec) (m : Memo) (r : Val) (hm : MemoOK ops ef m) :
    Spec ops ef (fun N => step ops false ef (optimizeSexp ops false ef N) r) (stepM ops ef rec m r) := by
  unfold stepM step
  refine tryRuleM_spec (spec_const hm _) fun m hm => ?_
  refine tryRuleM_spec (spec_const hm _) fun m hm => ?_
  refine tryRuleM_spec (spec_const hm _) fun m hm => ?_
  refine tryRuleM_spec (varChangeOptimizerM_spec hr m r hm) fun m hm => ?_
  refine tryRuleM_spec (childrenOptimizerM_spec hr m r hm) fun m hm => ?_
  refine tryRuleM_spec (spec_const hm _) fun m hm => ?_
  refine tryRuleM_spec (spec_const hm _) fun m hm => ?_
  refine tryRuleM_spec (spec_const hm _) fun m hm => ?_
  exact spec_const hm _

theorem memoGet_cons {k k' v : Val} {m : Memo} :
    memoGet k ((k', v) :: m) = if k' == k then some v else memoGet k m := rfl

theorem withMemo_ok {sel : Memo → Val → Bool} {loop : Memo → Val → Val → Res × Memo}
    (hl : ∀ m x, MemoOK ops ef m → Spec ops ef (fun N => optimizeSexp ops false ef N x) (loop m x x)) :
    RecMOK ops ef (withMemo sel loop) := by
  intro m x hm
  unfold withMemo
  split
  · rename_i v hv
    split at hv
    · refine ⟨hm, fun y h => ?_⟩
      simp only [Except.ok.injEq] at h
      subst h
      exact hm x v hv
    · cases hv
  · exact hl m x hm

/-- the loop, for an expression `r` reached from the call's original expression `key`. -/
theorem loopM_spec (sel : Memo → Val → Bool) : ∀ (n : Nat) (m : Memo) (key r : Val), MemoOK ops ef m →
    (∀ y, Justified ops ef r y → Justified ops ef key y) →
    Spec ops ef (fun N => optimizeSexp ops false ef N r) (loopM ops ef sel n m key r) := by
  intro n
  induction n with
  | zero =>
    intro m key r hm _
    cases r with
    | atom b => exact ⟨hm, fun y h => ⟨0, fun N' _ => by show optimizeSexp ops false ef N' (.atom b) = .ok y; rw [optimizeSexp_atom']; simpa [loopM] using h⟩⟩
    | pair a d => exact ⟨hm, fun y h => by simp [loopM] at h⟩
  | succ n ih =>
    intro m key r hm hreach
    cases r with
    | atom b => exact ⟨hm, fun y h => ⟨0, fun N' _ => by show optimizeSexp ops false ef N' (.atom b) = .ok y; rw [optimizeSexp_atom']; simpa [loopM] using h⟩⟩
    | pair a d =>
      have hrec : RecMOK ops ef (withMemo sel (loopM ops ef sel n)) :=
        withMemo_ok fun m x hm => ih m x x hm (fun _ h => h)
      obtain ⟨hm1, hst⟩ := stepM_spec hrec m (.pair a d) hm
      simp only [loopM]
      cases hres : stepM ops ef (withMemo sel (loopM ops ef sel n)) m (.pair a d) with
      | mk res m1 =>
        rw [hres] at hm1 hst
        simp only at hm1 hst
        cases res with
        | error e => exact ⟨hm1, fun y h => by cases h⟩
        | ok r1 =>
          simp only
          obtain ⟨N, hN⟩ := hst r1 rfl
          split
          · rename_i he
            have : r1 = .pair a d := by simpa using he
            subst this
            have hjust : Justified ops ef (.pair a d) (.pair a d) :=
              ⟨N + 1, fun N' h' => by
                obtain ⟨k, rfl⟩ : ∃ k, N' = k + 1 := ⟨N' - 1, by omega⟩
                simp only [optimizeSexp, hN k (by omega), beq_self_eq_true, if_true]⟩
            refine ⟨?_, fun y h => ?_⟩
            · intro k v hk
              rw [memoGet_cons] at hk
              split at hk
              · rename_i hk1
                have : key = k := by simpa using hk1
                subst this
                cases hk
                exact hreach _ hjust
              · rw [memoGet_cons] at hk
                split at hk
                · rename_i hk2
                  have : Val.pair a d = k := by simpa using hk2
                  subst this
                  cases hk
                  exact hjust
                · exact hm1 k v hk
            · simp only [Except.ok.injEq] at h
              subst h
              exact hjust
          · rename_i he
            have hstep : ∀ y, Justified ops ef r1 y → Justified ops ef (.pair a d) y := by
              rintro y ⟨N2, h2⟩
              refine ⟨max N N2 + 1, fun N' h' => ?_⟩
              obtain ⟨k, rfl⟩ : ∃ k, N' = k + 1 := ⟨N' - 1, by omega⟩
              simp only [optimizeSexp, hN k (by omega)]
              rw [if_neg he]
              exact h2 k (by omega)
            obtain ⟨hm2, hl⟩ := ih m1 key r1 hm1 (fun y h => hreach y (hstep y h))
            refine ⟨hm2, fun y h => ?_⟩
            obtain ⟨N3, h3⟩ := hl y h
            exact hstep y ⟨N3, h3⟩

/-- **memo transparency**. -/
theorem optimizeSexpM_spec (sel : Memo → Val → Bool) (n : Nat) : RecMOK ops ef (optimizeSexpM ops ef sel n) :=
  withMemo_ok fun m x hm => loopM_spec sel n m x x hm (fun _ h => h)

end Opt
