/-
  Proofs/InlineLemmas.lean — lemmas about the inline-expansion model `Inl.expand`
  (Lang/Inline.lean) used by Props/C10.lean §2.
-/
import ChialispModel.Lang.Inline

namespace Inl

-- unfolding equations ----------------------------------------------------------------------------

@[simp] theorem expand_zero (P : Prog) (vis : List Name) (cur : Name) (e : Expr) :
    expand P 0 vis cur e = .fuel := by
  cases e <;> simp [expand]

@[simp] theorem expandArgs_zero (P : Prog) (vis : List Name) (cur : Name) (a : Exprs) :
    expandArgs P 0 vis cur a = .fuel := by
  cases a <;> simp [expandArgs]

@[simp] theorem expandTail_zero (P : Prog) (vis : List Name) (cur : Name) (t : Tail) :
    expandTail P 0 vis cur t = .fuel := by
  cases t <;> simp [expandTail]

/-- what the head lookup does once arguments and tail are through. -/
def headStep (P : Prog) (f : Nat) (vis : List Name) (cur : Name) : Head → Res
  | .nonAtom => .notCallable
  | .atom n =>
    match classify P n with
    | .inline body => if vis.contains n then .recursive cur else expand P f (n :: vis) n body
    | .plain => .ok
    | .unknown => .noSuchCallable n

theorem expand_call (P : Prog) (f : Nat) (vis : List Name) (cur : Name) (h : Head) (args : Exprs)
    (tail : Tail) :
    expand P (f + 1) vis cur (.call h args tail) =
      match expandArgs P f vis cur args with
      | .ok =>
        match expandTail P f vis cur tail with
        | .ok => headStep P f vis cur h
        | e => e
      | e => e := by
  simp only [expand, headStep]
  cases expandArgs P f vis cur args <;> simp only []
  cases expandTail P f vis cur tail <;> simp only []
  cases h with
  | nonAtom => rfl
  | atom n => simp only []; cases classify P n <;> rfl

theorem expand_lambda (P : Prog) (f : Nat) (vis : List Name) (cur : Name) (c : Expr) :
    expand P (f + 1) vis cur (.lambda c) = expand P f vis cur c := by
  simp [expand]

theorem expandArgs_cons (P : Prog) (f : Nat) (vis : List Name) (cur : Name) (e : Expr) (r : Exprs) :
    expandArgs P (f + 1) vis cur (.cons e r) =
      match expand P f vis cur e with
      | .ok => expandArgs P f vis cur r
      | x => x := by
  simp only [expandArgs]
  cases expand P f vis cur e <;> rfl

theorem expandTail_some (P : Prog) (f : Nat) (vis : List Name) (cur : Name) (e : Expr) :
    expandTail P (f + 1) vis cur (.some e) = expand P f vis cur e := by
  simp [expandTail]

/-- case analysis of a call's result. -/
theorem expand_call_cases (P : Prog) (f : Nat) (vis : List Name) (cur : Name) (h : Head)
    (args : Exprs) (tail : Tail) :
    (expandArgs P f vis cur args ≠ .ok ∧
      expand P (f + 1) vis cur (.call h args tail) = expandArgs P f vis cur args) ∨
    (expandArgs P f vis cur args = .ok ∧ expandTail P f vis cur tail ≠ .ok ∧
      expand P (f + 1) vis cur (.call h args tail) = expandTail P f vis cur tail) ∨
    (expandArgs P f vis cur args = .ok ∧ expandTail P f vis cur tail = .ok ∧
      expand P (f + 1) vis cur (.call h args tail) = headStep P f vis cur h) := by
  rw [expand_call]
  cases expandArgs P f vis cur args <;> simp
  cases expandTail P f vis cur tail <;> simp

theorem expandArgs_cons_cases (P : Prog) (f : Nat) (vis : List Name) (cur : Name) (e : Expr)
    (r : Exprs) :
    (expand P f vis cur e ≠ .ok ∧
      expandArgs P (f + 1) vis cur (.cons e r) = expand P f vis cur e) ∨
    (expand P f vis cur e = .ok ∧
      expandArgs P (f + 1) vis cur (.cons e r) = expandArgs P f vis cur r) := by
  rw [expandArgs_cons]
  cases expand P f vis cur e <;> simp

-- more fuel never changes an answer ---------------------------------------------------------------

theorem headStep_mono (P : Prog) (n : Nat)
    (ihE : ∀ vis cur e, expand P n vis cur e ≠ .fuel →
      expand P (n + 1) vis cur e = expand P n vis cur e)
    (vis : List Name) (cur : Name) (h : Head) (hne : headStep P n vis cur h ≠ .fuel) :
    headStep P (n + 1) vis cur h = headStep P n vis cur h := by
  cases h with
  | nonAtom => rfl
  | atom m =>
    simp only [headStep] at hne ⊢
    cases hc : classify P m with
    | plain => rfl
    | unknown => rfl
    | inline b =>
      simp only [hc] at hne ⊢
      by_cases hv : vis.contains m = true
      · simp only [hv, ↓reduceIte]
      · simp only [hv] at hne ⊢
        exact ihE _ _ _ hne

theorem mono_step (P : Prog) : ∀ n,
    (∀ vis cur e, expand P n vis cur e ≠ .fuel →
      expand P (n + 1) vis cur e = expand P n vis cur e) ∧
    (∀ vis cur a, expandArgs P n vis cur a ≠ .fuel →
      expandArgs P (n + 1) vis cur a = expandArgs P n vis cur a) ∧
    (∀ vis cur t, expandTail P n vis cur t ≠ .fuel →
      expandTail P (n + 1) vis cur t = expandTail P n vis cur t) := by
  intro n
  induction n with
  | zero => simp
  | succ n ih =>
    obtain ⟨ihE, ihA, ihT⟩ := ih
    refine ⟨?_, ?_, ?_⟩
    · intro vis cur e hne
      cases e with
      | arg => simp [expand]
      | other => simp [expand]
      | letForm => simp [expand]
      | lambda c =>
        rw [expand_lambda] at hne
        rw [expand_lambda, expand_lambda]
        exact ihE _ _ _ hne
      | call h args tail =>
        have hA := ihA vis cur args
        have hT := ihT vis cur tail
        have hH := headStep_mono P n ihE vis cur h
        rw [expand_call] at hne
        rw [expand_call, expand_call]
        cases hx : expandArgs P n vis cur args <;> simp only [hx] at hA hne ⊢ <;>
          simp only [ne_eq, reduceCtorEq, not_false_eq_true, not_true_eq_false, forall_const] at hA hne <;>
          simp only [hA]
        cases hy : expandTail P n vis cur tail <;> simp only [hy] at hT hne ⊢ <;>
          simp only [ne_eq, reduceCtorEq, not_false_eq_true, not_true_eq_false, forall_const] at hT hne <;>
          simp only [hT]
        exact hH hne
    · intro vis cur a hne
      cases a with
      | nil => simp [expandArgs]
      | cons e r =>
        have hE := ihE vis cur e
        have hA := ihA vis cur r
        rw [expandArgs_cons] at hne
        rw [expandArgs_cons, expandArgs_cons]
        cases hx : expand P n vis cur e <;> simp only [hx] at hE hne ⊢ <;>
          simp only [ne_eq, reduceCtorEq, not_false_eq_true, not_true_eq_false, forall_const] at hE hne <;>
          simp only [hE]
        exact hA hne
    · intro vis cur t hne
      cases t with
      | none => simp [expandTail]
      | some e =>
        rw [expandTail_some] at hne
        rw [expandTail_some, expandTail_some]
        exact ihE _ _ _ hne

theorem expand_mono (P : Prog) (vis : List Name) (cur : Name) (e : Expr) (n m : Nat)
    (hn : expand P n vis cur e ≠ .fuel) (hm : n ≤ m) :
    expand P m vis cur e = expand P n vis cur e := by
  induction m with
  | zero =>
    have : n = 0 := by omega
    subst this; rfl
  | succ m ih =>
    by_cases h : n = m + 1
    · subst h; rfl
    · have h' : n ≤ m := by omega
      have ih' := ih h'
      rw [← ih'] at hn
      rw [(mono_step P m).1 vis cur e hn, ih']

-- termination ------------------------------------------------------------------------------------

theorem lookupInline_mem {n : Name} {b : Expr} : ∀ {l : List (Name × Expr)},
    lookupInline n l = some b → (n, b) ∈ l
  | [], h => by simp [lookupInline] at h
  | (m, c) :: r, h => by
    simp only [lookupInline] at h
    by_cases hm : (m == n) = true
    · simp only [hm, ↓reduceIte, Option.some.injEq] at h
      have : m = n := by simpa using hm
      subst this; subst h
      exact List.mem_cons_self
    · simp only [hm] at h
      exact List.mem_cons_of_mem _ (lookupInline_mem h)

theorem classify_inline_lookup {P : Prog} {n : Name} {b : Expr} (h : classify P n = .inline b) :
    lookupInline n P.inlines = some b := by
  unfold classify at h
  split at h
  · cases h
  · split at h
    · next b' hb => cases h; exact hb
    · split at h <;> cases h

theorem classify_inline_mem {P : Prog} {n : Name} {b : Expr} (h : classify P n = .inline b) :
    (n, b) ∈ P.inlines :=
  lookupInline_mem (classify_inline_lookup h)

theorem size_le_maxBody {n : Name} {b : Expr} : ∀ {l : List (Name × Expr)},
    (n, b) ∈ l → b.size ≤ maxBody l
  | [], h => by cases h
  | (m, c) :: r, h => by
    simp only [maxBody]
    rcases List.mem_cons.1 h with h | h
    · cases h; exact Nat.le_max_left _ _
    · exact Nat.le_trans (size_le_maxBody h) (Nat.le_max_right _ _)

theorem filter_length_le {α} (p q : α → Bool) (hpq : ∀ x, q x = true → p x = true) :
    ∀ (l : List α), (l.filter q).length ≤ (l.filter p).length
  | [] => by simp
  | y :: r => by
    have ih := filter_length_le p q hpq r
    simp only [List.filter_cons]
    by_cases hq : q y = true
    · simp [hq, hpq y hq]; exact ih
    · simp only [hq]
      by_cases hp : p y = true
      · simp [hp]; omega
      · simp [hp]; exact ih

theorem filter_length_lt {α} (p q : α → Bool) (a : α) (hpq : ∀ x, q x = true → p x = true)
    (hpa : p a = true) (hqa : q a = false) : ∀ (l : List α),
    a ∈ l → (l.filter q).length < (l.filter p).length
  | [], h => by cases h
  | x :: r, h => by
    have hle := filter_length_le p q hpq r
    rcases List.mem_cons.1 h with h | h
    · subst h
      simp [hpa, hqa]; omega
    · have ih := filter_length_lt p q a hpq hpa hqa r h
      simp only [List.filter_cons]
      by_cases hq : q x = true
      · simp [hq, hpq x hq]; exact ih
      · simp only [hq]
        by_cases hp : p x = true
        · simp [hp]; omega
        · simp [hp]; exact ih

theorem unvisited_lt {P : Prog} {vis : List Name} {n : Name} {b : Expr}
    (hc : classify P n = .inline b) (hv : vis.contains n = false) :
    unvisited P (n :: vis) < unvisited P vis := by
  unfold unvisited
  apply filter_length_lt _ _ n
  · intro x hx
    simp at hx ⊢
    exact hx.2
  · simpa using hv
  · simp
  · exact List.mem_map.2 ⟨(n, b), classify_inline_mem hc, rfl⟩

theorem terminates_aux (P : Prog) (K : Nat)
    (hK : ∀ n b, classify P n = .inline b → b.size < K) : ∀ fuel,
    (∀ vis cur e, e.size + unvisited P vis * K + 1 ≤ fuel → expand P fuel vis cur e ≠ .fuel) ∧
    (∀ vis cur a, a.size + unvisited P vis * K + 1 ≤ fuel →
      expandArgs P fuel vis cur a ≠ .fuel) ∧
    (∀ vis cur t, t.size + unvisited P vis * K + 1 ≤ fuel →
      expandTail P fuel vis cur t ≠ .fuel) := by
  intro fuel
  induction fuel with
  | zero => refine ⟨?_, ?_, ?_⟩ <;> intros <;> omega
  | succ f ih =>
    obtain ⟨ihE, ihA, ihT⟩ := ih
    refine ⟨?_, ?_, ?_⟩
    · intro vis cur e hb
      cases e with
      | arg => simp [expand]
      | other => simp [expand]
      | letForm => simp [expand]
      | lambda c =>
        rw [expand_lambda]
        simp only [Expr.size] at hb
        exact ihE _ _ _ (by omega)
      | call h args tail =>
        simp only [Expr.size] at hb
        rcases expand_call_cases P f vis cur h args tail with ⟨_, h2⟩ | ⟨_, _, h3⟩ | ⟨_, _, h3⟩
        · rw [h2]; exact ihA _ _ _ (by omega)
        · rw [h3]; exact ihT _ _ _ (by omega)
        · rw [h3]
          cases h with
          | nonAtom => simp [headStep]
          | atom m =>
            simp only [headStep]
            cases hc : classify P m with
            | plain => simp
            | unknown => simp
            | inline b =>
              simp only []
              by_cases hv : vis.contains m = true
              · simp only [hv, ↓reduceIte]; simp
              · simp only [hv]
                have hlt := unvisited_lt hc (by simpa using hv)
                have hmul : (unvisited P (m :: vis) + 1) * K ≤ unvisited P vis * K :=
                  Nat.mul_le_mul_right K hlt
                rw [Nat.add_mul, Nat.one_mul] at hmul
                have hs := hK m b hc
                exact ihE _ _ _ (by omega)
    · intro vis cur a hb
      cases a with
      | nil => simp [expandArgs]
      | cons e r =>
        simp only [Exprs.size] at hb
        rcases expandArgs_cons_cases P f vis cur e r with ⟨_, h2⟩ | ⟨_, h2⟩
        · rw [h2]; exact ihE _ _ _ (by omega)
        · rw [h2]; exact ihA _ _ _ (by omega)
    · intro vis cur t hb
      cases t with
      | none => simp [expandTail]
      | some e =>
        simp only [Tail.size] at hb
        rw [expandTail_some]; exact ihE _ _ _ (by omega)

theorem expand_terminates (P : Prog) (vis : List Name) (cur : Name) (e : Expr) (fuel : Nat)
    (h : bound P vis e ≤ fuel) : expand P fuel vis cur e ≠ .fuel := by
  refine (terminates_aux P (maxBody P.inlines + 1) ?_ fuel).1 vis cur e h
  intro n b hc
  exact Nat.lt_succ_of_le (size_le_maxBody (classify_inline_mem hc))

-- the call graph ---------------------------------------------------------------------------------

/-- a path `g₀ → g₁ → … → gₖ` in the inline call graph. -/
def IsPath (P : Prog) : List Name → Prop
  | [] => True
  | [_] => True
  | g :: h :: r => edge P g h = true ∧ IsPath P (h :: r)

/-- `h` is reachable from `g` by zero or more edges. -/
def Reach (P : Prog) (g h : Name) : Prop :=
  ∃ p : List Name, IsPath P (g :: p) ∧ (g :: p).getLast? = some h

/-- `g` lies on a cycle: some edge `g → h` with `g` reachable back from `h`. -/
def OnCycle (P : Prog) (g : Name) : Prop := ∃ h, edge P g h = true ∧ Reach P h g

instance IsPath.decidable (P : Prog) : ∀ l : List Name, Decidable (IsPath P l)
  | [] => isTrue trivial
  | [_] => isTrue trivial
  | g :: h :: r =>
    have := IsPath.decidable P (h :: r)
    inferInstanceAs (Decidable (edge P g h = true ∧ IsPath P (h :: r)))

theorem Reach.refl (P : Prog) (g : Name) : Reach P g g := ⟨[], trivial, rfl⟩

theorem Reach.head {P : Prog} {g h k : Name} (he : edge P g h = true) (hr : Reach P h k) :
    Reach P g k := by
  obtain ⟨p, hp, hl⟩ := hr
  exact ⟨h :: p, ⟨he, hp⟩, by rw [List.getLast?_cons_cons]; exact hl⟩

theorem Reach.trans {P : Prog} {g h k : Name} (h1 : Reach P g h) (h2 : Reach P h k) :
    Reach P g k := by
  obtain ⟨p, hp, hl⟩ := h1
  induction p generalizing g with
  | nil =>
    simp at hl
    subst hl; exact h2
  | cons x p ih =>
    rw [List.getLast?_cons_cons] at hl
    exact Reach.head hp.1 (ih hp.2 hl)

theorem Reach.tail {P : Prog} {g h k : Name} (hr : Reach P g h) (he : edge P h k = true) :
    Reach P g k :=
  hr.trans (Reach.head he (Reach.refl P k))

theorem edge_iff {P : Prog} {g h : Name} :
    edge P g h = true ↔ ∃ b, classify P g = .inline b ∧ h ∈ heads b ∧ isInline P h = true := by
  unfold edge
  cases hc : classify P g with
  | inline b => simp
  | plain => simp
  | unknown => simp

theorem isInline_iff {P : Prog} {h : Name} :
    isInline P h = true ↔ ∃ b, classify P h = .inline b := by
  unfold isInline
  cases hc : classify P h <;> simp

theorem isPath_append {P : Prog} {x h : Name} {q : List Name} (he : edge P x h = true)
    (hq : IsPath P (h :: q)) : ∀ (p : List Name) (g : Name), IsPath P (g :: p) →
    (g :: p).getLast? = some x → IsPath P ((g :: p) ++ (h :: q))
  | [], g, _, hl => by
    simp at hl
    subst hl
    exact ⟨he, hq⟩
  | y :: p, g, hp, hl => by
    rw [List.getLast?_cons_cons] at hl
    exact ⟨hp.1, isPath_append he hq p y hp.2 hl⟩

-- a successful expansion has expanded every inline callee below it ------------------------------

/-- every inline head in `l` is unvisited and its body expands successfully with it added. -/
def OkHeads (P : Prog) (vis : List Name) (l : List Name) : Prop :=
  ∀ h ∈ l, ∀ b, classify P h = .inline b →
    vis.contains h = false ∧ ∃ fuel', expand P fuel' (h :: vis) h b = .ok

theorem headStep_atom_inline {P : Prog} {f : Nat} {vis : List Name} {cur m : Name} {b : Expr}
    (hc : classify P m = .inline b) :
    headStep P f vis cur (.atom m) =
      if vis.contains m then .recursive cur else expand P f (m :: vis) m b := by
  simp only [headStep, hc]

theorem ok_heads (P : Prog) : ∀ fuel,
    (∀ vis cur e, expand P fuel vis cur e = .ok → OkHeads P vis (heads e)) ∧
    (∀ vis cur a, expandArgs P fuel vis cur a = .ok → OkHeads P vis (headsArgs a)) ∧
    (∀ vis cur t, expandTail P fuel vis cur t = .ok → OkHeads P vis (headsTail t)) := by
  intro fuel
  induction fuel with
  | zero => simp
  | succ f ih =>
    obtain ⟨ihE, ihA, ihT⟩ := ih
    refine ⟨?_, ?_, ?_⟩
    · intro vis cur e hok
      cases e with
      | arg => intro x hx; simp [heads] at hx
      | other => intro x hx; simp [heads] at hx
      | letForm => intro x hx; simp [heads] at hx
      | lambda c =>
        rw [expand_lambda] at hok
        simp only [heads]
        exact ihE _ _ _ hok
      | call h args tail =>
        rcases expand_call_cases P f vis cur h args tail with ⟨h1, h2⟩ | ⟨_, h2, h3⟩ | ⟨h1, h2, h3⟩
        · rw [h2] at hok; exact absurd hok h1
        · rw [h3] at hok; exact absurd hok h2
        · rw [h3] at hok
          have hA := ihA _ _ _ h1
          have hT := ihT _ _ _ h2
          cases h with
          | nonAtom => simp [headStep] at hok
          | atom m =>
            intro x hx
            simp only [heads, List.mem_append, List.mem_singleton] at hx
            rcases hx with (hx | hx) | hx
            · exact hA x hx
            · exact hT x hx
            · subst hx
              intro b hb
              rw [headStep_atom_inline hb] at hok
              by_cases hv : vis.contains x = true
              · simp only [hv, ↓reduceIte, reduceCtorEq] at hok
              · simp only [hv] at hok
                exact ⟨by simpa using hv, f, hok⟩
    · intro vis cur a hok
      cases a with
      | nil => intro x hx; simp [headsArgs] at hx
      | cons e r =>
        rcases expandArgs_cons_cases P f vis cur e r with ⟨h1, h2⟩ | ⟨h1, h2⟩
        · rw [h2] at hok; exact absurd hok h1
        · rw [h2] at hok
          intro x hx
          simp only [headsArgs, List.mem_append] at hx
          rcases hx with hx | hx
          · exact ihE _ _ _ h1 x hx
          · exact ihA _ _ _ hok x hx
    · intro vis cur t hok
      cases t with
      | none => intro x hx; simp [headsTail] at hx
      | some e =>
        rw [expandTail_some] at hok
        simp only [headsTail]
        exact ihE _ _ _ hok

/-- along any path from a successfully expanded function, nothing is visited twice. -/
theorem ok_path_nodup (P : Prog) : ∀ (p : List Name) (fuel : Nat) (vis : List Name) (c : Name)
    (b : Expr), classify P c = .inline b → expand P fuel vis c b = .ok → IsPath P (c :: p) →
    (∀ x ∈ p, x ∉ vis) ∧ p.Nodup
  | [], _, _, _, _, _, _, _ => by simp
  | g :: p, fuel, vis, c, b, hc, hok, hp => by
    obtain ⟨he, hp'⟩ := hp
    obtain ⟨b', hb', hg, hi⟩ := edge_iff.1 he
    rw [hc] at hb'; cases hb'
    obtain ⟨bg, hbg⟩ := isInline_iff.1 hi
    obtain ⟨hv, fuel', hok'⟩ := (ok_heads P fuel).1 vis c b hok g hg bg hbg
    obtain ⟨ih1, ih2⟩ := ok_path_nodup P p fuel' (g :: vis) g bg hbg hok' hp'
    refine ⟨?_, ?_⟩
    · intro x hx
      rcases List.mem_cons.1 hx with hx | hx
      · subst hx; simpa using hv
      · exact fun hm => ih1 x hx (List.mem_cons_of_mem _ hm)
    · exact List.nodup_cons.2 ⟨fun hm => ih1 g hm List.mem_cons_self, ih2⟩

theorem expandTop_ok_paths_nodup (P : Prog) (f : Name) (fuel : Nat)
    (h : expandTop P fuel f = .ok) (hf : isInline P f = true) (p : List Name)
    (hp : IsPath P (f :: p)) : (f :: p).Nodup := by
  obtain ⟨b, hb⟩ := isInline_iff.1 hf
  simp only [expandTop, hb] at h
  obtain ⟨h1, h2⟩ := ok_path_nodup P p fuel [f] f b hb h hp
  exact List.nodup_cons.2 ⟨fun hm => h1 f hm List.mem_cons_self, h2⟩

theorem expandCall_eq_expandTop (P : Prog) (f : Name) :
    ∃ fuel, expandCall P f = expandTop P fuel f := by
  unfold expandCall expandTop
  cases hc : classify P f with
  | inline b => exact ⟨_, rfl⟩
  | plain => exact ⟨0, rfl⟩
  | unknown => exact ⟨0, rfl⟩

theorem expandCall_ne_fuel (P : Prog) (f : Name) : expandCall P f ≠ .fuel := by
  unfold expandCall
  cases hc : classify P f with
  | inline b => exact expand_terminates P [f] f b _ (Nat.le_refl _)
  | plain => simp
  | unknown => simp

theorem expandTop_cycle_not_ok (P : Prog) (f g : Name) (hf : isInline P f = true)
    (hr : Reach P f g) (hc : OnCycle P g) (fuel : Nat) : expandTop P fuel f ≠ .ok := by
  intro hok
  obtain ⟨p, hp, hl⟩ := hr
  obtain ⟨h, he, q, hq, hl'⟩ := hc
  have hpath := isPath_append he hq p f hp hl
  have hnd := expandTop_ok_paths_nodup P f fuel hok hf (p ++ (h :: q)) hpath
  rw [← List.cons_append, List.nodup_append] at hnd
  exact hnd.2.2 g (List.mem_of_getLast? hl) g (List.mem_of_getLast? hl') rfl

-- the recursion error is only raised on a cycle --------------------------------------------------

/-- what is known while expanding inside the body `bcur` of `cur`, started from `f`. -/
structure SInv (P : Prog) (f : Name) (vis : List Name) (cur : Name) (bcur : Expr) : Prop where
  hc : classify P cur = .inline bcur
  hf : Reach P f cur
  hv : ∀ v ∈ vis, Reach P v cur

theorem heads_call_args {h : Head} {args : Exprs} {tail : Tail} {x : Name}
    (hx : x ∈ headsArgs args) : x ∈ heads (.call h args tail) := by
  cases h <;> simp [heads, hx]

theorem heads_call_tail {h : Head} {args : Exprs} {tail : Tail} {x : Name}
    (hx : x ∈ headsTail tail) : x ∈ heads (.call h args tail) := by
  cases h <;> simp [heads, hx]

theorem recursive_sound_aux (P : Prog) (f : Name) : ∀ fuel,
    (∀ vis cur e bcur m, expand P fuel vis cur e = .recursive m → SInv P f vis cur bcur →
      (∀ h ∈ heads e, h ∈ heads bcur) → Reach P f m ∧ OnCycle P m) ∧
    (∀ vis cur a bcur m, expandArgs P fuel vis cur a = .recursive m → SInv P f vis cur bcur →
      (∀ h ∈ headsArgs a, h ∈ heads bcur) → Reach P f m ∧ OnCycle P m) ∧
    (∀ vis cur t bcur m, expandTail P fuel vis cur t = .recursive m → SInv P f vis cur bcur →
      (∀ h ∈ headsTail t, h ∈ heads bcur) → Reach P f m ∧ OnCycle P m) := by
  intro fuel
  induction fuel with
  | zero => simp
  | succ n ih =>
    obtain ⟨ihE, ihA, ihT⟩ := ih
    refine ⟨?_, ?_, ?_⟩
    · intro vis cur e bcur m hr inv hsub
      cases e with
      | arg => simp [expand] at hr
      | other => simp [expand] at hr
      | letForm => simp [expand] at hr
      | lambda c =>
        rw [expand_lambda] at hr
        simp only [heads] at hsub
        exact ihE _ _ _ _ _ hr inv hsub
      | call h args tail =>
        rcases expand_call_cases P n vis cur h args tail with ⟨_, h2⟩ | ⟨_, _, h3⟩ | ⟨_, _, h3⟩
        · rw [h2] at hr
          exact ihA _ _ _ _ _ hr inv (fun x hx => hsub x (heads_call_args hx))
        · rw [h3] at hr
          exact ihT _ _ _ _ _ hr inv (fun x hx => hsub x (heads_call_tail hx))
        · rw [h3] at hr
          cases h with
          | nonAtom => simp [headStep] at hr
          | atom x =>
            have hxm : x ∈ heads bcur := hsub x (by simp [heads])
            cases hcx : classify P x with
            | plain => simp [headStep, hcx] at hr
            | unknown => simp [headStep, hcx] at hr
            | inline b =>
              have hedge : edge P cur x = true :=
                edge_iff.2 ⟨bcur, inv.hc, hxm, isInline_iff.2 ⟨b, hcx⟩⟩
              rw [headStep_atom_inline hcx] at hr
              by_cases hv : vis.contains x = true
              · simp only [hv, ↓reduceIte, Res.recursive.injEq] at hr
                subst hr
                exact ⟨inv.hf, x, hedge, inv.hv x (by simpa using hv)⟩
              · simp only [hv] at hr
                refine ihE _ _ _ b _ hr ⟨hcx, inv.hf.tail hedge, ?_⟩ (fun _ hh => hh)
                intro v hv'
                rcases List.mem_cons.1 hv' with hv' | hv'
                · subst hv'; exact Reach.refl P v
                · exact (inv.hv v hv').tail hedge
    · intro vis cur a bcur m hr inv hsub
      cases a with
      | nil => simp [expandArgs] at hr
      | cons e r =>
        simp only [headsArgs, List.mem_append] at hsub
        rcases expandArgs_cons_cases P n vis cur e r with ⟨_, h2⟩ | ⟨_, h2⟩
        · rw [h2] at hr
          exact ihE _ _ _ _ _ hr inv (fun x hx => hsub x (Or.inl hx))
        · rw [h2] at hr
          exact ihA _ _ _ _ _ hr inv (fun x hx => hsub x (Or.inr hx))
    · intro vis cur t bcur m hr inv hsub
      cases t with
      | none => simp [expandTail] at hr
      | some e =>
        rw [expandTail_some] at hr
        simp only [headsTail] at hsub
        exact ihE _ _ _ _ _ hr inv hsub

theorem expandTop_recursive_sound (P : Prog) (f n : Name) (fuel : Nat)
    (h : expandTop P fuel f = .recursive n) : Reach P f n ∧ OnCycle P n := by
  unfold expandTop at h
  cases hc : classify P f with
  | plain => simp [hc] at h
  | unknown => simp [hc] at h
  | inline b =>
    simp only [hc] at h
    refine (recursive_sound_aux P f fuel).1 [f] f b b n h ⟨hc, Reach.refl P f, ?_⟩ (fun _ hh => hh)
    intro v hv
    simp at hv
    subst hv; exact Reach.refl P v

-- well-formed programs only fail with the recursion error ----------------------------------------

mutual
/-- no un-hoisted `let` in a visited position, every call head an atom `get_callable` resolves. -/
def wfExpr (P : Prog) : Expr → Bool
  | .arg => true
  | .other => true
  | .letForm => false
  | .lambda c => wfExpr P c
  | .call (.atom n) args tail =>
    wfExprs P args && wfTail P tail &&
      (match classify P n with
       | .unknown => false
       | _ => true)
  | .call .nonAtom _ _ => false
def wfExprs (P : Prog) : Exprs → Bool
  | .nil => true
  | .cons e r => wfExpr P e && wfExprs P r
def wfTail (P : Prog) : Tail → Bool
  | .none => true
  | .some e => wfExpr P e
end

def wfProg (P : Prog) : Bool := P.inlines.all (fun nb => wfExpr P nb.2)

/-- results a well-formed program can produce. -/
def Res.benign : Res → Prop
  | .ok => True
  | .recursive _ => True
  | .fuel => True
  | _ => False

theorem wfProg_body {P : Prog} (hwf : wfProg P = true) {n : Name} {b : Expr}
    (hc : classify P n = .inline b) : wfExpr P b = true := by
  unfold wfProg at hwf
  exact List.all_eq_true.1 hwf (n, b) (classify_inline_mem hc)

theorem wf_benign (P : Prog) (hwf : wfProg P = true) : ∀ fuel,
    (∀ vis cur e, wfExpr P e = true → (expand P fuel vis cur e).benign) ∧
    (∀ vis cur a, wfExprs P a = true → (expandArgs P fuel vis cur a).benign) ∧
    (∀ vis cur t, wfTail P t = true → (expandTail P fuel vis cur t).benign) := by
  intro fuel
  induction fuel with
  | zero => simp [Res.benign]
  | succ n ih =>
    obtain ⟨ihE, ihA, ihT⟩ := ih
    refine ⟨?_, ?_, ?_⟩
    · intro vis cur e hw
      cases e with
      | arg => simp [expand, Res.benign]
      | other => simp [expand, Res.benign]
      | letForm => simp [wfExpr] at hw
      | lambda c =>
        rw [expand_lambda]
        simp only [wfExpr] at hw
        exact ihE _ _ _ hw
      | call h args tail =>
        cases h with
        | nonAtom => simp [wfExpr] at hw
        | atom x =>
          simp only [wfExpr, Bool.and_eq_true] at hw
          obtain ⟨⟨hwa, hwt⟩, hwx⟩ := hw
          rcases expand_call_cases P n vis cur (.atom x) args tail with
            ⟨_, h2⟩ | ⟨_, _, h3⟩ | ⟨_, _, h3⟩
          · rw [h2]; exact ihA _ _ _ hwa
          · rw [h3]; exact ihT _ _ _ hwt
          · rw [h3]
            cases hcx : classify P x with
            | plain => simp [headStep, hcx, Res.benign]
            | unknown => simp [hcx] at hwx
            | inline b =>
              rw [headStep_atom_inline hcx]
              by_cases hv : vis.contains x = true
              · simp only [hv, ↓reduceIte, Res.benign]
              · simp only [hv]
                exact ihE _ _ _ (wfProg_body hwf hcx)
    · intro vis cur a hw
      cases a with
      | nil => simp [expandArgs, Res.benign]
      | cons e r =>
        simp only [wfExprs, Bool.and_eq_true] at hw
        rcases expandArgs_cons_cases P n vis cur e r with ⟨_, h2⟩ | ⟨_, h2⟩
        · rw [h2]; exact ihE _ _ _ hw.1
        · rw [h2]; exact ihA _ _ _ hw.2
    · intro vis cur t hw
      cases t with
      | none => simp [expandTail, Res.benign]
      | some e =>
        rw [expandTail_some]
        simp only [wfTail] at hw
        exact ihE _ _ _ hw

theorem expandCall_wf (P : Prog) (hwf : wfProg P = true) (f : Name) (hf : isInline P f = true) :
    expandCall P f = .ok ∨ ∃ n, expandCall P f = .recursive n := by
  have hne := expandCall_ne_fuel P f
  obtain ⟨b, hb⟩ := isInline_iff.1 hf
  have hben : (expandCall P f).benign := by
    simp only [expandCall, hb]
    exact (wf_benign P hwf _).1 _ _ _ (wfProg_body hwf hb)
  cases hx : expandCall P f with
  | ok => exact Or.inl rfl
  | recursive n => exact Or.inr ⟨n, rfl⟩
  | fuel => exact absurd hx hne
  | letErr => simp [hx, Res.benign] at hben
  | notCallable => simp [hx, Res.benign] at hben
  | noSuchCallable n => simp [hx, Res.benign] at hben

theorem expandCall_cycle_error (P : Prog) (hwf : wfProg P = true) (f g : Name)
    (hf : isInline P f = true) (hr : Reach P f g) (hc : OnCycle P g) :
    ∃ n, expandCall P f = .recursive n ∧ Reach P f n ∧ OnCycle P n := by
  obtain ⟨fuel, hfu⟩ := expandCall_eq_expandTop P f
  rcases expandCall_wf P hwf f hf with hok | ⟨n, hn⟩
  · rw [hfu] at hok
    exact absurd hok (expandTop_cycle_not_ok P f g hf hr hc fuel)
  · refine ⟨n, hn, ?_⟩
    rw [hfu] at hn
    exact expandTop_recursive_sound P f n fuel hn

theorem expandCall_acyclic_ok (P : Prog) (hwf : wfProg P = true) (f : Name)
    (hf : isInline P f = true) (hno : ∀ g, Reach P f g → ¬ OnCycle P g) :
    expandCall P f = .ok := by
  obtain ⟨fuel, hfu⟩ := expandCall_eq_expandTop P f
  rcases expandCall_wf P hwf f hf with hok | ⟨n, hn⟩
  · exact hok
  · rw [hfu] at hn
    obtain ⟨h1, h2⟩ := expandTop_recursive_sound P f n fuel hn
    exact absurd h2 (hno n h1)

end Inl
