/-
  Props/C13.lean — property theorems for C13 (symbol tables describe the emitted program).

  Proved here, for every CLVM tree and any hash function: `pathToFunction` (the search
  `path_to_function` in compiler.rs performs) returns a path that really selects a subtree
  with the requested tree hash, and finds one whenever such a subtree exists.
-/
import ChialispModel.Lang.Symbols
import ChialispModel.Proofs.SymbolsLemmas

namespace C13

/-- a path returned by `path_to_function` selects a subtree with the requested hash. -/
theorem path_to_function_correct (H : Bytes → Bytes) (prog : Val) (h : Bytes) (p : Nat)
    (hp : Lang.pathToFunction H prog h = some p) :
    ∃ sub, Path.lookupNat p prog = .ok sub ∧ Val.treeHash H sub = h :=
  Lang.pathToFunction_correct H prog h p hp

/-- …and the search is complete: if some subtree has the hash, a path is returned. -/
theorem path_to_function_complete (H : Bytes → Bytes) (prog sub : Val) (h : Bytes)
    (hs : Lang.Subtree sub prog) (hh : Val.treeHash H sub = h) :
    (Lang.pathToFunction H prog h).isSome = true :=
  Lang.pathToFunction_complete H prog sub h hs hh

end C13
