/-
  Props/C13.lean — property theorems for C13 (symbol tables describe the emitted program).

  FULL PROPERTY (properties.jsonl): for every successful compilation that reports symbols
  (all modern dialects, optimised or not, every language feature): whenever an entry's key is
  the tree hash of code occurring in the emitted program, the entry's value is the source name
  of the function that code implements, `<key>_arguments` is that function's argument list, and
  extracting the code through the entry and running it gives what the source-level call gives;
  in unoptimised builds every reachable non-inline function has such an entry and its code
  occurs in the program.

  PROVED HERE (kernel-checked, all inputs):
  * for every CLVM tree and hash function: `path_to_function` is sound and complete
    (`path_to_function_correct`, `path_to_function_complete`);
  * `…_partial`, for the CORE language of Lang/Core.lean (mod + non-inline, possibly recursive
    functions with arbitrary parameter patterns + operators + lazy `if` + calls), NON-OPTIMISING
    build, every well-formed core program (`Core.progWF`), every hash function `H`:
    the table `Core.compileCoreSyms` returns next to the emitted program — it is byte-tied to the
    real `compile_file` table and to the real `extract_program_and_env` / `path_to_function` /
    `rewrite_in_program` by `modeld coresyms` vs `cvh coresyms` — satisfies
      - truth (`symbol_names_right_code_partial`, needs injectivity of the tree hash),
      - hash-level truth without injectivity (`symbol_entry_sound_partial`),
      - presence (`symbols_present_partial`, `symbols_present_unique_partial`),
      - no entries for tree-shaken functions (`no_entry_for_dead_function_partial`),
      - `__chia__main_arguments` (`main_arguments_recorded_partial`).
  * the presence clause as literally stated ("EVERY reachable function has an entry naming it")
    is FALSE for the unchanged compiler when two live functions compile to identical code:
    the table is keyed by code hash, the later `add_defun` overwrites the earlier
    (`identical_code_loses_an_entry`, witness `dupProg`); the presence theorems therefore name
    the function that owns the entry (a live function with the same code hash) and give the
    literal statement under the hypothesis that no other live function has that code hash.
  * `…_core2_partial`, the same for the CORE2 language of Lang/Core2.lean (core + `defun-inline`
    functions with destructuring parameters + `let` / `let*` anywhere, with shadowing),
    NON-OPTIMISING build, every well-formed core2 program (`Core2.progWF`), every `H`: the table
    `Core2.compileCore2Syms` returns next to the emitted program (`Core2.compileCore2`: rename →
    inline expansion → let hoisting → code generation; byte-tied by `modeld core2syms` vs
    `cvh coresyms`) satisfies truth (`symbol_names_right_code_core2_partial`: the key of an entry is
    the hash of the FINAL code of the named source function — after renaming, expansion and hoisting —
    and the extracted code run on `(ENV . args)` returns what the lexically scoped source-level call
    `Core2.evalL` returns), hash-level truth, presence, and ABSENCE: inline functions
    (`no_entry_for_inline_function_partial`), dead functions and compiler-generated helpers
    (`only_source_functions_named_core2_partial`) are never named.  In the real compiler the helpers
    `hoist_body_let_binding` generates for `let` / `let*` (`letbinding_$_N`) are INLINE helpers
    (`should_inline_let(None) = true`), so they go through `add_inline` and get no entry: no value of
    the table depends on the gensym counter.
  What is missing for the full property: assign, lambdas, constants, macros, `&rest` calls,
  optimising builds and the classic compiler are outside `Core2`; they are decided by the
  differential oracle of tools/props/c13.py only.
-/
import ChialispModel.Lang.Symbols
import ChialispModel.Lang.CoreSymbols
import ChialispModel.Proofs.SymbolsLemmas
import ChialispModel.Proofs.CoreSymbolsLemmas
import ChialispModel.Lang.Core2Symbols
import ChialispModel.Proofs.Core2SymbolsLemmas

namespace C13
open Core

/-- a path returned by `path_to_function` selects a subtree with the requested hash. -/
theorem path_to_function_correct (H : Bytes → Bytes) (prog : Val) (h : Bytes) (p : Nat)
    (hp : Lang.pathToFunction H prog h = some p) :
    ∃ sub, Path.lookupNat p prog = .ok sub ∧ Val.treeHash H sub = h :=
  Lang.pathToFunction_correct H prog h p hp

/-- …and the search is complete: if some subtree has the hash, a path is returned. -/
theorem path_to_function_complete (H : Bytes → Bytes) (prog sub : Val) (h : Bytes)
    (hs : Lang.Subtree sub prog) (hh : Val.treeHash H sub = h) :
    (Lang.pathToFunction H prog h).isSome = true :=
  Lang.pathToFunction_complete H prog sub h hs hh

/-- TRUTH (core language, non-optimising build).  Let `tab` be the symbol table reported next
    to the emitted program `prog`.  If `tab` has an entry `<h> ↦ val` and `sub` is any tree with
    tree hash `h` (in particular a subtree of `prog`), then under injectivity of the tree hash:
    `val` is the name of a live function `f` of the source, `sub` is exactly `f`'s compiled
    code and occurs in `prog`, `<h>_arguments` is `f`'s parameter list, `<h>_left_env` is `1`,
    and the program `compose_run_function` builds — `extract_program_and_env prog = (MAIN, QENV)`,
    `p = path_to_function QENV h`, `rewrite_in_program p QENV = (a (a (q . p/2) QENV) (c QENV 1))`,
    i.e. `sub` run on `(ENV . args)` with ENV the program's function table — evaluates to `v`
    on `args` whenever the source-level call of `f` on `args` (`evalCore`, over ALL functions
    of the source) returns `v`. -/
theorem symbol_names_right_code_partial (ops : OpSem) (hops : OpsCore ops)
    (H : Bytes → Bytes) (hH : Function.Injective (Val.treeHash H))
    (P : Prog) (hwf : progWF P = true) (prog : Val) (tab : SymTab)
    (hc : compileCoreSyms H P = some (prog, tab))
    (h : Bytes) (val : SymVal) (hg : symGet (.fn h) tab = some val)
    (sub : Val) (hsub : Val.treeHash H sub = h) :
    ∃ f ∈ live P, val = .name f.name ∧ codeOf P f = some sub ∧ Lang.Subtree sub prog ∧
      symGet (.arguments h) tab = some (.pattern f.params) ∧
      symGet (.leftEnv h) tab = some .one ∧
      ∃ qmain qenv p, extractProgramAndEnv prog = some (qmain, qenv) ∧
        Lang.pathToFunction H qenv h = some p ∧
        composeRunFunction H prog h = some (rewriteInProgram p qenv) ∧
        ∀ n args v, evalCore ops P.fns n f.params args f.body = .ok v →
          Clvm.Evaluates ops (rewriteInProgram p qenv) args v :=
  Core.truth H P prog tab ops hops hH hwf hc h val hg sub hsub

/-- hash-level truth, NO injectivity hypothesis: every `<h>` entry names a live function whose
    compiled code has tree hash `h` and occurs in the emitted program; the `_arguments` and
    `_left_env` entries of `h` are that function's. -/
theorem symbol_entry_sound_partial (H : Bytes → Bytes) (P : Prog) (hwf : progWF P = true)
    (prog : Val) (tab : SymTab) (hc : compileCoreSyms H P = some (prog, tab))
    (h : Bytes) (val : SymVal) (hg : symGet (.fn h) tab = some val) :
    ∃ f ∈ live P, ∃ c, val = .name f.name ∧ codeOf P f = some c ∧ Val.treeHash H c = h ∧
      symGet (.arguments h) tab = some (.pattern f.params) ∧
      symGet (.leftEnv h) tab = some .one ∧ Lang.Subtree c prog :=
  Core.entry_sound H P prog tab hwf hc h val hg

/-- PRESENCE (core language, non-optimising build): for every live function `f` (reachable
    from the main expression) its compiled code occurs in the emitted program — inside the
    function table `ENV` that `extract_program_and_env` returns (quoted), at the path `f`'s name
    has in the balanced name tree of `compute_env_shape` — `path_to_function` finds a subtree
    with its hash, and the entries `<h>`, `<h>_arguments`, `<h>_left_env` of its hash `h` exist
    and describe a live function `g` whose code has the same hash (`g` is the LAST such
    function: `add_defun` overwrites). -/
theorem symbols_present_partial (H : Bytes → Bytes) (P : Prog) (hwf : progWF P = true)
    (prog : Val) (tab : SymTab) (hc : compileCoreSyms H P = some (prog, tab))
    (f : FnDef) (hf : f ∈ live P) :
    ∃ code, codeOf P f = some code ∧ Lang.Subtree code prog ∧
      (Lang.pathToFunction H prog (Val.treeHash H code)).isSome = true ∧
      (∃ main env q, extractProgramAndEnv prog = some (qv main, qv env) ∧
        Lang.nameLookup f.name (Lang.buildTree ((live P).map (·.name)) (((live P).map (·.name)).length + 1)) = some q ∧
        Path.lookupNat q env = .ok code) ∧
      ∃ g ∈ live P, ∃ cg, codeOf P g = some cg ∧ Val.treeHash H cg = Val.treeHash H code ∧
        symGet (.fn (Val.treeHash H code)) tab = some (.name g.name) ∧
        symGet (.arguments (Val.treeHash H code)) tab = some (.pattern g.params) ∧
        symGet (.leftEnv (Val.treeHash H code)) tab = some .one :=
  Core.present H P prog tab hwf hc f hf

/-- …and if no OTHER live function compiles to code with the same hash, the entries are `f`'s
    own: its name and its parameter list (the presence clause as the property states it). -/
theorem symbols_present_unique_partial (H : Bytes → Bytes) (P : Prog) (hwf : progWF P = true)
    (prog : Val) (tab : SymTab) (hc : compileCoreSyms H P = some (prog, tab))
    (f : FnDef) (hf : f ∈ live P) (code : Val) (hcode : codeOf P f = some code)
    (huniq : ∀ g ∈ live P, ∀ cg, codeOf P g = some cg → Val.treeHash H cg = Val.treeHash H code → g = f) :
    Lang.Subtree code prog ∧
    symGet (.fn (Val.treeHash H code)) tab = some (.name f.name) ∧
    symGet (.arguments (Val.treeHash H code)) tab = some (.pattern f.params) ∧
    symGet (.leftEnv (Val.treeHash H code)) tab = some .one := by
  obtain ⟨code', h1, h2, _, _, g, hg, cg, h3, h4, h5, h6, h7⟩ := Core.present H P prog tab hwf hc f hf
  rw [hcode] at h1
  simp only [Option.some.injEq] at h1
  subst h1
  have := huniq g hg cg h3 h4
  subst this
  exact ⟨h2, h5, h6, h7⟩

/-- NO DEAD ENTRIES: a function that is not reachable from the main expression (tree-shaken by
    `frontend`) is named by no entry of the table. -/
theorem no_entry_for_dead_function_partial (H : Bytes → Bytes) (P : Prog) (hwf : progWF P = true)
    (prog : Val) (tab : SymTab) (hc : compileCoreSyms H P = some (prog, tab))
    (d : FnDef) (hdead : (liveSet P).contains d.name = false) (k : SymKey) :
    symGet k tab ≠ some (.name d.name) :=
  Core.dead_absent H P prog tab hwf hc d hdead k

/-- `__chia__main_arguments` records the mod's parameter list. -/
theorem main_arguments_recorded_partial (H : Bytes → Bytes) (P : Prog)
    (prog : Val) (tab : SymTab) (hc : compileCoreSyms H P = some (prog, tab)) :
    symGet .mainArguments tab = some (.pattern P.params) := by
  obtain ⟨main, entries, _, _, _, htab, _⟩ := Core.compileCoreSyms_spec H P prog tab hc
  subst htab
  exact Core.get_main_symbolsWith H _ _ _

/-- the emitted program of `compileCoreSyms` is `compileCore`'s (the byte-tied compiler model
    of C01), so `compile_core_correct_partial` speaks about the same program. -/
theorem symbols_program_is_compiled_program (H : Bytes → Bytes) (P : Prog)
    (prog : Val) (tab : SymTab) (hc : compileCoreSyms H P = some (prog, tab)) :
    compileCore P = some prog := by
  obtain ⟨_, _, _, _, _, _, h⟩ := Core.compileCoreSyms_spec H P prog tab hc
  exact h

/-- DEFECT OF THE UNCHANGED CODE w.r.t. the literal presence clause: two live functions with
    different names whose compiled codes have the same tree hash (e.g. the same body over
    renamed parameters) share ONE `<hash>` key, so they are never both named in the table. -/
theorem identical_code_loses_an_entry (H : Bytes → Bytes) (P : Prog) (hwf : progWF P = true)
    (prog : Val) (tab : SymTab) (hc : compileCoreSyms H P = some (prog, tab))
    (f g : FnDef) (hf : f ∈ live P) (hg : g ∈ live P) (hne : f.name ≠ g.name)
    (cf cg : Val) (hcf : codeOf P f = some cf) (hcg : codeOf P g = some cg)
    (hsame : Val.treeHash H cf = Val.treeHash H cg) :
    ¬ ((∃ k, symGet k tab = some (.name f.name)) ∧ (∃ k, symGet k tab = some (.name g.name))) :=
  Core.same_code_one_entry H P prog tab hwf hc f g hf hg hne cf cg hcf hcg hsame

-- non-vacuity ---------------------------------------------------------------------------------------

/-- the injectivity hypothesis is satisfiable: a self-delimiting "hash". -/
theorem injective_tree_hash_exists : ∃ H, Function.Injective (Val.treeHash H) :=
  ⟨Core.selfDelim, Core.treeHash_selfDelim_injective⟩

/-- `(mod (X Y) (defun f (N) (if (= N 1) 1 (* N (f (- N 1))))) (defun d ((A . B) C) (+ A B C))
         (defun z (Q) (* Q 2)) (+ (f X) (d (c X Y) Y)))` — `f` recursive, `d` destructuring, `z` dead. -/
def exProg : Prog :=
  { params := .cons (.atom [88]) (.cons (.atom [89]) .nil),
    fns := [
      ⟨[102], .cons (.atom [78]) .nil,
        .ite (.op 9 (.cons (.var [78]) (.cons (.lit (.atom [1])) .nil))) (.lit (.atom [1]))
          (.op 18 (.cons (.var [78]) (.cons
            (.call [102] (.cons (.op 17 (.cons (.var [78]) (.cons (.lit (.atom [1])) .nil))) .nil)) .nil)))⟩,
      ⟨[100], .cons (.cons (.atom [65]) (.atom [66])) (.cons (.atom [67]) .nil),
        .op 16 (.cons (.var [65]) (.cons (.var [66]) (.cons (.var [67]) .nil)))⟩,
      ⟨[122], .cons (.atom [81]) .nil, .op 18 (.cons (.var [81]) (.cons (.lit (.atom [2])) .nil))⟩],
    body := .op 16 (.cons (.call [102] (.cons (.var [88]) .nil))
      (.cons (.call [100] (.cons (.op 4 (.cons (.var [88]) (.cons (.var [89]) .nil))) (.cons (.var [89]) .nil))) .nil)) }

/-- a one-byte checksum as hash function: enough to run the model on examples. -/
def toyH (b : Bytes) : Bytes := [b.foldl (fun a x => 31 * a + x) 7]

example : progWF exProg = true := by decide
/-- compilation succeeds and reports a table, whatever the hash function. -/
example (H : Bytes → Bytes) : (compileCoreSyms H exProg).isSome = true := rfl
example : (live exProg).map (·.name) = [[102], [100]] := by decide
/-- the dead function is dead. -/
example : (liveSet exProg).contains [122] = false := by decide
/-- 2 live functions × 3 entries + `__chia__main_arguments`; the dead `z` has none. -/
example : (symbolsOf toyH exProg).map (fun t => t.map (·.2)) =
    some [.name [102], .one, .pattern (.cons (.atom [78]) .nil),
          .name [100], .one, .pattern (.cons (.cons (.atom [65]) (.atom [66])) (.cons (.atom [67]) .nil)),
          .pattern (.cons (.atom [88]) (.cons (.atom [89]) .nil))] := by
  decide
/-- `compose_run_function` succeeds on every function key of the example. -/
example : ((compileCoreSyms toyH exProg).map (fun pt =>
    pt.2.all (fun kv => match kv.1 with
      | .fn h => (composeRunFunction toyH pt.1 h).isSome
      | _ => true))) = some true := by
  decide
/-- all hypotheses of `symbol_names_right_code_partial` hold together for a concrete instance
    (injective hash, the example program, the entry of its recursive function). -/
example : ∃ prog tab h val sub, Function.Injective (Val.treeHash selfDelim) ∧ progWF exProg = true ∧
    compileCoreSyms selfDelim exProg = some (prog, tab) ∧ symGet (.fn h) tab = some val ∧
    Val.treeHash selfDelim sub = h := by
  cases hc : compileCoreSyms selfDelim exProg with
  | none =>
    have : (compileCoreSyms selfDelim exProg).isSome = true := rfl
    rw [hc] at this; simp at this
  | some pt =>
    obtain ⟨prog, tab⟩ := pt
    have hwf : progWF exProg = true := by decide
    obtain ⟨code, _, _, _, _, g, _, _, _, _, h5, _⟩ :=
      symbols_present_partial selfDelim exProg hwf prog tab hc exProg.fns[0]
        ((Core.live_mem exProg _).mpr ⟨List.Mem.head _, by decide⟩)
    exact ⟨prog, tab, _, _, code, treeHash_selfDelim_injective, hwf, rfl, h5, rfl⟩

/-- the run clause is not vacuous: the source-level call `(f 3)` of the recursive function
    returns 6, so the extracted code run on `(ENV . (3))` must return 6. -/
example : evalCore Ops.chiaOps exProg.fns 16 exProg.fns[0].params (.pair (.atom [3]) Val.nil)
    exProg.fns[0].body = .ok (.atom [6]) := by
  decide

/-- witness of the presence defect:
    `(mod (X) (defun F (A) (+ A 1)) (defun G (B) (+ B 1)) (+ (F X) (G X)))`. -/
def dupProg : Prog :=
  { params := .cons (.atom [88]) .nil,
    fns := [
      ⟨[70], .cons (.atom [65]) .nil, .op 16 (.cons (.var [65]) (.cons (.lit (.atom [1])) .nil))⟩,
      ⟨[71], .cons (.atom [66]) .nil, .op 16 (.cons (.var [66]) (.cons (.lit (.atom [1])) .nil))⟩],
    body := .op 16 (.cons (.call [70] (.cons (.var [88]) .nil)) (.cons (.call [71] (.cons (.var [88]) .nil)) .nil)) }

example : progWF dupProg = true := by decide
example : (live dupProg).map (·.name) = [[70], [71]] := by decide
example : codeOf dupProg dupProg.fns[0] = codeOf dupProg dupProg.fns[1] ∧ (codeOf dupProg dupProg.fns[0]).isSome = true := by
  decide
/-- both functions are live, only `G` (the later one) is named; `F` has no entry. -/
example : (symbolsOf toyH dupProg).map (fun t => t.map (·.2)) =
    some [.name [71], .one, .pattern (.cons (.atom [66]) .nil), .pattern (.cons (.atom [88]) .nil)] := by
  decide

-- CORE2: + inline functions + let / let* ------------------------------------------------------------------

/-- TRUTH (core2 language, non-optimising build).  Let `tab` be the symbol table reported next
    to the emitted program `prog` of a core2 program (functions, `defun-inline` functions,
    `let` / `let*` with shadowing).  If `tab` has an entry `<h> ↦ val` and `sub` is any tree with
    tree hash `h` (in particular a subtree of `prog`), then under injectivity of the tree hash:
    `val` is the name of a NON-INLINE, live function `f` written in the source, `sub` is exactly
    `f`'s final code (`Core2.codeOf`: let names renamed, inline calls and lets expanded, compiled,
    wrapped) and occurs in `prog`, `<h>_arguments` is `f`'s SOURCE parameter list, `<h>_left_env`
    is `1`, and the program `compose_run_function` builds for `h` evaluates to `v` on `args`
    whenever the lexically scoped source-level call of `f` on `args` (`Core2.evalL` over ALL
    functions of the source, inline ones included; `args` destructurable by `f`'s parameters)
    returns `v`. -/
theorem symbol_names_right_code_core2_partial (ops : OpSem) (hops : OpsCore ops) (hfr : Core2.OpsFR ops)
    (H : Bytes → Bytes) (hH : Function.Injective (Val.treeHash H))
    (P : Core2.Prog) (hwf : Core2.progWF P = true) (prog : Val) (tab : SymTab)
    (hc : Core2.compileCore2Syms H P = some (prog, tab))
    (h : Bytes) (val : SymVal) (hg : symGet (.fn h) tab = some val)
    (sub : Val) (hsub : Val.treeHash H sub = h) :
    ∃ f ∈ P.fns, f.inline = false ∧ (Core2.liveSet P).contains f.name = true ∧
      val = .name f.name ∧ Core2.codeOf P f = some sub ∧ Lang.Subtree sub prog ∧
      symGet (.arguments h) tab = some (.pattern f.params) ∧
      symGet (.leftEnv h) tab = some .one ∧
      ∃ qmain qenv p, extractProgramAndEnv prog = some (qmain, qenv) ∧
        Lang.pathToFunction H qenv h = some p ∧
        composeRunFunction H prog h = some (rewriteInProgram p qenv) ∧
        ∀ n args v, Core2.bindsOk f.params args = true →
          Core2.evalL ops P.fns n f.params args f.body = .ok v →
          Clvm.Evaluates ops (rewriteInProgram p qenv) args v :=
  Core2.truth H P prog tab ops hops hfr hH hwf hc h val hg sub hsub

/-- hash-level truth on core2, NO injectivity hypothesis: every `<h>` entry names a live,
    non-inline source function whose final code has tree hash `h` and occurs in the emitted
    program; the `_arguments` and `_left_env` entries of `h` are that function's. -/
theorem symbol_entry_sound_core2_partial (H : Bytes → Bytes) (P : Core2.Prog) (hwf : Core2.progWF P = true)
    (prog : Val) (tab : SymTab) (hc : Core2.compileCore2Syms H P = some (prog, tab))
    (h : Bytes) (val : SymVal) (hg : symGet (.fn h) tab = some val) :
    ∃ f ∈ P.fns, f.inline = false ∧ (Core2.liveSet P).contains f.name = true ∧
      ∃ c, val = .name f.name ∧ Core2.codeOf P f = some c ∧ Val.treeHash H c = h ∧
      symGet (.arguments h) tab = some (.pattern f.params) ∧
      symGet (.leftEnv h) tab = some .one ∧ Lang.Subtree c prog :=
  Core2.entry_sound H P prog tab hwf hc h val hg

/-- PRESENCE (core2 language, non-optimising build): for every non-inline source function `f`
    reachable from the main expression (liveness is computed on the source, through inline
    functions and lets) its final code occurs in the emitted program — inside the quoted function
    table that `extract_program_and_env` returns, at the path `f`'s name has in the balanced tree of
    the emitted functions' names (`Core2.emitted`: inline functions and let helpers take no
    slot) — `path_to_function` finds a subtree with its hash, and the entries `<h>`,
    `<h>_arguments`, `<h>_left_env` of its hash exist and describe a live non-inline source
    function `g` whose code has the same hash (the LAST such function: `add_defun` overwrites). -/
theorem symbols_present_core2_partial (H : Bytes → Bytes) (P : Core2.Prog) (hwf : Core2.progWF P = true)
    (prog : Val) (tab : SymTab) (hc : Core2.compileCore2Syms H P = some (prog, tab))
    (f : Core2.FnDef) (hf : f ∈ P.fns) (hinl : f.inline = false)
    (hlive : (Core2.liveSet P).contains f.name = true) :
    ∃ code, Core2.codeOf P f = some code ∧ Lang.Subtree code prog ∧
      (Lang.pathToFunction H prog (Val.treeHash H code)).isSome = true ∧
      (∃ main env q, extractProgramAndEnv prog = some (qv main, qv env) ∧
        Lang.nameLookup f.name (Lang.buildTree ((Core2.emitted P).map (·.name))
          (((Core2.emitted P).map (·.name)).length + 1)) = some q ∧
        Path.lookupNat q env = .ok code) ∧
      ∃ g ∈ P.fns, g.inline = false ∧ (Core2.liveSet P).contains g.name = true ∧
        ∃ cg, Core2.codeOf P g = some cg ∧ Val.treeHash H cg = Val.treeHash H code ∧
        symGet (.fn (Val.treeHash H code)) tab = some (.name g.name) ∧
        symGet (.arguments (Val.treeHash H code)) tab = some (.pattern g.params) ∧
        symGet (.leftEnv (Val.treeHash H code)) tab = some .one :=
  Core2.present H P prog tab hwf hc f hf hinl hlive

/-- …and if no OTHER emitted function has final code with the same hash, the entries are `f`'s
    own: its name and its source parameter list (the presence clause as the property states it). -/
theorem symbols_present_unique_core2_partial (H : Bytes → Bytes) (P : Core2.Prog) (hwf : Core2.progWF P = true)
    (prog : Val) (tab : SymTab) (hc : Core2.compileCore2Syms H P = some (prog, tab))
    (f : Core2.FnDef) (hf : f ∈ P.fns) (hinl : f.inline = false)
    (hlive : (Core2.liveSet P).contains f.name = true) (code : Val) (hcode : Core2.codeOf P f = some code)
    (huniq : ∀ g ∈ P.fns, ∀ cg, Core2.codeOf P g = some cg → Val.treeHash H cg = Val.treeHash H code → g = f) :
    Lang.Subtree code prog ∧
    symGet (.fn (Val.treeHash H code)) tab = some (.name f.name) ∧
    symGet (.arguments (Val.treeHash H code)) tab = some (.pattern f.params) ∧
    symGet (.leftEnv (Val.treeHash H code)) tab = some .one := by
  obtain ⟨code', h1, h2, _, _, g, hg, _, _, cg, h3, h4, h5, h6, h7⟩ :=
    Core2.present H P prog tab hwf hc f hf hinl hlive
  rw [hcode] at h1
  simp only [Option.some.injEq] at h1
  subst h1
  have := huniq g hg cg h3 h4
  subst this
  exact ⟨h2, h5, h6, h7⟩

/-- NO ENTRY FOR AN INLINE FUNCTION: a `defun-inline` function of the source is named by no entry
    of the table (its body only exists substituted into its callers). -/
theorem no_entry_for_inline_function_partial (H : Bytes → Bytes) (P : Core2.Prog) (hwf : Core2.progWF P = true)
    (prog : Val) (tab : SymTab) (hc : Core2.compileCore2Syms H P = some (prog, tab))
    (d : Core2.FnDef) (hd : d ∈ P.fns) (hinl : d.inline = true) (k : SymKey) :
    symGet k tab ≠ some (.name d.name) :=
  Core2.inline_absent H P prog tab hwf hc d hd hinl k

/-- ONLY SOURCE FUNCTIONS ARE NAMED: every value of the table that is a function name is the
    name of an emitted (non-inline, live) function written in the source — in particular no
    compiler-generated let helper (`letbinding_$_N`) is named, and no value depends on the
    gensym counter. -/
theorem only_source_functions_named_core2_partial (H : Bytes → Bytes) (P : Core2.Prog)
    (hwf : Core2.progWF P = true) (prog : Val) (tab : SymTab)
    (hc : Core2.compileCore2Syms H P = some (prog, tab))
    (k : SymKey) (n : Bytes) (hg : symGet k tab = some (.name n)) :
    n ∈ (Core2.emitted P).map (·.name) :=
  Core2.names_are_source_names H P prog tab hwf hc k n hg

/-- no entry names a function that is not reachable from the main expression. -/
theorem no_entry_for_dead_function_core2_partial (H : Bytes → Bytes) (P : Core2.Prog) (hwf : Core2.progWF P = true)
    (prog : Val) (tab : SymTab) (hc : Core2.compileCore2Syms H P = some (prog, tab))
    (d : Core2.FnDef) (hdead : (Core2.liveSet P).contains d.name = false) (k : SymKey) :
    symGet k tab ≠ some (.name d.name) :=
  Core2.dead_absent H P prog tab hwf hc d hdead k

/-- `__chia__main_arguments` records the mod's parameter list. -/
theorem main_arguments_recorded_core2_partial (H : Bytes → Bytes) (P : Core2.Prog) (hwf : Core2.progWF P = true)
    (prog : Val) (tab : SymTab) (hc : Core2.compileCore2Syms H P = some (prog, tab)) :
    symGet .mainArguments tab = some (.pattern P.params) :=
  Core2.main_arguments H P prog tab hwf hc

/-- the emitted program of `compileCore2Syms` is `compileCore2`'s (the byte-tied compiler model
    of C01 Layer B2), so `compile_core2_correct_partial` speaks about the same program. -/
theorem symbols_program_is_compiled_program_core2 (H : Bytes → Bytes) (P : Core2.Prog) (hwf : Core2.progWF P = true)
    (prog : Val) (tab : SymTab) (hc : Core2.compileCore2Syms H P = some (prog, tab)) :
    Core2.compileCore2 P = some prog :=
  Core2.program_is_compiled H P prog tab hwf hc

/-- defect C13-F1 on core2: two source functions with different names whose FINAL codes have the
    same tree hash (e.g. a function and its `let`-desugared twin) are never both named. -/
theorem identical_code_loses_an_entry_core2 (H : Bytes → Bytes) (P : Core2.Prog) (hwf : Core2.progWF P = true)
    (prog : Val) (tab : SymTab) (hc : Core2.compileCore2Syms H P = some (prog, tab))
    (f g : Core2.FnDef) (hf : f ∈ P.fns) (hg : g ∈ P.fns) (hne : f.name ≠ g.name)
    (cf cg : Val) (hcf : Core2.codeOf P f = some cf) (hcg : Core2.codeOf P g = some cg)
    (hsame : Val.treeHash H cf = Val.treeHash H cg) :
    ¬ ((∃ k, symGet k tab = some (.name f.name)) ∧ (∃ k, symGet k tab = some (.name g.name))) :=
  Core2.same_code_one_entry H P prog tab hwf hc f g hf hg hne cf cg hcf hcg hsame

-- non-vacuity (core2) ------------------------------------------------------------------------------------

/-- `(mod (X Y) (defun-inline F (A (B . C)) (let ((Z (+ A B))) (* Z C))) (defun G (N) (F N (c N 3)))
         (defun K (A) (let ((A (+ A 1))) (* A A))) (defun-inline D (Q) (* Q 2)) (defun z (Q) (D Q))
         (let ((V (G X))) (c (F V (c Y V)) (K Y))))`
    — `F` inline with a destructured parameter and a let, `G` calls it, `K` has a shadowing let,
    `D` (inline) and `z` are dead, the main expression has a let. -/
def exProg2 : Core2.Prog :=
  { params := .cons (.atom [88]) (.cons (.atom [89]) .nil),
    fns := [
      ⟨[70], .cons (.atom [65]) (.cons (.cons (.atom [66]) (.atom [67])) .nil),
        .letE [[90]] (.cons (.op 16 (.cons (.var [65]) (.cons (.var [66]) .nil))) .nil)
          (.op 18 (.cons (.var [90]) (.cons (.var [67]) .nil))), true⟩,
      ⟨[71], .cons (.atom [78]) .nil,
        .call [70] (.cons (.var [78]) (.cons (.op 4 (.cons (.var [78]) (.cons (.lit (.atom [3])) .nil))) .nil)), false⟩,
      ⟨[75], .cons (.atom [65]) .nil,
        .letE [[65]] (.cons (.op 16 (.cons (.var [65]) (.cons (.lit (.atom [1])) .nil))) .nil)
          (.op 18 (.cons (.var [65]) (.cons (.var [65]) .nil))), false⟩,
      ⟨[68], .cons (.atom [81]) .nil, .op 18 (.cons (.var [81]) (.cons (.lit (.atom [2])) .nil)), true⟩,
      ⟨[122], .cons (.atom [81]) .nil, .call [68] (.cons (.var [81]) .nil), false⟩],
    body := .letE [[86]] (.cons (.call [71] (.cons (.var [88]) .nil)) .nil)
      (.op 4 (.cons (.call [70] (.cons (.var [86]) (.cons (.op 4 (.cons (.var [89]) (.cons (.var [86]) .nil))) .nil)))
        (.cons (.call [75] (.cons (.var [89]) .nil)) .nil))) }

example : Core2.progWF exProg2 = true := by decide
/-- compilation succeeds and reports a table. -/
example : (Core2.compileCore2Syms toyH exProg2).isSome = true := by decide
/-- the emitted functions: `G` and `K` — not the inline `F`, not the dead `D`, `z`. -/
example : (Core2.emitted exProg2).map (·.name) = [[71], [75]] := by decide
/-- 2 emitted functions × 3 entries + `__chia__main_arguments`; nothing for the inline function,
    nothing for the three lets' helpers, nothing for the dead functions; `_arguments` are the
    SOURCE parameter lists. -/
example : (Core2.symbolsOf toyH exProg2).map (fun t => t.map (·.2)) =
    some [.name [71], .one, .pattern (.cons (.atom [78]) .nil),
          .name [75], .one, .pattern (.cons (.atom [65]) .nil),
          .pattern (.cons (.atom [88]) (.cons (.atom [89]) .nil))] := by
  decide
/-- the keys are the hashes of the final codes. -/
example : (Core2.symbolsOf toyH exProg2).map (fun t => (t.map (·.1)).take 1) =
    (Core2.codeOf exProg2 exProg2.fns[1]).map (fun c => [.fn (Val.treeHash toyH c)]) := by
  decide
/-- an inline function has no code of its own. -/
example : Core2.codeOf exProg2 exProg2.fns[0] = none := by decide
/-- `compose_run_function` succeeds on every function key of the example. -/
example : ((Core2.compileCore2Syms toyH exProg2).map (fun pt =>
    pt.2.all (fun kv => match kv.1 with
      | .fn h => (composeRunFunction toyH pt.1 h).isSome
      | _ => true))) = some true := by
  decide
/-- the run clause is not vacuous: the lexically scoped source-level call `(K 3)` of the function
    with the shadowing let returns 16, `(G 2)` (through the inline `F` and its let) returns 12. -/
example : Core2.bindsOk exProg2.fns[2].params (.pair (.atom [3]) Val.nil) = true ∧
    Core2.evalL Ops.chiaOps exProg2.fns 16 exProg2.fns[2].params (.pair (.atom [3]) Val.nil)
      exProg2.fns[2].body = .ok (.atom [16]) := by
  decide
example : Core2.evalL Ops.chiaOps exProg2.fns 16 exProg2.fns[1].params (.pair (.atom [2]) Val.nil)
    exProg2.fns[1].body = .ok (.atom [12]) := by
  decide
/-- all hypotheses of `symbol_names_right_code_core2_partial` hold together for a concrete
    instance (injective hash, the example program, the entry of `G`). -/
example : ∃ prog tab h val sub, Function.Injective (Val.treeHash selfDelim) ∧ Core2.progWF exProg2 = true ∧
    Core2.compileCore2Syms selfDelim exProg2 = some (prog, tab) ∧ symGet (.fn h) tab = some val ∧
    Val.treeHash selfDelim sub = h := by
  have hwf : Core2.progWF exProg2 = true := by decide
  have hsome : (Core2.compileCore2 exProg2).isSome = true := by decide
  cases hc : Core2.compileCore2Syms selfDelim exProg2 with
  | none =>
    exfalso
    have h1 : Core2.compileCore2Syms selfDelim exProg2 ≠ none := by
      unfold Core2.compileCore2Syms Core2.compileNSSyms
      unfold Core2.compileCore2 Core2.compileNS at hsome
      cases hx : Core2.expandProg (Core2.renameProg exProg2) with
      | none => rw [hx] at hsome; simp at hsome
      | some r =>
        obtain ⟨FT, main⟩ := r
        rw [hx] at hsome
        simp only at hsome ⊢
        cases hw : Core2.compileWith (Core2.keep FT (Core2.liveSet (Core2.renameProg exProg2)))
            (Core2.renameProg exProg2).params main with
        | none => rw [hw] at hsome; simp at hsome
        | some code =>
          have hw' := hw
          unfold Core2.compileWith at hw'
          cases he : Core2.compileFns ((Core2.keep FT (Core2.liveSet (Core2.renameProg exProg2))).map (·.name))
              (Core2.keep FT (Core2.liveSet (Core2.renameProg exProg2))) with
          | none => rw [he] at hw'; split at hw' <;> simp_all
          | some es => simp
    exact h1 hc
  | some pt =>
    obtain ⟨prog, tab⟩ := pt
    obtain ⟨code, _, _, _, _, g, _, _, _, _, _, _, h5, _⟩ :=
      symbols_present_core2_partial selfDelim exProg2 hwf prog tab hc exProg2.fns[1]
        (List.Mem.tail _ (List.Mem.head _)) rfl (by decide)
    exact ⟨prog, tab, _, _, code, treeHash_selfDelim_injective, hwf, rfl, h5, rfl⟩

/-- witness of the presence defect on core2: a function and its `let`-desugared twin,
    `(mod (X) (defun F (A) (let ((B (+ A 1))) B)) (defun G (A) (+ A 1)) (+ (F X) (G X)))`:
    after let hoisting and expansion both bodies are `(+ A 1)`. -/
def dupProg2 : Core2.Prog :=
  { params := .cons (.atom [88]) .nil,
    fns := [
      ⟨[70], .cons (.atom [65]) .nil,
        .letE [[66]] (.cons (.op 16 (.cons (.var [65]) (.cons (.lit (.atom [1])) .nil))) .nil) (.var [66]), false⟩,
      ⟨[71], .cons (.atom [65]) .nil, .op 16 (.cons (.var [65]) (.cons (.lit (.atom [1])) .nil)), false⟩],
    body := .op 16 (.cons (.call [70] (.cons (.var [88]) .nil)) (.cons (.call [71] (.cons (.var [88]) .nil)) .nil)) }

example : Core2.progWF dupProg2 = true := by decide
example : Core2.codeOf dupProg2 dupProg2.fns[0] = Core2.codeOf dupProg2 dupProg2.fns[1] ∧
    (Core2.codeOf dupProg2 dupProg2.fns[0]).isSome = true := by
  decide
/-- both functions are emitted, only `G` (the later one) is named; `F` has no entry. -/
example : (Core2.symbolsOf toyH dupProg2).map (fun t => t.map (·.2)) =
    some [.name [71], .one, .pattern (.cons (.atom [65]) .nil), .pattern (.cons (.atom [88]) .nil)] := by
  decide

end C13
