/-
  Props/C13.lean — property theorems for C13 (symbol tables describe the emitted program).

  FULL PROPERTY (properties.jsonl): for every successful compilation that reports symbols
  (all modern dialects, optimised or not, every language feature): whenever an entry's key is
  the tree hash of code occurring in the emitted program, the entry's value is the source name
  of the function that code implements, `<key>_arguments` is that function's argument list, and
  extracting the code through the entry and running it gives what the source-level call gives;
  in unoptimised builds every reachable non-inline function has such an entry and its code
  occurs in the program.

  PROVED HERE (kernel-checked, all inputs):
  * for every CLVM tree and hash function: `path_to_function` is sound and complete
    (`path_to_function_correct`, `path_to_function_complete`);
  * `…_partial`, for the CORE language of Lang/Core.lean (mod + non-inline, possibly recursive
    functions with arbitrary parameter patterns + operators + lazy `if` + calls), NON-OPTIMISING
    build, every well-formed core program (`Core.progWF`), every hash function `H`:
    the table `Core.compileCoreSyms` returns next to the emitted program — it is byte-tied to the
    real `compile_file` table and to the real `extract_program_and_env` / `path_to_function` /
    `rewrite_in_program` by `modeld coresyms` vs `cvh coresyms` — satisfies
      - truth (`symbol_names_right_code_partial`, needs injectivity of the tree hash),
      - hash-level truth without injectivity (`symbol_entry_sound_partial`),
      - presence (`symbols_present_partial`, `symbols_present_unique_partial`),
      - no entries for tree-shaken functions (`no_entry_for_dead_function_partial`),
      - `__chia__main_arguments` (`main_arguments_recorded_partial`).
  * the presence clause as literally stated ("EVERY reachable function has an entry naming it")
    is FALSE for the unchanged compiler when two live functions compile to identical code:
    the table is keyed by code hash, the later `add_defun` overwrites the earlier
    (`identical_code_loses_an_entry`, witness `dupProg`); the presence theorems therefore name
    the function that owns the entry (a live function with the same code hash) and give the
    literal statement under the hypothesis that no other live function has that code hash.
  What is missing for the full property: inline functions, let/assign, lambdas, constants,
  macros, optimising builds and the classic compiler are outside `Core`; they are decided by the
  differential oracle of tools/props/c13.py only.
-/
import ChialispModel.Lang.Symbols
import ChialispModel.Lang.CoreSymbols
import ChialispModel.Proofs.SymbolsLemmas
import ChialispModel.Proofs.CoreSymbolsLemmas

namespace C13
open Core

/-- a path returned by `path_to_function` selects a subtree with the requested hash. -/
theorem path_to_function_correct (H : Bytes → Bytes) (prog : Val) (h : Bytes) (p : Nat)
    (hp : Lang.pathToFunction H prog h = some p) :
    ∃ sub, Path.lookupNat p prog = .ok sub ∧ Val.treeHash H sub = h :=
  Lang.pathToFunction_correct H prog h p hp

/-- …and the search is complete: if some subtree has the hash, a path is returned. -/
theorem path_to_function_complete (H : Bytes → Bytes) (prog sub : Val) (h : Bytes)
    (hs : Lang.Subtree sub prog) (hh : Val.treeHash H sub = h) :
    (Lang.pathToFunction H prog h).isSome = true :=
  Lang.pathToFunction_complete H prog sub h hs hh

/-- TRUTH (core language, non-optimising build).  Let `tab` be the symbol table reported next
    to the emitted program `prog`.  If `tab` has an entry `<h> ↦ val` and `sub` is any tree with
    tree hash `h` (in particular a subtree of `prog`), then under injectivity of the tree hash:
    `val` is the name of a live function `f` of the source, `sub` is exactly `f`'s compiled
    code and occurs in `prog`, `<h>_arguments` is `f`'s parameter list, `<h>_left_env` is `1`,
    and the program `compose_run_function` builds — `extract_program_and_env prog = (MAIN, QENV)`,
    `p = path_to_function QENV h`, `rewrite_in_program p QENV = (a (a (q . p/2) QENV) (c QENV 1))`,
    i.e. `sub` run on `(ENV . args)` with ENV the program's function table — evaluates to `v`
    on `args` whenever the source-level call of `f` on `args` (`evalCore`, over ALL functions
    of the source) returns `v`. -/
theorem symbol_names_right_code_partial (ops : OpSem) (hops : OpsCore ops)
    (H : Bytes → Bytes) (hH : Function.Injective (Val.treeHash H))
    (P : Prog) (hwf : progWF P = true) (prog : Val) (tab : SymTab)
    (hc : compileCoreSyms H P = some (prog, tab))
    (h : Bytes) (val : SymVal) (hg : symGet (.fn h) tab = some val)
    (sub : Val) (hsub : Val.treeHash H sub = h) :
    ∃ f ∈ live P, val = .name f.name ∧ codeOf P f = some sub ∧ Lang.Subtree sub prog ∧
      symGet (.arguments h) tab = some (.pattern f.params) ∧
      symGet (.leftEnv h) tab = some .one ∧
      ∃ qmain qenv p, extractProgramAndEnv prog = some (qmain, qenv) ∧
        Lang.pathToFunction H qenv h = some p ∧
        composeRunFunction H prog h = some (rewriteInProgram p qenv) ∧
        ∀ n args v, evalCore ops P.fns n f.params args f.body = .ok v →
          Clvm.Evaluates ops (rewriteInProgram p qenv) args v :=
  Core.truth H P prog tab ops hops hH hwf hc h val hg sub hsub

/-- hash-level truth, NO injectivity hypothesis: every `<h>` entry names a live function whose
    compiled code has tree hash `h` and occurs in the emitted program; the `_arguments` and
    `_left_env` entries of `h` are that function's. -/
theorem symbol_entry_sound_partial (H : Bytes → Bytes) (P : Prog) (hwf : progWF P = true)
    (prog : Val) (tab : SymTab) (hc : compileCoreSyms H P = some (prog, tab))
    (h : Bytes) (val : SymVal) (hg : symGet (.fn h) tab = some val) :
    ∃ f ∈ live P, ∃ c, val = .name f.name ∧ codeOf P f = some c ∧ Val.treeHash H c = h ∧
      symGet (.arguments h) tab = some (.pattern f.params) ∧
      symGet (.leftEnv h) tab = some .one ∧ Lang.Subtree c prog :=
  Core.entry_sound H P prog tab hwf hc h val hg

/-- PRESENCE (core language, non-optimising build): for every live function `f` (reachable
    from the main expression) its compiled code occurs in the emitted program — inside the
    function table `ENV` that `extract_program_and_env` returns (quoted), at the path `f`'s name
    has in the balanced name tree of `compute_env_shape` — `path_to_function` finds a subtree
    with its hash, and the entries `<h>`, `<h>_arguments`, `<h>_left_env` of its hash `h` exist
    and describe a live function `g` whose code has the same hash (`g` is the LAST such
    function: `add_defun` overwrites). -/
theorem symbols_present_partial (H : Bytes → Bytes) (P : Prog) (hwf : progWF P = true)
    (prog : Val) (tab : SymTab) (hc : compileCoreSyms H P = some (prog, tab))
    (f : FnDef) (hf : f ∈ live P) :
    ∃ code, codeOf P f = some code ∧ Lang.Subtree code prog ∧
      (Lang.pathToFunction H prog (Val.treeHash H code)).isSome = true ∧
      (∃ main env q, extractProgramAndEnv prog = some (qv main, qv env) ∧
        Lang.nameLookup f.name (Lang.buildTree ((live P).map (·.name)) (((live P).map (·.name)).length + 1)) = some q ∧
        Path.lookupNat q env = .ok code) ∧
      ∃ g ∈ live P, ∃ cg, codeOf P g = some cg ∧ Val.treeHash H cg = Val.treeHash H code ∧
        symGet (.fn (Val.treeHash H code)) tab = some (.name g.name) ∧
        symGet (.arguments (Val.treeHash H code)) tab = some (.pattern g.params) ∧
        symGet (.leftEnv (Val.treeHash H code)) tab = some .one :=
  Core.present H P prog tab hwf hc f hf

/-- …and if no OTHER live function compiles to code with the same hash, the entries are `f`'s
    own: its name and its parameter list (the presence clause as the property states it). -/
theorem symbols_present_unique_partial (H : Bytes → Bytes) (P : Prog) (hwf : progWF P = true)
    (prog : Val) (tab : SymTab) (hc : compileCoreSyms H P = some (prog, tab))
    (f : FnDef) (hf : f ∈ live P) (code : Val) (hcode : codeOf P f = some code)
    (huniq : ∀ g ∈ live P, ∀ cg, codeOf P g = some cg → Val.treeHash H cg = Val.treeHash H code → g = f) :
    Lang.Subtree code prog ∧
    symGet (.fn (Val.treeHash H code)) tab = some (.name f.name) ∧
    symGet (.arguments (Val.treeHash H code)) tab = some (.pattern f.params) ∧
    symGet (.leftEnv (Val.treeHash H code)) tab = some .one := by
  obtain ⟨code', h1, h2, _, _, g, hg, cg, h3, h4, h5, h6, h7⟩ := Core.present H P prog tab hwf hc f hf
  rw [hcode] at h1
  simp only [Option.some.injEq] at h1
  subst h1
  have := huniq g hg cg h3 h4
  subst this
  exact ⟨h2, h5, h6, h7⟩

/-- NO DEAD ENTRIES: a function that is not reachable from the main expression (tree-shaken by
    `frontend`) is named by no entry of the table. -/
theorem no_entry_for_dead_function_partial (H : Bytes → Bytes) (P : Prog) (hwf : progWF P = true)
    (prog : Val) (tab : SymTab) (hc : compileCoreSyms H P = some (prog, tab))
    (d : FnDef) (hdead : (liveSet P).contains d.name = false) (k : SymKey) :
    symGet k tab ≠ some (.name d.name) :=
  Core.dead_absent H P prog tab hwf hc d hdead k

/-- `__chia__main_arguments` records the mod's parameter list. -/
theorem main_arguments_recorded_partial (H : Bytes → Bytes) (P : Prog)
    (prog : Val) (tab : SymTab) (hc : compileCoreSyms H P = some (prog, tab)) :
    symGet .mainArguments tab = some (.pattern P.params) := by
  obtain ⟨main, entries, _, _, _, htab, _⟩ := Core.compileCoreSyms_spec H P prog tab hc
  subst htab
  exact Core.get_main_symbolsWith H _ _ _

/-- the emitted program of `compileCoreSyms` is `compileCore`'s (the byte-tied compiler model
    of C01), so `compile_core_correct_partial` speaks about the same program. -/
theorem symbols_program_is_compiled_program (H : Bytes → Bytes) (P : Prog)
    (prog : Val) (tab : SymTab) (hc : compileCoreSyms H P = some (prog, tab)) :
    compileCore P = some prog := by
  obtain ⟨_, _, _, _, _, _, h⟩ := Core.compileCoreSyms_spec H P prog tab hc
  exact h

/-- DEFECT OF THE UNCHANGED CODE w.r.t. the literal presence clause: two live functions with
    different names whose compiled codes have the same tree hash (e.g. the same body over
    renamed parameters) share ONE `<hash>` key, so they are never both named in the table. -/
theorem identical_code_loses_an_entry (H : Bytes → Bytes) (P : Prog) (hwf : progWF P = true)
    (prog : Val) (tab : SymTab) (hc : compileCoreSyms H P = some (prog, tab))
    (f g : FnDef) (hf : f ∈ live P) (hg : g ∈ live P) (hne : f.name ≠ g.name)
    (cf cg : Val) (hcf : codeOf P f = some cf) (hcg : codeOf P g = some cg)
    (hsame : Val.treeHash H cf = Val.treeHash H cg) :
    ¬ ((∃ k, symGet k tab = some (.name f.name)) ∧ (∃ k, symGet k tab = some (.name g.name))) :=
  Core.same_code_one_entry H P prog tab hwf hc f g hf hg hne cf cg hcf hcg hsame

-- non-vacuity ---------------------------------------------------------------------------------------

/-- the injectivity hypothesis is satisfiable: a self-delimiting "hash". -/
theorem injective_tree_hash_exists : ∃ H, Function.Injective (Val.treeHash H) :=
  ⟨Core.selfDelim, Core.treeHash_selfDelim_injective⟩

/-- `(mod (X Y) (defun f (N) (if (= N 1) 1 (* N (f (- N 1))))) (defun d ((A . B) C) (+ A B C))
         (defun z (Q) (* Q 2)) (+ (f X) (d (c X Y) Y)))` — `f` recursive, `d` destructuring, `z` dead. -/
def exProg : Prog :=
  { params := .cons (.atom [88]) (.cons (.atom [89]) .nil),
    fns := [
      ⟨[102], .cons (.atom [78]) .nil,
        .ite (.op 9 (.cons (.var [78]) (.cons (.lit (.atom [1])) .nil))) (.lit (.atom [1]))
          (.op 18 (.cons (.var [78]) (.cons
            (.call [102] (.cons (.op 17 (.cons (.var [78]) (.cons (.lit (.atom [1])) .nil))) .nil)) .nil)))⟩,
      ⟨[100], .cons (.cons (.atom [65]) (.atom [66])) (.cons (.atom [67]) .nil),
        .op 16 (.cons (.var [65]) (.cons (.var [66]) (.cons (.var [67]) .nil)))⟩,
      ⟨[122], .cons (.atom [81]) .nil, .op 18 (.cons (.var [81]) (.cons (.lit (.atom [2])) .nil))⟩],
    body := .op 16 (.cons (.call [102] (.cons (.var [88]) .nil))
      (.cons (.call [100] (.cons (.op 4 (.cons (.var [88]) (.cons (.var [89]) .nil))) (.cons (.var [89]) .nil))) .nil)) }

/-- a one-byte checksum as hash function: enough to run the model on examples. -/
def toyH (b : Bytes) : Bytes := [b.foldl (fun a x => 31 * a + x) 7]

example : progWF exProg = true := by decide
/-- compilation succeeds and reports a table, whatever the hash function. -/
example (H : Bytes → Bytes) : (compileCoreSyms H exProg).isSome = true := rfl
example : (live exProg).map (·.name) = [[102], [100]] := by decide
/-- the dead function is dead. -/
example : (liveSet exProg).contains [122] = false := by decide
/-- 2 live functions × 3 entries + `__chia__main_arguments`; the dead `z` has none. -/
example : (symbolsOf toyH exProg).map (fun t => t.map (·.2)) =
    some [.name [102], .one, .pattern (.cons (.atom [78]) .nil),
          .name [100], .one, .pattern (.cons (.cons (.atom [65]) (.atom [66])) (.cons (.atom [67]) .nil)),
          .pattern (.cons (.atom [88]) (.cons (.atom [89]) .nil))] := by
  decide
/-- `compose_run_function` succeeds on every function key of the example. -/
example : ((compileCoreSyms toyH exProg).map (fun pt =>
    pt.2.all (fun kv => match kv.1 with
      | .fn h => (composeRunFunction toyH pt.1 h).isSome
      | _ => true))) = some true := by
  decide
/-- all hypotheses of `symbol_names_right_code_partial` hold together for a concrete instance
    (injective hash, the example program, the entry of its recursive function). -/
example : ∃ prog tab h val sub, Function.Injective (Val.treeHash selfDelim) ∧ progWF exProg = true ∧
    compileCoreSyms selfDelim exProg = some (prog, tab) ∧ symGet (.fn h) tab = some val ∧
    Val.treeHash selfDelim sub = h := by
  cases hc : compileCoreSyms selfDelim exProg with
  | none =>
    have : (compileCoreSyms selfDelim exProg).isSome = true := rfl
    rw [hc] at this; simp at this
  | some pt =>
    obtain ⟨prog, tab⟩ := pt
    have hwf : progWF exProg = true := by decide
    obtain ⟨code, _, _, _, _, g, _, _, _, _, h5, _⟩ :=
      symbols_present_partial selfDelim exProg hwf prog tab hc exProg.fns[0]
        ((Core.live_mem exProg _).mpr ⟨List.Mem.head _, by decide⟩)
    exact ⟨prog, tab, _, _, code, treeHash_selfDelim_injective, hwf, rfl, h5, rfl⟩

/-- the run clause is not vacuous: the source-level call `(f 3)` of the recursive function
    returns 6, so the extracted code run on `(ENV . (3))` must return 6. -/
example : evalCore Ops.chiaOps exProg.fns 16 exProg.fns[0].params (.pair (.atom [3]) Val.nil)
    exProg.fns[0].body = .ok (.atom [6]) := by
  decide

/-- witness of the presence defect:
    `(mod (X) (defun F (A) (+ A 1)) (defun G (B) (+ B 1)) (+ (F X) (G X)))`. -/
def dupProg : Prog :=
  { params := .cons (.atom [88]) .nil,
    fns := [
      ⟨[70], .cons (.atom [65]) .nil, .op 16 (.cons (.var [65]) (.cons (.lit (.atom [1])) .nil))⟩,
      ⟨[71], .cons (.atom [66]) .nil, .op 16 (.cons (.var [66]) (.cons (.lit (.atom [1])) .nil))⟩],
    body := .op 16 (.cons (.call [70] (.cons (.var [88]) .nil)) (.cons (.call [71] (.cons (.var [88]) .nil)) .nil)) }

example : progWF dupProg = true := by decide
example : (live dupProg).map (·.name) = [[70], [71]] := by decide
example : codeOf dupProg dupProg.fns[0] = codeOf dupProg dupProg.fns[1] ∧ (codeOf dupProg dupProg.fns[0]).isSome = true := by
  decide
/-- both functions are live, only `G` (the later one) is named; `F` has no entry. -/
example : (symbolsOf toyH dupProg).map (fun t => t.map (·.2)) =
    some [.name [71], .one, .pattern (.cons (.atom [66]) .nil), .pattern (.cons (.atom [88]) .nil)] := by
  decide

end C13
