/-
  Props/C05.lean — property theorems for C05:
  compilation is a pure function of source, include files and options.

  Full statement (kept visible; NOT proved as a whole):
    for every program p, options o, include contents i, and every two process histories h₁ h₂
    (counter values, per-thread conversion modes, earlier successful or failed compilations,
    hash seeds, threads):   compile h₁ p o i = compile h₂ p o i   (bytes and user-visible symbols).

  What is proved here (`…_partial` in the sense of the brief: the state discipline, not the
  compiler body):
    (a) the only mutable process-global state is the fresh-name counter and the per-thread
        conversion mode (inventory regenerated from the sources on every run);
    (b) the conversion mode: code that only uses the RAII guard leaves every thread's cell as it
        found it on every exit path and nesting, and what it observes depends only on the mode at
        entry — so no history changes the mode a later compilation starts in, and inside
        `compile_file` only the dialect's own setting is ever observed;
    (c) every iteration over a HashMap/HashSet in the compiler (inventory regenerated from the
        sources) is assigned by a reviewed table to a consumer class; for each discharged class
        the consumer is proved invariant under permutation of the iterated elements. The sites
        that are NOT discharged are listed by `open_iteration_obligations` (they stay open
        obligations; the check searches them dynamically).
    (d) the fresh-name counter, on the byte-tied core2 compiler model (`Core2.compileCore2With k`:
        `rename.rs` with the counter threaded exactly as `gensym` is called, then inline expansion,
        let hoisting, code generation): the emitted code contains paths only — it is invariant under
        EVERY injective renaming of the names of a program (`compile_core2_name_independent`), hence
        equal for two counter values whenever the two renamings differ by a name permutation
        (`compile_core2_counter_independent_partial`; the permutation is given explicitly and the link
        is a decidable equation).  That user names must not contain `_$_` is necessary
        (`fresh_looking_user_name_breaks_independence`).
  Not proved: that emitted code never contains a generated name for the compiler as a whole (this is
  false for *standard-cl-22*, see the `purity:cl22-gensym-leak` finding) and the compiler body itself.
-/
import ChialispModel.Generated.Statics
import ChialispModel.Generated.IterSites
import ChialispModel.Proofs.PurityLemmas
import ChialispModel.Proofs.Core2FreshLemmas

namespace C05
open Purity

/-! ### (a) mutable statics -/

/-- the statics with interior or declared mutability under src/ are exactly the conversion-mode
    cell and the fresh-name counter (a new mutable static breaks this obligation). -/
theorem only_known_mutable_statics :
    Gen.mutableStatics = ["NEW_COMPILATION_LEVEL_INT", "ARGNAME_CTR"] := by decide

/-- the conversion-mode cell is PER THREAD (`thread_local!`) and the counter is the only process-wide mutable
    item: the world model of (b) gives every thread its own mode cell, which is what the code does exactly
    while this holds — a process-wide cell would let one thread's guard change what another thread's
    compilation observes (seeded change C05-1 replaces the cell by a `static AtomicBool` of the same name;
    `only_known_mutable_statics` alone would not notice). -/
theorem mode_cell_is_thread_local :
    (Gen.statics.filter (·.isMutable)).map (fun s => (s.name, s.kind)) =
      [("NEW_COMPILATION_LEVEL_INT", "thread_local"), ("ARGNAME_CTR", "lazy_static")] := by decide

/-! ### (b) the conversion-mode guard -/

/-- **guard_restores**: after any code that touches the mode only through guards — whatever its
    outcome (ok / error / early return), nesting and sequencing — every thread's cell holds
    what it held before. -/
theorem guard_restores (t : ThreadId) (c : Code) (w : World) : (exec t c w).world.mode = w.mode :=
  (PurityLemmas.exec_eq_static t c w).1

/-- in particular `withMode m body`: the mode after equals the mode before. -/
theorem withMode_restores (t : ThreadId) (m : Bool) (body : Code) (w : World) :
    (exec t (.guarded m body) w).world.mode t = w.mode t := by
  rw [guard_restores]

/-- outcome and observations of any code are a function of the mode at entry only (not of the
    rest of the world, i.e. of no other thread and no earlier history). -/
theorem exec_depends_only_on_entry_mode (t : ThreadId) (c : Code) (w : World) :
    ((exec t c w).outcome, (exec t c w).seen) = static (w.mode t) c :=
  (PurityLemmas.exec_eq_static t c w).2

/-- **body_sees_own_mode**: inside `{ let _g = NewStyleIntConversion::new(m); body }` the body
    observes what it would observe entered with mode `m`, whatever the ambient mode was. -/
theorem body_sees_own_mode (t : ThreadId) (m : Bool) (body : Code) (w : World) :
    (exec t (.guarded m body) w).seen = (static m body).2 := by
  have h := exec_depends_only_on_entry_mode t (.guarded m body) w
  simp only [static] at h
  exact (Prod.mk.inj h).2

/-- a direct read inside the guard sees exactly the guard's value. -/
theorem body_sees_own_mode_direct (t : ThreadId) (m : Bool) (w : World) :
    (exec t (.guarded m .observe) w).seen = [m] := by
  rw [body_sees_own_mode]; rfl

/-- any history of earlier compilations (each arbitrary guard-disciplined code, successful or
    not) leaves the world as it was: the next compilation starts in the same mode. -/
theorem history_leaves_mode (t : ThreadId) (history : List Code) (w : World) :
    (history.foldl (fun w c => (exec t c w).world) w).mode = w.mode := by
  induction history generalizing w with
  | nil => rfl
  | cons c cs ih =>
    simp only [List.foldl_cons]
    rw [ih, guard_restores]

/-- so a compilation observes the same things after any history as in a fresh process. -/
theorem compile_independent_of_history (t : ThreadId) (history : List Code) (w : World) (intFix : Bool)
    (body : Code) :
    (exec t (compileFile intFix body) (history.foldl (fun w c => (exec t c w).world) w)).seen
      = (exec t (compileFile intFix body) w).seen := by
  simp only [compileFile, body_sees_own_mode]

/-- code running on another thread does not change what thread `t` observes. -/
theorem other_threads_untouched (t u : ThreadId) (c d : Code) (w : World) :
    (exec t c (exec u d w).world).seen = (exec t c w).seen := by
  have h1 := exec_depends_only_on_entry_mode t c (exec u d w).world
  have h2 := exec_depends_only_on_entry_mode t c w
  rw [guard_restores] at h1
  exact (Prod.mk.inj (h1.trans h2.symm)).2

/-- the library entry converts its result after the guard is gone, so THAT conversion sees the
    caller's ambient mode: with a caller-held legacy guard the observation differs. (Inside one
    process nothing leaves the mode changed — `history_leaves_mode` — so the ambient mode of a
    top-level call is the initial one.) -/
theorem library_conversion_sees_ambient :
    (exec 0 (libraryEntry true .skip) ⟨fun _ => true⟩).seen ≠
    (exec 0 (libraryEntry true .skip) ⟨fun _ => false⟩).seen := by decide

/-! ### (c) unordered iteration -/

/-- every iteration site found in the sources has been reviewed (is in the hand table). -/
theorem no_unclassified_sites : Gen.iterSites.all (fun s => s.cls != .unclassified) = true := by decide

/-- the sites whose order-independence is NOT established — open obligations, listed. -/
theorem open_iteration_obligations :
    (Gen.iterSites.filter (fun s => !s.cls.discharged)).map (fun s => (s.file, s.fn, s.recv)) =
    [ ("src/classic/clvm_tools/debug.rs", "build_symbol_dump", "constants_lookup"),
      ("src/classic/clvm_tools/stages/stage_2/module.rs", "compile_mod_stage_1", "delayed_constants"),
      ("src/compiler/optimize/deinline.rs", "deinline_opt", "depgraph .leaves()"),
      ("src/compiler/optimize/deinline.rs", "deinline_opt", "root_set_to_inline_tree"),
      ("src/compiler/optimize/deinline.rs", "deinline_opt", "function_set"),
      ("src/compiler/optimize/depgraph.rs", "get_full_depended_on_by", "helper.is_depended_on_by"),
      ("src/compiler/optimize/depgraph.rs", "get_full_depends_on", "helper.depends_on") ] := by decide

/-- what "invariant" means for each class: the statement proved for its consumer model. -/
def ClassInvariant : ConsumerClass → Prop
  | .insertAll => ∀ (init : SetOf Bytes) (l₁ l₂ : List Bytes), l₁.Perm l₂ → insertAllSet init l₁ = insertAllSet init l₂
  | .anyAll => ∀ (p : Bytes → Bool) (l₁ l₂ : List Bytes), l₁.Perm l₂ →
      l₁.any p = l₂.any p ∧ l₁.all p = l₂.all p ∧ l₁.isEmpty = l₂.isEmpty ∧ ∀ a, l₁.contains a = l₂.contains a
  | .sortThenUse => ∀ (le : Bytes → Bytes → Bool), (∀ a b c, le a b = true → le b c = true → le a c = true) →
      (∀ a b, (le a b || le b a) = true) → (∀ a b, le a b = true → le b a = true → a = b) →
      ∀ (l₁ l₂ : List Bytes), l₁.Perm l₂ → sortThenUse le l₁ = sortThenUse le l₂
  | .count => ∀ (l₁ l₂ : List Bytes), l₁.Perm l₂ → l₁.length = l₂.length
  | .setAlgebra => ∀ (a₁ a₂ b₁ b₂ : List Bytes), a₁.Perm a₂ → b₁.Perm b₂ →
      unionSet a₁ b₁ = unionSet a₂ b₂ ∧ interSet a₁ b₁ = interSet a₂ b₂ ∧ diffSet a₁ b₁ = diffSet a₂ b₂
  | .mapDistinctKeys => ∀ (ν : Type) (init : MapOf Bytes ν) (l₁ l₂ : List (Bytes × ν)), l₁.Perm l₂ →
      (l₁.map (·.1)).Nodup → insertAllMap init l₁ = insertAllMap init l₂
  | .maxMin => ∀ (key : Bytes → Nat) (d : Nat) (l₁ l₂ : List Bytes), l₁.Perm l₂ →
      maxBy key l₁ = maxBy key l₂ ∧ minBy key d l₁ = minBy key d l₂
  | .perElementIndependent => ∀ (σ : Type) (step : σ → Bytes → σ),
      (∀ x y z, step (step z x) y = step (step z y) x) → ∀ (init : σ) (l₁ l₂ : List Bytes), l₁.Perm l₂ →
      l₁.foldl step init = l₂.foldl step init
  | .notHashCollection => True      -- iteration over an ordered collection
  | .notOutputAffecting => True     -- result does not reach emitted code or symbols
  | .reachClosure => False          -- not proved
  | .orderSensitive => False        -- open
  | .unclassified => False          -- open

/-- **every discharged class is permutation invariant** (for all element lists, any size). -/
theorem discharged_classes_invariant (c : ConsumerClass) (h : c.discharged = true) : ClassInvariant c := by
  cases c <;> simp only [ConsumerClass.discharged] at h <;> (try cases h) <;> simp only [ClassInvariant]
  · intro init l₁ l₂ hp; exact PurityLemmas.insertAll_perm init hp
  · intro p l₁ l₂ hp
    exact ⟨hp.any_eq, hp.all_eq, PurityLemmas.isEmpty_perm hp, fun a => hp.contains_eq⟩
  · intro le tr to an l₁ l₂ hp; exact PurityLemmas.sortThenUse_perm le tr to an hp
  · intro l₁ l₂ hp; exact hp.length_eq
  · intro a₁ a₂ b₁ b₂ ha hb
    exact ⟨PurityLemmas.union_perm ha hb, PurityLemmas.inter_perm ha hb, PurityLemmas.diff_perm ha hb⟩
  · intro ν init l₁ l₂ hp nd; exact PurityLemmas.mapDistinctKeys_perm init hp nd
  · intro key d l₁ l₂ hp; exact ⟨PurityLemmas.maxBy_perm key hp, PurityLemmas.minBy_perm key d hp⟩
  · intro σ step comm init l₁ l₂ hp; exact PurityLemmas.commutingUpdates_perm step comm init hp

/-- hence every site of the inventory that the table marks discharged feeds a consumer whose
    result does not depend on the iteration order. -/
theorem discharged_sites_invariant :
    ∀ s ∈ Gen.iterSites, s.cls.discharged = true → ClassInvariant s.cls :=
  fun s _ h => discharged_classes_invariant s.cls h

/-- the distinct-keys hypothesis of `mapDistinctKeys` is needed: with a repeated key the last
    insertion wins. -/
theorem distinct_keys_needed :
    insertAllMap (fun _ => none) [((1 : Nat), 10), (1, 20)] 1 ≠ insertAllMap (fun _ => none) [((1 : Nat), 20), (1, 10)] 1 := by
  decide

-- non-vacuity --------------------------------------------------------------------------------

example : Gen.statics.length > 10 ∧ Gen.iterSites.length > 30 := by decide
example : (Gen.iterSites.filter (fun s => s.cls.discharged)).length > 30 := by decide
-- nested guards, an error in the middle: the cell is restored and the inner read saw `false`
example : (exec 3 (.seq (.guarded false (.seq .observe (.guarded true (.seq .observe (.stop .err))))) .observe)
            ⟨fun _ => true⟩).seen = [false, true] := by decide
example : ((exec 3 (.guarded false (.seq .observe (.stop .early))) ⟨fun _ => true⟩).world.mode 3) = true := by decide
example : [3, 1, 2].Perm [1, 2, 3] := by decide
example : insertAllSet (fun _ => false) [(3 : Nat), 1, 2] 2 = true := by decide

/-! ### (d) the fresh-name counter (core2 compiler model) -/

open Core2 in
/-- **the emitted code contains paths only, never names**: for every core2 program (parameter
    patterns without integer leaves) and every injective renaming σ of ALL its names (parameters,
    let-bound names, variable references, function names) that keeps `@` and the empty name, the
    compiler model emits the same code for the renamed program. -/
theorem compile_core2_name_independent (σ : Bytes → Bytes) (hσ : NameInj σ) (P : Core2.Prog)
    (hp : patsAtomic P = true) : compileNS (mapProg σ P) = compileNS P :=
  compileNS_mapProg hσ P hp

/-
  Full statement (kept visible; NOT proved in this generality):
    ∀ P k k', progWF P → noFreshNames P → compileCore2With k P = compileCore2With k' P
                                           ∧ compileCore2With k P = compileCore2 P.
  Proved: the statement for every P, k, k' for which the explicitly given name permutation
  `swapAll (linkPairs k k' P)` (exchange the i-th name drawn from k with the i-th name drawn from k')
  carries one renaming to the other — a decidable equation between two programs.  Missing for the
  full statement: (1) the arithmetic fact that this equation holds whenever `noFreshNames P` and the
  ranges k+1..k+n, k'+1..k'+n are disjoint (injectivity of the decimal rendering; overlapping ranges
  go through a third, disjoint one); (2) equality with the depth-named model `compileCore2`, whose
  names are not an injective image of the counter names (sibling scopes reuse a name): that needs
  alpha-invariance relative to a scope, not a global renaming.  Both equalities are checked on every
  generated program by the tie (`modeld fresh` = `cvh fresh` = `modeld core2`, bytes and names).
-/
open Core2 in
theorem compile_core2_counter_independent_partial (P : Core2.Prog) (k k' : Nat)
    (hp : patsAtomic P = true)
    (hok : pairsOk (linkPairs k k' P) = true)
    (hlink : mapProg (swapAll (linkPairs k k' P)) (renameProgWith k P) = renameProgWith k' P) :
    compileCore2With k P = compileCore2With k' P := by
  unfold compileCore2With
  rw [← hlink]
  exact (compileNS_mapProg (swapAll_inj _ hok) _ (patsAtomic_renameProgWith k P hp)).symm

/-- `(mod (X Y) (defun-inline sq (A) (let ((B (+ A 1)) (A (* A 2))) (let* ((A (+ A B)) (C (- A 1))) (* A C))))
         (defun g (P Q) (if P (let ((Q (sq Q))) (+ Q P)) (sq Q))) (let ((Z (g X Y))) (c Z (sq X))))`:
    let, let*, shadowing of a parameter and of a let-bound name, an inline function. -/
def freshExample : Core2.Prog :=
  { params := .cons (.atom [88]) (.cons (.atom [89]) .nil)
    fns := [
      { name := [115, 113], params := .cons (.atom [65]) .nil, inline := true,
        body := .letE [[66], [65]]
          (.cons (.op 16 (.cons (.var [65]) (.cons (.lit (.atom [1])) .nil)))
            (.cons (.op 18 (.cons (.var [65]) (.cons (.lit (.atom [2])) .nil))) .nil))
          (.letE [[65]] (.cons (.op 16 (.cons (.var [65]) (.cons (.var [66]) .nil))) .nil)
            (.letE [[67]] (.cons (.op 17 (.cons (.var [65]) (.cons (.lit (.atom [1])) .nil))) .nil)
              (.op 18 (.cons (.var [65]) (.cons (.var [67]) .nil))))) },
      { name := [103], params := .cons (.atom [80]) (.cons (.atom [81]) .nil), inline := false,
        body := .ite (.var [80])
          (.letE [[81]] (.cons (.call [115, 113] (.cons (.var [81]) .nil)) .nil)
            (.op 16 (.cons (.var [81]) (.cons (.var [80]) .nil))))
          (.call [115, 113] (.cons (.var [81]) .nil)) } ]
    body := .letE [[90]] (.cons (.call [103] (.cons (.var [88]) (.cons (.var [89]) .nil))) .nil)
      (.op 4 (.cons (.var [90]) (.cons (.call [115, 113] (.cons (.var [88]) .nil)) .nil))) }

-- non-vacuity: the hypotheses hold for the example (9 names drawn; counters 0 and 41), and the
-- conclusion is not `none = none`
example : Core2.progWF freshExample = true ∧ Core2.noFreshNames freshExample = true ∧
    Core2.patsAtomic freshExample = true ∧ Core2.drawsProg freshExample = 9 := by decide
example : Core2.pairsOk (Core2.linkPairs 0 41 freshExample) = true := by decide
example : Core2.compileCore2With 0 freshExample = Core2.compileCore2With 41 freshExample :=
  compile_core2_counter_independent_partial freshExample 0 41 (by decide) (by decide) (by rfl)
example : (Core2.compileCore2With 0 freshExample).isSome = true := by decide
-- the counter-named model and the depth-named model of C01 (which carries `compile_core2_correct_partial`)
-- emit the same code (here: on the example; on every generated program by the tie)
example : Core2.compileCore2With 0 freshExample = Core2.compileCore2 freshExample := by decide
example : Core2.compileCore2With 1000000 freshExample = Core2.compileCore2 freshExample := by decide
-- the renaming really depends on the counter, and the first generated name is `A_$_1`
example : (Core2.drawnNames 0 freshExample).head? = some [65, 95, 36, 95, 49] ∧
    (Core2.drawnNames 41 freshExample).head? = some [65, 95, 36, 95, 52, 50] := by decide
-- an instance of the renaming lemma with a non-trivial σ
example : Core2.compileNS (Core2.mapProg (Core2.swapAll [([88], [120, 120]), ([115, 113], [81, 81])]) freshExample) =
    Core2.compileNS freshExample :=
  compile_core2_name_independent _ (Core2.swapAll_inj _ (by decide)) _ (by decide)

/-- `(mod (X) (let ((A_$_2 X)) (let ((A 5)) A)))`: the outer let binds a name that looks like the name
    the inner `A` gets when the counter starts at 0. -/
def freshLookingExample : Core2.Prog :=
  { params := .cons (.atom [88]) .nil, fns := [],
    body := .letE [[65, 95, 36, 95, 50]] (.cons (.var [88]) .nil)
      (.letE [[65]] (.cons (.lit (.atom [5])) .nil) (.var [65])) }

/-- **the side condition `noFreshNames` is needed**: `rename` applies a let's renaming to the already
    renamed body, so a user name of the form `A_$_<n>` captures the generated name of an inner `A`
    when the counter happens to be n-1: the emitted code then depends on the counter (with counter 0
    the program returns X, with counter 7 it returns 5). -/
theorem fresh_looking_user_name_breaks_independence :
    Core2.progWF freshLookingExample = true ∧ Core2.noFreshNames freshLookingExample = false ∧
    Core2.compileCore2With 0 freshLookingExample ≠ Core2.compileCore2With 7 freshLookingExample ∧
    Core2.compileCore2With 7 freshLookingExample = Core2.compileCore2 freshLookingExample := by decide

end C05
