/-
  Props/C14.lean — property theorems for C14:
  front ends never crash: any input yields a result or a located error.

  A theorem cannot exhibit a Rust panic; what IS logic is modelled and proved here, for ALL
  inputs (no size bounds), and the rest of the property is observed by the child-process
  harness (`cvh crash`, tools/props/c14.py).  Modelled front ends and what is proved of them:

    (1) modern reader (`parse_sexp`, Text/Reader.lean): for every byte string and every way of
        streaming it, forms or an error whose location is a byte range of that text
        (`reader_total`, `reader_streaming_total`);
    (2) classic deserialiser (`sexp_from_stream`, Clvm/Serde.lean): stops within 3·|bs|+2
        op-stack steps with a value or "No value left" (`deserialise_total`, `deserialise_bounded`);
    (3) classic IR reader + assembler (`read_ir`, `assemble`, Text/IR.lean): every loop iteration
        consumes a byte, so the reader returns an IR value or one of its four syntax errors for
        every text (`ir_reader_total`, `assembler_total`; proof in Proofs/IRTotalLemmas.lean);
    (4) the step machine under an iteration limit (`compiler::clvm::run(.., Some(lim))`,
        Clvm/Step.lean): a value, an error, or "timeout" after at most `lim` calls of `run_step`
        (`run_bounded`, `compile_time_evaluation_bounded`; at MACRO_TIME_LIMIT:
        `macro_expansion_bounded`); which limit every call site of `run` passes is re-read from
        the sources on every run (tools/props/c14.py `source_limits`): codegen, evaluator and
        optimiser pass Some(..); the preprocessor runs `defmac` macros with None — that run is NOT
        covered by these theorems and does loop (finding C14-defmac-run-without-step-limit); the
        nested run that `translate_head` starts WITHOUT a limit always ends (`nested_head_run_terminates`);
    (5) dependency traversal (Sys/Deps.lean, from C18): terminates on ranked (acyclic) include
        graphs, and a self-include exhausts every fuel — the stack overflow observed on the real
        tool (`deps_terminates_on_acyclic`, `deps_self_include_diverges`);
    (6) the REPL's line assembly (`Repl::process_line`, `count_depth`; NEW model Sys/ReplLine.lean):
        the `panic!("too many parens but parsed anyway")` branch is REACHABLE
        (`repl_panic_reachable_*`, by `decide`), exactly when the running depth goes negative while
        the accumulated text still parses (`repl_panic_iff`); outside that decidable condition every
        line yields a reader error, "more input" or forms (`repl_line_total_partial`); a line
        without `)` never panics (`repl_no_close_paren_no_panic`); the proposed repair removes the
        branch and changes nothing else (`repl_fixed_total`, `repl_fixed_agrees`).  The model is
        parametric in that one fact, which tools/translate_c14.py re-reads from repl.rs on every run
        (`Generated/ReplCfg.lean`, `repl_source_is_found_or_fixed`): when the repair is committed
        nothing has to be edited here — the witnesses stay theorems about the code as found,
        `repl_fixed_total` becomes the statement about the code as it is.

  FULL STATEMENT of the property ("every tool entry point, on every input of nesting ≤ 200,
  terminates with a result or an error message; modern-compiler errors are located inside a text
  that was read") is NOT provable here: the preprocessor, frontend, code generator, evaluator,
  optimiser, classic stage-2 compiler, cldb and the trace printers are not modelled, and the
  unchanged code violates it (panics in `frontend_start`, `process_include`, `invoke_primitive`,
  `chase_apply`, `process_line` (two sites), `extract_text`; stack overflow on include cycles,
  recursive `defmac`s, undecidable recursion in the evaluator; an endless `defmac` run) — those
  are found by the harness and listed in known_findings.json with fix diffs.  For the one modelled front end that
  violates it (6) the negation witness is below.
-/
import ChialispModel.Text.ReaderSpec
import ChialispModel.Clvm.Serde
import ChialispModel.Text.IR
import ChialispModel.Clvm.Step
import ChialispModel.Sys.Deps
import ChialispModel.Sys.ReplLine
import ChialispModel.Proofs.ReaderLemmas
import ChialispModel.Proofs.SerdeLemmas
import ChialispModel.Proofs.IRTotalLemmas
import ChialispModel.Proofs.StepBoundLemmas
import ChialispModel.Props.C18

namespace C14
open Text Reader ReaderSpec Srcloc

/-! ## (1) the modern reader -/

/-- for EVERY byte string the reader returns forms, or an error whose location is (in the
    reader's own coordinates, tabs or not) the location of a non-empty byte range of the text;
    on tab-free texts that location, read as line/column arithmetic, lies inside the text. -/
theorem reader_total (t : Bytes) :
    (∃ fs, parse t = .ok fs) ∨
    (∃ l m, parse t = .error (l, m) ∧ (∃ i j, Span t l i j) ∧ (TabFree t → Within t l 0 t.length)) := by
  cases h : parse t with
  | ok fs => exact .inl ⟨fs, rfl⟩
  | error e =>
    have hspan : ∃ i j, Span t e.1 i j := (ReaderLemmas.parse_post t).2 (e.1, e.2) h
    refine .inr ⟨e.1, e.2, rfl, hspan, fun ht => ?_⟩
    obtain ⟨i, j, s⟩ := hspan
    exact ReaderLemmas.within_of_span ht s (Nat.zero_le _) s.2.2.1

/-- the streaming interface (`ParsePartialResult::{new, push, finalize}`) cannot get stuck
    either, however the text is cut into chunks: the same alternatives, about the whole text. -/
theorem reader_streaming_total (chunks : List Bytes) :
    (∃ fs, (feedChunks (Partial.new (Srcloc.start inputFile)) chunks).bind Partial.finalize = .ok fs) ∨
    (∃ l m, (feedChunks (Partial.new (Srcloc.start inputFile)) chunks).bind Partial.finalize = .error (l, m) ∧
       ∃ i j, Span chunks.flatten l i j) := by
  have hw : (feedChunks (Partial.new (Srcloc.start inputFile)) chunks).bind Partial.finalize
      = parse chunks.flatten := by
    rw [ReaderLemmas.feedChunks_flatten]
    unfold parse parseFrom
    cases feed (Partial.new (Srcloc.start inputFile)) chunks.flatten <;> rfl
  rw [hw]
  rcases reader_total chunks.flatten with h | ⟨l, m, h, hs, _⟩
  · exact .inl h
  · exact .inr ⟨l, m, h, hs⟩

/-! ## (2) the classic deserialiser -/

/-- for EVERY byte string and configuration the decoder returns a value or "No value left after
    conversion" — the step budget of the model is never the reason for its answer. -/
theorem deserialise_total (cfg : SerdeCfg) (bs : Bytes) :
    (∃ v, Serde.decode cfg bs = .ok v) ∨ Serde.decode cfg bs = .error .noValue := by
  rw [SerdeLemmas.decode_eq_parse]
  unfold SerdeLemmas.parseResult
  cases Serde.parse cfg (bs.length + 1) bs with
  | none => exact .inr rfl
  | some p => exact .inl ⟨p.1, rfl⟩

/-- … and it has stopped after `3·|bs| + 2` steps of the op-stack machine: any larger budget
    gives the same run. -/
theorem deserialise_bounded (cfg : SerdeCfg) (bs : Bytes) (n : Nat) (h : 3 * bs.length + 2 ≤ n) :
    Serde.runOps cfg n [.read] [] bs = Serde.runOps cfg (3 * bs.length + 2) [.read] [] bs :=
  SerdeLemmas.decode_fuel bs n h

/-! ## (3) the classic IR reader and assembler -/

/-- for EVERY text `read_ir` returns an IR value or one of its four syntax errors; the model's
    fuel (`|text| + 1` loop iterations) is never exhausted. -/
theorem ir_reader_total (text : Bytes) :
    (∃ ir, IR.readIR text = .ok ir) ∨
    (∃ e, IR.readIR text = .error e ∧
      (e = .unterminated ∨ e = .missingParen ∨ e = .emptyStream ∨ e = .badHex)) := by
  have hf := IR.readIR_ne_fuel text
  cases h : IR.readIR text with
  | ok ir => exact .inl ⟨ir, rfl⟩
  | error e =>
    refine .inr ⟨e, rfl, ?_⟩
    cases e with
    | unterminated => exact .inl rfl
    | missingParen => exact .inr (.inl rfl)
    | emptyStream => exact .inr (.inr (.inl rfl))
    | badHex => exact .inr (.inr (.inr rfl))
    | fuel => exact absurd h hf

/-- the assembler (`assemble` = `read_ir` then the total `assemble_from_ir`) likewise. -/
theorem assembler_total (text : Bytes) :
    (∃ v, IR.assemble text = .ok v) ∨ (∃ e, IR.assemble text = .error e ∧ e ≠ .fuel) := by
  have hf := IR.assemble_ne_fuel text
  cases h : IR.assemble text with
  | ok v => exact .inl ⟨v, rfl⟩
  | error e => exact .inr ⟨e, rfl, fun he => hf (by rw [h, he])⟩

/-! ## (4) compile-time evaluation is bounded -/

open Step in
/-- `run(.., Some(lim))`: for every program, environment, operator table and nested head runner,
    the loop calls `run_step` at most `lim` times — it returns a value or an error after `k + 1 ≤ lim`
    calls, or "timeout" after exactly `lim` calls. -/
theorem run_bounded (m : Mode) (pm : PrimMap) (ops : OpSem) (depth lim : Nat) (p e : Rich) :
    (∃ k c', k < lim ∧ Steps (runStep (headRunner m pm ops lim depth) m pm ops) k (start p e) c' ∧
        ((∃ x, runStep (headRunner m pm ops lim depth) m pm ops c' = .ok (.done x) ∧
               run m pm ops depth lim p e = .ok x) ∨
         (∃ err, runStep (headRunner m pm ops lim depth) m pm ops c' = .error err ∧
               run m pm ops depth lim p e = .error err))) ∨
    (∃ c', Steps (runStep (headRunner m pm ops lim depth) m pm ops) lim (start p e) c' ∧
           run m pm ops depth lim p e = .error .timeout) :=
  runLoop_bounded _ lim (start p e)

/-- the limits the compiler passes (src/compiler/codegen.rs `MACRO_TIME_LIMIT`,
    `CONST_EVAL_LIMIT`; evaluate.rs `PRIM_RUN_LIMIT`; optimize/mod.rs `CONST_FOLD_LIMIT`; and, once
    the proposed repair is in, preprocessor/mod.rs `PP_MACRO_TIME_LIMIT`).  tools/props/c14.py
    re-reads the values AND the last argument of every call of `clvm::run` from the sources on
    every run and compares them with these definitions. -/
def MACRO_TIME_LIMIT : Nat := 1000000
def CONST_EVAL_LIMIT : Nat := 1000000
def PRIM_RUN_LIMIT : Nat := 1000000
def CONST_FOLD_LIMIT : Nat := 10000000
def PP_MACRO_TIME_LIMIT : Nat := 1000000

open Step in
/-- a macro expansion / constant evaluation / primitive run / constant folding cannot loop:
    whatever the limit `lim` handed to `run`, after `k ≤ lim` successful steps the run has either
    answered "timeout" (and then `k = lim`) or made the step that ends it (a value or an error). -/
theorem compile_time_evaluation_bounded (m : Mode) (pm : PrimMap) (ops : OpSem) (depth : Nat) (p e : Rich)
    (lim : Nat) :
    ∃ k, k ≤ lim ∧ ∃ c', Steps (runStep (headRunner m pm ops lim depth) m pm ops) k (start p e) c' ∧
      ((run m pm ops depth lim p e = .error .timeout ∧ k = lim) ∨
       (∃ r, runStep (headRunner m pm ops lim depth) m pm ops c' = r ∧ (∀ c'', r = .ok c'' → ∃ x, c'' = .done x))) := by
  rcases run_bounded m pm ops depth lim p e with ⟨k, c', hk, hs, h⟩ | ⟨c', hs, h⟩
  · refine ⟨k, Nat.le_of_lt hk, c', hs, .inr ⟨_, rfl, ?_⟩⟩
    rcases h with ⟨x, hx, _⟩ | ⟨err, he, _⟩
    · intro c'' hc; rw [hx] at hc; injection hc with hc; exact ⟨x, hc.symm⟩
    · intro c'' hc; rw [he] at hc; cases hc
  · exact ⟨lim, Nat.le_refl _, c', hs, .inl ⟨h, rfl⟩⟩

open Step in
/-- instantiated at the compiler's limits: a `defmacro` expansion makes at most 1 000 000 steps,
    a constant folding at most 10 000 000. -/
theorem macro_expansion_bounded (m : Mode) (pm : PrimMap) (ops : OpSem) (depth : Nat) (p e : Rich) :
    ∃ k, k ≤ 1000000 ∧ ∃ c', Steps (runStep (headRunner m pm ops MACRO_TIME_LIMIT depth) m pm ops) k (start p e) c' ∧
      ((run m pm ops depth MACRO_TIME_LIMIT p e = .error .timeout ∧ k = MACRO_TIME_LIMIT) ∨
       (∃ r, runStep (headRunner m pm ops MACRO_TIME_LIMIT depth) m pm ops c' = r ∧
          (∀ c'', r = .ok c'' → ∃ x, c'' = .done x))) :=
  compile_time_evaluation_bounded m pm ops depth p e MACRO_TIME_LIMIT

open Step in
/-- `translate_head` runs a `Cons(_, _, Nil)` head with `iter_limit = None`.  That run cannot
    loop: the program is `(a)` — an operator applied to no operands — so it ends within four
    steps at each nesting level of one-element-list heads; with ANY limit ≥ 4 and recursion
    depth above that nesting the answer is never "timeout". -/
theorem nested_head_run_terminates (m : Mode) (pm : PrimMap) (ops : OpSem) (lim : Nat) (hl : 4 ≤ lim)
    (a ctx : Rich) (d : Nat) (hd : headDepth a < d) :
    headRunner m pm ops lim d (.cons a .nil) ctx ≠ .error .timeout :=
  headRunner_terminates m pm ops lim hl a d ctx hd

/-! ## (5) dependency traversal -/

open Deps in
/-- on an acyclic include graph (a rank function exists) without nested mods, the dependency
    listing returns a list or a genuine error — it does not run out of fuel. -/
theorem deps_terminates_on_acyclic (cfg : Cfg) (rk : Nat → Nat) (hrk : Ranked cfg rk)
    (hflat : FlatFiles cfg) (main : List Form) (hmain : flatForms main = true) (fuel : Nat)
    (h2 : 2 ≤ fuel) (hfuel : ∀ m ∈ inclsOf main, rk m + 3 ≤ fuel) :
    (∃ deps, gatherDeps cfg (fuel + 1) main = .ok deps) ∨
    (∃ e, gatherDeps cfg (fuel + 1) main = .error e ∧ e ≠ .fuel) := by
  have hf := C18.acyclic_terminates cfg rk hrk hflat main hmain fuel h2 hfuel
  cases h : gatherDeps cfg (fuel + 1) main with
  | ok deps => exact .inl ⟨deps, rfl⟩
  | error e => exact .inr ⟨e, rfl, fun he => hf (by rw [h, he])⟩

/-- DEFECT (known finding `C14-include-cycle-stack-overflow`): a file that includes itself
    exhausts EVERY fuel — the real traversal recurses until the stack overflows (abort). -/
theorem deps_self_include_diverges (strict : Bool) (fuel : Nat) :
    Deps.gatherDeps (C18.selfIncl strict) fuel [.incl (.file 1)] = .error .fuel :=
  C18.cycle_never_terminates strict fuel

/-! ## (6) the REPL's line assembly -/

open ReplLine

theorem countDepth_nonneg_of_no_close (line : Bytes) (h : (41 : UInt8) ∉ line) : 0 ≤ countDepth line := by
  induction line with
  | nil => exact Int.le_refl 0
  | cons c r ih =>
    have hc : c ≠ 41 := fun e => h (by rw [e]; exact List.mem_cons_self)
    have hr : (41 : UInt8) ∉ r := fun e => h (List.mem_cons_of_mem _ e)
    have := ih hr
    simp only [countDepth, parenDelta]
    by_cases h40 : c = 40
    · simp [h40]; omega
    · have h41 : (c == 41) = false := by simp [hc]
      have h40' : (c == 40) = false := by simp [h40]
      simp [h40', h41]; omega

/-- EXACTLY when the panic branch is taken: the running depth goes negative AND `parse_sexp`
    accepts the accumulated text. -/
theorem repl_panic_iff (s : State) (line : Bytes) :
    (processLine s line).2 = .panic ↔
      (s.depth + countDepth line < 0 ∧ ∃ fs, parse (taken s line) = .ok fs) := by
  unfold processLine processLineWith
  constructor
  · intro h
    split at h
    · rename_i hneg
      refine ⟨hneg, ?_⟩
      unfold negBranchWith at h
      split at h
      · rename_i fs hp; exact ⟨fs, hp⟩
      · cases h
    · split at h
      · cases h
      · unfold zeroBranch at h
        split at h <;> cases h
  · rintro ⟨hneg, fs, hp⟩
    simp [hneg, negBranchWith, hp]

/-- the same as the executable predicate the check evaluates -/
theorem repl_panic_iff_panics (s : State) (line : Bytes) :
    (processLine s line).2 = .panic ↔ panics s line = true := by
  rw [repl_panic_iff]
  unfold panics
  constructor
  · rintro ⟨hneg, fs, hp⟩; simp [hneg, hp]
  · intro h
    simp only [Bool.and_eq_true, decide_eq_true_eq] at h
    refine ⟨h.1, ?_⟩
    cases hp : parse (taken s line) with
    | ok fs => exact ⟨fs, rfl⟩
    | error e => rw [hp] at h; exact absurd h.2 (by simp)

/-- WITNESS 1 (DESIGN §8 candidate, made precise): the line `(list ")")` — a close parenthesis
    inside a string — is a complete, well-formed expression and reaches the `panic!`. -/
theorem repl_panic_reachable_quoted :
    (processLine State.init [40, 108, 105, 115, 116, 32, 34, 41, 34, 41]).2 = .panic := by
  decide +kernel

/-- WITNESS 2: no quote needed — the reader takes `x)` at top level as ONE bareword. -/
theorem repl_panic_reachable_bareword : (processLine State.init [120, 41]).2 = .panic := by
  decide +kernel

/-- WITNESS 3: a parenthesis in a comment. -/
theorem repl_panic_reachable_comment : (processLine State.init [49, 32, 59, 32, 41]).2 = .panic := by
  decide +kernel

/-- whereas the line `)` alone is NOT a panic (as DESIGN §8 had guessed) but a located error. -/
theorem repl_lone_close_paren_is_error :
    (processLine State.init [41]).2 = .parseError (⟨0, 2, 1, none⟩, .tooManyClose) := by
  decide +kernel

/-- hence the full statement "every REPL line yields a result or an error" is FALSE of the
    unchanged code. -/
theorem repl_line_total_counterexample :
    ¬ (∀ (s : State) (line : Bytes), 0 ≤ s.depth → (processLine s line).2 ≠ .panic) := by
  intro h
  exact h State.init [120, 41] (Int.le_refl 0) repl_panic_reachable_bareword

/-- the depth never stays negative: whatever the state, every line leaves a non-negative depth … -/
theorem repl_depth_nonneg (s : State) (line : Bytes) : 0 ≤ (processLine s line).1.depth := by
  unfold processLine processLineWith
  split
  · unfold negBranchWith; split <;> exact Int.le_refl 0
  · split
    · rename_i h1 h2; exact Int.le_of_lt h2
    · unfold zeroBranch; split <;> exact Int.le_refl 0

/-- … so every state reached in a session has a non-negative depth. -/
theorem repl_session_depth_nonneg (ls : List Bytes) (s : State) (h : 0 ≤ s.depth) : 0 ≤ (after s ls).depth := by
  induction ls generalizing s with
  | nil => exact h
  | cons l r ih => exact ih _ (repl_depth_nonneg s l)

/-- TOTALITY outside the defect (`_partial`: the hypothesis is the complement of the decidable
    panic condition).  Every line then yields exactly one of: a reader error (and the state is
    reset), "more input awaited" (depth > 0, the text is kept), or the parsed forms (depth = 0). -/
theorem repl_line_total_partial (s : State) (line : Bytes) (hp : panics s line = false) :
    (∃ e, (processLine s line).2 = .parseError e ∧ parse (taken s line) = .error e ∧
          (processLine s line).1 = ⟨0, []⟩) ∨
    ((processLine s line).2 = .more ∧ 0 < s.depth + countDepth line ∧
          (processLine s line).1 = ⟨s.depth + countDepth line, taken s line⟩) ∨
    (∃ fs, (processLine s line).2 = .forms fs ∧ s.depth + countDepth line = 0 ∧
          parse (taken s line) = .ok fs ∧ (processLine s line).1 = ⟨0, []⟩) := by
  have hnp : (processLine s line).2 ≠ .panic := fun h => by
    rw [repl_panic_iff_panics] at h; rw [h] at hp; cases hp
  unfold processLine processLineWith at hnp ⊢
  split
  · rename_i hneg
    simp only [hneg, if_true] at hnp
    unfold negBranchWith at hnp ⊢
    cases hparse : parse (taken s line) with
    | ok fs => rw [hparse] at hnp; exact absurd rfl hnp
    | error e => exact .inl ⟨e, rfl, rfl, rfl⟩
  · split
    · rename_i h1 h2
      exact .inr (.inl ⟨rfl, h2, rfl⟩)
    · rename_i h1 h2
      have h0 : s.depth + countDepth line = 0 := by omega
      unfold zeroBranch
      cases hparse : parse (taken s line) with
      | ok fs => exact .inr (.inr ⟨fs, rfl, h0, rfl, rfl⟩)
      | error e => exact .inl ⟨e, rfl, rfl, rfl⟩

/-- a syntactic sufficient condition: a line that contains no `)` never reaches the panic,
    in any state a session can be in. -/
theorem repl_no_close_paren_no_panic (s : State) (line : Bytes) (hs : 0 ≤ s.depth)
    (h : (41 : UInt8) ∉ line) : (processLine s line).2 ≠ .panic := by
  intro hp
  rw [repl_panic_iff] at hp
  have := countDepth_nonneg_of_no_close line h
  omega

/-- … hence a whole session whose lines contain no `)` never panics. -/
theorem repl_session_no_close_paren_no_panic (ls : List Bytes) (s : State) (hs : 0 ≤ s.depth)
    (h : ∀ l ∈ ls, (41 : UInt8) ∉ l) : Outcome.panic ∉ session s ls := by
  induction ls generalizing s with
  | nil => simp [session]
  | cons l r ih =>
    simp only [session, List.mem_cons, not_or]
    refine ⟨fun e => repl_no_close_paren_no_panic s l hs (h l List.mem_cons_self) e.symm, ?_⟩
    exact ih _ (repl_depth_nonneg s l) (fun l' hl' => h l' (List.mem_cons_of_mem _ hl'))

/-- THE PROPOSED REPAIR (return `Err("Too many close parens")` instead of `panic!`) makes the line
    assembly total, with no hypothesis … -/
theorem repl_fixed_total (s : State) (line : Bytes) : (processLineFixed s line).2 ≠ .panic := by
  unfold processLineFixed processLineWith
  split
  · unfold negBranchWith; split <;> (intro h; cases h)
  · split
    · intro h; cases h
    · unfold zeroBranch; split <;> (intro h; cases h)

/-- … and changes nothing wherever the code as it is does not panic. -/
theorem repl_fixed_agrees (s : State) (line : Bytes) (h : (processLine s line).2 ≠ .panic) :
    processLineFixed s line = processLine s line := by
  unfold processLine processLineWith at h ⊢
  unfold processLineFixed processLineWith
  split
  · rename_i hneg
    simp only [hneg, if_true] at h
    unfold negBranchWith at h ⊢
    cases hparse : parse (taken s line) with
    | ok fs => rw [hparse] at h; exact absurd rfl h
    | error e => rfl
  · rfl

/-- whatever the sources say now (`ReplCfg.sourcePanics`, re-read on every run), the model the
    driver runs is one of the two above: the code as found, or the repaired code. -/
theorem repl_source_is_found_or_fixed :
    processLineSource = processLine ∨ processLineSource = processLineFixed := by
  unfold processLineSource processLine processLineFixed
  cases ReplCfg.sourcePanics
  · exact .inr rfl
  · exact .inl rfl

/-! ## non-vacuity -/

-- the reader: an unterminated string inside a list, located inside the text
example : parse [40, 97, 32, 34, 98] = .error (⟨0, 1, 1, some (1, 6)⟩, .untermMid) := by decide +kernel
-- the deserialiser on a truncated pair and on a complete one
example : Serde.decode SerdeCfg.asFound [0xff, 0x01] = .error .noValue := by decide
example : Serde.decode SerdeCfg.asFound [0xff, 0x01, 0x80] = .ok (.pair (.atom [1]) (.atom [])) := by decide
-- the assembler: `(q . 1)` assembles, `(q . ` does not, `0xzz` is bad hex
example : IR.assemble [40, 113, 32, 46, 32, 49, 41] = .ok (.pair (.atom [1]) (.atom [1])) := by decide
example : IR.assemble [40, 113, 32, 46, 32] = .error .missingParen := by decide
example : IR.assemble [48, 120, 122, 122] = .error .badHex := by decide
-- the step machine: `(a (q 2 1 1) (q 2 1 1))`… a program that loops is cut at the limit
example : Step.run false Step.chiaPrims Ops.chiaOps 2 50
    (.cons (.int 2) (.cons (.int 1) (.cons (.int 1) .nil)))
    (.cons (.int 2) (.cons (.int 1) (.cons (.int 1) .nil))) = .error .timeout := by decide +kernel
-- the nested head run: `((q))` has head depth 1
example : Step.headDepth (.cons (.int 1) .nil) = 1 := by decide
-- the REPL: a two-line definition is accumulated, then parsed as one form
example : session State.init [[40, 43, 32, 49], [50, 41]] =
    [.more, .forms [.cons ⟨0, 2, 1, some (2, 3)⟩ (.atom ⟨0, 2, 2, none⟩ [43])
       (.cons ⟨0, 2, 1, some (2, 5)⟩ (.int ⟨0, 2, 4, none⟩ 1)
         (.cons ⟨0, 2, 1, some (3, 2)⟩ (.int ⟨0, 3, 1, none⟩ 2) (.nil ⟨0, 2, 1, some (3, 2)⟩)))]] := by
  decide +kernel
example : panics State.init [40, 43, 32, 49] = false := by decide +kernel
example : panics State.init [120, 41] = true := by decide +kernel

end C14
