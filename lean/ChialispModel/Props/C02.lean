/-
  Props/C02.lean — property theorems for C02 (optimisation never changes results).
  (interim: the CLVM-level pass theorems are added once Proofs/EvalLemmas.lean is merged)
-/
import ChialispModel.Props.C01

namespace C02

/-- both optimising and non-optimising builds address arguments through the same path
    function; its correctness (C01 Layer A) is what makes their results agree on variables. -/
theorem shared_name_lookup (name : Bytes) (pat : Rich) (hok : Lang.patOk pat = true) (p : Nat)
    (h : Lang.nameLookup name pat = some p) (v : Val) (ρ : Lang.Env)
    (hb : Lang.bindPat pat (Lang.SV.ofVal v) = some ρ) :
    ∃ w, Lang.lookupEnv name ρ = some (Lang.SV.ofVal w) ∧ Path.lookupNat p v = .ok w :=
  C01.name_lookup_correct name pat hok p h v ρ hb

end C02
