/-
  Props/C02.lean — property theorems for C02 (optimisation never changes results).

  Part 1 (borrowed from C01): optimising and non-optimising builds address arguments through the
  same, proved-correct path function.

  Part 2: the modern compiler's CLVM-level passes that run on every optimising cl23+ build
  (`null_optimization`, `remove_double_apply` with its three root rewrites and its fixpoint loop,
  `brief_path_selection`) and their sequencing in `Strategy23` / `ExistingStrategy`
  (model: Opt/Passes.lean, mirrored from the Rust code and compared byte-for-byte with it by
  `tools/props/c02.py`).  For each root rewrite and each whole pass: ONE-DIRECTIONAL semantic
  preservation against the consensus evaluator model,

      Evaluates ops (toClvm m r) env v  →  Evaluates ops (toClvm m (pass r)) env v

  for all rich values `r`, all environments, every operator table with `PassOps` (f / r / c are
  first / rest / cons, `i` selects by nil-ness, the unknown operator 0x71 does not return a
  non-nil value on no operands), in both integer-conversion modes (`m = false`: cl23, legacy;
  `m = true`: cl23.1 / cl24, fixed).

  The model mirrors the code AFTER the three `fix:` commits c770023 (null-root-quote),
  ff1c63d (legacy-zero-truthy), fdf41dd (double-apply-requoted).  Before them the passes
  changed results of ordinary programs in three ways; each former counter-witness is now a
  positive theorem on the same witness (`…_repaired`):
    * `Strategy23` called `null_optimization(root, spine = true)` on an expression, so a root
      quote form `(q . DATA)` had the elements of DATA rewritten — now
      `null_optimization_of_expression` leaves a quote form alone
                                              (`null_optimization_root_quote_repaired`);
    * legacy mode (cl23): `collapse_constant_condition` decided a quoted condition with `truthy`,
      which reads `0x00` as the number 0 — now `truthy_when_converted`, which IS CLVM truthiness
      of the converted value in both modes (`collapse_constant_condition_legacy_zero_repaired`);
      the rewrite is sound for ALL inputs (`collapse_constant_condition_sound`);
    * the `while` loop of `remove_double_apply` re-entered a result that had become a quote form
      and rewrote inside the quoted data — now it re-checks (`remove_double_apply_requoted_repaired`).

  FULL STATEMENT of the recursive passes (ALL inputs, without `flag = false`) is still false for
  arbitrary CLVM, on classes that do not arise on expression-shaped code (`exprShape`, measured on
  every recorded pass input; see `*_flag_free_on_codegen_shape`), each with a kernel-checked
  counter-witness:
    * operands of a pair-headed form `((X) . args)` are rewritten although clvmr does not
      evaluate them                              (`*_counterexample_pair_head`);
    * `brief_path_selection_single` composes onto a NEGATIVE `Integer` as if it were path 1
                                              (`brief_path_selection_counterexample_negative`);
    * legacy mode: `(q . 0)` with the `Integer 0` spelling (which neither the reader nor the
      conversions produce) becomes the path `0x00` (`null_optimization_counterexample_legacy_zero`).
  The `_partial` theorems carry exactly these exclusions as the decidable ghost flag the model
  computes alongside the result (`PR.flag`, Opt/Passes.lean).
-/
import ChialispModel.Props.C01
import ChialispModel.Proofs.PassesLemmas

namespace C02
open Clvm Passes

/-- both optimising and non-optimising builds address arguments through the same path
    function; its correctness (C01 Layer A) is what makes their results agree on variables. -/
theorem shared_name_lookup (name : Bytes) (pat : Rich) (hok : Lang.patOk pat = true) (p : Nat)
    (h : Lang.nameLookup name pat = some p) (v : Val) (ρ : Lang.Env)
    (hb : Lang.bindPat pat (Lang.SV.ofVal v) = some ρ) :
    ∃ w, Lang.lookupEnv name ρ = some (Lang.SV.ofVal w) ∧ Path.lookupNat p v = .ok w :=
  C01.name_lookup_correct name pat hok p h v ρ hb

-- ---------------------------------------------------------------------------------------
-- the operator-table hypothesis is met by the concrete table
-- ---------------------------------------------------------------------------------------

/-- the driver's operator table (clvmr's, strict about unknown operators) satisfies `PassOps`. -/
theorem pass_ops_chia : PassOps Ops.chiaOps where
  core := Ops.chiaOps_core
  if_inv args v h := by
    rw [Ops.chiaOps_apply] at h
    unfold Ops.chiaApply at h
    have hu : Ops.unsupportedOp [3] = false := by decide
    simp only [hu, Bool.false_eq_true, if_false, sn3] at h
    simp only [List.length_cons, List.length_nil] at h
    simp only [Ops.getArgs] at h
    cases args with
    | atom b => simp [Val.elems, failR] at h
    | pair c r1 =>
      cases r1 with
      | atom b => simp [Val.elems, failR] at h
      | pair a r2 =>
        cases r2 with
        | atom b => simp [Val.elems, failR] at h
        | pair b t =>
          refine ⟨c, a, b, t, rfl, ?_⟩
          cases ht : Val.elems t with
          | nil => simp [Val.elems, ht] at h; exact h.symm
          | cons x xs => simp [Val.elems, ht, failR] at h
  q113 v h := by
    rw [Ops.chiaOps_apply] at h
    have : Ops.chiaApply [113] Val.nil = failR "unknown op" := by decide
    rw [this] at h; cases h

-- ---------------------------------------------------------------------------------------
-- the three root rewrites
-- ---------------------------------------------------------------------------------------

/-- **change_double_to_single_apply** `(a (q . X) 1 . ANY) ⇒ X`: sound for every rich value, every
    operator table, both integer modes (the pattern's unchecked tail `ANY` and the three rich
    spellings of `a`, `q`, `1` included). -/
theorem change_double_to_single_apply_sound {ops : OpSem} (m : Mode) (r : Rich) (e v : Val)
    (h : Evaluates ops (Rich.toClvm m r) e v) :
    Evaluates ops (Rich.toClvm m (changeDoubleToSingleApply r).2) e v :=
  changeDoubleToSingleApply_sound m r h

example : changeDoubleToSingleApply
    (.cons (.int 2) (.cons (.cons (.atom [1]) (.cons (.int 5) (.cons (.int 3) .nil))) (.cons (.qstr 120 [1]) .nil)))
    = (true, .cons (.int 5) (.cons (.int 3) .nil)) := by decide

/-- **change_apply_double_quote** `(a (q 1 . BODY) . ANY) ⇒ (q . BODY)`: sound for every rich
    value, every operator table, both modes (the optimised form no longer evaluates the
    environment operand: lazier, never a different value). -/
theorem change_apply_double_quote_sound {ops : OpSem} (m : Mode) (r : Rich) (e v : Val)
    (h : Evaluates ops (Rich.toClvm m r) e v) :
    Evaluates ops (Rich.toClvm m (changeApplyDoubleQuote r).2) e v :=
  changeApplyDoubleQuote_sound m r h

example : changeApplyDoubleQuote
    (.cons (.int 2) (.cons (.cons (.int 1) (.cons (.int 1) (.atom [7, 7]))) (.cons (.int 11) .nil)))
    = (true, .cons (.int 1) (.atom [7, 7])) := by decide

/-- **collapse_constant_condition** `(i COND A B . ANY) ⇒ A | B` for a constant COND: sound for
    every rich value, every operator table with `PassOps`, BOTH integer modes — no side condition
    (a quoted condition is decided by `truthy_when_converted`, see `truthy_when_converted_is_clvm`). -/
theorem collapse_constant_condition_sound {ops : OpSem} (po : PassOps ops) (m : Mode) (r : Rich)
    (e v : Val) (h : Evaluates ops (Rich.toClvm m r) e v) :
    Evaluates ops (Rich.toClvm m (collapseConstantCondition m r).2) e v :=
  collapseConstantCondition_sound po m r h

/-- `truthy_when_converted` (clvm.rs) is CLVM truthiness (non-empty atom or pair) of what
    `convert_to_clvm_rs` makes of the value, in both integer modes and for every spelling. -/
theorem truthy_when_converted_is_clvm (m : Mode) (x : Rich) :
    truthyWhenConverted m x = !Val.nilp (Rich.toClvm m x) :=
  truthyWhenConverted_eq m x

example : collapseConstantCondition false (.cons (.int 3) (.cons (.cons (.int 1) (.int 7)) (.cons (.int 2) (.cons (.int 5) .nil))))
      = (true, .int 2) := by decide

private def A (l : List Nat) : Val := .atom (l.map UInt8.ofNat)

/-- former counter-witness (legacy integer mode, cl23), repaired by ff1c63d:
    `(i (q . 0x00) 2 3)` returns the FIRST wing in clvmr (`0x00` is a non-empty atom), and
    `collapse_constant_condition` now picks the first wing too — in both modes. -/
theorem collapse_constant_condition_legacy_zero_repaired :
    evalC Ops.chiaOps 6 (Rich.toClvm false
      (.cons (.int 3) (.cons (.cons (.int 1) (.qstr 120 [0])) (.cons (.int 2) (.cons (.int 3) .nil)))))
      (.pair (A [7]) (A [8])) = .ok (A [7]) ∧
    collapseConstantCondition false
      (.cons (.int 3) (.cons (.cons (.int 1) (.qstr 120 [0])) (.cons (.int 2) (.cons (.int 3) .nil)))) = (true, .int 2) ∧
    collapseConstantCondition true
      (.cons (.int 3) (.cons (.cons (.int 1) (.qstr 120 [0])) (.cons (.int 2) (.cons (.int 3) .nil)))) = (true, .int 2) ∧
    evalC Ops.chiaOps 6 (Rich.toClvm false (.int 2)) (.pair (A [7]) (A [8])) = .ok (A [7]) := by
  decide

-- ---------------------------------------------------------------------------------------
-- null_optimization
-- ---------------------------------------------------------------------------------------

/-- **null_optimization** as called by both strategies (`spine = false`: `ExistingStrategy`,
    `spine = true`: `Strategy23`): every value of the input is a value of the output, for every
    run whose ghost flag is clear.  FULL STATEMENT without `hf` is false for
    arbitrary CLVM: `null_optimization_counterexample_{legacy_zero, pair_head}`. -/
theorem null_optimization_partial {ops : OpSem} (po : PassOps ops) (m : Mode) (r : Rich) (spine : Bool)
    (hf : (nullPass m r spine).flag = false) (e v : Val) (h : Evaluates ops (Rich.toClvm m r) e v) :
    Evaluates ops (Rich.toClvm m (nullPass m r spine).out) e v := by
  have := nullPass_pres po m r spine hf
  simp only [Pres, if_true] at this
  exact this e v h

/-- `null_optimization` reporting "no work" returns its input. -/
theorem null_optimization_unchanged (m : Mode) (r : Rich) (spine : Bool)
    (h : (nullOpt m r spine).changed = false) : (nullOpt m r spine).out = r :=
  nullOpt_unchanged m r spine h

-- (c (q) (f (q)))   ⇒   (c () (f ()))   — the test case of mod.rs, flag clear
example : nullPass true (.cons (.int 4) (.cons (.cons (.int 1) .nil) (.cons (.cons (.int 5) (.cons (.cons (.atom [113]) .nil) .nil)) .nil))) true
    = ⟨true, .cons (.int 4) (.cons .nil (.cons (.cons (.int 5) (.cons .nil .nil)) .nil)), false, false⟩ := by decide

/-- former counter-witness (root quote form, `Strategy23`), repaired by c770023: the program
    `(q (q))` returns `((q))`; `null_optimization_of_expression` leaves it alone and so does the
    whole `Strategy23` sequence.  (Source: `(mod () (include *standard-cl-23*) (q (1)))`.) -/
theorem null_optimization_root_quote_repaired :
    (nullPass true (.cons (.int 1) (.cons (.cons (.int 1) .nil) .nil)) true)
      = ⟨false, .cons (.int 1) (.cons (.cons (.int 1) .nil) .nil), false, false⟩ ∧
    (strategy23 true 10 (.cons (.int 1) (.cons (.cons (.int 1) .nil) .nil)))
      = ⟨false, .cons (.int 1) (.cons (.cons (.int 1) .nil) .nil), false, false⟩ ∧
    evalC Ops.chiaOps 4 (Rich.toClvm true (.cons (.int 1) (.cons (.cons (.int 1) .nil) .nil))) (A [])
      = .ok (.pair (.pair (A [1]) (A [])) (A [])) := by
  decide

/-- counter-witness (legacy mode): `(q . 0)` with the `Integer 0` spelling is the atom `0x00`;
    the replacement `Integer 0` is the PATH `0x00`, which is nil. -/
theorem null_optimization_counterexample_legacy_zero :
    (nullPass false (.cons (.int 1) (.int 0)) false) = ⟨true, .int 0, true, false⟩ ∧
    evalC Ops.chiaOps 4 (Rich.toClvm false (.cons (.int 1) (.int 0))) (A [9]) = .ok (A [0]) ∧
    evalC Ops.chiaOps 4 (Rich.toClvm false (.int 0)) (A [9]) = .ok (A []) := by
  decide

/-- counter-witness (pair head): `((c) (q) (q))` applies `c` to the UNEVALUATED operands and
    returns `((q) q)`; after `null_optimization` it returns `(() . ())`. -/
theorem null_optimization_counterexample_pair_head :
    (nullPass true (.cons (.cons (.int 4) .nil) (.cons (.cons (.int 1) .nil) (.cons (.cons (.int 1) .nil) .nil))) false)
      = ⟨true, .cons (.cons (.int 4) .nil) (.cons .nil (.cons .nil .nil)), true, false⟩ ∧
    evalC Ops.chiaOps 4 (Rich.toClvm true
        (.cons (.cons (.int 4) .nil) (.cons (.cons (.int 1) .nil) (.cons (.cons (.int 1) .nil) .nil)))) (A [9])
      = .ok (.pair (.pair (A [1]) (A [])) (.pair (A [1]) (A []))) ∧
    evalC Ops.chiaOps 4 (Rich.toClvm true (.cons (.cons (.int 4) .nil) (.cons .nil (.cons .nil .nil)))) (A [9])
      = .ok (.pair (A []) (A [])) := by
  decide

-- ---------------------------------------------------------------------------------------
-- remove_double_apply
-- ---------------------------------------------------------------------------------------

/-- **remove_double_apply(sexp, true)** — recursion with both `spine` flags, the three root
    rewrites and the `while any_transformation` loop — preserves every value of the input, for
    EVERY amount of loop fuel (a run cut short returns an intermediate tree that still means what
    the input means) and every run whose ghost flag is clear.  FULL STATEMENT without `hf` is
    false for arbitrary CLVM: `remove_double_apply_counterexample_pair_head`. -/
theorem remove_double_apply_partial {ops : OpSem} (po : PassOps ops) (m : Mode) (fuel : Nat) (r : Rich)
    (hf : (rda m fuel r true).flag = false) (e v : Val) (h : Evaluates ops (Rich.toClvm m r) e v) :
    Evaluates ops (Rich.toClvm m (rda m fuel r true).out) e v := by
  have := (rda_pres po m fuel).1 r true hf
  simp only [Pres, if_true] at this
  exact this e v h

/-- the same for the list-tail entry `remove_double_apply(sexp, false)`: every evaluated operand
    list of the input is one of the output. -/
theorem remove_double_apply_tail_partial {ops : OpSem} (po : PassOps ops) (m : Mode) (fuel : Nat) (r : Rich)
    (hf : (rda m fuel r false).flag = false) (e vals : Val) (h : EvalArgs ops (Rich.toClvm m r) e vals) :
    EvalArgs ops (Rich.toClvm m (rda m fuel r false).out) e vals := by
  have := (rda_pres po m fuel).1 r false hf
  simp only [Pres] at this
  exact this e vals h

/-- a run that reports "not transformed" returns its input, for every fuel. -/
theorem remove_double_apply_unchanged (m : Mode) (fuel : Nat) (r : Rich) (spine : Bool)
    (h : (rda m fuel r spine).changed = false) : (rda m fuel r spine).out = r :=
  (rda_unchanged m fuel).1 r spine h

-- (a (q . (a (q . (i (q . 1) 2 3)) 1)) 1)  ⇒  2      (three loop rounds, all three rewrites' kin)
example : removeDoubleApply true
    (.cons (.int 2) (.cons (.cons (.int 1)
      (.cons (.int 2) (.cons (.cons (.int 1) (.cons (.int 3) (.cons (.cons (.int 1) (.int 1)) (.cons (.int 2) (.cons (.int 3) .nil)))))
        (.cons (.int 1) .nil)))) (.cons (.int 1) .nil))) true
    = ⟨true, .int 2, false, false⟩ := by decide

/-- former counter-witness (quoted data reached as code), repaired by fdf41dd:
    `(a (q 1 . ((i () 2 3))) 1)` returns the DATA `((i () 2 3))`; the first loop round rewrites it
    to `(q . ((i () 2 3)))`, the loop now re-checks for a quote form and stops: the result
    returns the same data. -/
theorem remove_double_apply_requoted_repaired :
    removeDoubleApply true
      (.cons (.int 2) (.cons (.cons (.int 1) (.cons (.int 1) (.cons (.cons (.int 3) (.cons .nil (.cons (.int 2) (.cons (.int 3) .nil)))) .nil)))
        (.cons (.int 1) .nil))) true
      = ⟨true, .cons (.int 1) (.cons (.cons (.int 3) (.cons .nil (.cons (.int 2) (.cons (.int 3) .nil)))) .nil), false, false⟩ ∧
    evalC Ops.chiaOps 6 (Rich.toClvm true
      (.cons (.int 2) (.cons (.cons (.int 1) (.cons (.int 1) (.cons (.cons (.int 3) (.cons .nil (.cons (.int 2) (.cons (.int 3) .nil)))) .nil)))
        (.cons (.int 1) .nil)))) (A [9])
      = .ok (.pair (.pair (A [3]) (.pair (A []) (.pair (A [2]) (.pair (A [3]) (A []))))) (A [])) ∧
    evalC Ops.chiaOps 6 (Rich.toClvm true
      (.cons (.int 1) (.cons (.cons (.int 3) (.cons .nil (.cons (.int 2) (.cons (.int 3) .nil)))) .nil))) (A [9])
      = .ok (.pair (.pair (A [3]) (.pair (A []) (.pair (A [2]) (.pair (A [3]) (A []))))) (A [])) := by
  decide

/-- counter-witness (pair head): `((c) (a (q . 5) 1) 7)` returns `((a (q . 5) 1) . 7)` (operands
    unevaluated); after the pass, `(5 . 7)`. -/
theorem remove_double_apply_counterexample_pair_head :
    removeDoubleApply true
      (.cons (.cons (.int 4) .nil) (.cons (.cons (.int 2) (.cons (.cons (.int 1) (.int 5)) (.cons (.int 1) .nil))) (.cons (.int 7) .nil))) true
      = ⟨true, .cons (.cons (.int 4) .nil) (.cons (.int 5) (.cons (.int 7) .nil)), true, false⟩ ∧
    evalC Ops.chiaOps 6 (Rich.toClvm true
      (.cons (.cons (.int 4) .nil) (.cons (.cons (.int 2) (.cons (.cons (.int 1) (.int 5)) (.cons (.int 1) .nil))) (.cons (.int 7) .nil)))) (A [9])
      = .ok (.pair (.pair (A [2]) (.pair (.pair (A [1]) (A [5])) (.pair (A [1]) (A [])))) (A [7])) ∧
    evalC Ops.chiaOps 6 (Rich.toClvm true
      (.cons (.cons (.int 4) .nil) (.cons (.int 5) (.cons (.int 7) .nil)))) (A [9])
      = .ok (.pair (A [5]) (A [7])) := by
  decide

-- ---------------------------------------------------------------------------------------
-- brief_path_selection
-- ---------------------------------------------------------------------------------------

/-- **brief_path_selection_single**: an `f`/`r` chain over an `Integer` path ⇒ the composed path
    (`compose_paths(I, target)`: `I`'s bits first), for every chain length and every path width. -/
theorem brief_path_selection_single_partial {ops : OpSem} (po : PassOps ops) (m : Mode) (r : Rich)
    (hf : (briefSingle r).flag = false) (e v : Val) (h : Evaluates ops (Rich.toClvm m r) e v) :
    Evaluates ops (Rich.toClvm m (briefSingle r).out) e v := by
  have := briefSingle_pres po m r hf
  simp only [Pres, if_true] at this
  exact this e v h

/-- **brief_path_selection** (recursion through every proper list not headed by `q`, rebuilt onto
    `Nil`).  FULL STATEMENT without `hf` is false: `brief_path_selection_counterexample_negative`. -/
theorem brief_path_selection_partial {ops : OpSem} (po : PassOps ops) (m : Mode) (r : Rich)
    (hf : (briefPath r).flag = false) (e v : Val) (h : Evaluates ops (Rich.toClvm m r) e v) :
    Evaluates ops (Rich.toClvm m (briefPath r).out) e v := by
  have := (brief_pres po m r).1 hf
  simp only [Pres, if_true] at this
  exact this e v h

-- (f (f (r (f 11))))  ⇒  147     (the test case of brief.rs)
example : briefPath (.cons (.int 5) (.cons (.cons (.int 5) (.cons (.cons (.int 6) (.cons (.cons (.int 5) (.cons (.int 11) .nil)) .nil)) .nil)) .nil))
    = ⟨true, .int 147, false, false⟩ := by decide
-- (c (f (r 1)) (q f 2))  ⇒  (c 5 (q f 2))
example : briefPath (.cons (.int 4) (.cons (.cons (.int 5) (.cons (.cons (.int 6) (.cons (.int 1) .nil)) .nil)) (.cons (.cons (.int 1) (.cons (.int 5) (.cons (.int 2) .nil))) .nil)))
    = ⟨true, .cons (.int 4) (.cons (.int 5) (.cons (.cons (.int 1) (.cons (.int 5) (.cons (.int 2) .nil))) .nil)), false, false⟩ := by decide

private def deepL : Nat → Val → Val
  | 0, v => v
  | n + 1, v => .pair (deepL n v) (A [])

/-- counter-witness (negative path integer): `(f -128)` is `(f 0x80)`, the node 8 levels down
    the firsts; `compose_paths(-128, 2)` is 2, one level down. -/
theorem brief_path_selection_counterexample_negative :
    briefPath (.cons (.int 5) (.cons (.int (-128)) .nil)) = ⟨true, .int 2, true, false⟩ ∧
    evalC Ops.chiaOps 4 (Rich.toClvm true (.cons (.int 5) (.cons (.int (-128)) .nil))) (deepL 8 (A [9])) = .ok (A [9]) ∧
    evalC Ops.chiaOps 4 (Rich.toClvm true (.int 2)) (deepL 8 (A [9])) = .ok (deepL 7 (A [9])) := by
  decide

-- ---------------------------------------------------------------------------------------
-- sequencing
-- ---------------------------------------------------------------------------------------

/-- **the passes compose**: `Strategy23::post_codegen_output_optimize` /
    `::post_codegen_function_optimize` — `null_optimization(·, true)`, then
    `remove_double_apply(·, true)`, then `brief_path_selection`, "the input when nothing worked" —
    preserves every value of the input, for every fuel of the double-apply loop and every run
    whose (combined) ghost flag is clear. -/
theorem strategy23_sound_partial {ops : OpSem} (po : PassOps ops) (m : Mode) (fuel : Nat) (r : Rich)
    (hf : (strategy23 m fuel r).flag = false) (e v : Val) (h : Evaluates ops (Rich.toClvm m r) e v) :
    Evaluates ops (Rich.toClvm m (strategy23 m fuel r).out) e v := by
  have := strategy23_pres po m fuel r hf
  simp only [Pres, if_true] at this
  exact this e v h

/-- `ExistingStrategy::post_codegen_output_optimize` for every option set: the identity unless
    `frontend_opt` and stepping > 22, then `null_optimization(·, false)`. -/
theorem existing_strategy_sound_partial {ops : OpSem} (po : PassOps ops) (m : Mode) (fe : Bool)
    (stepping : Option Int) (r : Rich) (hf : (existingStrategy m fe stepping r).flag = false)
    (e v : Val) (h : Evaluates ops (Rich.toClvm m r) e v) :
    Evaluates ops (Rich.toClvm m (existingStrategy m fe stepping r).out) e v := by
  have := existingStrategy_pres po m fe stepping r hf
  simp only [Pres, if_true] at this
  exact this e v h

/-- without `frontend_opt`, or at stepping ≤ 22, `ExistingStrategy` leaves the code alone. -/
theorem existing_strategy_identity (m : Mode) (fe : Bool) (stepping : Option Int) (r : Rich)
    (h : (fe && steppingAbove22 stepping) = false) : (existingStrategy m fe stepping r).out = r := by
  simp [existingStrategy, h, same]

-- (a (q . (c (f (r 1)) (q))) 1)  ⇒  (c 5 (q))   — double apply and brief take part ((q) sits inside the quote when null_optimization runs), flag clear
example : strategy23 true 40
    (.cons (.int 2) (.cons (.cons (.int 1) (.cons (.int 4) (.cons (.cons (.int 5) (.cons (.cons (.int 6) (.cons (.int 1) .nil)) .nil)) (.cons (.cons (.int 1) .nil) .nil))))
      (.cons (.int 1) .nil)))
    = ⟨true, .cons (.int 4) (.cons (.int 5) (.cons (.cons (.int 1) .nil) .nil)), false, false⟩ := by decide

-- ---------------------------------------------------------------------------------------
-- termination of the `while any_transformation` loop
-- ---------------------------------------------------------------------------------------

/-- every transformation `remove_double_apply` reports removes at least one node (any fuel):
    the measure that makes the `while any_transformation` loop terminate. -/
theorem remove_double_apply_shrinks (m : Mode) (fuel : Nat) (r : Rich) (spine : Bool) :
    rsize (rda m fuel r spine).out ≤ rsize r ∧
    ((rda m fuel r spine).changed = true → rsize (rda m fuel r spine).out < rsize r) :=
  (rda_size m fuel).1 r spine

/-- **termination**: with fuel `2 * size + 2` the loop (at every depth of the recursion) stops
    because no rewrite applies any more, never because the fuel ran out — so the fuel-indexed
    model run the driver compares with the Rust code IS the Rust function's result. -/
theorem remove_double_apply_terminates (m : Mode) (r : Rich) (spine : Bool) :
    (removeDoubleApply m r spine).oof = false :=
  removeDoubleApply_terminates m r spine

/-- the same inside the `Strategy23` sequence (`null_optimization` never grows the tree). -/
theorem strategy23_loop_terminates (m : Mode) (r : Rich) :
    (strategy23 m (strategy23Fuel r) r).oof = false :=
  strategy23_terminates m r

-- ---------------------------------------------------------------------------------------
-- which exclusions can arise on code-generator output
-- ---------------------------------------------------------------------------------------

/-- `CodegenShape` (`exprShape`: no pair in operator position outside quoted data, no negative
    path integer) rules out every excluded class of `brief_path_selection`: on expression-shaped
    code the pass is sound without exclusions (with `brief_path_selection_partial`). -/
theorem brief_path_selection_flag_free_on_codegen_shape (r : Rich) (h : exprShape r = true) :
    (briefPath r).flag = false :=
  (brief_flag_of_shape r).1 h

/-- likewise for `null_optimization` in the fixed integer mode, at both entries
    (`spine = false`: `ExistingStrategy`; `spine = true`: `Strategy23`'s
    `null_optimization_of_expression`): on expression-shaped code no excluded shape is met. -/
theorem null_optimization_flag_free_on_codegen_shape (r : Rich) (spine : Bool) (h : exprShape r = true) :
    (nullPass true r spine).flag = false :=
  nullPass_flag_of_shape r spine h

/-- hence, WITHOUT any flag hypothesis: on expression-shaped code `brief_path_selection` preserves
    every value (both integer modes). -/
theorem brief_path_selection_sound_on_codegen_shape {ops : OpSem} (po : PassOps ops) (m : Mode) (r : Rich)
    (hs : exprShape r = true) (e v : Val) (h : Evaluates ops (Rich.toClvm m r) e v) :
    Evaluates ops (Rich.toClvm m (briefPath r).out) e v :=
  brief_path_selection_partial po m r (brief_path_selection_flag_free_on_codegen_shape r hs) e v h

/-- and `null_optimization`, at either strategy's entry, preserves every value of
    expression-shaped code in the fixed integer mode. -/
theorem null_optimization_sound_on_codegen_shape {ops : OpSem} (po : PassOps ops) (r : Rich) (spine : Bool)
    (hs : exprShape r = true) (e v : Val) (h : Evaluates ops (Rich.toClvm true r) e v) :
    Evaluates ops (Rich.toClvm true (nullPass true r spine).out) e v :=
  null_optimization_partial po true r spine (null_optimization_flag_free_on_codegen_shape r spine hs) e v h

example : exprShape (.cons (.int 2) (.cons (.cons (.int 1) (.cons (.cons (.int 9) .nil) .nil)) (.cons (.int 1) .nil))) = true ∧
    exprShape (.cons (.cons (.int 4) .nil) (.cons (.int 1) .nil)) = false ∧
    exprShape (.cons (.int 5) (.cons (.int (-128)) .nil)) = false := by decide

end C02
