/-
  Props/C18.lean — property theorems for C18:
  the dependency listing names every file a compilation reads.

  Model: Sys/Deps.lean (`gather_dependencies` = `gatherDeps`, the `read_new_file` calls of a
  compilation = `compileReads`; programs abstracted to include / embed-file / nested-mod / other
  forms; search path = list of directories, first hit wins).  `fuel` bounds the recursion depth;
  all statements are for every configuration, program and fuel.

  The model mirrors the code AFTER the two repairs 91ba43e (embed-file targets are listed) and
  95cfe0a (the include vectors of the programs nested in a program are collected, no liveness
  filter).  Before them the FULL inclusion `reads_subset_deps` was false (embed targets and
  includes inside a `(mod …)` used as an expression were missing; the former `decide`
  counter-witnesses are kept below as `…_repaired` theorems on the same inputs: the file now IS
  listed) and only a `_partial` version with the two exclusions could be proved.  Now the full
  statement holds, with no exclusion: embed-file reads and reads at every nesting depth included.

  Still partial: `acyclic_terminates` (programs without nested mods; fuel then counts include depth
  only).  Not covered by the abstraction of forms (see tools/props/c18.py, modelled_not_verified):
  a `(mod …)` that only comes into being when an old-style `defmacro` is expanded during code
  generation — finding F-C18-macro-generated-mod, which the listing still misses.
  (Helper lemmas live in Proofs/DepsLemmas.lean.)
-/
import ChialispModel.Sys.Deps
import ChialispModel.Proofs.DepsLemmas

namespace C18
open Deps

/-- FULL inclusion: every file read by the compilation — plain includes, includes of included
    files, embed-file targets, and all of these inside `(mod …)` expressions nested to any depth —
    is a pseudo-file or appears in the dependency listing. -/
theorem reads_subset_deps (cfg : Cfg) (fuel : Nat) (main : List Form)
    (reads : List Read) (deps : List RName)
    (hc : compileReads cfg fuel main = .ok reads) (hg : gatherDeps cfg fuel main = .ok deps) :
    ∀ r ∈ reads, r.res.isPseudo = true ∨ r.res ∈ deps := by
  unfold compileReads at hc
  unfold gatherDeps at hg
  split at hc
  · cases hc
  · rename_i oc hoc
    injection hc with hc; subst hc
    split at hg
    · cases hg
    · rename_i og hog
      injection hg with hg; subst hg
      intro r hr
      rcases (frontend_rel cfg true cfg.strict fuel false false main oc og hoc hog).1 r hr with h | h
      · exact .inl h
      · by_cases hp : r.res.isPseudo = true
        · exact .inl hp
        · right
          simp only [List.mem_filter]
          exact ⟨h, by simpa using hp⟩

/-- every listed name is the FIRST match in search-path order: it names a source file (or, for an
    embed-file target, a data file) that exists in directory `i` and in no earlier directory of
    the path. -/
theorem listed_is_first_match (cfg : Cfg) (fuel : Nat) (main : List Form) (deps : List RName)
    (hg : gatherDeps cfg fuel main = .ok deps) :
    ∀ x ∈ deps, (∃ i n, x = .src i n ∧ FirstMatch cfg.dirs i n) ∨
      (∃ i n, x = .dat i n ∧ FirstMatchDat cfg.dirs i n) := by
  unfold gatherDeps at hg
  split at hg
  · cases hg
  · rename_i og hog
    injection hg with hg; subst hg
    intro x hx
    simp only [List.mem_filter] at hx
    obtain ⟨hx, hnp⟩ := hx
    rcases frontend_listedOK cfg cfg.strict fuel false main og hog x hx with h | h
    · simp [h] at hnp
    · exact h

/-- every listed name is a file the compilation actually reads (the listing resolves names the
    same way the compiler does; it never names a same-named file further down the path). -/
theorem listed_is_read (cfg : Cfg) (fuel : Nat) (main : List Form)
    (reads : List Read) (deps : List RName)
    (hc : compileReads cfg fuel main = .ok reads) (hg : gatherDeps cfg fuel main = .ok deps) :
    ∀ x ∈ deps, ∃ r ∈ reads, r.res = x := by
  unfold compileReads at hc
  unfold gatherDeps at hg
  split at hc
  · cases hc
  · rename_i oc hoc
    injection hc with hc; subst hc
    split at hg
    · cases hg
    · rename_i og hog
      injection hg with hg; subst hg
      intro x hx
      simp only [List.mem_filter] at hx
      obtain ⟨hx, hnp⟩ := hx
      rcases (frontend_rel cfg true cfg.strict fuel false false main oc og hoc hog).2 x hx with h | h
      · simp [h] at hnp
      · exact h

/-- termination (⇐): if the include graph has a rank function (it is acyclic) whose value on the
    program's own includes is below `fuel − 3`, and neither the program nor any reachable file
    contains a nested mod, the listing does not run out of fuel — it returns a list or a genuine
    error. -/
theorem acyclic_terminates (cfg : Cfg) (rk : Nat → Nat) (hrk : Ranked cfg rk)
    (hflat : FlatFiles cfg) (main : List Form) (hmain : flatForms main = true) (fuel : Nat)
    (h2 : 2 ≤ fuel) (hfuel : ∀ m ∈ inclsOf main, rk m + 3 ≤ fuel) :
    gatherDeps cfg (fuel + 1) main ≠ .error .fuel := by
  have hpp : ∀ g ∈ (if cfg.strict = true then Form.incl .macros :: main else main),
      ppLevel cfg fuel g ≠ .error .fuel := by
    intro g hg
    apply ppLevel_no_fuel cfg rk hrk fuel g h2
    intro m hm; subst hm
    apply hfuel
    apply mem_inclsOf
    split at hg
    · simp only [List.mem_cons] at hg
      rcases hg with hg | hg
      · cases hg
      · exact hg
    · exact hg
  have hpre := seqForms_fuel _ hpp
  unfold gatherDeps
  simp only [frontendLevel, preprocess]
  cases h1 : seqForms (ppLevel cfg fuel) (if cfg.strict = true then Form.incl .macros :: main else main) with
  | error e => simp only; intro h; injection h with h; subst h; exact hpre h1
  | ok pre =>
    simp only
    have hflatpre : flatForms pre.forms = true := by
      apply seq_flat cfg hflat fuel _ pre _ h1
      intro g hg b
      split at hg
      · simp only [List.mem_cons] at hg
        rcases hg with hg | hg
        · subst hg; intro e; cases e
        · exact flat_mem hmain g hg b
      · exact flat_mem hmain g hg b
    have := compileHelpers_flat (fe := frontendLevel cfg cfg.strict fuel true) pre.forms hflatpre
    cases h3 : compileHelpers (frontendLevel cfg cfg.strict fuel true) pre.forms with
    | error e => simp only; intro h; injection h with h; subst h; exact this h3
    | ok sub => simp

/-- a configuration in which file 1 includes itself -/
def selfIncl (strict : Bool) : Cfg :=
  { dirs := [{ src := fun n => if n = 1 then some [.incl (.file 1)] else none, dat := fun _ => none }],
    strict := strict }

/-- termination (⇒), witnessed: a file that includes itself exhausts every fuel — the real
    traversal recurses until the stack overflows. -/
theorem cycle_never_terminates (strict : Bool) (fuel : Nat) :
    gatherDeps (selfIncl strict) fuel [.incl (.file 1)] = .error .fuel := by
  have hpp : ∀ fuel, ppLevel (selfIncl strict) fuel (.incl (.file 1)) = .error .fuel := by
    intro fuel
    induction fuel with
    | zero => rfl
    | succ F ih => simp [ppLevel, recurseDeps, readNew, resolveSrc, selfIncl, seqForms] at ih ⊢; simp [ih]
  cases fuel with
  | zero => rfl
  | succ F =>
    have hF := hpp F
    cases strict with
    | false =>
      simp only [selfIncl] at hF
      simp [gatherDeps, frontendLevel, preprocess, seqForms, selfIncl, hF]
    | true =>
      simp only [selfIncl] at hF
      simp only [gatherDeps, frontendLevel, preprocess, selfIncl, if_true, seqForms, hF]
      cases hm : ppLevel { dirs := [{ src := fun n => if n = 1 then some [.incl (.file 1)] else none,
                                       dat := fun _ => none }], strict := true } F (.incl .macros) with
      | error e => rw [macros_err hm]
      | ok a => rfl

-- ---------------------------------------------------------------------------------------------
-- the two former defects, on the former counter-witnesses: the files now ARE listed
-- ---------------------------------------------------------------------------------------------

/-- one directory holding source file 1 (`(… (defun …))`), source file 2 that includes 1, and
    data file 7. -/
def dir0 : Dir :=
  { src := fun n => if n = 1 then some [.other] else if n = 2 then some [.incl (.file 1), .other] else none,
    dat := fun n => if n = 7 then some (true, true) else none }

def cfgN : Cfg := { dirs := [dir0], strict := false }
def cfgS : Cfg := { dirs := [dir0], strict := true }

def readsOf (r : Except Err (List Read)) : List Read := match r with | .ok l => l | .error _ => []
def depsOf (r : Except Err (List RName)) : Option (List RName) := match r with | .ok l => some l | .error _ => none

/-- `(mod (A) (include *standard-cl-21*) (embed-file C bin "7") …)`: the data file is read and
    (since 91ba43e) listed.  Before: `some []`. -/
theorem embed_listed_repaired :
    depsOf (gatherDeps cfgN 6 [.incl (.dialect 0), .embed .bin 7, .other]) = some [.dat 0 7] ∧
    (⟨.dat 0 7, true, false⟩ : Read) ∈ readsOf (compileReads cfgN 6 [.incl (.dialect 0), .embed .bin 7, .other]) := by
  decide

/-- `(mod (A) (include *standard-cl-23*) (defun f (X) (a (mod (Y) (include "1") …) …)) …)`: file 1
    is read while the nested mod is compiled and (since 95cfe0a) listed.  Before: `some []`. -/
theorem nested_mod_include_listed_repaired :
    depsOf (gatherDeps cfgS 6 [.incl (.dialect 0), .nested [.incl (.file 1), .other], .other]) = some [.src 0 1] ∧
    (⟨.src 0 1, false, true⟩ : Read) ∈
      readsOf (compileReads cfgS 6 [.incl (.dialect 0), .nested [.incl (.file 1), .other], .other]) := by
  decide

/-- both at once and two levels deep: an embed-file and an include of file 2 (which includes
    file 1) inside a mod nested in a mod — listed in `collect_include_forms` order. -/
theorem nested_embed_listed_repaired :
    depsOf (gatherDeps cfgS 8 [.incl (.dialect 0), .nested [.nested [.embed .hex 7, .incl (.file 2)], .other]])
      = some [.dat 0 7, .src 0 2, .src 0 1, .src 0 1] ∧
    (⟨.dat 0 7, true, true⟩ : Read) ∈
      readsOf (compileReads cfgS 8 [.incl (.dialect 0), .nested [.nested [.embed .hex 7, .incl (.file 2)], .other]]) := by
  decide

/-- non-vacuity of `reads_subset_deps`, `listed_is_read` and `listed_is_first_match`: on the
    program of `nested_embed_listed_repaired` both runs succeed, files that are no pseudo-files are
    read (an embed target among them, inside a nested mod), and the listing is not empty. -/
example : ∃ reads deps,
    compileReads cfgS 8 [.incl (.dialect 0), .nested [.nested [.embed .hex 7, .incl (.file 2)], .other]] = .ok reads ∧
    gatherDeps cfgS 8 [.incl (.dialect 0), .nested [.nested [.embed .hex 7, .incl (.file 2)], .other]] = .ok deps ∧
    (∃ r ∈ reads, r.res.isPseudo = false ∧ r.embed = true ∧ r.nested = true) ∧ deps ≠ [] := by
  refine ⟨_, _, rfl, rfl, ?_, ?_⟩ <;> decide

-- non-vacuity: the hypotheses of the theorems are met by non-trivial programs --------------------

/-- `reads_subset_deps` / `listed_is_read` / `listed_is_first_match` apply (both runs succeed) to
    the three `…_repaired` programs above and to the following ones.
    strict dialect, `(include "2")` where file 2 includes file 1: listing = 2, 1, 1 (the strict
    preprocessor walks an included file twice); every read is listed. -/
example : depsOf (gatherDeps cfgS 6 [.incl (.dialect 0), .incl (.file 2), .other])
    = some [.src 0 2, .src 0 1, .src 0 1] := by decide

example : ((readsOf (compileReads cfgS 6 [.incl (.dialect 0), .incl (.file 2), .other])).map (·.res))
    = [.pseudo .macros, .pseudo .macros, .pseudo (.dialect 0),
       .src 0 2, .src 0 1, .src 0 1, .src 0 2, .src 0 1, .src 0 1] := by decide

/-- the same program in a non-strict dialect is rejected ("unknown keyword in helper": the include
    inside file 2 reaches the helper compiler raw) by the listing and by the compiler alike. -/
example : depsOf (gatherDeps cfgN 6 [.incl (.dialect 0), .incl (.file 2), .other]) = none := by decide

/-- the same name in two directories: the listing names the copy in the first directory of the
    search path, whichever that is. -/
def dirA : Dir := { src := fun n => if n = 1 then some [.other] else none, dat := fun _ => none }
def dirB : Dir := { src := fun n => if n = 1 then some [.other, .other] else none, dat := fun _ => none }

example : depsOf (gatherDeps ⟨[dirA, dirB], false⟩ 6 [.incl (.file 1)]) = some [.src 0 1] := by decide
example : depsOf (gatherDeps ⟨[dirB, dirA], false⟩ 6 [.incl (.file 1)]) = some [.src 0 1] := by decide

/-- `acyclic_terminates` applies to `cfgS` with rank 1 ↦ 0, 2 ↦ 1. -/
example : Ranked cfgS (fun n => if n = 2 then 1 else 0) ∧ FlatFiles cfgS := by
  constructor
  · intro n i forms h m hm
    simp only [cfgS, resolveSrc, dir0] at h
    split at h
    · rename_i f hf
      split at hf
      · injection hf with hf; injection h with h; injection h with _ h; subst h; subst hf; simp [inclsOf] at hm
      · split at hf
        · injection hf with hf; injection h with h; injection h with _ h; subst h; subst hf
          simp [inclsOf] at hm; subst hm; simp_all
        · cases hf
    · simp at h
  · intro n i forms h
    simp only [cfgS, resolveSrc, dir0] at h
    split at h
    · rename_i f hf
      split at hf
      · injection hf with hf; injection h with h; injection h with _ h; subst h; subst hf; rfl
      · split at hf
        · injection hf with hf; injection h with h; injection h with _ h; subst h; subst hf; rfl
        · cases hf
    · simp at h

end C18
