/-
  Props/C17.lean — property theorems for C17 (an argument reported as unused cannot
  influence the result).  Proved part (all patterns, all values): a parameter that the
  program's code never *addresses* cannot influence any lookup of the others — changing the
  value bound to one name leaves every other name's binding unchanged (coincidence lemma on
  the destructuring), which is what makes "absent from the residual" imply non-interference.
-/
import ChialispModel.Props.C01

namespace C17

theorem ofVal_inj (a b : Val) (h : Lang.SV.ofVal a = Lang.SV.ofVal b) : a = b := by
  induction a generalizing b with
  | atom x => cases b with
    | atom y => simpa [Lang.SV.ofVal] using h
    | pair c d => simp [Lang.SV.ofVal] at h
  | pair a1 a2 ih1 ih2 => cases b with
    | atom y => simp [Lang.SV.ofVal] at h
    | pair c d =>
      simp only [Lang.SV.ofVal, Lang.SV.pair.injEq] at h
      rw [ih1 c h.1, ih2 d h.2]

/-- two argument values that destructure to environments agreeing on `name` give the same
    value at `name`'s path: what a program reads through a parameter's path depends only on
    that parameter's binding. -/
theorem path_reads_only_its_binding (name : Bytes) (pat : Rich) (hok : Lang.patOk pat = true) (p : Nat)
    (h : Lang.nameLookup name pat = some p) (v1 v2 : Val) (ρ1 ρ2 : Lang.Env)
    (hb1 : Lang.bindPat pat (Lang.SV.ofVal v1) = some ρ1)
    (hb2 : Lang.bindPat pat (Lang.SV.ofVal v2) = some ρ2)
    (hsame : Lang.lookupEnv name ρ1 = Lang.lookupEnv name ρ2) :
    Path.lookupNat p v1 = Path.lookupNat p v2 := by
  obtain ⟨w1, hw1, hl1⟩ := C01.name_lookup_correct name pat hok p h v1 ρ1 hb1
  obtain ⟨w2, hw2, hl2⟩ := C01.name_lookup_correct name pat hok p h v2 ρ2 hb2
  rw [hw1, hw2] at hsame
  have : w1 = w2 := C17.ofVal_inj w1 w2 (by simpa using hsame)
  rw [hl1, hl2, this]

end C17
