/-
  Props/C17.lean — property theorems for C17 (an argument reported as unused cannot
  influence the result).

  FULL STATEMENT (not proved in this generality; decided by the differential oracle of
  tools/props/c17.py on the real compilers):
    for every program `p` of the surface language and every parameter `x` that
    `check_parameters_used_compileform` reports, for all argument trees `a1 a2` that differ
    only in `x`:  outcome (compile p) a1 = outcome (compile p) a2   (same value or both fail).
  It is FALSE for the unchanged tree (findings C17-F1..F4: the partial evaluator drops uses
  that compiled code still performs).

  PROVED (`…_partial`, this file + Proofs/NonInterference.lean), for the CORE language of
  Lang/Core.lean whose compiler model `Core.compileCore` is byte-identical to the real code
  generator (checked on every C01/C17 run): the compiled CODE, run by the consensus evaluator
  with any operator table implementing `i` and `c`, has the same outcome AT EVERY AMOUNT OF
  FUEL (same value, same failure, same exhaustion) for two argument values that destructure
  to bindings agreeing on every name but `x`, whenever `x` is not mentioned by the main
  expression — in particular whenever the model `Core.reportedUnused` of the use check
  (Lang/UseCheck.lean: the real check's candidate/eligibility rules, with "token absent from
  the partially evaluated residue" under-approximated by "name absent from the main
  expression") reports `x`.  `tools/props/c17.py` records on generated core programs how the
  real report relates to the model's: a real report inside the model's set is covered by
  the theorem, one outside it (the evaluator removed an occurrence: helper ignoring an
  argument, statically decided `if`, C17-F2/F4) only by the differential oracle.

  Also kept: the path-level coincidence lemma (all patterns, all values): what a program
  reads through a parameter's path depends only on that parameter's binding.
-/
import ChialispModel.Props.C01
import ChialispModel.Proofs.NonInterference

namespace C17

theorem ofVal_inj (a b : Val) (h : Lang.SV.ofVal a = Lang.SV.ofVal b) : a = b := by
  induction a generalizing b with
  | atom x => cases b with
    | atom y => simpa [Lang.SV.ofVal] using h
    | pair c d => simp [Lang.SV.ofVal] at h
  | pair a1 a2 ih1 ih2 => cases b with
    | atom y => simp [Lang.SV.ofVal] at h
    | pair c d =>
      simp only [Lang.SV.ofVal, Lang.SV.pair.injEq] at h
      rw [ih1 c h.1, ih2 d h.2]

/-- two argument values that destructure to environments agreeing on `name` give the same
    value at `name`'s path: what a program reads through a parameter's path depends only on
    that parameter's binding. -/
theorem path_reads_only_its_binding (name : Bytes) (pat : Rich) (hok : Lang.patOk pat = true) (p : Nat)
    (h : Lang.nameLookup name pat = some p) (v1 v2 : Val) (ρ1 ρ2 : Lang.Env)
    (hb1 : Lang.bindPat pat (Lang.SV.ofVal v1) = some ρ1)
    (hb2 : Lang.bindPat pat (Lang.SV.ofVal v2) = some ρ2)
    (hsame : Lang.lookupEnv name ρ1 = Lang.lookupEnv name ρ2) :
    Path.lookupNat p v1 = Path.lookupNat p v2 := by
  obtain ⟨w1, hw1, hl1⟩ := C01.name_lookup_correct name pat hok p h v1 ρ1 hb1
  obtain ⟨w2, hw2, hl2⟩ := C01.name_lookup_correct name pat hok p h v2 ρ2 hb2
  rw [hw1, hw2] at hsame
  have : w1 = w2 := C17.ofVal_inj w1 w2 (by simpa using hsame)
  rw [hl1, hl2, this]

open Clvm

/-- NON-INTERFERENCE OF COMPILED EXPRESSIONS.  `c` is the code the generator emits for the core
    expression `e` against the environment shape `env`; `(F . A1)` and `(F . A2)` are two
    run-time environments with the same function table that give the same lookup outcome at
    the path of every variable `e` reads and every function `e` calls.  Then the two runs
    have the same outcome at every amount of fuel.  (Intermediate values differ — the lazy
    `if` evaluates `1` — so this is a statement about the emitted shapes, proved by structural
    induction with both runs unfolding in lock step.) -/
theorem compiled_expr_noninterference (ops : OpSem) (hops : Core.OpsCore ops) (env : Rich)
    (F A1 A2 : Val) (e : Core.Expr) (c : Val) (hc : Core.compileE env e = some c)
    (hag : ∀ x ∈ Core.usedNames e, ∀ p, Lang.nameLookup x env = some p →
      Path.lookupNat p (.pair F A1) = Path.lookupNat p (.pair F A2)) :
    ∀ n, evalC ops n c (.pair F A1) = evalC ops n c (.pair F A2) :=
  Core.ni_expr ops hops env F A1 A2 e c hc
    (fun x hx p hp => hag x (by simp [Core.usedNames, hx]) p hp)
    (fun x hx p hp => hag x (by simp [Core.usedNames, hx]) p hp)

/-- ONLY MENTIONED NAMES MATTER (core language).  For a well-formed core program and two
    argument values that destructure against the parameter pattern to bindings agreeing on
    every name the main expression mentions (reads or calls), the compiled program has the
    same outcome on both at every amount of fuel.  (Any set of unmentioned parameters may
    vary at once — needed for `(@ cap pat)` captures, where changing a leaf of `pat`
    necessarily changes `cap` as well.) -/
theorem unmentioned_noninterfering_core_partial (ops : OpSem) (hops : Core.OpsCore ops) (P : Core.Prog)
    (hwf : Core.progWF P = true) (code : Val) (hc : Core.compileCore P = some code)
    (a1 a2 : Val) (ρ1 ρ2 : Lang.Env)
    (hb1 : Lang.bindPat P.params (Lang.SV.ofVal a1) = some ρ1)
    (hb2 : Lang.bindPat P.params (Lang.SV.ofVal a2) = some ρ2)
    (hag : ∀ y ∈ Core.usedNames P.body, Core.paramValue P.params a1 y = Core.paramValue P.params a2 y) :
    ∀ n, evalC ops n code a1 = evalC ops n code a2 :=
  Core.ni_compileCore ops hops P hwf code hc a1 a2 ρ1 ρ2 hb1 hb2 hag

/-- same outcome at every fuel ⇒ same value, and failing on one iff failing on the other. -/
theorem same_outcomes (ops : OpSem) (code a1 a2 : Val)
    (h : ∀ n, evalC ops n code a1 = evalC ops n code a2) :
    (∀ v, Evaluates ops code a1 v ↔ Evaluates ops code a2 v) ∧ (Fails ops code a1 ↔ Fails ops code a2) := by
  refine ⟨fun v => ⟨?_, ?_⟩, ⟨?_, ?_⟩⟩
  · rintro ⟨n, hn⟩; exact ⟨n, by rw [← h n]; exact hn⟩
  · rintro ⟨n, hn⟩; exact ⟨n, by rw [h n]; exact hn⟩
  · rintro ⟨n, t, hn⟩; exact ⟨n, t, by rw [← h n]; exact hn⟩
  · rintro ⟨n, t, hn⟩; exact ⟨n, t, by rw [h n]; exact hn⟩

/-- C17 ON THE CORE (partial: core language; hypothesis = syntactic absence from the main
    expression).  For a well-formed core program, a parameter name `x` that the main
    expression neither reads nor calls, and two argument values that destructure against the
    parameter pattern to bindings agreeing on every name other than `x`: the compiled program
    has the same outcome on both at every amount of fuel. -/
theorem unused_noninterfering_core_partial (ops : OpSem) (hops : Core.OpsCore ops) (P : Core.Prog)
    (hwf : Core.progWF P = true) (code : Val) (hc : Core.compileCore P = some code)
    (x : Bytes) (hx : x ∉ Core.usedNames P.body)
    (a1 a2 : Val) (ρ1 ρ2 : Lang.Env)
    (hb1 : Lang.bindPat P.params (Lang.SV.ofVal a1) = some ρ1)
    (hb2 : Lang.bindPat P.params (Lang.SV.ofVal a2) = some ρ2)
    (hag : ∀ y, y ≠ x → Core.paramValue P.params a1 y = Core.paramValue P.params a2 y) :
    ∀ n, evalC ops n code a1 = evalC ops n code a2 :=
  unmentioned_noninterfering_core_partial ops hops P hwf code hc a1 a2 ρ1 ρ2 hb1 hb2
    (fun y hy => hag y (by intro h; subst h; exact hx hy))

/-- … hence: returns `v` on one iff it returns `v` on the other. -/
theorem unused_noninterfering_core_value_partial (ops : OpSem) (hops : Core.OpsCore ops) (P : Core.Prog)
    (hwf : Core.progWF P = true) (code : Val) (hc : Core.compileCore P = some code)
    (x : Bytes) (hx : x ∉ Core.usedNames P.body)
    (a1 a2 : Val) (ρ1 ρ2 : Lang.Env)
    (hb1 : Lang.bindPat P.params (Lang.SV.ofVal a1) = some ρ1)
    (hb2 : Lang.bindPat P.params (Lang.SV.ofVal a2) = some ρ2)
    (hag : ∀ y, y ≠ x → Core.paramValue P.params a1 y = Core.paramValue P.params a2 y) (v : Val) :
    Evaluates ops code a1 v ↔ Evaluates ops code a2 v :=
  (same_outcomes ops code a1 a2
    (unused_noninterfering_core_partial ops hops P hwf code hc x hx a1 a2 ρ1 ρ2 hb1 hb2 hag)).1 v

/-- … and: fails on one iff it fails on the other. -/
theorem unused_noninterfering_core_fails_partial (ops : OpSem) (hops : Core.OpsCore ops) (P : Core.Prog)
    (hwf : Core.progWF P = true) (code : Val) (hc : Core.compileCore P = some code)
    (x : Bytes) (hx : x ∉ Core.usedNames P.body)
    (a1 a2 : Val) (ρ1 ρ2 : Lang.Env)
    (hb1 : Lang.bindPat P.params (Lang.SV.ofVal a1) = some ρ1)
    (hb2 : Lang.bindPat P.params (Lang.SV.ofVal a2) = some ρ2)
    (hag : ∀ y, y ≠ x → Core.paramValue P.params a1 y = Core.paramValue P.params a2 y) :
    Fails ops code a1 ↔ Fails ops code a2 :=
  (same_outcomes ops code a1 a2
    (unused_noninterfering_core_partial ops hops P hwf code hc x hx a1 a2 ρ1 ρ2 hb1 hb2 hag)).2

/-- the model of the use check is sound for the theorem: what `Core.reportedUnused` reports
    is a lower-case atom of the parameter pattern that the main expression never mentions. -/
theorem reported_unused_is_unmentioned (P : Core.Prog) (x : Bytes) (h : x ∈ Core.reportedUnused P) :
    x ∈ Core.paramAtoms P.params ∧ Core.considerAsUncurried x = true ∧ x ∉ Core.usedNames P.body := by
  have h' := (Core.mem_reportedUnused_iff P x).mp h
  refine ⟨?_, ?_, Core.isReportedUnused_sound P x h'⟩
  · simp only [Core.isReportedUnused, Bool.and_eq_true, List.contains_eq_mem, decide_eq_true_eq] at h'
    exact h'.1.1
  · simp only [Core.isReportedUnused, Bool.and_eq_true] at h'
    exact h'.1.2

/-- C17 for the modelled check, jointly: all parameters `Core.reportedUnused` reports may
    vary at once without influencing the compiled program. -/
theorem reported_unused_jointly_noninterfering_core_partial (ops : OpSem) (hops : Core.OpsCore ops)
    (P : Core.Prog) (hwf : Core.progWF P = true) (code : Val) (hc : Core.compileCore P = some code)
    (a1 a2 : Val) (ρ1 ρ2 : Lang.Env)
    (hb1 : Lang.bindPat P.params (Lang.SV.ofVal a1) = some ρ1)
    (hb2 : Lang.bindPat P.params (Lang.SV.ofVal a2) = some ρ2)
    (hag : ∀ y, y ∉ Core.reportedUnused P → Core.paramValue P.params a1 y = Core.paramValue P.params a2 y) :
    (∀ n, evalC ops n code a1 = evalC ops n code a2) ∧
    (∀ v, Evaluates ops code a1 v ↔ Evaluates ops code a2 v) ∧
    (Fails ops code a1 ↔ Fails ops code a2) :=
  have h := unmentioned_noninterfering_core_partial ops hops P hwf code hc a1 a2 ρ1 ρ2 hb1 hb2
    (fun y hy => hag y (fun hr => (reported_unused_is_unmentioned P y hr).2.2 hy))
  ⟨h, same_outcomes ops code a1 a2 h⟩

/-- C17 for the modelled check: a parameter reported unused by `Core.reportedUnused` cannot
    influence the compiled program (same outcome at every fuel; same value; fails iff fails). -/
theorem reported_unused_noninterfering_core_partial (ops : OpSem) (hops : Core.OpsCore ops) (P : Core.Prog)
    (hwf : Core.progWF P = true) (code : Val) (hc : Core.compileCore P = some code)
    (x : Bytes) (hx : x ∈ Core.reportedUnused P)
    (a1 a2 : Val) (ρ1 ρ2 : Lang.Env)
    (hb1 : Lang.bindPat P.params (Lang.SV.ofVal a1) = some ρ1)
    (hb2 : Lang.bindPat P.params (Lang.SV.ofVal a2) = some ρ2)
    (hag : ∀ y, y ≠ x → Core.paramValue P.params a1 y = Core.paramValue P.params a2 y) :
    (∀ n, evalC ops n code a1 = evalC ops n code a2) ∧
    (∀ v, Evaluates ops code a1 v ↔ Evaluates ops code a2 v) ∧
    (Fails ops code a1 ↔ Fails ops code a2) :=
  reported_unused_jointly_noninterfering_core_partial ops hops P hwf code hc a1 a2 ρ1 ρ2 hb1 hb2
    (fun y hy => hag y (by intro h; subst h; exact hy hx))

-- non-vacuity ---------------------------------------------------------------------------------------

/-- `(mod (xx (@ cap (yy . zz)) . ww) (defun fn (A B) (+ A B)) (if xx (fn zz (q . 1)) (q . 7)))`:
    `yy` sits in a nested, dotted pattern under a capture and is never used; neither are
    `cap` and `ww`. -/
def exampleProg : Core.Prog :=
  { params := .cons (.atom [120, 120])
      (.cons (.cons (.atom [64]) (.cons (.atom [99, 97, 112])
          (.cons (.cons (.atom [121, 121]) (.atom [122, 122])) .nil)))
        (.atom [119, 119])),
    fns := [⟨[102, 110], .cons (.atom [65]) (.cons (.atom [66]) .nil),
             .op 16 (.cons (.var [65]) (.cons (.var [66]) .nil))⟩],
    body := .ite (.var [120, 120])
      (.call [102, 110] (.cons (.var [122, 122]) (.cons (.lit (.atom [1])) .nil)))
      (.lit (.atom [7])) }

/-- `(5 (1 . 2) . 9)`, `(5 ((3 . 4) . 2) . 9)` (differs in what `yy`, and the capture `cap`
    around it, bind) and `(5 (1 . 2) 8 8)` (differs from the first only in `ww`). -/
def exampleArgs1 : Val := .pair (.atom [5]) (.pair (.pair (.atom [1]) (.atom [2])) (.atom [9]))
def exampleArgs2 : Val := .pair (.atom [5]) (.pair (.pair (.pair (.atom [3]) (.atom [4])) (.atom [2])) (.atom [9]))
def exampleArgs3 : Val := .pair (.atom [5]) (.pair (.pair (.atom [1]) (.atom [2])) (.pair (.atom [8]) (.pair (.atom [8]) Val.nil)))

example : Core.progWF exampleProg = true := by decide
example : (Core.compileCore exampleProg).isSome = true := by decide
example : Core.reportedUnused exampleProg = [[99, 97, 112], [121, 121], [119, 119]] := by decide
example : [121, 121] ∉ Core.usedNames exampleProg.body := by decide
-- the argument values really differ at `yy` / `ww` and agree at the used names
example : Core.paramValue exampleProg.params exampleArgs1 [121, 121] = some (.atom [1]) := by decide
example : Core.paramValue exampleProg.params exampleArgs2 [121, 121] = some (.pair (.atom [3]) (.atom [4])) := by decide
example : Core.paramValue exampleProg.params exampleArgs1 [119, 119] = some (.atom [9]) := by decide
example : Core.paramValue exampleProg.params exampleArgs1 [122, 122] = some (.atom [2]) := by decide
example : Core.paramValue exampleProg.params exampleArgs2 [122, 122] = some (.atom [2]) := by decide

/-- the joint theorem applied: `yy` (with its capture `cap`) varies, every hypothesis holds. -/
example : ∃ code, Core.compileCore exampleProg = some code ∧
    ∀ n, evalC Ops.chiaOps n code exampleArgs1 = evalC Ops.chiaOps n code exampleArgs2 := by
  cases hc : Core.compileCore exampleProg with
  | none => exact absurd hc (by decide)
  | some code =>
    refine ⟨code, rfl, ?_⟩
    cases hb1 : Lang.bindPat exampleProg.params (Lang.SV.ofVal exampleArgs1) with
    | none => exact absurd hb1 (by decide)
    | some ρ1 =>
      cases hb2 : Lang.bindPat exampleProg.params (Lang.SV.ofVal exampleArgs2) with
      | none => exact absurd hb2 (by decide)
      | some ρ2 =>
        refine unmentioned_noninterfering_core_partial Ops.chiaOps Core.chiaOps_core exampleProg (by decide) code hc
          exampleArgs1 exampleArgs2 ρ1 ρ2 hb1 hb2 ?_
        decide

/-- the single-parameter theorem applied: only `ww` (the dotted tail) varies. -/
example : ∃ code, Core.compileCore exampleProg = some code ∧
    ∀ n, evalC Ops.chiaOps n code exampleArgs1 = evalC Ops.chiaOps n code exampleArgs3 := by
  cases hc : Core.compileCore exampleProg with
  | none => exact absurd hc (by decide)
  | some code =>
    refine ⟨code, rfl, ?_⟩
    have hb1 : Lang.bindPat exampleProg.params (Lang.SV.ofVal exampleArgs1) = some
        [([120, 120], .atom [5]), ([99, 97, 112], .pair (.atom [1]) (.atom [2])), ([121, 121], .atom [1]),
         ([122, 122], .atom [2]), ([119, 119], .atom [9])] := by rfl
    have hb3 : Lang.bindPat exampleProg.params (Lang.SV.ofVal exampleArgs3) = some
        [([120, 120], .atom [5]), ([99, 97, 112], .pair (.atom [1]) (.atom [2])), ([121, 121], .atom [1]),
         ([122, 122], .atom [2]), ([119, 119], .pair (.atom [8]) (.pair (.atom [8]) (.atom [])))] := by rfl
    refine (reported_unused_noninterfering_core_partial Ops.chiaOps Core.chiaOps_core exampleProg (by decide) code hc
      [119, 119] (by decide) exampleArgs1 exampleArgs3 _ _ hb1 hb3 ?_).1
    intro y hy
    have hne : ([119, 119] == y) = false := by
      cases h : ([119, 119] == y) with
      | false => rfl
      | true => exact absurd (by simpa using h : [119, 119] = y).symm hy
    unfold Core.paramValue
    rw [hb1, hb3]
    simp only [Lang.lookupEnv, hne]
    simp

end C17
