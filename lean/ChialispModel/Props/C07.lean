/-
  Props/C07.lean — property theorems for C07:
  rich s-expression values and CLVM values convert without loss; hashes agree; `==`/`Hash`
  coincide with byte identity of the CLVM encodings on the values the tools can produce.
  (Helper lemmas live in Proofs/; only the property statements are here.)
-/
import ChialispModel.Text.Rich
import ChialispModel.Proofs.BytesLemmas
import ChialispModel.Proofs.RichLemmas

namespace C07
open Rich

/-- CLVM → rich → CLVM is the identity, in both integer-conversion modes. -/
theorem to_from (m : Mode) (v : Val) : toClvm m (fromClvm m v) = v :=
  RichLemmas.to_from m v

/-- the tree hash computed on the rich form is the consensus tree hash of its CLVM form
    (any hash function `H`, both modes, every rich value). -/
theorem hash_rich (m : Mode) (H : Bytes → Bytes) (r : Rich) :
    treeHash m H r = Val.treeHash H (toClvm m r) :=
  RichLemmas.hash_rich m H r

/-- hence hashing after conversion from CLVM gives the consensus hash of the original. -/
theorem hash_from (m : Mode) (H : Bytes → Bytes) (v : Val) :
    treeHash m H (fromClvm m v) = Val.treeHash H v := by
  rw [hash_rich, to_from]

/-- the symbol-table hash (`debug::build_table_mut`) agrees as well on readable values. -/
theorem table_hash (H : Bytes → Bytes) (r : Rich) (h : Readable r = true) :
    tableHash H r = Val.treeHash H (toClvm true r) :=
  RichLemmas.table_hash H r h

/-- converting CLVM in the fixed mode only produces readable values. -/
theorem fromClvm_readable (v : Val) : Readable (fromClvm true v) = true :=
  RichLemmas.fromClvm_readable v

/-- `==` on readable values is byte identity of the CLVM encodings (fixed mode). -/
theorem eq_iff (a b : Rich) (ha : Readable a = true) (hb : Readable b = true) :
    equalTo a b = true ↔ toClvm true a = toClvm true b :=
  RichLemmas.eq_iff a b ha hb

/-- equal readable values feed the hasher the same data. -/
theorem hash_respects_eq (a b : Rich) (ha : Readable a = true) (hb : Readable b = true)
    (h : equalTo a b = true) : hashKey a = hashKey b :=
  RichLemmas.hash_respects_eq a b ha hb h

/-- the `Readable` hypothesis is necessary: an `Integer 0` (which neither the reader nor the
    fixed-mode converter produces) equals `Nil` but hashes differently. -/
theorem readable_needed : equalTo (.int 0) .nil = true ∧ hashKey (.int 0) ≠ hashKey .nil := by
  decide

-- non-vacuity: a non-trivial readable value meets the hypotheses
example : Readable (.cons (.int 5) (.cons (.qstr 34 [104, 105]) (.atom [120]))) = true := by decide
example : equalTo (.cons (.int 5) .nil) (.cons (.atom [5]) (.atom [])) = true := by decide

end C07
