/-
  Props/C01.lean — property theorems for C01 (compiled modern Chialisp computes what the
  source means).

  FULL STATEMENT (the property, over the source semantics `Lang.evalSrc` of Lang/Sem.lean):
      ∀ program P accepted under dialect d, ∀ args, ∀ v,
        Lang.evalSrc P args = .ok v → Clvm.Evaluates chiaOps (compile d P) args v
  A proof of that for the whole 5 kLoC compiler is out of reach here; it is decided
  differentially (tools/props/c01.py: real compiler + consensus evaluator vs `evalSrc` on
  generated programs of every feature stratum and dialect).  What IS proved, for all inputs:

  * Layer A — the environment/path algebra of the code generator (where data-dependent
    addressing bugs live);
  * Layer B — `compile_core_correct_partial`: the full property for the CORE language (mod and
    non-inline, possibly recursive functions with arbitrary parameter patterns incl. captures,
    variables, quoted constants, every primitive operator, the lazy `if`, `list`, function
    calls; non-optimising code generation with dead-function pruning), over a compiler model
    `Core.compileCore` that is byte-identical to the real compiler's output on that subset
    (checked on every run by `modeld core` vs `cvh compile`).  `_partial` = core language
    only; inlines, let/assign, lambda, macros, constants, &rest and the optimisers are
    outside it.
  * Layer B2 — `compile_core2_correct_partial`: the same theorem for the CORE2 language = core
    + `defun-inline` functions (proper, dotted and nested parameter patterns, `(@ name pat)`
    captures below the top level, any number of call arguments without `&rest`, inlines calling
    inlines and functions, parameters used several times or not at all) + `let` / `let*`
    (in functions, inline functions, the main expression, binding expressions and nested,
    WITH shadowing: the meaning is lexically scoped), over the compiler model `Core2.compileCore2` (unique renaming of let-bound
    names as in `rename.rs`, inline expansion `replace_in_inline`/`arg_lookup`, let hoisting `hoist_body_let_binding`/
    `create_let_env_expression`, source-level liveness, then the core code generator) that is
    byte-identical to the real compiler on that subset (`modeld core2` vs `cvh compile`, cl21
    and strict-cl21).  The source meaning `Core2.evalProg` is call-by-value (an inline call
    means what a call means, `let` binds values); the key lemmas are the renaming lemma
    `Core2.rename_sound` and the expansion (substitution) lemma `Core2.expand_sound`.
    `_partial` = that language only; `&rest` calls of
    inlines (C01-F5), assign, lambda, macros, constants, the optimisers and the cl22+ code
    generators are outside it.
  * Layer B3 — `compile_core3_correct_partial`: the same theorem for the CORE3 language = core2 +
    CONSTANTS: `(defconstant K <literal>)` and `(defconst K <closed expression>)` evaluated AT COMPILE
    TIME, referenced from the main expression, functions, inline functions, lets and other constants
    (any order of definition, also through functions and inline functions), over the compiler model
    `Core3.compileCore3` (compile-time value = the consensus evaluator's result on the compiled body,
    values put in as quoted constants, helper liveness computed through the constants as `frontend`
    does, then the core2 pipeline), byte-identical to the real compiler on that subset
    (`modeld core3` vs `cvh compile`, cl21 and strict-cl21).  The source meaning `Core3.evalProg`
    reads an identifier that no pattern in scope binds and that names a constant as the value of the
    constant's body in the empty environment (as `Lang.evalSrc` does).  Proof: the lowering lemma
    `Core3.lower_sound` (putting the compile-time values in preserves the meaning; the constant
    environment is sound because Layer B2 applies to each constant's little program and the consensus
    evaluator is deterministic), then Layer B2 with the wider live set.  `_partial` = that language
    only; the hypothesis `Core3.progWF` re-derives every constant's value (decidable, evaluated by
    the driver on every generated program); `&rest` calls, assign, lambda, macros, the optimisers and
    the cl22+ code generators are outside it.
-/
import ChialispModel.Lang.Env
import ChialispModel.Lang.CoreSource
import ChialispModel.Proofs.EnvLemmas
import ChialispModel.Proofs.CoreLemmas
import ChialispModel.Lang.Core2Source
import ChialispModel.Proofs.Core2Lemmas
import ChialispModel.Lang.Core3Source
import ChialispModel.Proofs.Core3Lemmas

namespace C01
open Lang

/-- Layer A (all parameter patterns — nested, dotted, with `(@ name pat)` captures, any
    width — and all argument values): the path the code generator computes for a name
    (`create_name_lookup_`) selects exactly the value source-level destructuring binds to it. -/
theorem name_lookup_correct (name : Bytes) (pat : Rich) (hok : patOk pat = true) (p : Nat)
    (h : nameLookup name pat = some p) (v : Val) (ρ : Env)
    (hb : bindPat pat (SV.ofVal v) = some ρ) :
    ∃ w, lookupEnv name ρ = some (SV.ofVal w) ∧ Path.lookupNat p v = .ok w :=
  nameLookup_correct name pat hok p h v ρ hb

/-- …and a name the generator cannot address is one the destructuring does not bind
    (so "not found" errors are exactly the unbound names). -/
theorem name_lookup_complete (name : Bytes) (pat : Rich) (hok : patOk pat = true)
    (hn : nameLookup name pat = none) (v : SV) (ρ : Env) (hb : bindPat pat v = some ρ) :
    lookupEnv name ρ = none :=
  nameLookup_none name pat hok hn v ρ hb

/-- every computed path is a proper path (≥ 1), never the nil selector 0. -/
theorem name_lookup_pos (name : Bytes) (pat : Rich) (p : Nat) (h : nameLookup name pat = some p) :
    1 ≤ p :=
  nameLookup_pos name pat p h

/-- arguments live in the right half of the `(functions . arguments)` environment:
    a name that is not a helper is addressed by `2·q+1` where `q` addresses it in the
    parameter pattern (no helper may be called `@`). -/
theorem arg_path_in_env (name : Bytes) (helpers : List Bytes) (args : Rich)
    (hat : buildTree helpers (helpers.length + 1) ≠ Rich.atom [64])
    (hh : nameLookup name (buildTree helpers (helpers.length + 1)) = none) :
    nameLookup name (envShape helpers args) = (nameLookup name args).map (fun q => 2 * q + 1) := by
  unfold envShape
  rw [nameLookup_cons name _ _ (by intro cap sub h1 _; exact hat h1), hh]
  cases nameLookup name args <;> rfl

/-- Layer B: correctness of the core compiler model, for any operator table implementing
    `i` and `c` (in particular clvmr's), every well-formed core program (decidable check
    `Core.progWF`), all arguments: source meaning `v` ⇒ the emitted CLVM evaluates to `v`. -/
theorem compile_core_correct_partial (ops : OpSem) (hops : Core.OpsCore ops) (P : Core.Prog)
    (hwf : Core.progWF P = true) (code : Val) (hc : Core.compileCore P = some code)
    (n : Nat) (args v : Val) (he : Core.evalProg ops P n args = .ok v) :
    Clvm.Evaluates ops code args v :=
  Core.compileCore_correct ops hops P hwf code hc n args v he

/-- clvmr's operator table (the driver's instance) meets the hypothesis. -/
theorem chia_ops_core : Core.OpsCore Ops.chiaOps := Core.chiaOps_core

/-- non-vacuity of Layer B: `(mod (X) (defun F (A) (if A (+ A 1) (q . 7))) (F X))`. -/
def exampleProg : Core.Prog :=
  { params := .cons (.atom [88]) .nil,
    fns := [⟨[70], .cons (.atom [65]) .nil,
             .ite (.var [65]) (.op 16 (.cons (.var [65]) (.cons (.lit (.atom [1])) .nil))) (.lit (.atom [7]))⟩],
    body := .call [70] (.cons (.var [88]) .nil) }

example : Core.progWF exampleProg = true := by decide
example : (Core.compileCore exampleProg).isSome = true := by decide

/-- Layer B2: correctness of the core2 compiler model (core + inline functions with
    destructuring parameters + let), for any operator table implementing `i`, `c`, `f`, `r`
    (in particular clvmr's), every well-formed core2 program (decidable check `Core2.progWF`),
    all arguments: call-by-value source meaning `v` ⇒ the emitted CLVM evaluates to `v`. -/
theorem compile_core2_correct_partial (ops : OpSem) (hops : Core.OpsCore ops) (hfr : Core2.OpsFR ops)
    (P : Core2.Prog) (hwf : Core2.progWF P = true) (code : Val) (hc : Core2.compileCore2 P = some code)
    (n : Nat) (args v : Val) (he : Core2.evalProg ops P n args = .ok v) :
    Clvm.Evaluates ops code args v :=
  Core2.compileCore2_correct ops hops hfr P hwf code hc n args v he

/-- the expansion lemma on its own (substitution lemma): inline expansion and let hoisting
    are call-by-name, so they can drop or repeat the evaluation of an argument but never
    change a value — if the source program has value `v`, so does the expanded, inline-free
    and let-free program (`Core2.expandProg`) under the same meaning function. -/
theorem expansion_preserves_values_partial (ops : OpSem) (hops : Core.OpsCore ops) (hfr : Core2.OpsFR ops)
    (P : Core2.Prog) (hwf : Core2.progWF P = true) (FT : List Core2.FnDef) (main : Core2.Expr)
    (hx : Core2.expandProg (Core2.renameProg P) = some (FT, main)) (n : Nat) (args v : Val)
    (he : Core2.evalProg ops P n args = .ok v) :
    ∃ m, Core2.eval ops FT m P.params args main = .ok v := by
  have hns : Core2.progWFNS (Core2.renameProg P) = true := by
    simp only [Core2.progWF, Bool.and_eq_true] at hwf
    exact hwf.2
  exact Core2.expandProg_sound ops hops hfr (Core2.renameProg P) hns FT main hx n args v
    (Core2.renameProg_sound ops P hwf n args v he)

/-- clvmr's operator table (the driver's instance) meets the additional hypothesis. -/
theorem chia_ops_fr : Core2.OpsFR Ops.chiaOps := Core2.chiaOps_fr

/-- non-vacuity of Layer B2 (an inline with a dotted, destructured parameter and a let, called
    from a function and from a let in the main expression):
    `(mod (X Y) (defun-inline F (A (B . C)) (let ((Z (+ A B))) (* Z C))) (defun G (N) (F N (c N 3)))
       (let ((V (G X))) (F V (c Y V))))` -/
def exampleProg2 : Core2.Prog :=
  { params := .cons (.atom [88]) (.cons (.atom [89]) .nil),
    fns := [
      ⟨[70], .cons (.atom [65]) (.cons (.cons (.atom [66]) (.atom [67])) .nil),
        .letE [[90]] (.cons (.op 16 (.cons (.var [65]) (.cons (.var [66]) .nil))) .nil)
          (.op 18 (.cons (.var [90]) (.cons (.var [67]) .nil))), true⟩,
      ⟨[71], .cons (.atom [78]) .nil,
        .call [70] (.cons (.var [78]) (.cons (.op 4 (.cons (.var [78]) (.cons (.lit (.atom [3])) .nil))) .nil)), false⟩],
    body := .letE [[86]] (.cons (.call [71] (.cons (.var [88]) .nil)) .nil)
      (.call [70] (.cons (.var [86]) (.cons (.op 4 (.cons (.var [89]) (.cons (.var [86]) .nil))) .nil))) }

example : Core2.progWF exampleProg2 = true := by decide
example : (Core2.compileCore2 exampleProg2).isSome = true := by decide

/-- non-vacuity with shadowing (a let rebinding the inline's parameter, twice, and a let in the
    main expression rebinding the program's parameter):
    `(mod (X) (defun-inline F (A) (let ((A (+ A 1))) (let ((A (* A A))) A))) (let ((X (F X))) (c X X)))` -/
def exampleProg3 : Core2.Prog :=
  { params := .cons (.atom [88]) .nil,
    fns := [
      ⟨[70], .cons (.atom [65]) .nil,
        .letE [[65]] (.cons (.op 16 (.cons (.var [65]) (.cons (.lit (.atom [1])) .nil))) .nil)
          (.letE [[65]] (.cons (.op 18 (.cons (.var [65]) (.cons (.var [65]) .nil))) .nil) (.var [65])), true⟩],
    body := .letE [[88]] (.cons (.call [70] (.cons (.var [88]) .nil)) .nil)
      (.op 4 (.cons (.var [88]) (.cons (.var [88]) .nil))) }

example : Core2.progWF exampleProg3 = true := by decide
example : (Core2.compileCore2 exampleProg3).isSome = true := by decide

/-- Layer B3: correctness of the core3 compiler model (core2 + constants evaluated at compile
    time), for any operator table implementing `i`, `c`, `f`, `r` — the table that runs the
    constants at compile time is the table the emitted code runs under —, every well-formed
    core3 program (decidable check `Core3.progWF`), all arguments: call-by-value source meaning
    `v` ⇒ the emitted CLVM evaluates to `v`. -/
theorem compile_core3_correct_partial (ops : OpSem) (hops : Core.OpsCore ops) (hfr : Core2.OpsFR ops)
    (P : Core3.Prog) (hwf : Core3.progWF ops P = true) (code : Val) (hc : Core3.compileCore3 ops P = some code)
    (n : Nat) (args v : Val) (he : Core3.evalProg ops P n args = .ok v) :
    Clvm.Evaluates ops code args v :=
  Core3.compileCore3_correct ops hops hfr P hwf code hc n args v he

/-- the lowering lemma on its own: replacing every reference to a constant by the value the
    compile-time run produced preserves the source meaning (so the compile-time values ARE the
    source meanings of the constants' bodies). -/
theorem constants_lowering_preserves_values_partial (ops : OpSem) (hops : Core.OpsCore ops) (hfr : Core2.OpsFR ops)
    (P : Core3.Prog) (hwf : Core3.progWF ops P = true) (n : Nat) (args v : Val)
    (he : Core3.evalProg ops P n args = .ok v) :
    Core2.evalProg ops (Core3.lowerProg (Core3.constEnv ops P) P) n args = .ok v := by
  simp only [Core3.progWF, Core3.progWFWith, Bool.and_eq_true, List.all_eq_true] at hwf
  obtain ⟨⟨⟨⟨hC, hFns⟩, hcfP⟩, hscP⟩, _⟩ := hwf
  unfold Core3.evalProg at he
  unfold Core2.evalProg
  have hp : (Core3.lowerProg (Core3.constEnv ops P) P).params = P.params := rfl
  rw [hp]
  by_cases hbo : Core2.bindsOk P.params args = true
  · rw [if_pos hbo] at he ⊢
    exact (Core3.lower_sound ops P.consts P.fns (Core3.constEnv ops P) hops hfr hC
      (fun fd hfd => by simpa [Bool.and_eq_true] using hFns fd hfd) n).1 P.params args P.body v hcfP hscP he
  · rw [if_neg hbo] at he; simp [failR] at he

/-- non-vacuity of Layer B3 (a constant computed by a recursive function, a constant that refers
    to a later constant, a literal `defconstant`, constants used in an inline function, in a let
    and in the main expression; `G` is live only through `K`):
    `(mod (X) (defun G (A) (if A (* A (G (- A 1))) 1)) (defconst K (+ L (G 3))) (defconst L 10)
       (defconstant J 17) (defun-inline H (Y) (+ Y K)) (let ((Z (H X))) (c J (c Z L))))` -/
def exampleProg4 : Core3.Prog :=
  { params := .cons (.atom [88]) .nil,
    consts := [
      ([75], .op 16 (.cons (.var [76]) (.cons (.call [71] (.cons (.lit (.atom [3])) .nil)) .nil))),
      ([76], .lit (.atom [10])),
      ([74], .lit (.atom [17]))],
    fns := [
      ⟨[71], .cons (.atom [65]) .nil,
        .ite (.var [65])
          (.op 18 (.cons (.var [65]) (.cons (.call [71] (.cons (.op 17 (.cons (.var [65]) (.cons (.lit (.atom [1])) .nil))) .nil)) .nil)))
          (.lit (.atom [1])), false⟩,
      ⟨[72], .cons (.atom [89]) .nil, .op 16 (.cons (.var [89]) (.cons (.var [75]) .nil)), true⟩],
    body := .letE [[90]] (.cons (.call [72] (.cons (.var [88]) .nil)) .nil)
      (.op 4 (.cons (.var [74]) (.cons (.op 4 (.cons (.var [90]) (.cons (.var [76]) .nil))) .nil))) }

example : Core3.constEnv Ops.chiaOps exampleProg4 = [([76], .atom [10]), ([74], .atom [17]), ([75], .atom [16])] := by decide
example : Core3.progWF Ops.chiaOps exampleProg4 = true := by decide
example : (Core3.compileCore3 Ops.chiaOps exampleProg4).isSome = true := by decide

-- non-vacuity: a nested pattern with a capture and a dotted tail
example : nameLookup [66] (.cons (.atom [65]) (.cons (.cons (.atom [64]) (.cons (.atom [67]) (.cons (.cons (.atom [66]) (.atom [68])) .nil))) .nil)) = some 9 := by
  decide
example : patOk (.cons (.atom [65]) (.cons (.cons (.atom [64]) (.cons (.atom [67]) (.cons (.cons (.atom [66]) (.atom [68])) .nil))) .nil)) = true := by
  decide

end C01
