/-
  Props/C01.lean — property theorems for C01 (compiled modern Chialisp computes what the
  source means).

  FULL STATEMENT (the property, over the source semantics `Lang.evalSrc` of Lang/Sem.lean):
      ∀ program P accepted under dialect d, ∀ args, ∀ v,
        Lang.evalSrc P args = .ok v → Clvm.Evaluates chiaOps (compile d P) args v
  A proof of that for the whole 5 kLoC compiler is out of reach here; it is decided
  differentially (tools/props/c01.py: real compiler + consensus evaluator vs `evalSrc` on
  generated programs of every feature stratum and dialect).  What IS proved, for all
  inputs, is the part where data-dependent addressing bugs live (Layer A of DESIGN §4):
  the environment/path algebra of the code generator.
-/
import ChialispModel.Lang.Env
import ChialispModel.Proofs.EnvLemmas

namespace C01
open Lang

/-- Layer A (all parameter patterns — nested, dotted, with `(@ name pat)` captures, any
    width — and all argument values): the path the code generator computes for a name
    (`create_name_lookup_`) selects exactly the value source-level destructuring binds to it. -/
theorem name_lookup_correct (name : Bytes) (pat : Rich) (hok : patOk pat = true) (p : Nat)
    (h : nameLookup name pat = some p) (v : Val) (ρ : Env)
    (hb : bindPat pat (SV.ofVal v) = some ρ) :
    ∃ w, lookupEnv name ρ = some (SV.ofVal w) ∧ Path.lookupNat p v = .ok w :=
  nameLookup_correct name pat hok p h v ρ hb

/-- …and a name the generator cannot address is one the destructuring does not bind
    (so "not found" errors are exactly the unbound names). -/
theorem name_lookup_complete (name : Bytes) (pat : Rich) (hok : patOk pat = true)
    (hn : nameLookup name pat = none) (v : SV) (ρ : Env) (hb : bindPat pat v = some ρ) :
    lookupEnv name ρ = none :=
  nameLookup_none name pat hok hn v ρ hb

/-- every computed path is a proper path (≥ 1), never the nil selector 0. -/
theorem name_lookup_pos (name : Bytes) (pat : Rich) (p : Nat) (h : nameLookup name pat = some p) :
    1 ≤ p :=
  nameLookup_pos name pat p h

/-- arguments live in the right half of the `(functions . arguments)` environment:
    a name that is not a helper is addressed by `2·q+1` where `q` addresses it in the
    parameter pattern (no helper may be called `@`). -/
theorem arg_path_in_env (name : Bytes) (helpers : List Bytes) (args : Rich)
    (hat : buildTree helpers (helpers.length + 1) ≠ Rich.atom [64])
    (hh : nameLookup name (buildTree helpers (helpers.length + 1)) = none) :
    nameLookup name (envShape helpers args) = (nameLookup name args).map (fun q => 2 * q + 1) := by
  unfold envShape
  rw [nameLookup_cons name _ _ (by intro cap sub h1 _; exact hat h1), hh]
  cases nameLookup name args <;> rfl

-- non-vacuity: a nested pattern with a capture and a dotted tail
example : nameLookup [66] (.cons (.atom [65]) (.cons (.cons (.atom [64]) (.cons (.atom [67]) (.cons (.cons (.atom [66]) (.atom [68])) .nil))) .nil)) = some 9 := by
  decide
example : patOk (.cons (.atom [65]) (.cons (.cons (.atom [64]) (.cons (.atom [67]) (.cons (.cons (.atom [66]) (.atom [68])) .nil))) .nil)) = true := by
  decide

end C01
