/-
  Props/C01.lean — property theorems for C01 (compiled modern Chialisp computes what the
  source means).

  FULL STATEMENT (the property, over the source semantics `Lang.evalSrc` of Lang/Sem.lean):
      ∀ program P accepted under dialect d, ∀ args, ∀ v,
        Lang.evalSrc P args = .ok v → Clvm.Evaluates chiaOps (compile d P) args v
  A proof of that for the whole 5 kLoC compiler is out of reach here; it is decided
  differentially (tools/props/c01.py: real compiler + consensus evaluator vs `evalSrc` on
  generated programs of every feature stratum and dialect).  What IS proved, for all inputs:

  * Layer A — the environment/path algebra of the code generator (where data-dependent
    addressing bugs live);
  * Layer B — `compile_core_correct_partial`: the full property for the CORE language (mod and
    non-inline, possibly recursive functions with arbitrary parameter patterns incl. captures,
    variables, quoted constants, every primitive operator, the lazy `if`, `list`, function
    calls; non-optimising code generation with dead-function pruning), over a compiler model
    `Core.compileCore` that is byte-identical to the real compiler's output on that subset
    (checked on every run by `modeld core` vs `cvh compile`).  `_partial` = core language
    only; inlines, let/assign, lambda, macros, constants, &rest and the optimisers are
    outside it.
-/
import ChialispModel.Lang.Env
import ChialispModel.Lang.CoreSource
import ChialispModel.Proofs.EnvLemmas
import ChialispModel.Proofs.CoreLemmas

namespace C01
open Lang

/-- Layer A (all parameter patterns — nested, dotted, with `(@ name pat)` captures, any
    width — and all argument values): the path the code generator computes for a name
    (`create_name_lookup_`) selects exactly the value source-level destructuring binds to it. -/
theorem name_lookup_correct (name : Bytes) (pat : Rich) (hok : patOk pat = true) (p : Nat)
    (h : nameLookup name pat = some p) (v : Val) (ρ : Env)
    (hb : bindPat pat (SV.ofVal v) = some ρ) :
    ∃ w, lookupEnv name ρ = some (SV.ofVal w) ∧ Path.lookupNat p v = .ok w :=
  nameLookup_correct name pat hok p h v ρ hb

/-- …and a name the generator cannot address is one the destructuring does not bind
    (so "not found" errors are exactly the unbound names). -/
theorem name_lookup_complete (name : Bytes) (pat : Rich) (hok : patOk pat = true)
    (hn : nameLookup name pat = none) (v : SV) (ρ : Env) (hb : bindPat pat v = some ρ) :
    lookupEnv name ρ = none :=
  nameLookup_none name pat hok hn v ρ hb

/-- every computed path is a proper path (≥ 1), never the nil selector 0. -/
theorem name_lookup_pos (name : Bytes) (pat : Rich) (p : Nat) (h : nameLookup name pat = some p) :
    1 ≤ p :=
  nameLookup_pos name pat p h

/-- arguments live in the right half of the `(functions . arguments)` environment:
    a name that is not a helper is addressed by `2·q+1` where `q` addresses it in the
    parameter pattern (no helper may be called `@`). -/
theorem arg_path_in_env (name : Bytes) (helpers : List Bytes) (args : Rich)
    (hat : buildTree helpers (helpers.length + 1) ≠ Rich.atom [64])
    (hh : nameLookup name (buildTree helpers (helpers.length + 1)) = none) :
    nameLookup name (envShape helpers args) = (nameLookup name args).map (fun q => 2 * q + 1) := by
  unfold envShape
  rw [nameLookup_cons name _ _ (by intro cap sub h1 _; exact hat h1), hh]
  cases nameLookup name args <;> rfl

/-- Layer B: correctness of the core compiler model, for any operator table implementing
    `i` and `c` (in particular clvmr's), every well-formed core program (decidable check
    `Core.progWF`), all arguments: source meaning `v` ⇒ the emitted CLVM evaluates to `v`. -/
theorem compile_core_correct_partial (ops : OpSem) (hops : Core.OpsCore ops) (P : Core.Prog)
    (hwf : Core.progWF P = true) (code : Val) (hc : Core.compileCore P = some code)
    (n : Nat) (args v : Val) (he : Core.evalProg ops P n args = .ok v) :
    Clvm.Evaluates ops code args v :=
  Core.compileCore_correct ops hops P hwf code hc n args v he

/-- clvmr's operator table (the driver's instance) meets the hypothesis. -/
theorem chia_ops_core : Core.OpsCore Ops.chiaOps := Core.chiaOps_core

/-- non-vacuity of Layer B: `(mod (X) (defun F (A) (if A (+ A 1) (q . 7))) (F X))`. -/
def exampleProg : Core.Prog :=
  { params := .cons (.atom [88]) .nil,
    fns := [⟨[70], .cons (.atom [65]) .nil,
             .ite (.var [65]) (.op 16 (.cons (.var [65]) (.cons (.lit (.atom [1])) .nil))) (.lit (.atom [7]))⟩],
    body := .call [70] (.cons (.var [88]) .nil) }

example : Core.progWF exampleProg = true := by decide
example : (Core.compileCore exampleProg).isSome = true := by decide

-- non-vacuity: a nested pattern with a capture and a dotted tail
example : nameLookup [66] (.cons (.atom [65]) (.cons (.cons (.atom [64]) (.cons (.atom [67]) (.cons (.cons (.atom [66]) (.atom [68])) .nil))) .nil)) = some 9 := by
  decide
example : patOk (.cons (.atom [65]) (.cons (.cons (.atom [64]) (.cons (.atom [67]) (.cons (.cons (.atom [66]) (.atom [68])) .nil))) .nil)) = true := by
  decide

end C01
