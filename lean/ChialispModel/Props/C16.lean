/-
  Props/C16.lean — property theorems for C16 (the REPL / partial evaluator only returns what
  the compiled program would).  Proved part: argument capture — the evaluator binds names of a
  parameter pattern to the argument value exactly as the source meaning does
  (`create_argument_captures` vs `bindPat`, via the shared path theorem).  The evaluator's
  reduction engine is decided differentially (tools/props/c16.py).
-/
import ChialispModel.Props.C01

namespace C16

/-- names captured from a parameter pattern denote what source-level destructuring binds. -/
theorem captures_correct (name : Bytes) (pat : Rich) (hok : Lang.patOk pat = true) (p : Nat)
    (h : Lang.nameLookup name pat = some p) (v : Val) (ρ : Lang.Env)
    (hb : Lang.bindPat pat (Lang.SV.ofVal v) = some ρ) :
    ∃ w, Lang.lookupEnv name ρ = some (Lang.SV.ofVal w) ∧ Path.lookupNat p v = .ok w :=
  C01.name_lookup_correct name pat hok p h v ρ hb

end C16
