/-
  Props/C16.lean — property theorems for C16 (the REPL / partial evaluator only returns what
  the compiled program would).

  FULL STATEMENT (not proved in this generality; decided on the real REPL by tools/props/c16.py:
  the tie of `modeld shrink` to `Repl::process_line`, and the differential oracle
  residual-vs-compiled on sessions of the whole surface language):
    for every session (definitions, then an expression `e`) and every argument value,
    if the REPL answers `e'` and the compiled `(mod PARAMS defs e)` returns `v`
    then the compiled `(mod PARAMS defs e')` returns `v`  (in particular `e' = (q . c)` ⇒ `v = c`).
  It is FALSE for the unchanged tree (findings C16-F1/F3: a free variable inside the branch of an
  `if` reaches the compiler, which reads an unbound identifier as its own quoted name —
  `open_if_branch_counterexample` below; C16-F2 is the same through let-bound names, outside
  the core language).

  PROVED (`…_partial`, this file + Proofs/ShrinkLemmas.lean) over the model `Shrink.shrink`
  (Lang/Shrink.lean) of `Evaluator::shrink_bodyform_visited`, which `modeld shrink` ties to the real
  REPL on generated core sessions (identical printed trees), with `Core.evalCore` as the source
  meaning — the one `C01.compile_core_correct_partial` relates to the compiled code — for ANY
  operator table implementing `i` and `c`, any definitions, any amount of fuel on either side:
  on the fragment `Shrink.thmFrag` (free variables, constants, operator calls, and `if` whose
  branches are closed core expressions — function calls included there: the evaluator compiles
  the branch with the real compiler and runs it, and the proof goes through the compiler theorem)
  * a residual that is again a core expression (`exprOk`: no `(a …)` left, i.e. every `if` was
    decided) has the value of the original wherever the original has one, at the same fuel;
  * a constant answer is the value of the original wherever it has one;
  * hence the COMPILED program returns the REPL's constant / the compiled residual program
    returns the compiled original's source value.
  NOT PROVED: function calls outside `if` branches (call-by-name substitution through
  `create_argument_captures`; modelled and tied, not proved), residuals that still contain an
  undecided `if` (they apply compiled code: `(a (i c (q . code) (q . code)) env)`), and the
  symbolic CLVM evaluator behind `continue_apply` (not modelled: the model answers `unsup`).
  Also kept: argument capture agrees with source-level destructuring (`captures_correct`).
-/
import ChialispModel.Props.C01
import ChialispModel.Proofs.ShrinkLemmas

namespace C16

/-- names captured from a parameter pattern denote what source-level destructuring binds. -/
theorem captures_correct (name : Bytes) (pat : Rich) (hok : Lang.patOk pat = true) (p : Nat)
    (h : Lang.nameLookup name pat = some p) (v : Val) (ρ : Lang.Env)
    (hb : Lang.bindPat pat (Lang.SV.ofVal v) = some ρ) :
    ∃ w, Lang.lookupEnv name ρ = some (Lang.SV.ofVal w) ∧ Path.lookupNat p v = .ok w :=
  C01.name_lookup_correct name pat hok p h v ρ hb

example : Lang.nameLookup [89] (.cons (.atom [88]) (.cons (.atom [89]) .nil)) = some 5 := by decide

/-- RESIDUAL SOUNDNESS on the fragment: whatever the REPL model answers for `e` (any depth limit
    `k`), if the answer is a core expression then under every parameter pattern / argument value /
    fuel at which the original has a value, the answer has the same value. -/
theorem shrink_residual_sound_partial (ops : OpSem) (hops : Core.OpsCore ops) (fns : List Core.FnDef)
    (k : Nat) (e e' : Core.Expr) (hfrag : Shrink.thmFrag fns e = true) (hres : Core.exprOk e' = true)
    (hs : Shrink.replShrink ops fns k e = .ok e')
    (n : Nat) (pat : Rich) (args v : Val) (he : Core.evalCore ops fns n pat args e = .ok v) :
    Core.evalCore ops fns n pat args e' = .ok v :=
  (Shrink.shrink_sound_aux ops hops fns pat args (Shrink.ifHyp_of_wf ops hops fns pat args) k).1
    e e' n v hfrag hres hs he

/-- the session used by the examples: `(defun sum (L) (if L (+ (f L) (sum (r L))) 0))`. -/
def sumFn : Core.FnDef :=
  ⟨[115, 117, 109], .cons (.atom [76]) .nil,
   .ite (.var [76])
     (.op 16 (.cons (.op 5 (.cons (.var [76]) .nil))
        (.cons (.call [115, 117, 109] (.cons (.op 6 (.cons (.var [76]) .nil)) .nil)) .nil)))
     (.lit Val.nil)⟩

/-- open expression `(+ X (* 2 3) (if 1 (sum (q 1 2 3)) 0))`: the residual is `(+ X (q . 6) (q . 6))`. -/
def openExpr : Core.Expr :=
  .op 16 (.cons (.var [88]) (.cons (.op 18 (.cons (.lit (.atom [2])) (.cons (.lit (.atom [3])) .nil)))
    (.cons (.ite (.lit (.atom [1]))
      (.call [115, 117, 109] (.cons (.lit (.pair (.atom [1]) (.pair (.atom [2]) (.pair (.atom [3]) Val.nil)))) .nil))
      (.lit Val.nil)) .nil)))

def openResidual : Core.Expr :=
  .op 16 (.cons (.var [88]) (.cons (.lit (.atom [6])) (.cons (.lit (.atom [6])) .nil)))

example : Shrink.thmFrag [sumFn] openExpr = true := by decide
example : Core.exprOk openResidual = true := by decide
example : Shrink.shown (Shrink.replShrink Ops.chiaOps [sumFn] 12 openExpr) = some (Shrink.toVal openResidual) := by
  decide
example : Shrink.resVal (Core.evalCore Ops.chiaOps [sumFn] 40 (.cons (.atom [88]) .nil) (.pair (.atom [5]) Val.nil)
    openExpr) = some (.atom [17]) := by decide

/-- CONSTANT SOUNDNESS on the fragment: a constant answer is the value of the original
    wherever the original has one (lazier is allowed, different is not). -/
theorem shrink_const_sound_partial (ops : OpSem) (hops : Core.OpsCore ops) (fns : List Core.FnDef)
    (k : Nat) (e : Core.Expr) (c : Val) (hfrag : Shrink.thmFrag fns e = true)
    (hs : Shrink.replShrink ops fns k e = .ok (.lit c))
    (n : Nat) (pat : Rich) (args v : Val) (he : Core.evalCore ops fns n pat args e = .ok v) : v = c :=
  (Shrink.evalCore_lit_inv
    (shrink_residual_sound_partial ops hops fns k e (.lit c) hfrag rfl hs n pat args v he)).1

/-- closed expression `(+ 1 (if (= 2 2) (sum (q 1 2 3)) 0))`: a recursive function folded to 7. -/
def closedExpr : Core.Expr :=
  .op 16 (.cons (.lit (.atom [1]))
    (.cons (.ite (.op 9 (.cons (.lit (.atom [2])) (.cons (.lit (.atom [2])) .nil)))
      (.call [115, 117, 109] (.cons (.lit (.pair (.atom [1]) (.pair (.atom [2]) (.pair (.atom [3]) Val.nil)))) .nil))
      (.lit Val.nil)) .nil))

example : Shrink.thmFrag [sumFn] closedExpr = true := by decide
example : Shrink.shown (Shrink.replShrink Ops.chiaOps [sumFn] 12 closedExpr) =
    some (Shrink.toVal (.lit (.atom [7]))) := by decide
example : Shrink.resVal (Core.evalCore Ops.chiaOps [sumFn] 40 .nil Val.nil closedExpr) = some (.atom [7]) := by decide

/-- … and so does the COMPILED program: whenever the source meaning of `(mod PARAMS defs e)` has a
    value, the code the compiler emits returns the constant the REPL printed. -/
theorem shrink_const_compiled_partial (ops : OpSem) (hops : Core.OpsCore ops) (P : Core.Prog)
    (hwf : Core.progWF P = true) (code : Val) (hc : Core.compileCore P = some code)
    (hfrag : Shrink.thmFrag P.fns P.body = true) (k : Nat) (c : Val)
    (hs : Shrink.replShrink ops P.fns k P.body = .ok (.lit c))
    (n : Nat) (args v : Val) (he : Core.evalProg ops P n args = .ok v) :
    Clvm.Evaluates ops code args c := by
  have hv : v = c := shrink_const_sound_partial ops hops P.fns k P.body c hfrag hs n P.params args v he
  rw [← hv]
  exact C01.compile_core_correct_partial ops hops P hwf code hc n args v he

/-- … and the compiled RESIDUAL program returns what the source meaning of the original is. -/
theorem shrink_residual_compiled_partial (ops : OpSem) (hops : Core.OpsCore ops) (P : Core.Prog)
    (hfrag : Shrink.thmFrag P.fns P.body = true) (k : Nat) (e' : Core.Expr)
    (hs : Shrink.replShrink ops P.fns k P.body = .ok e')
    (hwf' : Core.progWF { P with body := e' } = true) (code' : Val)
    (hc' : Core.compileCore { P with body := e' } = some code')
    (n : Nat) (args v : Val) (he : Core.evalProg ops P n args = .ok v) :
    Clvm.Evaluates ops code' args v := by
  have hres : Core.exprOk e' = true := by
    have h := hwf'
    simp only [Core.progWF, Bool.and_eq_true] at h
    exact h.1.1.1.2
  have h2 := shrink_residual_sound_partial ops hops P.fns k P.body e' hfrag hres hs n P.params args v he
  exact C01.compile_core_correct_partial ops hops { P with body := e' } hwf' code' hc' n args v h2

def closedProg : Core.Prog := { params := .nil, fns := [sumFn], body := closedExpr }
def openProg : Core.Prog := { params := .cons (.atom [88]) .nil, fns := [sumFn], body := openExpr }
example : Core.progWF closedProg = true := by decide
example : (Core.compileCore closedProg).isSome = true := by decide
example : Core.progWF { openProg with body := openResidual } = true := by decide
example : (Core.compileCore { openProg with body := openResidual }).isSome = true := by decide

/-- the defect class inside the core language (findings C16-F1 / C16-F3), mirrored by the model:
    `(if 1 X 3)` with `X` free is answered `(q . X)` — the NAME — although the program
    `(mod (X) (if 1 X 3))` returns its argument (7 on `(7)`).  The theorems above exclude it by
    `closedE` on the branches. -/
theorem open_if_branch_counterexample :
    Shrink.shown (Shrink.replShrink Ops.chiaOps [] 6 (.ite (.lit (.atom [1])) (.var [88]) (.lit (.atom [3]))))
      = some (Shrink.toVal (.lit (.atom [88]))) ∧
    Shrink.resVal (Core.evalCore Ops.chiaOps [] 6 (.cons (.atom [88]) .nil) (.pair (.atom [7]) Val.nil)
      (.ite (.lit (.atom [1])) (.var [88]) (.lit (.atom [3])))) = some (.atom [7]) := by
  decide

end C16
