/-
  Props/C04.lean — property theorems for C04:
  "the CLVM-level optimiser preserves the meaning of any CLVM it is given"
  (for every CLVM expression R and environment E: if the consensus evaluator returns v for R
  in E, the optimiser accepts R and its output returns v in E).

  Model: Opt/NodePath.lean, Opt/Classic.lean (mirror of stage_2/optimize.rs, pattern_match.rs,
  node_path.rs, casts.rs, get_u32).  Semantics: `Clvm.evalC` for an ARBITRARY operator table
  `ops`; the rules that mention f / r / c need `CoreOps ops` (those three operators are
  first / rest / cons), proved for the concrete table at the end.

  FULL STATEMENT (false on the unchanged tree, see the `*_counterexample` theorems):

      theorem optimize_sound (h : Evaluates ops r e v) :
          ∃ r', optimizeSexp ops false ef n r = .ok r' ∧ Evaluates ops r' e v      -- (n, ef large enough)

  What is proved instead (`optimize_sound_partial`, `optimize_accepts_partial`,
  `optimize_strict_refines`): the same statement for every run of the mirrored code during
  which none of five decidable situations occurs (strict mode raises a `FLAG:*` for them):
    pair-head / sub-args-pair-head : a form `((X) . args)` reaches children_optimizer / sub_args
    sub-args-nil, sub-args-neg     : sub_args meets a path atom that number_from_u8 reads as 0 / < 0
    signed-noncanonical-path       : path_optimizer meets a non-minimal atom with the top bit set
    sub-args-long-path             : sub_args meets a path atom of ≥ 1024 bytes (the recursive
                                     path_from_args overflows the stack; no kernel witness — a
                                     4097-byte atom — the check replays it on the real code)
  Each situation has a kernel-checked counter-witness below; each is replayed on the real
  optimiser by tools/props/c04.py.
  A sixth situation of the code as found (get-u32-path: a minimal top-bit atom of ≥ 4 bytes in
  path_optimizer, `get_u32` little-endian) was repaired in /repo c2e6c4f; it is now a PROVED
  case (`bigint_from_bytes_unsigned`, `as_path_new_canonical`, `path_atom_ok_canonical`,
  `path_optimizer_sound_canonical`), and its former counter-witnesses are kept as the
  `*_repaired_get_u32` theorems on the same inputs.  Termination of the loop is not addressed (fuel-bounded model).
  The memo of optimize_sexp_ is absent from `optimizeSexp`; `memo_transparent` shows that the
  memoised function (Opt/ClassicMemo.lean) returns nothing else.
-/
import ChialispModel.Opt.Classic
import ChialispModel.Proofs.OptRefine
import ChialispModel.Proofs.OptMemo
import ChialispModel.Proofs.NodePathSigned

namespace C04
open Opt Clvm

-- =========================================================================================
-- path algebra (shared with C03)
-- =========================================================================================

/-- composing paths is following one, then the other. -/
theorem lookup_compose {p q : Nat} (hp : 1 ≤ p) (hq : 1 ≤ q) (v : Val) :
    Path.lookupNat (Path.compose p q) v = Path.lookupNat p v >>= Path.lookupNat q :=
  PathAlg.lookup_compose hp hq v

/-- the Rust shift/mask loop of `compose_paths` computes path composition. -/
theorem compose_paths_loop (p q : Nat) (hq : 1 ≤ q) : NodePath.composePaths p q = Path.compose p q :=
  NodePath.composePaths_eq p q hq

/-- `as_path ∘ new ∘ number_from_u8` keeps the path of every atom that reads non-negative
    (any width, any amount of zero padding) … -/
theorem as_path_new_nonneg {b : Bytes} (h : 0 ≤ Bytes.toInt b) :
    Bytes.toNatBE (NodePath.asPath (NodePath.new (Bytes.toInt b))) = Bytes.toNatBE b := by
  rw [NodePath.new_toInt_nonneg h]; exact BytesAlg.toNatBE_ofNatBE _

/-- **`bigint_from_bytes(b, None)` is the unsigned big-endian reading of `b`, for EVERY `b`**
    (both loops of casts.rs, 4-byte groups through `get_u32`, any length).  False for the code
    as found (little-endian `get_u32`, from four bytes up). -/
theorem bigint_from_bytes_unsigned (b : Bytes) : NodePath.bigintFromBytes b = Bytes.toNatBE b :=
  NodePath.bigintFromBytes_eq b

example : NodePath.bigintFromBytes [0x80, 0, 0, 0, 0x12, 0x34, 0x56, 0x78, 0x9a] = 0x80000000123456789a := by decide

/-- hence `NodePath::new` of a NEGATIVE index is the unsigned reading of its minimal
    two's-complement bytes, whatever their number … -/
theorem node_path_new_negative {i : Int} (h : i < 0) :
    NodePath.new i = Bytes.toNatBE (Bytes.ofIntClvm i) := NodePath.new_neg h

example : NodePath.new (-(2 : Int) ^ 71) = 2 ^ 71 := by decide

/-- … and `as_path ∘ new ∘ number_from_u8` keeps the path of every minimal (canonical) atom of
    ANY length, top bit set or not: the optimiser's path arithmetic agrees with clvmr's unsigned
    traversal on all canonical atoms. -/
theorem as_path_new_canonical {b : Bytes} (hc : Bytes.canonical b = true) :
    Bytes.toNatBE (NodePath.asPath (NodePath.new (Bytes.toInt b))) = Bytes.toNatBE b := by
  rw [NodePath.new_canonical hc]; exact BytesAlg.toNatBE_ofNatBE _

/-- the former counter-witness of finding C04-get-u32-path (`0x80000000 ↦ 128` with the
    little-endian `get_u32`), now sound: same atom, index 2^31. -/
theorem as_path_new_repaired_get_u32 :
    Bytes.canonical [0x80, 0, 0, 0] = true ∧
    NodePath.new (Bytes.toInt [0x80, 0, 0, 0]) = 2147483648 ∧ Bytes.toNatBE [0x80, 0, 0, 0] = 2147483648 := by
  decide

/-- FULL STATEMENT `∀ b, toNatBE (asPath (new (toInt b))) = toNatBE b` is still false:
    a sign-extended (non-minimal) atom is re-encoded minimally first (`0xff80 ↦ 128`, `0xffff ↦ 255`). -/
theorem as_path_new_counterexample_signed :
    NodePath.new (Bytes.toInt [0xff, 0x80]) = 128 ∧ Bytes.toNatBE [0xff, 0x80] = 65408 ∧
    NodePath.new (Bytes.toInt [0xff, 0xff]) = 255 ∧ Bytes.toNatBE [0xff, 0xff] = 65535 := by
  decide

example : (0 : Int) ≤ Bytes.toInt [0, 0x80, 0x01] := by decide
example : Bytes.canonical [0x80, 0x01, 0x02, 0x03, 0x04, 0x05] = true := by decide

-- =========================================================================================
-- pattern matching, constants
-- =========================================================================================

/-- `match_sexp`: a match makes the expression an instance of the pattern under the returned
    bindings, and only extends the known bindings. -/
theorem match_sexp_sound (p s : Val) (kb bs : Bindings) (hw : WF p) (h : matchSexp p s kb = some bs) :
    Inst p bs s ∧ Sub kb bs :=
  matchSexp_sound p s kb bs hw h

example : WF patQA ∧ WF patCons ∧ WF patFirstCons ∧ WF patRestCons ∧ WF patFirstAtom ∧ WF patRestAtom ∧
    WF patQuoteNull ∧ WF patApplyNull :=
  ⟨wf_patQA, wf_patCons, wf_patFirstCons, wf_patRestCons, wf_patFirstAtom, wf_patRestAtom,
   wf_patQuoteNull, wf_patApplyNull⟩

/-- what `seems_constant` accepts evaluates the same in every environment — same value, same
    failure, same fuel behaviour (any operator table). -/
theorem seems_constant_env_indep {ops : OpSem} {n : Nat} {r : Val} (e e' : Val)
    (h : seemsConstant r = true) : evalC ops n r e = evalC ops n r e' :=
  seemsConstant_env_indep e e' h

example : seemsConstant (.pair (.atom [16]) (.pair (.pair (.atom [1]) (.atom [5])) (.atom []))) = true := by decide

-- =========================================================================================
-- one theorem per rewrite rule
-- =========================================================================================

variable {ops : OpSem}

/-- `(f (c A B)) ⇒ A`, `(r (c A B)) ⇒ B` -/
theorem cons_optimizer_sound (co : CoreOps ops) {r e v : Val} (h : Evaluates ops r e v) :
    Evaluates ops (consOptimizer r) e v := consOptimizer_sound co h

/-- constant folding: the folded expression means the same … -/
theorem constant_optimizer_sound {ef : Nat} {r r' e v : Val}
    (hr : constantOptimizer ops ef r = .ok r') (h : Evaluates ops r e v) : Evaluates ops r' e v :=
  constantOptimizer_sound hr h

/-- … and folding never rejects an expression that evaluates. -/
theorem constant_optimizer_accepts {ef : Nat} {r e v : Val} {t : String}
    (h : Evaluates ops r e v) : constantOptimizer ops ef r ≠ .error (.fail t) :=
  constantOptimizer_no_fail h

/-- `(a (q . S) 1) ⇒ S` -/
theorem cons_q_a_optimizer_sound {r e v : Val} (h : Evaluates ops r e v) :
    Evaluates ops (consQAOptimizer r) e v := consQAOptimizer_sound h

/-- `(q . 0) ⇒ 0` -/
theorem quote_null_optimizer_sound {r e v : Val} (h : Evaluates ops r e v) :
    Evaluates ops (quoteNullOptimizer r) e v := quoteNullOptimizer_sound h

/-- `(a 0 . REST) ⇒ 0` (improper and over-long REST included: the original then fails) -/
theorem apply_null_optimizer_sound {r e v : Val} (h : Evaluates ops r e v) :
    Evaluates ops (applyNullOptimizer r) e v := applyNullOptimizer_sound h

/-- `sub_args`: substituting ARGS for the environment in S is re-rooting, provided S contains
    no pair-headed form and every path atom of S reads ≥ 1 under `number_from_u8`
    (`subArgsSafe`).  Quoted sub-terms and improper operand lists are closed cases.
    FULL STATEMENT (without `hs`) is false: `sub_args_counterexample_*`. -/
theorem sub_args_sound_partial (co : CoreOps ops) {ARGS e a S v : Val} (hs : subArgsSafe S = true)
    (ha : Evaluates ops ARGS e a) (hv : Evaluates ops S a v) : Evaluates ops (subArgs ARGS S) e v :=
  subArgs_sound co hs ha hv

example : subArgsSafe (.pair (.atom [4]) (.pair (.atom [2]) (.pair (.pair (.atom [1]) (.atom [])) (.atom [])))) = true := by
  decide

/-- the nil path `()` (and `0x00`) is replaced by ARGS although it means nil … -/
theorem sub_args_counterexample_nil :
    subArgs (.atom [5]) (.atom []) = .atom [5] ∧
    evalC Ops.chiaOps 3 (.atom []) (.atom [9]) = .ok (.atom []) := by decide

/-- … and so is every atom with the top bit set (read as negative). -/
theorem sub_args_counterexample_neg : subArgs (.atom [5]) (.atom [0x80]) = .atom [5] := by decide

/-- `var_change_optimizer_cons_eval` in strict mode (flags instead of substituting into an
    unsafe S or optimising the elements of a pair-headed list). -/
theorem var_change_optimizer_sound_partial (co : CoreOps ops) {rec : Val → Res}
    (hs : RecSound ops rec) (ha : RecAtom rec) {r r' e v : Val}
    (hr : varChangeOptimizer true rec r = .ok r') (hv : Evaluates ops r e v) : Evaluates ops r' e v :=
  varChangeOptimizer_sound co hs ha hr hv

/-- `children_optimizer` in strict mode (flags pair-headed lists), for any sound recursive call. -/
theorem children_optimizer_sound_partial {rec : Val → Res}
    (hs : RecSound ops rec) (ha : RecAtom rec) {r r' e v : Val}
    (hr : childrenOptimizer true rec r = .ok r') (hv : Evaluates ops r e v) : Evaluates ops r' e v :=
  childrenOptimizer_sound hs ha hr hv

/-- `path_optimizer` (the mirrored code, not strict mode), for ALL byte patterns of the path
    atom for which `NodePath::new(number_from_u8(b))` is the unsigned value of `b`:
    `(f b) ⇒ b·2`, `(r b) ⇒ b·3`.
    FULL STATEMENT (without `hok`) is false: `path_optimizer_counterexample_*`. -/
theorem path_optimizer_sound_partial (co : CoreOps ops) {r r' e v : Val}
    (hok : ∀ b, r = mk1 [5] (.atom b) ∨ r = mk1 [6] (.atom b) → pathAtomOk b = true)
    (hr : pathOptimizer false r = .ok r') (h : Evaluates ops r e v) : Evaluates ops r' e v := by
  rcases pathOptimizer_cases hr with rfl | ⟨b, isRest, rfl, hs⟩
  · exact h
  · have hb : pathAtomOk b = true := by
      cases isRest
      · exact hok b (Or.inl rfl)
      · exact hok b (Or.inr rfl)
    simp only [pathStep, Bool.false_and, Bool.false_eq_true, if_false, Except.ok.injEq] at hs
    subst hs
    exact pathStep_sound co hb h

/-- the hypothesis holds for every atom that reads non-negative (all widths, zero-padded included) … -/
theorem path_atom_ok_nonneg {b : Bytes} (h : 0 ≤ Bytes.toInt b) : pathAtomOk b = true := by
  simp [pathAtomOk, NodePath.new_toInt_nonneg h]

/-- … and for every canonical atom of every width (top bit set included: `0x80`, `0xff7f`,
    `0x80000000`, …) — the class that was finding C04-get-u32-path from four bytes up. -/
theorem path_atom_ok_canonical {b : Bytes} (hc : Bytes.canonical b = true) : pathAtomOk b = true := by
  simp [pathAtomOk, NodePath.new_canonical hc]

/-- so the hypothesis fails (and strict mode flags) ONLY on atoms that read negative and are not
    minimally encoded — the remaining finding C04-signed-noncanonical-path. -/
theorem path_atom_not_ok_only_signed_noncanonical {b : Bytes} (h : pathAtomOk b = false) :
    Bytes.toInt b < 0 ∧ Bytes.canonical b = false := by
  constructor
  · apply Classical.byContradiction
    intro hn
    rw [path_atom_ok_nonneg (by omega)] at h
    cases h
  · cases hc : Bytes.canonical b with
    | false => rfl
    | true => rw [path_atom_ok_canonical hc] at h; cases h

example : pathAtomOk [0xff, 0xff] = false := by decide

/-- **exactly which atoms `path_optimizer` gets wrong** (sharp form of the remaining finding
    C04-signed-noncanonical-path, all widths): the index is the path clvmr traverses iff the
    first byte is below 0x80, or the atom is a single byte, or the first NINE bits are not all
    ones (`n < 256^L − 2^(8L−9)`) — i.e. iff the atom is not a sign-extended encoding. -/
theorem path_atom_ok_iff (x : UInt8) (r : Bytes) :
    pathAtomOk (x :: r) = true ↔
      (x.toNat < 128 ∨ r = [] ∨ Bytes.toNatBE (x :: r) + 2 ^ (8 * r.length - 1) < 256 ^ (r.length + 1)) := by
  by_cases hx : x.toNat < 128
  · simp [hx, path_atom_ok_nonneg (NodePath.toInt_nonneg_of_small x r hx)]
  · have := NodePath.new_toInt_topbit_eq_iff x r (by omega)
    simp only [pathAtomOk, beq_iff_eq, hx, false_or]
    exact this

example : pathAtomOk [0xff, 0x7f, 0xff] = true ∧ pathAtomOk [0xff, 0x80, 0x00] = false ∧ pathAtomOk [0xff] = true := by
  decide

/-- **`path_optimizer` is sound on canonical path atoms of every width** (no other hypothesis):
    if the atom of `(f b)` / `(r b)` is minimally encoded, the rewritten path means the same. -/
theorem path_optimizer_sound_canonical (co : CoreOps ops) {r r' e v : Val}
    (hc : ∀ b, r = mk1 [5] (.atom b) ∨ r = mk1 [6] (.atom b) → Bytes.canonical b = true)
    (hr : pathOptimizer false r = .ok r') (h : Evaluates ops r e v) : Evaluates ops r' e v :=
  path_optimizer_sound_partial co (fun b hb => path_atom_ok_canonical (hc b hb)) hr h

example : Bytes.canonical [0x80, 0, 0, 0] = true ∧
    pathOptimizer false (mk1 [5] (.atom [0x80, 0, 0, 0])) = .ok (.atom [0x01, 0, 0, 0, 0]) := by decide

/-- strict mode never rewrites where the hypothesis fails. -/
theorem path_optimizer_sound_strict (co : CoreOps ops) {r r' e v : Val}
    (hr : pathOptimizer true r = .ok r') (h : Evaluates ops r e v) : Evaluates ops r' e v :=
  pathOptimizer_sound_strict co hr h

/-- `(f 0xffff)`: clvmr walks path 65535 (16th element of a list), the optimiser emits
    `0x017f` = 383 = 255·2 (8th element). -/
theorem path_optimizer_counterexample_signed :
    pathOptimizer false (mk1 [5] (.atom [0xff, 0xff])) = .ok (.atom [0x01, 0x7f]) ∧
    Path.compose 65535 2 = 98303 ∧ Bytes.toNatBE [0x01, 0x7f] = 383 := by decide

/-- `(f 0x80000000)` optimises to path 2^32 = 2^31·2 (it was 256 with the little-endian
    `get_u32`: the former counter-witness of finding C04-get-u32-path). -/
theorem path_optimizer_repaired_get_u32 :
    pathOptimizer false (mk1 [5] (.atom [0x80, 0, 0, 0])) = .ok (.atom [0x01, 0, 0, 0, 0]) ∧
    Path.compose 2147483648 2 = 4294967296 ∧ Bytes.toNatBE [0x01, 0, 0, 0, 0] = 4294967296 := by decide

-- =========================================================================================
-- the whole optimiser
-- =========================================================================================

/-- **an un-flagged strict run is a run of the mirrored code** (same fuel, same output). -/
theorem optimize_strict_refines (ef n : Nat) {r r' : Val}
    (h : optimizeSexp ops true ef n r = .ok r') : optimizeSexp ops false ef n r = .ok r' :=
  optimize_refines ops ef n r r' h

/-- **soundness of the optimiser** on un-flagged runs: the output means what the input means,
    in every environment, for every operator table with first/rest/cons. -/
theorem optimize_sound_partial (co : CoreOps ops) {ef n : Nat} {r r' : Val}
    (h : optimizeSexp ops true ef n r = .ok r') :
    optimizeSexp ops false ef n r = .ok r' ∧ ∀ e v, Evaluates ops r e v → Evaluates ops r' e v :=
  ⟨optimize_refines ops ef n r r' h, fun e v hv => (optimize_invariants co ef n).1 r r' h e v hv⟩

/-- **the optimiser accepts what evaluates**: on a program that returns a value in some
    environment, the only way strict mode stops is one of the flags (never a failure of
    constant folding or of an internal check). -/
theorem optimize_accepts_partial (co : CoreOps ops) {ef n : Nat} {r e v : Val} {t : String}
    (hv : Evaluates ops r e v) (h : optimizeSexp ops true ef n r = .error (.fail t)) : IsFlag t :=
  (optimize_invariants co ef n).2.2 r e v t hv h

/-- atoms are returned unchanged with any fuel. -/
theorem optimize_atom (strict : Bool) (ef n : Nat) (b : Bytes) :
    optimizeSexp ops strict ef n (.atom b) = .ok (.atom b) := optimizeSexp_atom ops strict ef n b

/-- **the memo is transparent**: started with a memo whose entries are results of the memo-less
    optimiser (`MemoOK`, e.g. the empty memo of `optimize_sexp`), the memoised `optimize_sexp_`
    (Opt/ClassicMemo.lean) returns only what the memo-less optimiser returns with enough fuel —
    whichever of the present entries its pointer / tree-hash lookups happen to see (`sel`) —
    and leaves the memo in such a state, also when it stops with an error. -/
theorem memo_transparent {ef : Nat} (sel : Memo → Val → Bool) (n : Nat) (m : Memo) (r : Val)
    (hm : MemoOK ops ef m) :
    MemoOK ops ef (optimizeSexpM ops ef sel n m r).2 ∧
    ∀ y, (optimizeSexpM ops ef sel n m r).1 = .ok y →
      ∃ N, ∀ N', N ≤ N' → optimizeSexp ops false ef N' r = .ok y :=
  optimizeSexpM_spec sel n m r hm

example {ef : Nat} : MemoOK ops ef [] := by intro k v h; simp [memoGet] at h

-- non-vacuity: the concrete operator table meets the assumption; a non-trivial strict run
theorem chia_ops_core : CoreOps Ops.chiaOps := Ops.chiaOps_core

private def A (l : List Nat) : Val := .atom (l.map UInt8.ofNat)
private def L (l : List Val) : Val := Val.ofList l

-- (c (f (r 1)) (a (q . (+ 2 5)) (c 3 (q . (7 . 8)))))  ⇒  (c 5 (+ 3 (q . 7)))
example : optimizeSexp Ops.chiaOps true 8 8
    (L [A [4], L [A [5], L [A [6], A [1]]], L [A [2], .pair (A [1]) (L [A [16], A [2], A [5]]), L [A [4], A [3], .pair (A [1]) (.pair (A [7]) (A [8]))]]])
    = .ok (L [A [4], A [5], L [A [16], A [3], .pair (A [1]) (A [7])]]) := by decide

-- the memoised run of the same program (two equal sub-terms: the second is a memo hit)
example : (optimizeSexpM Ops.chiaOps 8 (fun _ _ => true) 8 []
    (L [A [4], L [A [5], L [A [6], A [1]]], L [A [5], L [A [6], A [1]]]])).1 = .ok (L [A [4], A [5], A [5]]) := by decide

/-- FULL STATEMENT counter-witness 1 (pair head): `((a) () 1)` returns nil in every
    environment; the optimiser rejects it (it constant-folds the head `(a)`). -/
theorem optimize_counterexample_pair_head :
    evalC Ops.chiaOps 6 (L [L [A [2]], A [], A [1]]) (A [9]) = .ok (A []) ∧
    (optimizeSexp Ops.chiaOps false 6 6 (L [L [A [2]], A [], A [1]])).isFail = true ∧
    optimizeSexp Ops.chiaOps true 6 6 (L [L [A [2]], A [], A [1]]) = .error (.fail "FLAG:pair-head") := by
  decide

/-- counter-witness 2 (pair head, changed value): operands of a pair-headed form are NOT
    evaluated, yet children_optimizer folds them: `((c . 1) (+ (q . 2) (q . 3)) 7)` is
    `((+ (q . 2) (q . 3)) . 7)`; the optimised form returns `((q . 5) . 7)`. -/
theorem optimize_counterexample_pair_head_value :
    evalC Ops.chiaOps 6 (.pair (.pair (A [4]) (A [1])) (L [L [A [16], .pair (A [1]) (A [2]), .pair (A [1]) (A [3])], A [7]])) (A [9])
      = .ok (.pair (L [A [16], .pair (A [1]) (A [2]), .pair (A [1]) (A [3])]) (A [7])) ∧
    optimizeSexp Ops.chiaOps false 6 6 (.pair (.pair (A [4]) (A [1])) (L [L [A [16], .pair (A [1]) (A [2]), .pair (A [1]) (A [3])], A [7]]))
      = .ok (.pair (.pair (A [4]) (A [1])) (L [.pair (A [1]) (A [5]), A [7]])) ∧
    evalC Ops.chiaOps 6 (.pair (.pair (A [4]) (A [1])) (L [.pair (A [1]) (A [5]), A [7]])) (A [9])
      = .ok (.pair (.pair (A [1]) (A [5])) (A [7])) := by
  decide

/-- counter-witness 3 (nil path under substitution): `(a (q) (f 1))` is nil; optimised to `2`. -/
theorem optimize_counterexample_sub_args_nil :
    evalC Ops.chiaOps 6 (L [A [2], .pair (A [1]) (A []), L [A [5], A [1]]]) (.pair (A [7]) (A [8])) = .ok (A []) ∧
    optimizeSexp Ops.chiaOps false 6 6 (L [A [2], .pair (A [1]) (A []), L [A [5], A [1]]]) = .ok (A [2]) ∧
    evalC Ops.chiaOps 6 (A [2]) (.pair (A [7]) (A [8])) = .ok (A [7]) ∧
    optimizeSexp Ops.chiaOps true 6 6 (L [A [2], .pair (A [1]) (A []), L [A [5], A [1]]]) = .error (.fail "FLAG:sub-args-nil") := by
  decide

private def deepL : Nat → Val → Val
  | 0, v => v
  | n + 1, v => .pair (deepL n v) (A [0])

/-- counter-witness 4 (top-bit path atom under substitution): `(a (q . (c 0x80 1)) 5)` —
    clvmr walks path 128 of the new environment; `sub_args` reads `0x80` as −128 and
    substitutes the whole environment. -/
theorem optimize_counterexample_sub_args_neg :
    evalC Ops.chiaOps 8 (L [A [2], .pair (A [1]) (L [A [4], A [0x80], A [1]]), A [5]]) (.pair (A [0]) (.pair (deepL 7 (A [9])) (A [0])))
      = .ok (.pair (A [9]) (deepL 7 (A [9]))) ∧
    optimizeSexp Ops.chiaOps false 6 6 (L [A [2], .pair (A [1]) (L [A [4], A [0x80], A [1]]), A [5]]) = .ok (L [A [4], A [5], A [5]]) ∧
    evalC Ops.chiaOps 8 (L [A [4], A [5], A [5]]) (.pair (A [0]) (.pair (deepL 7 (A [9])) (A [0])))
      = .ok (.pair (deepL 7 (A [9])) (deepL 7 (A [9]))) ∧
    optimizeSexp Ops.chiaOps true 6 6 (L [A [2], .pair (A [1]) (L [A [4], A [0x80], A [1]]), A [5]]) = .error (.fail "FLAG:sub-args-neg") := by
  decide

/-- counter-witness 5 (sign-extended path atom): `(f 0xffff)` is the 16th element of a list,
    the optimised path `0x017f` selects the 8th. -/
theorem optimize_counterexample_signed_path :
    evalC Ops.chiaOps 6 (L [A [5], A [0xff, 0xff]]) (L ((List.range 17).map fun i => A [i + 1])) = .ok (A [16]) ∧
    optimizeSexp Ops.chiaOps false 6 6 (L [A [5], A [0xff, 0xff]]) = .ok (A [0x01, 0x7f]) ∧
    evalC Ops.chiaOps 6 (A [0x01, 0x7f]) (L ((List.range 17).map fun i => A [i + 1])) = .ok (A [8]) ∧
    optimizeSexp Ops.chiaOps true 6 6 (L [A [5], A [0xff, 0xff]]) = .error (.fail "FLAG:signed-noncanonical-path") := by
  decide

/-- former counter-witness 6 (`get_u32`, repaired in /repo c2e6c4f): `(f 0x80000000)` selects a
    node 32 levels down, and so does the optimised path `0x0100000000` = 2^32 (it was `0x0100` =
    256, 8 levels down); strict mode no longer flags it. -/
theorem optimize_repaired_get_u32 :
    evalC Ops.chiaOps 6 (L [A [5], A [0x80, 0, 0, 0]]) (deepL 32 (A [9])) = .ok (A [9]) ∧
    optimizeSexp Ops.chiaOps false 6 6 (L [A [5], A [0x80, 0, 0, 0]]) = .ok (A [0x01, 0, 0, 0, 0]) ∧
    evalC Ops.chiaOps 6 (A [0x01, 0, 0, 0, 0]) (deepL 32 (A [9])) = .ok (A [9]) ∧
    optimizeSexp Ops.chiaOps true 6 6 (L [A [5], A [0x80, 0, 0, 0]]) = .ok (A [0x01, 0, 0, 0, 0]) := by
  decide

end C04
