/-
  Props/C15.lean — property theorems for C15: source locations point at the text they
  describe.  Model: Text/Srcloc.lean, Text/Reader.lean (the byte-at-a-time machine of
  `compiler::sexp`, locations carried exactly as `SExpParseState` does); vocabulary of the
  statements: Text/ReaderSpec.lean.  Helper lemmas live in Proofs/; only the property
  statements are here.  All statements are for ALL texts (tab-free where byte offsets are
  computed from line/column).
-/
import ChialispModel.Text.ReaderSpec
import ChialispModel.Proofs.ReaderLemmas

deriving instance DecidableEq for Except

namespace C15
open Text Reader ReaderSpec Srcloc

/-! ## (1) streaming = whole -/

/-- pushing `a ++ b` is pushing `a`, then (unless an error stopped it) pushing `b`. -/
theorem feed_append (p : Partial) (a b : Bytes) :
    feed p (a ++ b) = (feed p a).bind (fun p' => feed p' b) :=
  ReaderLemmas.feed_append p a b

/-- `feed` is `ParsePartialResult::push` on every byte in turn, stopping at the first error. -/
theorem feed_is_push_fold (p : Partial) (t : Bytes) : feed p t = t.foldlM Partial.push p :=
  ReaderLemmas.feed_eq_foldlM p t

/-- a text cut into chunks in ANY way and pushed byte by byte through
    `ParsePartialResult::{new, push}`, then `finalize`d, gives what `parse_sexp` gives on the
    whole text — forms, locations, or the error with its location. -/
theorem streaming_eq_whole (start : Srcloc) (chunks : List Bytes) :
    (feedChunks (Partial.new start) chunks).bind Partial.finalize = parseFrom start chunks.flatten := by
  rw [ReaderLemmas.feedChunks_flatten]
  unfold parseFrom
  cases feed (Partial.new start) chunks.flatten <;> rfl

example : (feedChunks (Partial.new (Srcloc.start inputFile)) [[40, 97], [32], [], [98, 41]]).bind Partial.finalize
    = parse [40, 97, 32, 98, 41] := streaming_eq_whole _ _

/-! ## the invariant, for every text (no exclusion; the one defect shape is admitted) -/

/-- every form the reader returns is well located in the sense of `ReaderSpec.Good`, with
    the defect shape `hashLone` admitted (`d = true`). -/
theorem parse_good (t : Bytes) (fs : List LRich) (h : parse t = .ok fs) :
    ∀ x ∈ fs, Good t true false x 0 t.length :=
  (ReaderLemmas.parse_post t).1 fs h

/-- on forms not showing the defect shape, the judgement holds strictly. -/
theorem parse_good_strict (t : Bytes) (fs : List LRich) (h : parse t = .ok fs) :
    ∀ x ∈ fs, Clean x → Good t false false x 0 t.length :=
  fun x hx hc => (parse_good t fs h x hx).strict hc

/-! ## (2) leaf locations are exact

    Full statement (FALSE for the code as it is, see the counterexample):
      ∀ t fs x y, TabFree t → parse t = .ok fs → x ∈ fs → y ∈ x.nodes →
        y.isCons = false → y.isNil = false → LeafExact t y                                   -/

/-- slicing the text at the location of any atom / integer / string leaf gives exactly the
    token the leaf was built from (`LeafExact`: the range is non-empty and inside the text,
    and the leaf is what `make_atom` / the quote reader yields on precisely those bytes,
    quotes included; for `#name` the range is `name` and the byte before it is `#`) — for
    every form without a lone-`#` atom. -/
theorem leaf_loc_exact_partial (t : Bytes) (ht : TabFree t) (fs : List LRich)
    (hp : parse t = .ok fs) (x : LRich) (hx : x ∈ fs) (hc : Clean x)
    (y : LRich) (hy : y ∈ x.nodes) (h1 : y.isCons = false) (h2 : y.isNil = false) :
    LeafExact t y := by
  have g := parse_good_strict t fs hp x hx hc
  rcases ReaderLemmas.good_nodes g (fun h => by cases h) y hy with h | h
  · exact ReaderLemmas.leafExact_of_ok ht h
  · rcases h.1 with h | h
    · rw [h1] at h; cases h
    · rw [h2] at h; cases h

/-- a `Nil` node is either the token `()` / a zero literal located exactly, or the
    terminator of a list carrying a location inside that list's delimiters (no exclusion). -/
theorem nil_loc (t : Bytes) (ht : TabFree t) (fs : List LRich)
    (hp : parse t = .ok fs) (x : LRich) (hx : x ∈ fs)
    (y : LRich) (hy : y ∈ x.nodes) (h2 : y.isNil = true) :
    LeafExact t y ∨ ListWithin t y := by
  have g := parse_good t fs hp x hx
  rcases ReaderLemmas.good_nodes_list g (fun h => by cases h) y hy (Or.inr h2) with h | h
  · exact Or.inl (ReaderLemmas.leafExact_of_ok ht h)
  · exact Or.inr (ReaderLemmas.listWithin_of_ok ht h)

/-- what the reader returns for `(# a)` -/
def loneHashWitness : LRich :=
  .cons ⟨0, 1, 1, some (1, 4)⟩ (.atom ⟨0, 1, 3, none⟩ [35])
    (.cons ⟨0, 1, 1, some (1, 5)⟩ (.atom ⟨0, 1, 4, none⟩ [97]) (.nil ⟨0, 1, 1, some (1, 5)⟩))

/-- DEFECT (`loc:lone-hash-shifted`): in `(# a)` the atom `#` is located at the blank
    after it, so the addressed bytes are `" "`, which is not a token of that atom. -/
theorem leaf_loc_exact_counterexample_lone_hash :
    parse [40, 35, 32, 97, 41] = .ok [loneHashWitness] ∧
    LRich.atom ⟨0, 1, 3, none⟩ [35] ∈ loneHashWitness.nodes ∧
    sliceLoc [40, 35, 32, 97, 41] ⟨0, 1, 3, none⟩ = [32] ∧
    ¬ LeafExact [40, 35, 32, 97, 41] (.atom ⟨0, 1, 3, none⟩ [35]) := by
  refine ⟨by decide +kernel, by decide +kernel, by decide +kernel, ?_⟩
  intro h
  have e : sliceLoc [40, 35, 32, 97, 41] (LRich.atom ⟨0, 1, 3, none⟩ [35]).loc = [32] := by
    decide +kernel
  have tk := h.2
  rw [e] at tk
  rcases tk with ⟨_, h⟩ | ⟨_, _, _, h⟩ | ⟨_, _, n, _, h⟩ | ⟨q, raw, body, _, _, _, h⟩ | ⟨h, _⟩
  · exact absurd h (by decide +kernel)
  · exact absurd h (by decide +kernel)
  · cases h
  · cases h
  · exact absurd h (by decide)

/-- what the reader returns for `(#a 1 2)`: the operator is the prim table's integer 2,
    located at the `a` of the token. -/
def hashOpWitness : LRich :=
  .cons ⟨0, 1, 1, some (1, 4)⟩ (.int ⟨0, 1, 3, none⟩ 2)
    (.cons ⟨0, 1, 1, some (1, 6)⟩ (.int ⟨0, 1, 5, none⟩ 1)
      (.cons ⟨0, 1, 1, some (1, 8)⟩ (.int ⟨0, 1, 7, none⟩ 2) (.nil ⟨0, 1, 1, some (1, 8)⟩)))

-- `#op` tokens (formerly located in `*prims*`) are covered by `leaf_loc_exact_partial`:
example : parse [40, 35, 97, 32, 49, 32, 50, 41] = .ok [hashOpWitness] ∧ Clean hashOpWitness ∧
    spanOf [40, 35, 97, 32, 49, 32, 50, 41] ⟨0, 1, 3, none⟩ = (2, 3) ∧
    spanOf [40, 35, 97, 32, 49, 32, 50, 41] hashOpWitness.loc = (0, 3) := by
  refine ⟨by decide +kernel, by decide +kernel, by decide +kernel, by decide +kernel⟩
example : LeafExact [40, 35, 97, 32, 49, 32, 50, 41] (.int ⟨0, 1, 3, none⟩ 2) :=
  leaf_loc_exact_partial _ (by decide) _ (by decide +kernel : parse _ = .ok [hashOpWitness])
    hashOpWitness List.mem_cons_self (by decide +kernel) _ (by decide +kernel) rfl rfl

/-! ## (3) list locations lie inside the list's parentheses (no exclusion) -/

/-- for every cons node there are list delimiters `b < c` (`(` or `#(` at `b`, `)` at `c`)
    such that the byte ranges denoted by the node's location and by the location of every
    node below it are non-empty and lie in `[b, c]`. -/
theorem list_loc_within (t : Bytes) (ht : TabFree t) (fs : List LRich)
    (hp : parse t = .ok fs) (x : LRich) (hx : x ∈ fs)
    (y : LRich) (hy : y ∈ x.nodes) (h1 : y.isCons = true) :
    ListWithin t y := by
  have g := parse_good t fs hp x hx
  rcases ReaderLemmas.good_nodes_list g (fun h => by cases h) y hy (Or.inl h1) with h | h
  · rw [h.1] at h1; cases h1
  · exact ReaderLemmas.listWithin_of_ok ht h

example : ListWithin [40, 35, 97, 32, 49, 32, 50, 41] hashOpWitness :=
  list_loc_within _ (by decide) _ (by decide +kernel : parse _ = .ok [hashOpWitness])
    hashOpWitness List.mem_cons_self _ (by decide +kernel) rfl

/-! ## (4) error locations lie within the text (no exclusion) -/

/-- a reader error's location denotes a non-empty byte range of the input text. -/
theorem err_loc_in_bounds (t : Bytes) (ht : TabFree t) (l : Srcloc) (m : Msg)
    (h : parse t = .error (l, m)) : Within t l 0 t.length := by
  obtain ⟨i, j, s⟩ := (ReaderLemmas.parse_post t).2 (l, m) h
  exact ReaderLemmas.within_of_span ht s (Nat.zero_le _) s.2.2.1

/-- in the reader's own coordinates, tabs or not: the error location is the location of an
    actual byte range `[i, j)` of the text. -/
theorem err_loc_is_span (t : Bytes) (l : Srcloc) (m : Msg) (h : parse t = .error (l, m)) :
    ∃ i j, Span t l i j :=
  (ReaderLemmas.parse_post t).2 (l, m) h

/-! ## totality (used by C14): the reader never gets stuck -/

/-- for every text the reader returns forms or an error located inside the text. -/
theorem reader_result_or_located_error (t : Bytes) :
    (∃ fs, parse t = .ok fs) ∨ (∃ l m, parse t = .error (l, m) ∧ ∃ i j, Span t l i j) := by
  cases h : parse t with
  | ok fs => exact Or.inl ⟨fs, rfl⟩
  | error e => exact Or.inr ⟨e.1, e.2, rfl, err_loc_is_span t e.1 e.2 h⟩

/-! ## non-vacuity -/

-- `(ab "c\"d" 0x0f . (-7)) ; x`
def sample : Bytes :=
  [40, 97, 98, 32, 34, 99, 92, 34, 100, 34, 32, 48, 120, 48, 102, 32, 46, 32, 40, 45, 55, 41, 41, 32, 59, 32, 120, 10]

example : TabFree sample := by decide
example : (match parse sample with
    | .ok [x] => decide (Clean x) && x.nodes.length == 9
    | _ => false) = true := by decide +kernel
example : parse [97, 10, 32, 34, 98] = .error (⟨0, 2, 2, none⟩, .untermQuoted) ∧
    spanOf [97, 10, 32, 34, 98] ⟨0, 2, 2, none⟩ = (3, 4) := ⟨by decide +kernel, by decide +kernel⟩

end C15
