/-
  Props/C08.lean — property theorems for C08:
  binary (de)serialisation is lossless, canonical and rejects malformed input.

  Model: `Clvm/Serde.lean` (the classic `sexp_to_stream` / `sexp_from_stream` /
  `atom_from_stream` / `int_from_bytes` / `get_u32`, mirrored as written);
  specification: `Clvm/SerdeSpec.lean` (clvmr `node_to_bytes` / `node_from_bytes`).
  Helper lemmas: `Proofs/SerdeLemmas.lean`.

  The model is parametric in a configuration `cfg : SerdeCfg` that tools/translate_c08.py
  re-reads from the sources on every run (`SerdeCfg.source`):
    cfg.u32LittleEndian   `get_u32` assembles its four bytes least-significant first
    cfg.accept7           `atom_from_stream` does not reject 7-byte length prefixes
  `SerdeCfg.asFound` = ⟨true, true⟩ is the code as found, `SerdeCfg.fixed` = ⟨false, false⟩ the
  repaired code.  ALL theorems below are checked on every run, whatever the sources say.

  FULL STATEMENTS (what C08 asks for):
    (1) encode_spec    ∀ v with atoms < 2^34 bytes:  SerdeSpec.encode v = some (encode v)
    (2) decode_encode  ∀ v (atoms < 2^34) rest:       decode cfg (encode v ++ rest) = .ok v
    (3) decode_spec    ∀ bs v:  decode cfg bs = .ok v ↔ SerdeSpec.decode bs = some v
    (4) totality       the op-stack machine stops within 3·|bs|+2 steps
    (5) truncation     every proper prefix of an encoding is rejected

  (1) and (4) are proved for every configuration.  (2), (3), (5) are
    • PROVED IN FULL for the repaired configuration (`decode_encode`, `decode_spec`, `decode_truncated`),
    • FALSE for the code as found — witnesses `decode_encode_counterexample` (any configuration with the
      little-endian `get_u32`), `decode_sound_counterexample_wide`, `decode_sound_counterexample_7byte`
      (any configuration accepting 7-byte prefixes),
    • proved for EVERY configuration under the explicit exclusion of the defect class
      (`…_partial`: atoms shorter than 0x100000 bytes, resp. no atom header 0xf0..0xfe met).
-/
import ChialispModel.Clvm.Serde
import ChialispModel.Clvm.SerdeSpec
import ChialispModel.Proofs.SerdeLemmas

namespace C08
open Serde

/-- (1) canonical: the explicit-stack iterator of `sexp_to_stream` emits exactly clvmr's bytes,
    for every value all of whose atoms are representable (shorter than 2^34 bytes). -/
theorem encode_spec (v : Val) (h : AtomsBelow 0x400000000 v) : SerdeSpec.encode v = some (encode v) := by
  rw [SerdeLemmas.encode_eq_rec v h]; exact SerdeLemmas.encodeRec_spec v h

/-- (4a) the step budget of the model is never the reason for an answer … -/
theorem decode_total (cfg : SerdeCfg) (bs : Bytes) : decode cfg bs ≠ .error .fuel :=
  SerdeLemmas.decode_ne_fuel bs

/-- (4b) … and any larger budget gives the same run: `3·|bs| + 2` op-stack steps suffice. -/
theorem decode_fuel_irrelevant (cfg : SerdeCfg) (bs : Bytes) (n : Nat) (h : decodeFuel bs ≤ n) :
    runOps cfg n [.read] [] bs = runOps cfg (decodeFuel bs) [.read] [] bs :=
  SerdeLemmas.decode_fuel bs n h

/-- the decoder DROPS the error every `invoke` returns; this is sound: the machine returns a
    value exactly when the error-propagating recursive reading succeeds, and then that value
    (a dropped error always leaves the value stack one short); otherwise "No value left". -/
theorem decode_dropped_errors (cfg : SerdeCfg) (bs : Bytes) :
    decode cfg bs = match parse cfg (bs.length + 1) bs with
                    | some (v, _) => .ok v
                    | none => .error .noValue :=
  SerdeLemmas.decode_eq_parse bs

-- ---------------------------------------------------------------------------------------
-- the repaired configuration: full statements
-- ---------------------------------------------------------------------------------------

/-- (2) lossless, for every value whose atoms are representable, whatever follows. -/
theorem decode_encode (cfg : SerdeCfg) (hle : cfg.u32LittleEndian = false)
    (v : Val) (h : AtomsBelow 0x400000000 v) (rest : Bytes) : decode cfg (encode v ++ rest) = .ok v :=
  SerdeLemmas.decode_encode v (SerdeLemmas.goodAtoms_full hle v h) rest

/-- (3) on EVERY byte string the classic decoder returns exactly what clvmr returns: the same
    value, or both reject (truncated, over-long and oversize prefixes included). -/
theorem decode_spec (cfg : SerdeCfg) (hle : cfg.u32LittleEndian = false) (h7 : cfg.accept7 = false)
    (bs : Bytes) (v : Val) : decode cfg bs = .ok v ↔ SerdeSpec.decode bs = some v := by
  rw [SerdeLemmas.decode_eq_parse]
  unfold SerdeLemmas.parseResult SerdeSpec.decode
  rw [SerdeLemmas.parse_eq_spec_full hle h7]
  cases SerdeSpec.decodeAux (bs.length + 1) bs with
  | none => simp
  | some p => obtain ⟨w, r⟩ := p; simp

/-- (5) every proper prefix of the encoding of a representable value is rejected. -/
theorem decode_truncated (cfg : SerdeCfg) (hle : cfg.u32LittleEndian = false)
    (v : Val) (h : AtomsBelow 0x400000000 v) (m : Nat) (hm : m < (encode v).length) :
    decode cfg ((encode v).take m) = .error .noValue := by
  rw [SerdeLemmas.encode_eq_rec v h] at hm ⊢
  rw [SerdeLemmas.decode_eq_parse]
  unfold SerdeLemmas.parseResult
  rw [SerdeLemmas.parse_truncated v (SerdeLemmas.goodAtoms_full hle v h) _ m hm]

-- ---------------------------------------------------------------------------------------
-- every configuration (in particular the code as found): partial statements
-- ---------------------------------------------------------------------------------------

/-- (2, partial) lossless for every value whose atoms are shorter than 0x100000 bytes (length
    prefixes of 1–3 bytes).  Missing for the full statement: the 4- and 5-byte length classes. -/
theorem decode_encode_partial (cfg : SerdeCfg) (v : Val) (h : AtomsBelow 0x100000 v) (rest : Bytes) :
    decode cfg (encode v ++ rest) = .ok v :=
  SerdeLemmas.decode_encode v (SerdeLemmas.goodAtoms_narrow v h) rest

/-- (3, partial) on every input whose reading meets no atom header of the 4-or-more-byte length
    class (`usesWide`, first byte 0xf0..0xfe) the classic decoder and clvmr agree completely. -/
theorem decode_spec_partial (cfg : SerdeCfg) (bs : Bytes) (h : usesWide cfg (bs.length + 1) bs = false) (v : Val) :
    decode cfg bs = .ok v ↔ SerdeSpec.decode bs = some v := by
  rw [SerdeLemmas.decode_eq_parse]
  unfold SerdeLemmas.parseResult SerdeSpec.decode
  rw [SerdeLemmas.parse_eq_spec _ _ h]
  cases SerdeSpec.decodeAux (bs.length + 1) bs with
  | none => simp
  | some p => obtain ⟨w, r⟩ := p; simp

/-- (3, soundness direction alone, as the property words it). -/
theorem decode_sound_partial (cfg : SerdeCfg) (bs : Bytes) (v : Val) (h : usesWide cfg (bs.length + 1) bs = false)
    (hd : decode cfg bs = .ok v) : SerdeSpec.decode bs = some v :=
  (decode_spec_partial cfg bs h v).mp hd

/-- (5, partial) every proper prefix of the encoding of a value with atoms below 0x100000 bytes is rejected. -/
theorem decode_truncated_partial (cfg : SerdeCfg) (v : Val) (h : AtomsBelow 0x100000 v) (m : Nat)
    (hm : m < (encode v).length) : decode cfg ((encode v).take m) = .error .noValue := by
  have h' := SerdeLemmas.atomsBelow_mono (by decide : 0x100000 ≤ 0x400000000) v h
  rw [SerdeLemmas.encode_eq_rec v h'] at hm ⊢
  rw [SerdeLemmas.decode_eq_parse]
  unfold SerdeLemmas.parseResult
  rw [SerdeLemmas.parse_truncated v (SerdeLemmas.goodAtoms_narrow v h) _ m hm]

-- ---------------------------------------------------------------------------------------
-- the defects: witnesses on the prefix arithmetic
-- ---------------------------------------------------------------------------------------

/-- (2, witness) with the little-endian `get_u32`, EVERY atom of exactly 0x100000 bytes (1 MiB) is
    written with the prefix `f0 10 00 00` and read back as its first 0x1000 bytes — for an
    arbitrary such atom and arbitrary trailing bytes. -/
theorem decode_encode_counterexample (cfg : SerdeCfg) (hle : cfg.u32LittleEndian = true)
    (b : Bytes) (h : b.length = 0x100000) (rest : Bytes) :
    decode cfg (encode (.atom b) ++ rest) = .ok (.atom (b.take 0x1000)) ∧
    (Val.atom (b.take 0x1000)) ≠ .atom b := by
  refine ⟨SerdeLemmas.decode_1MiB hle b h rest, ?_⟩
  intro e
  have := congrArg (fun v => match v with | Val.atom x => x.length | _ => 0) e
  simp [List.length_take, h] at this

/-- the mechanism: for every 4-byte size blob `int_from_bytes` takes the FIRST byte as the least
    significant one, while the encoder wrote it most significant first … -/
theorem int_from_bytes_four_is_little_endian (cfg : SerdeCfg) (hle : cfg.u32LittleEndian = true) (a b c d : UInt8) :
    intFromBytes cfg [a, b, c, d] = .ok (a.toNat + b.toNat * 0x100 + c.toNat * 0x10000 + d.toNat * 0x1000000) :=
  SerdeLemmas.intFromBytes_four hle a b c d

/-- … whereas blobs of 1–3 bytes are read big-endian in every configuration … -/
theorem int_from_bytes_short_is_big_endian (cfg : SerdeCfg) (b : Bytes) (h0 : b ≠ []) (h3 : b.length ≤ 3) :
    intFromBytes cfg b = .ok (Bytes.toNatBE b) :=
  SerdeLemmas.intFromBytes_short b h0 h3

/-- … and with the repaired `get_u32` so are all size blobs (up to 7 bytes). -/
theorem int_from_bytes_fixed_is_big_endian (cfg : SerdeCfg) (hle : cfg.u32LittleEndian = false)
    (b : Bytes) (h0 : b ≠ []) (h7 : b.length ≤ 7) : intFromBytes cfg b = .ok (Bytes.toNatBE b) :=
  SerdeLemmas.intFromBytes_be hle b h0 h7

/-- (3, witness A) a configuration accepting 7-byte prefixes reads `fe 00 00 00 00 00 00` as the
    empty atom; clvmr rejects every 7-byte prefix. -/
theorem decode_sound_counterexample_7byte (cfg : SerdeCfg) (h7 : cfg.accept7 = true) :
    decode cfg [0xfe, 0, 0, 0, 0, 0, 0] = .ok Val.nil ∧ SerdeSpec.decode [0xfe, 0, 0, 0, 0, 0, 0] = none :=
  SerdeLemmas.decode_7byte_prefix h7

/-- (3, witness B) a different value: clvmr reads `f0 10 00 00 ‖ b` (|b| = 1 MiB) as the atom `b`,
    the decoder with the little-endian `get_u32` as the first 4096 bytes of `b`. -/
theorem decode_sound_counterexample_wide (cfg : SerdeCfg) (hle : cfg.u32LittleEndian = true)
    (b : Bytes) (h : b.length = 0x100000) :
    decode cfg ([0xf0, 0x10, 0, 0] ++ b) = .ok (.atom (b.take 0x1000)) ∧
    SerdeSpec.decode ([0xf0, 0x10, 0, 0] ++ b) = some (.atom b) := by
  have hb : AtomsBelow 0x400000000 (.atom b) := by show b.length < _; omega
  have he : encode (.atom b) = [0xf0, 0x10, 0, 0] ++ b := by
    rw [SerdeLemmas.encode_eq_rec _ hb]; simp only [encodeRec, SerdeLemmas.prefix_1MiB b h]
  constructor
  · have := SerdeLemmas.decode_1MiB hle b h []
    rw [he] at this; simpa using this
  · have hsz : SerdeSpec.decodeSize 0xf0 (0x10 :: 0 :: 0 :: b) = some (0x100000, b) := by
      simp [SerdeSpec.decodeSize, SerdeSpec.leadingOnes, Bytes.toNatBE]
    simp [SerdeSpec.decode, SerdeSpec.decodeAux, hsz, h]
    exact List.take_of_length_le (by omega)

-- non-vacuity: the hypotheses are met by concrete non-trivial instances
example : SerdeCfg.asFound.u32LittleEndian = true ∧ SerdeCfg.asFound.accept7 = true := by decide
example : SerdeCfg.fixed.u32LittleEndian = false ∧ SerdeCfg.fixed.accept7 = false := by decide
example : AtomsBelow 0x100000 (.pair (.atom [1]) (.pair (.atom [0x80, 3]) (.atom []))) := by decide
example : decode SerdeCfg.asFound (encode (.pair (.atom [1]) (.pair (.atom [0x80, 3]) (.atom []))) ++ [7, 7]) =
    .ok (.pair (.atom [1]) (.pair (.atom [0x80, 3]) (.atom []))) := by decide
example : usesWide SerdeCfg.asFound 8 [0xff, 0x01, 0xff, 0x82, 0x80, 0x03, 0x80] = false := by decide
example : usesWide SerdeCfg.asFound 5 [0xf0, 0x10, 0x00, 0x00] = true := by decide
example : (List.replicate 0x100000 (0 : UInt8)).length = 0x100000 := List.length_replicate
example : decode SerdeCfg.asFound [0xff, 0x01] = .error .noValue := by decide
example : decode SerdeCfg.asFound [0xff, 0xfc, 4, 0, 0, 0, 0, 1, 2] = .error .noValue := by decide   -- "blob too large" dropped mid-pair
example : decode SerdeCfg.fixed [0xfe, 0, 0, 0, 0, 0, 0] = .error .noValue := by decide
example : decode SerdeCfg.fixed [0xf0, 0, 0, 1, 0x61] = .ok (.atom [0x61]) ∧
          decode SerdeCfg.asFound [0xf0, 0, 0, 1, 0x61] = .error .noValue := by decide

end C08
