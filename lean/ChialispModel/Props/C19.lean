/-
  Props/C19.lean — property theorems for C19:
  the compiled output file is replaced atomically.

  Model: Sys/AtomicWrite.lean (`atomic_write_file` / `gentle_overwrite` of
  /repo/src/util/mod.rs as per-writer step programs over a names→inodes file system, any
  number of writers and readers, every operation may fail, a writer may be killed between
  any two operations).  All theorems hold for EVERY event list (= schedule, fault pattern and
  kill points), every number of writers, every data and every split of the data into
  `write(2)` calls.  The only hypothesis on the temporary names is that they differ from the
  target's name (they need not differ from each other: exclusive creation — `O_EXCL`, which is
  part of the model's `FS.create` — makes a second creation of an existing name fail).
  Assumed, not proved: `rename(2)` replaces the destination entry in one step and an open
  descriptor keeps referring to its inode (POSIX) — these are the definitions of
  `FS.rename` / `rstep`.  Durability across power loss is not part of the property.
  (Helper lemmas and the invariant live in Proofs/AtomicWriteLemmas.lean.)
-/
import ChialispModel.Sys.AtomicWrite
import ChialispModel.Proofs.AtomicWriteLemmas

namespace C19
open AtomicWrite

/-- At every instant of every execution (any interleaving of any writers and readers, any
    failing operations, any kills) the output path holds either what it held initially or
    the complete data of one of the writers — never an empty or partial file. -/
theorem target_always_complete (S : Sys) (fs₀ : FS) (hwf : fs₀.WF)
    (hfresh : ∀ i, (S.cfg i).tmp ≠ S.target.name) (es : List Ev) :
    ∀ s ∈ trace S (init S fs₀) es,
      Allowed S (fs₀.content S.target) (s.fs.content S.target) := by
  intro s hs
  exact inv_target (inv_trace (tmp_ne_target hfresh) (inv_init S fs₀ hwf) es s hs)

/-- The same in the "schedule + crash budget" form: `sched` lists which writer moves next
    (and whether that operation fails); writer `i` dies after `crash i` operations. -/
theorem target_complete_crash_prefix (S : Sys) (fs₀ : FS) (hwf : fs₀.WF)
    (hfresh : ∀ i, (S.cfg i).tmp ≠ S.target.name) (sched : List (Nat × Bool)) (crash : Nat → Nat) :
    ∀ s ∈ trace S (init S fs₀) (toEvents crash (fun _ => 0) sched),
      Allowed S (fs₀.content S.target) (s.fs.content S.target) :=
  target_always_complete S fs₀ hwf hfresh _

/-- Every reader — `open`, then piecewise `read`s interleaved arbitrarily with the writers —
    that finishes has assembled one of the allowed complete contents (`none` = the file did
    not exist, possible only if it did not exist initially). -/
theorem reader_sees_complete (S : Sys) (fs₀ : FS) (hwf : fs₀.WF)
    (hfresh : ∀ i, (S.cfg i).tmp ≠ S.target.name) (es : List Ev) (j : Nat) (c : Option Bytes)
    (h : (exec S (init S fs₀) es).r j = .got c) : Allowed S (fs₀.content S.target) c :=
  (inv_exec (tmp_ne_target hfresh) (inv_init S fs₀ hwf) es).got j c h

/-- The only operation that changes what the target shows is the final rename of a writer
    whose temporary file is completely written; afterwards it shows exactly that data. -/
theorem only_complete_rename_changes_target (S : Sys) (fs₀ : FS) (hwf : fs₀.WF)
    (hfresh : ∀ i, (S.cfg i).tmp ≠ S.target.name) (es : List Ev) (e : Ev) :
    (step S (exec S (init S fs₀) es) e).fs.content S.target
        = (exec S (init S fs₀) es).fs.content S.target ∨
    ∃ i f same k, e = .w i f ∧ (exec S (init S fs₀) es).w i = .writing same k [] ∧
      (step S (exec S (init S fs₀) es) e).fs.content S.target = some (S.cfg i).data := by
  have hinv := inv_exec (tmp_ne_target hfresh) (inv_init S fs₀ hwf) es
  cases e with
  | w i f =>
    rcases target_change hinv (tmp_ne_target hfresh) i f with h | ⟨same, k, h1, _, h3⟩
    · exact .inl h
    · exact .inr ⟨i, f, same, k, rfl, h1, h3⟩
  | kill i => exact .inl rfl
  | r j n => exact .inl rfl

/-- `gentle_overwrite` on unchanged contents: once the read has found the target's text equal
    (after trimming) to the new data, the call can only return `Ok` — whatever fails
    afterwards, whatever other processes do. -/
theorem gentle_same_ok (S : Sys) (s : State) (i : Nat) (prev : Bytes)
    (hstart : s.w i = .start) (hprev : s.fs.content S.target = some prev)
    (hsame : S.sameAs prev (S.cfg i).data = true) (es : List Ev) (r : Res)
    (hret : (exec S s (.w i false :: es)).w i = .done r) : r = .ok := by
  have h1 : SameMode ((step S s (.w i false)).w i) := by
    have hread : readable S prev = some prev := by
      unfold Sys.sameAs at hsame
      unfold readable
      cases hn : S.norm prev with
      | none => rw [hn] at hsame; cases hsame
      | some p => rfl
    rw [step_w_phase, hstart]
    simp [wstep, readPrev, hprev, hread, afterRead, hsame, SameMode]
  have h2 := sameMode_exec (S := S) _ i es h1
  have : exec S s (.w i false :: es) = exec S (step S s (.w i false)) es := rfl
  rw [this, ] at hret
  rw [hret] at h2
  exact h2

/-- … and it does return: a writer that is not killed has returned after at most
    `#chunks + 4` operations of its own, here with EVERY operation after the read failing. -/
theorem gentle_same_returns_ok (S : Sys) (s : State) (i : Nat) (prev : Bytes)
    (hstart : s.w i = .start) (hprev : s.fs.content S.target = some prev)
    (hsame : S.sameAs prev (S.cfg i).data = true) (n : Nat)
    (hn : (S.cfg i).chunks.length + 3 ≤ n) :
    (exec S s (alone i (false :: List.replicate n true))).w i = .done .ok := by
  obtain ⟨r, hr⟩ := alone_returns (S := S) s i (false :: List.replicate n true)
    (by rw [hstart]; intro h; cases h)
    (by rw [hstart]; simp [stepsLeft]; omega)
  have := gentle_same_ok S s i prev hstart hprev hsame (alone i (List.replicate n true)) r hr
  rw [hr, this]

/-- A writer that runs to completion without interference and without failing operations
    (directory writable, temporary name unused) returns and leaves exactly its data in the
    target.  (`s` is any reachable state in which writer `i` has not started.) -/
theorem done_means_new (S : Sys) (fs₀ : FS) (hwf : fs₀.WF)
    (hfresh : ∀ i, (S.cfg i).tmp ≠ S.target.name) (before : List Ev) (i n : Nat)
    (hnot : (exec S (init S fs₀) before).w i = initPhase (S.cfg i))
    (hdir : (exec S (init S fs₀) before).fs.dirOk S.target.dir = true)
    (hfree : (exec S (init S fs₀) before).fs.names (S.tmpPath (S.cfg i)) = none)
    (hn : (S.cfg i).chunks.length + 4 ≤ n) :
    (exec S (exec S (init S fs₀) before) (alone i (List.replicate n false))).w i = .done .ok ∧
    (exec S (exec S (init S fs₀) before) (alone i (List.replicate n false))).fs.content S.target
      = some (S.cfg i).data := by
  have hT := tmp_ne_target hfresh
  have hinv := inv_exec hT (inv_init S fs₀ hwf) before
  generalize exec S (init S fs₀) before = s at *
  have hsm : Smooth S (S.cfg i) s.fs (s.w i) := by
    rw [hnot]; unfold initPhase; split <;> exact hfree
  have h1 := smooth_alone hinv hT i n hdir hsm
  obtain ⟨r, hr⟩ := alone_returns (S := S) s i (List.replicate n false)
    (by rw [hnot]; unfold initPhase; split <;> (intro h; cases h))
    (by rw [hnot]; unfold initPhase; split <;> simp [stepsLeft] <;> omega)
  rw [hr] at h1 ⊢
  cases r with
  | ok => exact ⟨rfl, h1⟩
  | err => cases h1

/-- Whatever fails: if a writer running without interference returns `Ok`, the target holds
    its data, or (only through `gentle_overwrite`) a text that trims to the same. -/
theorem ok_means_current (S : Sys) (fs₀ : FS) (hwf : fs₀.WF)
    (hfresh : ∀ i, (S.cfg i).tmp ≠ S.target.name) (before : List Ev) (i : Nat)
    (faults : List Bool)
    (hnot : (exec S (init S fs₀) before).w i = initPhase (S.cfg i))
    (hok : (exec S (exec S (init S fs₀) before) (alone i faults)).w i = .done .ok) :
    (exec S (exec S (init S fs₀) before) (alone i faults)).fs.content S.target = some (S.cfg i).data ∨
    ((S.cfg i).gentle = true ∧
      SameAsTarget S (S.cfg i) (exec S (exec S (init S fs₀) before) (alone i faults)).fs) := by
  have hT := tmp_ne_target hfresh
  have hinv := inv_exec hT (inv_init S fs₀ hwf) before
  generalize exec S (init S fs₀) before = s at *
  have := knows_alone hinv hT i faults (by rw [hnot]; exact knows_init _ _)
  rw [hok] at this
  exact this

-- ---------------------------------------------------------------------------------------------
-- non-vacuity: a concrete system with two writers (one `gentle`, one plain), a reader, an
-- existing target, interleaved operations, a fault and a kill
-- ---------------------------------------------------------------------------------------------

def tgt : Path := ⟨0, 0⟩

/-- writer 0: gentle, data `[1,2,3,4]` in two `write`s; writer 1 (and every other index):
    plain, data `[9,9,9]` in three. -/
def S2 : Sys :=
  { target := tgt,
    cfg := fun i => if i = 0 then ⟨true, 10, [[1, 2], [3, 4]]⟩ else ⟨false, 11 + i, [[9], [9], [9]]⟩,
    norm := fun b => some b }

/-- the target exists and holds `[7,7]` (inode 0). -/
def fs2 : FS :=
  { names := fun p => if p = tgt then some 0 else none,
    inodes := fun k => if k = 0 then [7, 7] else [],
    next := 1,
    dirOk := fun _ => true }

theorem fs2_wf : fs2.WF := by
  intro p k h
  simp only [fs2] at h ⊢
  split at h
  · injection h with h; omega
  · cases h

theorem S2_fresh : ∀ i, (S2.cfg i).tmp ≠ S2.target.name := by
  intro i; simp only [S2, tgt]; split <;> simp

/-- reader opens the old file; writer 0 reads, creates its temp, writes one chunk; writer 1
    creates, writes; the reader reads a byte; writer 0 finishes and renames; the reader finishes;
    writer 1 writes on, renames. -/
def sched2 : List Ev :=
  [.r 0 0, .w 0 false, .w 0 false, .w 0 false, .w 1 false, .w 1 false, .r 0 0, .w 0 false,
   .w 0 false, .r 0 0, .r 0 0, .w 1 false, .w 1 false, .w 1 false]

/-- what the target shows after each event: old, …, old, writer 0's data, …, writer 1's data. -/
example : (trace S2 (init S2 fs2) sched2).map (fun s => s.fs.content tgt) =
    [some [7, 7], some [7, 7], some [7, 7], some [7, 7], some [7, 7], some [7, 7], some [7, 7],
     some [7, 7], some [7, 7], some [1, 2, 3, 4], some [1, 2, 3, 4], some [1, 2, 3, 4],
     some [1, 2, 3, 4], some [1, 2, 3, 4], some [9, 9, 9]] := by decide

/-- `target_always_complete` and `reader_sees_complete` apply to this system: their hypotheses hold. -/
example : ∀ s ∈ trace S2 (init S2 fs2) sched2,
    Allowed S2 (fs2.content S2.target) (s.fs.content S2.target) :=
  target_always_complete S2 fs2 fs2_wf S2_fresh sched2

/-- the reader that opened before the rename and finished after it got the complete OLD file. -/
example : (exec S2 (init S2 fs2) sched2).r 0 = .got (some [7, 7]) := by decide

example : (exec S2 (init S2 fs2) sched2).w 0 = .done .ok
    ∧ (exec S2 (init S2 fs2) sched2).w 1 = .done .ok := by decide

/-- writer 1 is killed after a partial write, writer 0's rename fails: the target is untouched,
    writer 0 reports the error (its data differs from the old contents). -/
example : (exec S2 (init S2 fs2)
      [.w 1 false, .w 1 false, .kill 1, .w 0 false, .w 0 false, .w 0 false, .w 0 false,
       .w 0 true, .w 0 false]).fs.content tgt = some [7, 7]
    ∧ (exec S2 (init S2 fs2)
      [.w 1 false, .w 1 false, .kill 1, .w 0 false, .w 0 false, .w 0 false, .w 0 false,
       .w 0 true, .w 0 false]).w 0 = .done .err := by decide

/-- the hypotheses of `gentle_same_ok` are satisfiable: the target already holds writer 0's data. -/
def fs2same : FS := { fs2 with inodes := fun k => if k = 0 then [1, 2, 3, 4] else [] }

example : (init S2 fs2same).w 0 = .start ∧ (init S2 fs2same).fs.content S2.target = some [1, 2, 3, 4]
    ∧ S2.sameAs [1, 2, 3, 4] (S2.cfg 0).data = true := by decide

/-- … and every operation after the read failing still gives `Ok`. -/
example : (exec S2 (init S2 fs2same) (alone 0 [false, true])).w 0 = .done .ok := by decide

/-- The freshness hypothesis is necessary: a writer whose temporary name IS the target's name,
    on an absent target, makes an empty file visible at the output path. -/
theorem freshness_needed :
    (step ({ S2 with cfg := fun _ => ⟨false, 0, [[5]]⟩ })
        (init ({ S2 with cfg := fun _ => ⟨false, 0, [[5]]⟩ }) { fs2 with names := fun _ => none })
        (.w 0 false)).fs.content tgt = some [] := by decide

end C19
