/-
  Props/C11.lean — property theorems for C11:
  every compile entry point produces the same program for the same source.

  The option derivations (`Gen.deriveLib`, `Gen.deriveCli`, `Gen.deriveCldb`, the dialect table,
  `Gen.getOptimizer`) are REGENERATED from the Rust sources by tools/translate_c11.py on every
  run (Generated/Opts.lean); these theorems are re-checked against what the code says now.
  `Pipeline.codeRelevant` drops only the *recorded* operator-set version in favour of the
  effective one (`disassembly_ver().unwrap_or(LATEST)`), which the library leaves unset and the
  command line sets to its default.

  Full statement of the property (kept visible):
    for any source `s` and include path `sp`
      (1) bytes(library s sp) = assemble(text(`run -O -i sp s`)), and
      (2) if `s` declares a dialect: program(`cldb [-O] -i sp s`) = program(`run [-O] -i sp s`).
  Proved here over the regenerated derivations + a hand model in which every entry point is
  the SAME compiler function applied to the derived pipeline (`entry_points_same_program`);
  that the real compiler is a function of the derived options is what C05 is about, and the
  print/read round trip of the CLI text is C09's (explicit hypotheses below).
-/
import ChialispModel.Generated.Opts
import ChialispModel.Proofs.OptsLemmas

namespace C11
open Opts

/-- the dialects a program can have: no sigil, or an entry of `KNOWN_DIALECTS`. -/
def allDialects : List Dialect := Dialect.classic :: Gen.knownDialects.map (fun p => p.2)

/-- library = command line with `-O`, as far as emitted code is concerned. -/
def LibIsCliO (sp : List String) (d : Dialect) : Prop :=
  (Gen.deriveLib sp d).codeRelevant Gen.operatorsLatestVersion =
    (Gen.deriveCli sp d true).codeRelevant Gen.operatorsLatestVersion

/-- debugger = command line with the same `-O` flag. -/
def CldbIsCli (sp : List String) (d : Dialect) (o : Bool) : Prop :=
  (Gen.deriveCldb sp d o).codeRelevant Gen.operatorsLatestVersion =
    (Gen.deriveCli sp d o).codeRelevant Gen.operatorsLatestVersion

/-- **derive_agree**: for the no-sigil dialect and every entry of the dialect table, and any
    include path, the library entry derives the pipeline the command line derives with `-O`. -/
theorem derive_agree (sp : List String) : ∀ d ∈ allDialects, LibIsCliO sp d := by
  simp only [allDialects, Gen.knownDialects, List.map, List.forall_mem_cons]
  refine ⟨?_, ?_⟩ <;> (try and_intros) <;> first | rfl | (intro d hd; cases hd)

/-- the same for EVERY dialect value (any stepping, also ones outside the table). -/
theorem derive_agree_all (sp : List String) (d : Dialect) : LibIsCliO sp d := by
  obtain ⟨s, st, fx⟩ := d
  cases s with
  | none => rfl
  | some s =>
    first
      | rfl
      | (simp [LibIsCliO, Gen.deriveLib, Gen.deriveLibOpt, Gen.deriveCli, Gen.cliOpts, Gen.cliRefine,
          Gen.cliBase, Gen.cliPost, Gen.libBase, Gen.libDoOptimize, Pipeline.codeRelevant,
          Opts.setDialect, Opts.setOptimize, Opts.setFrontendOpt, Opts.setSearchPaths,
          Opts.setDisassemblyVer, Opts.setStdenv, Gen.defaultOpts] <;> omega)

/-- the python and wasm bindings build the same base options as file-to-file compilation. -/
theorem bindings_same_base (sp : List String) : Gen.pyBase sp = Gen.libBase sp ∧ Gen.wasmBase sp = Gen.libBase sp :=
  ⟨rfl, rfl⟩

/-- **cldb_agree**: for every dialect of the table (programs that declare a dialect) and either
    setting of `-O`, the debugger derives the pipeline the command line derives. -/
theorem cldb_agree (sp : List String) (o : Bool) :
    ∀ d ∈ Gen.knownDialects.map (fun p => p.2), CldbIsCli sp d o := by
  cases o <;>
  · simp only [Gen.knownDialects, List.map, List.forall_mem_cons]
    (try and_intros) <;> first | rfl | (intro d hd; cases hd)

/-- … and for every dialect value that has a stepping at all. -/
theorem cldb_agree_all (sp : List String) (o : Bool) (d : Dialect) (h : d.stepping.isSome = true) :
    CldbIsCli sp d o := by
  obtain ⟨s, st, fx⟩ := d
  cases s with
  | none => cases h
  | some s => rfl

/-- the restriction to sigil programs is necessary: without a sigil `run` uses the classic
    stage-2 compiler while `cldb` still calls the modern one. -/
theorem cldb_needs_sigil (sp : List String) (o : Bool) : ¬ CldbIsCli sp Dialect.classic o := by
  intro h
  cases h

/-- every entry point applies `detect_modern` to the same thing: the assembled program text. -/
theorem detect_same_input : Gen.libDetectInput = Gen.cliDetectInput := by decide

/-- `detect_modern` (hand model, correspondence-checked) can only answer with the no-sigil
    dialect or an entry of the table — so the finite quantification above covers all programs. -/
theorem detect_range (prog : Val) : detect Gen.knownDialects prog ∈ allDialects := by
  rcases OptsLemmas.detect_reachable Gen.knownDialects prog with h | h
  · rw [h]; exact List.mem_cons_self
  · exact List.mem_cons_of_mem _ h

/-- **the property over all programs (1)**: whatever the assembled source is, the library entry
    and `run -O` derive the same code-relevant pipeline. -/
theorem lib_is_cli_on_programs (sp : List String) (prog : Val) :
    LibIsCliO sp (detect Gen.knownDialects prog) :=
  derive_agree sp _ (detect_range prog)

/-- **the property over all programs (2)**: if the program declares a dialect, `cldb` and `run`
    derive the same pipeline for either setting of `-O`. -/
theorem cldb_is_cli_on_programs (sp : List String) (o : Bool) (prog : Val)
    (h : (detect Gen.knownDialects prog).stepping.isSome = true) :
    CldbIsCli sp (detect Gen.knownDialects prog) o :=
  cldb_agree_all sp o _ h

/-- every dialect of the table is accepted by `get_optimizer`, with and without optimisation
    (so no entry point can fail in `get_optimizer` where another succeeds). -/
theorem known_dialects_accepted :
    ∀ d ∈ Gen.knownDialects.map (fun p => p.2), ∀ o : Bool,
      Gen.getOptimizer d.stepping o ≠ .errTooOld ∧ Gen.getOptimizer d.stepping o ≠ .errTooNew := by
  decide

/-! ### hand model: one compiler, several front doors -/

/-- what a pipeline hands back: the modern compiler's rich value, or (classic) a CLVM value. -/
inductive Compiled where
  | rich (r : Rich)
  | clvm (v : Val)

/-- the library's result: `convert_to_clvm_rs` in the ambient integer mode (the per-compilation
    guard has already been dropped), or the classic result as is. -/
def libBytes (ambient : Mode) : Compiled → Val
  | .rich r => Rich.toClvm ambient r
  | .clvm v => v

/-- `run`'s result: the rich value printed, or the classic result disassembled. -/
def cliText (pr : Rich → String) (dis : Val → String) : Compiled → String
  | .rich r => pr r
  | .clvm v => dis v

/-- **entry_points_same_program / cli_text_is_lib_bytes**.
    Let `C` be any compiler: a function of the code-relevant pipeline and the source text. Assume
    the print→read round trips that C09 is about, on the values `C` emits: re-assembling printed
    rich values gives their fixed-mode conversion, re-assembling disassembled CLVM gives it back.
    Then for every program and include path, re-assembling the text `run -O` prints yields exactly
    the bytes the library returns — provided the library is called in the default (fixed) integer
    mode or the emitted value contains no `Integer 0`. -/
theorem cli_text_is_lib_bytes {E : Type}
    (C : Pipeline → String → Except E Compiled)
    (assemble : String → Option Val) (pr : Rich → String) (dis : Val → String)
    (sp : List String) (prog : Val) (src : String) (ambient : Mode)
    (hpr : ∀ r, C ((Gen.deriveLib sp (detect Gen.knownDialects prog)).codeRelevant Gen.operatorsLatestVersion) src
        = .ok (.rich r) → assemble (pr r) = some (Rich.toClvm true r))
    (hdis : ∀ v, C ((Gen.deriveLib sp (detect Gen.knownDialects prog)).codeRelevant Gen.operatorsLatestVersion) src
        = .ok (.clvm v) → assemble (dis v) = some v)
    (hmode : ambient = true ∨
      ∀ r, C ((Gen.deriveLib sp (detect Gen.knownDialects prog)).codeRelevant Gen.operatorsLatestVersion) src
        = .ok (.rich r) → Rich.Readable r = true) :
    (C ((Gen.deriveCli sp (detect Gen.knownDialects prog) true).codeRelevant Gen.operatorsLatestVersion) src).map
        (fun c => assemble (cliText pr dis c))
      = (C ((Gen.deriveLib sp (detect Gen.knownDialects prog)).codeRelevant Gen.operatorsLatestVersion) src).map
        (fun c => some (libBytes ambient c)) := by
  rw [← lib_is_cli_on_programs sp prog]
  cases hc : C ((Gen.deriveLib sp (detect Gen.knownDialects prog)).codeRelevant Gen.operatorsLatestVersion) src with
  | error e => rfl
  | ok c =>
    cases c with
    | clvm v => simp [Except.map, cliText, libBytes, hdis v hc]
    | rich r =>
      have h1 := hpr r hc
      have h2 : Rich.toClvm ambient r = Rich.toClvm true r := by
        rcases hmode with h | h
        · rw [h]
        · exact OptsLemmas.toClvm_mode_irrelevant ambient r (h r hc)
      simp [Except.map, cliText, libBytes, h1, h2]

/-- the mode hypothesis is needed: in the legacy mode an `Integer 0` converts to a different atom. -/
theorem ambient_mode_matters : Rich.toClvm false (.int 0) ≠ Rich.toClvm true (.int 0) := by decide

-- non-vacuity -------------------------------------------------------------------------------

-- the table is not empty, contains dialects on both sides of every threshold, and the derived
-- pipelines are not trivially equal: the `-O` flag and the dialect matter.
example : allDialects.length = 7 := by decide
example : Gen.deriveCli [] ⟨some 21, false, false⟩ false ≠ Gen.deriveCli [] ⟨some 21, false, false⟩ true := by decide
example : Gen.deriveLib [] ⟨some 22, false, false⟩ ≠ Gen.deriveLib [] ⟨some 23, true, false⟩ := by decide
example : Gen.deriveLib ["a"] ⟨some 22, false, false⟩ =
    .modern { dialect := ⟨some 22, false, false⟩, stdenv := true, optimize := true, frontendOpt := true,
              searchPaths := ["a"], disVer := none } true := by decide
-- a program with a sigil is detected, also below other forms; one without is classic
example : detect Gen.knownDialects
    (Val.ofList [.atom [109, 111, 100], .atom [], Val.ofList [.atom includeKw,
      .atom [42, 115, 116, 97, 110, 100, 97, 114, 100, 45, 99, 108, 45, 50, 51, 42]], .atom [1]])
    = ⟨some 23, true, false⟩ := by decide
example : detect Gen.knownDialects (Val.ofList [.atom [109, 111, 100], .atom [], .atom [1]]) = Dialect.classic := by decide
-- the hypotheses of `cli_text_is_lib_bytes` are satisfiable by a compiler that emits something
example : Rich.Readable (.cons (.int 2) (.cons (.atom [120]) .nil)) = true := by decide

end C11
