/-
  Props/C06.lean — property theorems for C06:
  the built-in stepping evaluator (`compiler::clvm::run`, model `Step.run` / `Step.runWith`)
  agrees with the consensus evaluator (`Clvm.evalC`), for every operator table `ops`.

  FULL STATEMENT (what the property asks; it is FALSE of the unchanged code, see the
  `…_counterexample` theorems and `full_statement_false` below):

      ∀ m p e v,  (∃ lim, Step.run m chiaPrims ops d lim p e = .ok v)
                     ↔ Clvm.Evaluates ops (toClvm m p) (toClvm m e) (toClvm m v)
      ∀ m p e,    (∃ lim err, Step.run m chiaPrims ops d lim p e = .error err ∧ err ≠ .timeout)
                     ↔ Clvm.Fails ops (toClvm m p) (toClvm m e)

  PROVED (`…_partial`): exactly these statements for every run that takes no *flagged* branch,
  `Step.flagsOf … = []` being the executable no-flag predicate (the flags are the branches
  HeadIsPair, NilHead, RefusedOp, OpByName, IntSpellsName, LegacyZero of `Step.stepFlags`; the former
  flags IntIsName-on-opcodes, NonCanonicalOp, NonCanonicalPath, ZeroPath are gone with the repairs
  5f6df3d/F2/F3: every path spelling is unflagged, see `path_unflagged` / `path_value_iff`).  The statements hold for an arbitrary nested head runner `hr` (that branch is
  flagged), an arbitrary primitive map `pm`, both integer modes `m`, and every operator table
  that agrees with clvmr on the four operators the stepper implements itself (`CoreOps`) and
  whose operators are total (`NoFuelOps`, needed for the soundness direction only).
  What is missing for the full statement is precisely the flagged branches: each is shown to
  break it by a `decide`d witness (NilHead and RefusedOp are the exception: there the stepper only
  fails *earlier* than clvmr would - before the operands are evaluated; no diverging witness
  exists for total operand evaluation, and consensus never returns a value there:
  `refusedOp_no_consensus_value`).
  (Helper lemmas live in Proofs/; only the property statements are here.)
-/
import ChialispModel.Clvm.Step
import ChialispModel.Proofs.StepRunLemmas

namespace C06
open Step Rich Clvm

variable (hr : Rich → Rich → Except RunErr Rich) (m : Mode) (pm : PrimMap) (ops : OpSem)

/-- `Step.run` is `runWith` for the nested runner that `translate_head` uses. -/
theorem run_eq_runWith (depth lim : Nat) (p e : Rich) :
    run m pm ops depth lim p e = runWith (headRunner m pm ops lim depth) m pm ops lim p e := rfl

/-- SOUNDNESS: a run that raises no flag and finishes with `v` computes what consensus computes. -/
theorem step_sound_partial (hc : CoreOps ops) (hnf : NoFuelOps ops) (lim : Nat) (p e v : Rich)
    (hrun : runWith hr m pm ops lim p e = .ok v) (hflags : flagsOf hr m pm ops lim p e = []) :
    Evaluates ops (toClvm m p) (toClvm m e) (toClvm m v) :=
  StepLemmas.sound hr m pm ops hc hnf hrun hflags

/-- FAILURE SOUNDNESS: a run that raises no flag and reports a failure (other than the step
    limit) is a program on which the consensus evaluator fails. -/
theorem step_fail_sound_partial (hc : CoreOps ops) (hnf : NoFuelOps ops) (lim : Nat) (p e : Rich)
    (err : RunErr) (hrun : runWith hr m pm ops lim p e = .error err) (hne : err ≠ .timeout)
    (hflags : flagsOf hr m pm ops lim p e = []) :
    Fails ops (toClvm m p) (toClvm m e) :=
  StepLemmas.fail_sound hr m pm ops hc hnf hrun hne hflags

/-- COMPLETENESS: if consensus returns `w` and the stepper never takes a flagged branch, the
    stepper finishes (for a large enough step limit) with a value converting to `w`. -/
theorem step_complete_partial (hc : CoreOps ops) (p e : Rich) (w : Val)
    (h : Evaluates ops (toClvm m p) (toClvm m e) w)
    (hflags : ∀ lim, flagsOf hr m pm ops lim p e = []) :
    ∃ lim v, runWith hr m pm ops lim p e = .ok v ∧ toClvm m v = w :=
  StepLemmas.complete hr m pm ops hc h hflags

/-- FAILURE COMPLETENESS: if consensus fails and the stepper never takes a flagged branch, the
    stepper reports a failure (not the step limit). -/
theorem step_fail_complete_partial (hc : CoreOps ops) (p e : Rich)
    (h : Fails ops (toClvm m p) (toClvm m e))
    (hflags : ∀ lim, flagsOf hr m pm ops lim p e = []) :
    ∃ lim err, runWith hr m pm ops lim p e = .error err ∧ err ≠ .timeout :=
  StepLemmas.fail_complete hr m pm ops hc h hflags

/-- value ⇔ value, on unflagged programs. -/
theorem step_value_iff_partial (hc : CoreOps ops) (hnf : NoFuelOps ops) (p e : Rich) (w : Val)
    (hflags : ∀ lim, flagsOf hr m pm ops lim p e = []) :
    (∃ lim v, runWith hr m pm ops lim p e = .ok v ∧ toClvm m v = w) ↔
      Evaluates ops (toClvm m p) (toClvm m e) w := by
  constructor
  · rintro ⟨lim, v, hrun, rfl⟩
    exact step_sound_partial hr m pm ops hc hnf lim p e v hrun (hflags lim)
  · exact fun h => step_complete_partial hr m pm ops hc p e w h hflags

/-- failure ⇔ failure, on unflagged programs. -/
theorem step_fail_iff_partial (hc : CoreOps ops) (hnf : NoFuelOps ops) (p e : Rich)
    (hflags : ∀ lim, flagsOf hr m pm ops lim p e = []) :
    (∃ lim err, runWith hr m pm ops lim p e = .error err ∧ err ≠ .timeout) ↔
      Fails ops (toClvm m p) (toClvm m e) := by
  constructor
  · rintro ⟨lim, err, hrun, hne⟩
    exact step_fail_sound_partial hr m pm ops hc hnf lim p e err hrun hne (hflags lim)
  · exact fun h => step_fail_complete_partial hr m pm ops hc p e h hflags

/-- fuel monotonicity: a finished run (value or failure) is unchanged by a larger step limit. -/
theorem run_fuel_mono (lim lim' : Nat) (h : lim ≤ lim') (p e : Rich) (r : Except RunErr Rich)
    (hrun : runWith hr m pm ops lim p e = r) (hne : r ≠ .error .timeout) :
    runWith hr m pm ops lim' p e = r :=
  StepLemmas.runLoop_mono _ h hrun hne

/-- the no-flag predicate is decided by the finished run: if the run ended (value or failure)
    with step limit `lim` and raised no flag, it raises none for any limit. -/
theorem flags_stable (lim : Nat) (p e : Rich)
    (hfin : runWith hr m pm ops lim p e ≠ .error .timeout)
    (hflags : flagsOf hr m pm ops lim p e = []) : ∀ lim', flagsOf hr m pm ops lim' p e = [] :=
  StepLemmas.flags_stable hr m pm ops hfin hflags

/-- the hypotheses on the operator table hold for the concrete Chia table of the driver. -/
theorem coreOps_chia : CoreOps Ops.chiaOps := StepLemmas.coreOps_chia
theorem noFuelOps_chia : NoFuelOps Ops.chiaOps := StepLemmas.noFuelOps_chia

-- ---------------------------------------------------------------------------------------
-- paths (fix: 29cb476): the FULL statement, no flag hypothesis
-- ---------------------------------------------------------------------------------------

/-- a program that is a path - any spelling of an atom: `Nil`, `Integer`, `Atom`, `QuotedString` -
    never takes a flagged branch. -/
theorem path_unflagged (p e : Rich) (hp : ∀ a b, p ≠ .cons a b) :
    ∀ lim, flagsOf hr m pm ops lim p e = [] :=
  StepLemmas.path_unflagged hr m pm ops p e hp

/-- value ⇔ value for every path in every spelling (signed / unsigned reading, redundant prefixes,
    zero paths included), unconditionally. -/
theorem path_value_iff (hc : CoreOps ops) (hnf : NoFuelOps ops) (p e : Rich) (hp : ∀ a b, p ≠ .cons a b) (w : Val) :
    (∃ lim v, runWith hr m pm ops lim p e = .ok v ∧ toClvm m v = w) ↔
      Evaluates ops (toClvm m p) (toClvm m e) w :=
  step_value_iff_partial hr m pm ops hc hnf p e w (path_unflagged hr m pm ops p e hp)

/-- failure ⇔ failure for every path in every spelling, unconditionally. -/
theorem path_fail_iff (hc : CoreOps ops) (hnf : NoFuelOps ops) (p e : Rich) (hp : ∀ a b, p ≠ .cons a b) :
    (∃ lim err, runWith hr m pm ops lim p e = .error err ∧ err ≠ .timeout) ↔
      Fails ops (toClvm m p) (toClvm m e) :=
  step_fail_iff_partial hr m pm ops hc hnf p e (path_unflagged hr m pm ops p e hp)

-- ---------------------------------------------------------------------------------------
-- refused operator atoms (fix: 4c2caac): an early refusal, never a different value
-- ---------------------------------------------------------------------------------------

/-- the stepper refuses an operator atom that is no primitive name and not the minimal encoding
    of its value, at once. -/
theorem refusedOp_stepper_fails (v : Bytes) (hname : pm.lookup v = none) (hcan : Bytes.canonical v = false)
    (b ctx : Rich) (k : Config) :
    runStep hr m pm ops (.step (.cons (.atom v) b) ctx k) = .error (.op "unknown operator") ∧
    stepFlags m pm (.step (.cons (.atom v) b) ctx k) = [.refusedOp] := by
  simp [runStep, stepCons, translateHead, translateBytes, stepFlags, headFlags, bytesHeadFlags, hname, hcan]

/-- … and the consensus evaluator never returns a value for such a program, for any operator table
    that refuses that atom (clvmr's strict dialect refuses every non-minimal operator atom:
    `chia_refuses_noncanonical`). -/
theorem refusedOp_no_consensus_value (v : Bytes) (hcan : Bytes.canonical v = false)
    (hstrict : ∀ args, ∃ t, ops.apply v args = .error (.fail t)) (args env w : Val) :
    ¬ Evaluates ops (.pair (.atom v) args) env w :=
  StepLemmas.refused_no_value ops v hcan hstrict args env w

theorem chia_refuses_noncanonical (v : Bytes) (hcan : Bytes.canonical v = false) (args : Val) :
    ∃ t, Ops.chiaOps.apply v args = .error (.fail t) :=
  StepLemmas.chia_refuses_noncanonical v hcan args

example : ¬ Evaluates Ops.chiaOps (.pair (.atom [0, 4]) (.atom [])) (.atom []) (.atom []) :=
  refusedOp_no_consensus_value Ops.chiaOps [0, 4] (by decide) (chia_refuses_noncanonical [0, 4] (by decide)) _ _ _

example : runStep hr m chiaPrims ops (.step (.cons (.atom [0, 4]) .nil) .nil (.done .nil)) = .error (.op "unknown operator") :=
  (refusedOp_stepper_fails hr m chiaPrims ops [0, 4] (by decide) (by decide) .nil .nil (.done .nil)).1

example : ∀ lim, flagsOf hr m pm ops lim (.atom [255, 128]) (.cons (.int 1) (.int 2)) = [] :=
  path_unflagged hr m pm ops _ _ (by intro a b h; cases h)

-- ---------------------------------------------------------------------------------------
-- witnesses: each flagged class really breaks the unconditioned statement
-- (model = real code on these inputs: replayed through `cvh step` by tools/props/c06.py)
-- ---------------------------------------------------------------------------------------

/-- the stepper as the tools run it: Chia primitive map and operator table, fixed integer mode. -/
abbrev stepper (m : Mode) (p e : Rich) : Except RunErr Rich := run m chiaPrims Ops.chiaOps 4 60 p e
abbrev consensus (m : Mode) (p e : Rich) : Res := evalC Ops.chiaOps 40 (toClvm m p) (toClvm m e)
abbrev flags (m : Mode) (p e : Rich) : List Flag :=
  flagsOf (headRunner m chiaPrims Ops.chiaOps 60 4) m chiaPrims Ops.chiaOps 60 p e

def qt (r : Rich) : Rich := .cons (.int 1) r
def deepEnv : Rich :=
  .cons (.cons (.cons (.cons (.cons (.cons (.cons (.cons (.int 42) (.int 1)) (.int 2)) (.int 3)) (.int 4))
    (.int 5)) (.int 6)) (.int 7)) (.int 8)

/-- HeadIsPair: `((+) 1 2)` — clvmr applies `+` to the unevaluated `(1 2)` = 3; the stepper runs
    `(+)`, gets `()`, then looks up paths 1 and 2 in `()`. -/
theorem headIsPair_counterexample :
    stepper true (.cons (.cons (.int 16) .nil) (.cons (.int 1) (.cons (.int 2) .nil))) .nil = .error .path ∧
    consensus true (.cons (.cons (.int 16) .nil) (.cons (.int 1) (.cons (.int 2) .nil))) .nil = .ok (.atom [3]) ∧
    flags true (.cons (.cons (.int 16) .nil) (.cons (.int 1) (.cons (.int 2) .nil))) .nil = [.headIsPair] := by
  decide

/-- OpByName: the operator atom `"+"` (0x2b) is an unknown operator for clvmr; the stepper adds. -/
theorem opByName_counterexample :
    stepper true (.cons (.atom [43]) (.cons (qt (.int 1)) (.cons (qt (.int 2)) .nil))) .nil = .ok (.int 3) ∧
    Except.isFail (consensus true (.cons (.atom [43]) (.cons (qt (.int 1)) (.cons (qt (.int 2)) .nil))) .nil) = true ∧
    flags true (.cons (.atom [43]) (.cons (qt (.int 1)) (.cons (qt (.int 2)) .nil))) .nil = [.opByName] := by
  decide

/-- IntSpellsName: the integer 43 is no opcode, its encoding spells "+"; the stepper adds, for clvmr
    43 is an unknown operator. -/
theorem intSpellsName_counterexample :
    stepper true (.cons (.int 43) (.cons (qt (.int 1)) (.cons (qt (.int 2)) .nil))) .nil = .ok (.int 3) ∧
    Except.isFail (consensus true (.cons (.int 43) (.cons (qt (.int 1)) (.cons (qt (.int 2)) .nil))) .nil) = true ∧
    flags true (.cons (.int 43) (.cons (qt (.int 1)) (.cons (qt (.int 2)) .nil))) .nil = [.intSpellsName] := by
  decide

-- ---------------------------------------------------------------------------------------
-- repaired classes (fix: 5f6df3d / 29cb476 / 4c2caac): the former counter-witnesses
-- now agree with consensus and raise no divergence flag
-- ---------------------------------------------------------------------------------------

/-- (was IntIsName, 5f6df3d) an integer that is a primitive's opcode is never re-read as a name,
    whatever the primitive map. -/
theorem opcodeInt_repaired (i : Int) (h : isOpcode pm i = true) :
    translateInt pm i = .int i ∧ intHeadFlags pm i = [] := by
  unfold translateInt intHeadFlags
  cases pm.lookup (Bytes.ofInt i) <;> simp [h]

/-- (was IntIsName, 5f6df3d) opcode 61 (`%`, the byte of the NAME `=`) and opcode 62 (`keccak256`,
    the byte of `>`) stay 61 and 62; the run hands `%` to the delegate (the driver's operator table
    does not implement it: "UNSUPPORTED"; on the real code clvmr takes the remainder) instead of
    comparing, and raises no flag. -/
theorem intIsName_repaired :
    translateInt chiaPrims 61 = .int 61 ∧ translateInt chiaPrims 62 = .int 62 ∧
    stepper true (.cons (.int 61) (.cons (qt (.int 7)) (.cons (qt (.int 7)) .nil))) .nil = .error (.op "UNSUPPORTED") ∧
    flags true (.cons (.int 61) (.cons (qt (.int 7)) (.cons (qt (.int 7)) .nil))) .nil = [] := by
  decide

/-- (was NonCanonicalOp, 4c2caac) operator `0x0004` is unknown to clvmr and refused by the stepper
    (RefusedOp only marks that the stepper refuses before the operands are evaluated). -/
theorem nonCanonicalOp_repaired :
    stepper true (.cons (.atom [0, 4]) (.cons (qt (.int 1)) (.cons (qt (.int 2)) .nil))) .nil
      = .error (.op "unknown operator") ∧
    Except.isFail (consensus true (.cons (.atom [0, 4]) (.cons (qt (.int 1)) (.cons (qt (.int 2)) .nil))) .nil) = true ∧
    flags true (.cons (.atom [0, 4]) (.cons (qt (.int 1)) (.cons (qt (.int 2)) .nil))) .nil = [.refusedOp] := by
  decide

/-- (was NonCanonicalPath, 29cb476) the path atom `0xff80` is 65408 for both: a path into an atom
    on this environment. -/
theorem nonCanonicalPath_repaired :
    stepper true (.atom [255, 128]) deepEnv = .error .path ∧
    Except.isFail (consensus true (.atom [255, 128]) deepEnv) = true ∧
    flags true (.atom [255, 128]) deepEnv = [] := by
  decide

/-- (was ZeroPath, 29cb476) the path `0x00` (a zero not spelled `()`) is nil for both. -/
theorem zeroPath_repaired :
    stepper true (.qstr 120 [0]) (.cons (.int 10) (.int 77)) = .ok .nil ∧
    consensus true (.qstr 120 [0]) (.cons (.int 10) (.int 77)) = .ok (.atom []) ∧
    flags true (.qstr 120 [0]) (.cons (.int 10) (.int 77)) = [] ∧
    stepper true (.int 0) (.cons (.int 10) (.int 77)) = .ok .nil ∧
    stepper false (.int 0) (.cons (.int 10) (.int 77)) = .ok .nil ∧
    consensus false (.int 0) (.cons (.int 10) (.int 77)) = .ok (.atom []) := by
  decide

/-- LegacyZero (legacy integer mode): `(i (q . 0) (q . 5) (q . 6))` where `0` converts to the
    atom 0x00, which clvmr calls true. -/
theorem legacyZero_counterexample :
    stepper false (.cons (.int 3) (.cons (qt (.int 0)) (.cons (qt (.int 5)) (.cons (qt (.int 6)) .nil)))) .nil
      = .ok (.int 6) ∧
    consensus false (.cons (.int 3) (.cons (qt (.int 0)) (.cons (qt (.int 5)) (.cons (qt (.int 6)) .nil)))) .nil
      = .ok (.atom [5]) ∧
    flags false (.cons (.int 3) (.cons (qt (.int 0)) (.cons (qt (.int 5)) (.cons (qt (.int 6)) .nil)))) .nil
      = [.legacyZero] := by
  decide

/-- NilHead: `(() (q . 2))` — both fail, but the stepper refuses before evaluating operands
    (so "failure ⇔ failure" could only differ when operand evaluation does not terminate). -/
theorem nilHead_witness :
    stepper true (.cons .nil (.cons (qt (.int 2)) .nil)) .nil = .error .nilhead ∧
    Except.isFail (consensus true (.cons .nil (.cons (qt (.int 2)) .nil)) .nil) = true ∧
    flags true (.cons .nil (.cons (qt (.int 2)) .nil)) .nil = [.nilHead] := by
  decide

/-- the unconditioned soundness statement is false of the model (hence, by the correspondence
    runs, of the code): the operator atom `"+"` returns a value no consensus run returns. -/
theorem full_statement_false :
    ¬ (∀ (m : Mode) (p e v : Rich) (lim : Nat),
        run m chiaPrims Ops.chiaOps 4 lim p e = .ok v →
        Evaluates Ops.chiaOps (toClvm m p) (toClvm m e) (toClvm m v)) := by
  intro h
  obtain ⟨h1, h2, _⟩ := opByName_counterexample
  obtain ⟨f, hf⟩ := h true _ _ _ 60 h1
  cases h3 : consensus true (.cons (.atom [43]) (.cons (qt (.int 1)) (.cons (qt (.int 2)) .nil))) .nil with
  | ok v => rw [h3] at h2; cases h2
  | error ce =>
    cases ce with
    | fuel => rw [h3] at h2; cases h2
    | fail t =>
      have := EvalLemmas.evalC_det Ops.chiaOps hf (by simp) h3 (by simp)
      cases this

-- ---------------------------------------------------------------------------------------
-- non-vacuity: concrete unflagged runs meet the hypotheses
-- ---------------------------------------------------------------------------------------

/-- `(a (q . (c (+ 2 5) (i (l 1) (f 1) ()))) (c (q . 20) (c (q . 22) ())))` on `()`:
    `a`, `q`, `c`, `i`, `f` natively, `+` and `l` delegated; no flag; value `(42 . 20)`. -/
def demoProg : Rich :=
  .cons (.int 2) (.cons (qt (.cons (.int 4) (.cons (.cons (.int 16) (.cons (.int 2) (.cons (.int 5) .nil)))
    (.cons (.cons (.int 3) (.cons (.cons (.int 7) (.cons (.int 1) .nil))
      (.cons (.cons (.int 5) (.cons (.int 1) .nil)) (.cons .nil .nil)))) .nil))))
    (.cons (.cons (.int 4) (.cons (qt (.int 20)) (.cons (.cons (.int 4) (.cons (qt (.int 22)) (.cons .nil .nil))) .nil))) .nil))

example : stepper true demoProg .nil = .ok (.cons (.int 42) (.int 20)) ∧ flags true demoProg .nil = [] := by
  decide

example : Evaluates Ops.chiaOps (toClvm true demoProg) (toClvm true .nil) (toClvm true (.cons (.int 42) (.int 20))) :=
  step_sound_partial (headRunner true chiaPrims Ops.chiaOps 60 4) true chiaPrims Ops.chiaOps
    coreOps_chia noFuelOps_chia 60 demoProg .nil _ (by decide) (by decide)

example : ∀ lim, flagsOf (headRunner true chiaPrims Ops.chiaOps 60 4) true chiaPrims Ops.chiaOps lim demoProg .nil = [] :=
  flags_stable _ true chiaPrims Ops.chiaOps 60 demoProg .nil (by decide) (by decide)

/-- a failing unflagged run: `(f (q . 5))`. -/
example : Fails Ops.chiaOps (toClvm true (.cons (.int 5) (.cons (qt (.int 5)) .nil))) (toClvm true .nil) :=
  step_fail_sound_partial (headRunner true chiaPrims Ops.chiaOps 60 4) true chiaPrims Ops.chiaOps
    coreOps_chia noFuelOps_chia 60 _ .nil .notcons (by decide) (by decide) (by decide)

end C06
