/-
  Props/C12.lean — property theorems for C12: the debugger's trace (`CldbRun::step`, model
  `Cldb.cldbStep` / `Cldb.cldbRun` over the step machine of C06) is a faithful account.

  FULL STATEMENT (what the property asks):
    stepping to the end yields a `Final` row with the consensus value, or a `Failure` row exactly
    when consensus fails; every row that reports Operator / Arguments / Value is true of the
    consensus evaluator; rows are numbered consecutively; hex-supplied = source-supplied.

  PROVED
    * rows are numbered by their position, no `Throw` row exists      (all inputs, no hypothesis)
    * the end-of-run row IS the result of the step machine's `run`     (all inputs, no hypothesis)
      hence (C06) the consensus result on every run that raises no C06 flag      (`…_partial`)
    * every row whose operator is not `a` (2) / `i` (3) and that reports a Value records exactly the
      machine's application of that operator to those arguments        (all inputs, no hypothesis),
      which in the fixed integer mode is clvmr's `apply_op` on the converted operands (`…_partial`:
      fixed mode, operator spelled as an integer, `CoreOps`)
    * a hex-supplied program (`fromClvm ∘ toClvm` of the source form) ends with the same CLVM value as
      the source form when neither run raises a C06 flag                          (`…_partial`)
  NOT PROVABLE, witnessed by `decide`: rows of `i` (and of `a`) can be false — `in_expr` stays set
  when `i` finishes without an `OpResult`, so the next path lookup's value is attached to it.
  Not modelled: locations, `Function`, `Env*` keys, `Argument-Refs`, the hierarchical (-t) grouping.
-/
import ChialispModel.Clvm.Cldb
import ChialispModel.Proofs.CldbLemmas

namespace C12
open Cldb Step Rich Clvm CldbLemmas

variable (hr : Rich → Rich → Except RunErr Rich) (m : Mode) (pm : PrimMap) (ops : OpSem)

/-- rows are numbered consecutively: the `Row` of the i-th row handed out is `i`
    (rows without the key — Final, Failure, Print — still count), and no row is a `Throw`. -/
theorem cldb_rows_consecutive (lim : Nat) (p e : Rich) (i : Nat) (r : Row)
    (h : (cldbRun hr m pm ops lim (init p e))[i]? = some r) :
    (∀ n, r.rowNo = some n → n = i) ∧ r.throw = none := by
  have := rows_consecutive hr m pm ops lim (init p e) clean_empty i r h
  simpa [init] using this

/-- the end-of-run row is the step machine's result: `Final v` iff `run` returns `v`, `Failure`
    iff `run` fails, neither iff the step limit is hit. -/
theorem cldb_final (lim : Nat) (p e : Rich) :
    match finalOf (cldbRun hr m pm ops lim (init p e)) with
    | some r => runWith hr m pm ops lim p e = r
    | none => runWith hr m pm ops lim p e = .error .timeout :=
  final_matches hr m pm ops lim (init p e) clean_empty rfl

/-- hence: a `Final v` row of an unflagged run is the consensus value. -/
theorem cldb_final_consensus_partial (hc : CoreOps ops) (hnf : NoFuelOps ops) (lim : Nat) (p e v : Rich)
    (h : finalOf (cldbRun hr m pm ops lim (init p e)) = some (.ok v))
    (hflags : flagsOf hr m pm ops lim p e = []) :
    Evaluates ops (toClvm m p) (toClvm m e) (toClvm m v) := by
  have := cldb_final hr m pm ops lim p e
  rw [h] at this
  exact StepLemmas.sound hr m pm ops hc hnf this hflags

/-- and a `Failure` row of an unflagged run (not the step limit) is a consensus failure. -/
theorem cldb_failure_consensus_partial (hc : CoreOps ops) (hnf : NoFuelOps ops) (lim : Nat) (p e : Rich)
    (err : RunErr) (h : finalOf (cldbRun hr m pm ops lim (init p e)) = some (.error err))
    (hne : err ≠ .timeout) (hflags : flagsOf hr m pm ops lim p e = []) :
    Fails ops (toClvm m p) (toClvm m e) := by
  have := cldb_final hr m pm ops lim p e
  rw [h] at this
  exact StepLemmas.fail_sound hr m pm ops hc hnf this hne hflags

/-- conversely the consensus value shows up as the `Final` row of an unflagged run. -/
theorem cldb_final_complete_partial (hc : CoreOps ops) (p e : Rich) (w : Val)
    (h : Evaluates ops (toClvm m p) (toClvm m e) w)
    (hflags : ∀ lim, flagsOf hr m pm ops lim p e = []) :
    ∃ lim v, finalOf (cldbRun hr m pm ops lim (init p e)) = some (.ok v) ∧ toClvm m v = w := by
  obtain ⟨lim, v, hrun, hv⟩ := StepLemmas.complete hr m pm ops hc h hflags
  refine ⟨lim, v, ?_, hv⟩
  have := cldb_final hr m pm ops lim p e
  cases hf : finalOf (cldbRun hr m pm ops lim (init p e)) with
  | none => rw [hf] at this; rw [hrun] at this; cases this
  | some r => rw [hf] at this; rw [hrun] at this; rw [← this]

/-- rows of operators other than `a` / `i`: Operator, Arguments and Value are exactly one
    application performed by the machine (`RowTrue`: `opNone … h ctx args k = OpResult value`). -/
theorem cldb_row_true (lim : Nat) (p e : Rich) (r : Row)
    (h : r ∈ cldbRun hr m pm ops lim (init p e)) : RowTrue m ops r :=
  rows_true hr m pm ops lim (init p e) clean_empty (pending_init p e) r h

/-- in the fixed integer mode such a row is true of the consensus operator table: operator `j`
    (an integer other than 1, 2, 3) applied by clvmr's `apply_op` to the converted Arguments gives
    the converted Value. -/
theorem cldb_row_true_consensus_partial (hc : CoreOps ops) (lim : Nat) (p e : Rich) (r : Row)
    (h : r ∈ cldbRun hr true pm ops lim (init p e)) (j : Int) (v : Rich)
    (hop : r.operator = some (.int j)) (hv : r.value = some v) (j1 : j ≠ 1) (j2 : j ≠ 2) (j3 : j ≠ 3) :
    ∃ args, r.arguments = some args ∧
      applyC ops 1 (bytesOfInt true j) (toClvm true args) = .ok (toClvm true v) := by
  have ht := cldb_row_true hr true pm ops lim p e r h (.int j) v hop hv
    (by simp [getNumber, atomValue, j2]) (by simp [getNumber, atomValue, j3])
  obtain ⟨ctx, tail, k, harg, hon⟩ := ht
  exact ⟨tail, harg, opNone_sound ops hc hon j1 j2 j3⟩

/-- hex-supplied = source-supplied at the end of the run: the program read back from its
    serialisation (`fromClvm ∘ toClvm`) ends with the same CLVM value, when neither run is flagged. -/
theorem cldb_hex_eq_source_partial (hc : CoreOps ops) (hnf : NoFuelOps ops) (lim lim' : Nat) (p e v v' : Rich)
    (h : finalOf (cldbRun hr m pm ops lim (init p e)) = some (.ok v))
    (h' : finalOf (cldbRun hr m pm ops lim' (init (fromClvm m (toClvm m p)) (fromClvm m (toClvm m e))))
            = some (.ok v'))
    (hfl : flagsOf hr m pm ops lim p e = [])
    (hfl' : flagsOf hr m pm ops lim' (fromClvm m (toClvm m p)) (fromClvm m (toClvm m e)) = []) :
    toClvm m v = toClvm m v' := by
  obtain ⟨f, hf⟩ := cldb_final_consensus_partial hr m pm ops hc hnf lim p e v h hfl
  obtain ⟨f', hf'⟩ := cldb_final_consensus_partial hr m pm ops hc hnf lim' _ _ v' h' hfl'
  rw [RichLemmas.to_from, RichLemmas.to_from] at hf'
  have := EvalLemmas.evalC_det ops hf (by simp) hf' (by simp)
  exact Except.ok.inj this

-- ---------------------------------------------------------------------------------------
-- the `i` row defect
-- ---------------------------------------------------------------------------------------

/-- `(c 3 (i 2 (q . 1) (q . 2)))` on `(10 . 77)` -/
def ifProg : Rich :=
  .cons (.int 4) (.cons (.int 3) (.cons
    (.cons (.int 3) (.cons (.int 2) (.cons (.cons (.int 1) (.int 1)) (.cons (.cons (.int 1) (.int 2)) .nil))))
    .nil))
def ifEnv : Rich := .cons (.int 10) (.int 77)

abbrev demoRows (p e : Rich) : List Row :=
  cldbRun (headRunner true chiaPrims Ops.chiaOps 80 4) true chiaPrims Ops.chiaOps 80 (init p e)

/-- row 0 says: operator 3 (`i`) on `(10 1 2)` gives 77 — but `(i 10 1 2)` is 1; 77 is the value
    of the NEXT path lookup (`3`).  The other rows and the final value are right. -/
theorem cldb_row_if_false :
    demoRows ifProg ifEnv =
      [ { operator := some (.int 3), arguments := some (.cons (.int 10) (.cons (.int 1) (.cons (.int 2) .nil))),
          value := some (.int 77), rowNo := some 0 },
        { operator := some (.int 4), arguments := some (.cons (.int 77) (.cons (.int 1) .nil)),
          value := some (.cons (.int 77) (.int 1)), rowNo := some 1 },
        { final := some (.cons (.int 77) (.int 1)) } ] ∧
    Ops.chiaOps.apply [3] (toClvm true (.cons (.int 10) (.cons (.int 1) (.cons (.int 2) .nil)))) = .ok (.atom [1]) := by
  decide

-- non-vacuity -----------------------------------------------------------------------------

/-- `(+ (q . 2) (f 1))` on `(5)`: rows for `f` and `+`, both true; final 7. -/
def sumProg : Rich :=
  .cons (.int 16) (.cons (.cons (.int 1) (.int 2)) (.cons (.cons (.int 5) (.cons (.int 1) .nil)) .nil))

example : demoRows sumProg (.cons (.int 5) .nil) =
    [ { operator := some (.int 5), arguments := some (.cons (.cons (.int 5) .nil) .nil), value := some (.int 5), rowNo := some 0 },
      { operator := some (.int 16), arguments := some (.cons (.int 2) (.cons (.int 5) .nil)), value := some (.int 7), rowNo := some 1 },
      { final := some (.int 7) } ] := by decide

example : ∃ args, (some (.cons (.int 2) (.cons (.int 5) .nil)) : Option Rich) = some args ∧
    applyC Ops.chiaOps 1 (bytesOfInt true 16) (toClvm true args) = .ok (toClvm true (.int 7)) :=
  cldb_row_true_consensus_partial (headRunner true chiaPrims Ops.chiaOps 80 4) chiaPrims Ops.chiaOps StepLemmas.coreOps_chia 80 sumProg (.cons (.int 5) .nil)
    { operator := some (.int 16), arguments := some (.cons (.int 2) (.cons (.int 5) .nil)), value := some (.int 7), rowNo := some 1 }
    (by decide) 16 (.int 7) rfl rfl (by decide) (by decide) (by decide)

example : Evaluates Ops.chiaOps (toClvm true sumProg) (toClvm true (.cons (.int 5) .nil)) (toClvm true (.int 7)) :=
  cldb_final_consensus_partial (headRunner true chiaPrims Ops.chiaOps 80 4) true chiaPrims Ops.chiaOps
    StepLemmas.coreOps_chia StepLemmas.noFuelOps_chia 80 sumProg (.cons (.int 5) .nil) (.int 7) (by decide) (by decide)

end C12
