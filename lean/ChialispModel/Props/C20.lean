/-
  Props/C20.lean — property theorems for C20:
  all operator tables agree with each other and with the evaluator.

  The tables are REGENERATED from the sources on every run (`tools/translate_c20.py` →
  `Generated/Tables.lean`); how the tools use them is `Clvm/OpTables.lean`.  The domain is
  finite, so every theorem is an exhaustive sweep evaluated in the kernel (`decide`), lifted
  to all names / atoms / versions by the small lemmas of `Proofs/TablesLemmas.lean`.
  Names and operator atoms are byte lists.
-/
import ChialispModel.Clvm.OpTables
import ChialispModel.Proofs.TablesLemmas

namespace C20
open Tables OpTables TablesLemmas

-- the exhaustive sweeps ------------------------------------------------------------------

theorem sweep_inverse : (List.range (versionArms + 1)).all checkInverse = true := by decide +kernel

theorem sweep_monotone :
    (List.range (versionArms + 1)).all (fun w => (List.range (w + 1)).all (fun v => checkMonotone v w)) = true := by
  decide +kernel

theorem sweep_prims : checkPrims = true := by decide +kernel

theorem sweep_implemented : (List.range (versionArms + 1)).all checkImplemented = true := by decide +kernel

theorem sweep_prims_implemented : checkPrimsImplemented = true := by decide +kernel

theorem sweep_scan : (List.range (versionArms + 1)).all checkScan = true := by decide +kernel

-- the property --------------------------------------------------------------------------

/-- name→opcode and opcode→name are mutually inverse within every version (any `v : Nat`,
    any name, any atom): the classic assembler and the disassembler of each version agree. -/
theorem kw_inverse (v : Nat) (n a : List Nat) : toAtom v n = some a ↔ fromAtom v a = some n := by
  rw [toAtom_clamp, fromAtom_clamp]
  have hc := all_le_of_decide sweep_inverse (clamp v) (clamp_le v)
  simp only [checkInverse, Bool.and_eq_true, List.all_eq_true, beq_iff_eq] at hc
  constructor
  · intro h
    obtain ⟨r, hr, hn, ha⟩ := lookupLast_some h
    have := hc.1 r hr
    rw [← hn, ← ha]; exact this
  · intro h
    obtain ⟨r, hr, ha, hn⟩ := lookupLast_some h
    have := hc.2 r hr
    rw [← hn, ← ha]; exact this

/-- versions only ever add names: what a version assembles, every later version assembles to
    the same atom … -/
theorem kw_monotone (v w : Nat) (hvw : v ≤ w) (n a : List Nat) (h : toAtom v n = some a) : toAtom w n = some a := by
  rw [toAtom_clamp] at h ⊢
  have hw := all_le_of_decide sweep_monotone (clamp w) (clamp_le w)
  have hv := List.all_eq_true.mp hw (clamp v) (List.mem_range.mpr (by have := clamp_mono hvw; omega))
  simp only [checkMonotone, Bool.and_eq_true, List.all_eq_true, beq_iff_eq] at hv
  obtain ⟨r, hr, hn, ha⟩ := lookupLast_some h
  rw [← hn, ← ha]; exact hv.1 r hr

/-- … and what a version disassembles to a name, every later version disassembles to the same name. -/
theorem kw_monotone_from (v w : Nat) (hvw : v ≤ w) (a n : List Nat) (h : fromAtom v a = some n) : fromAtom w a = some n := by
  rw [fromAtom_clamp] at h ⊢
  have hw := all_le_of_decide sweep_monotone (clamp w) (clamp_le w)
  have hv := List.all_eq_true.mp hw (clamp v) (List.mem_range.mpr (by have := clamp_mono hvw; omega))
  simp only [checkMonotone, Bool.and_eq_true, List.all_eq_true, beq_iff_eq] at hv
  obtain ⟨r, hr, ha, hn⟩ := lookupLast_some h
  rw [← hn, ← ha]; exact hv.2 r hr

/-- the modern compiler's primitive list and the latest classic table are the same relation:
    a name is a primitive emitted as atom `a` iff the classic assembler maps it to `a`. -/
theorem prims_eq_kw (n a : List Nat) : primAtom n = some a ↔ toAtom latestVersion n = some a := by
  have hc := sweep_prims
  simp only [checkPrims, Bool.and_eq_true, List.all_eq_true, beq_iff_eq] at hc
  constructor
  · intro h
    unfold primAtom at h
    cases hm : primMap n with
    | none => simp [hm] at h
    | some code =>
      simp only [hm, Option.map_some, Option.some.injEq] at h
      obtain ⟨p, hp, hn, hcode⟩ := find_pair_some (l := prims.reverse) hm
      have := hc.1.1 p (List.mem_reverse.mp hp)
      rw [← hn, ← h, ← hcode]; exact this
  · intro h
    obtain ⟨r, hr, hn, ha⟩ := lookupLast_some h
    have := hc.1.2 r hr
    rw [← hn, ← ha]; exact this

/-- `prims()` searched as a list and `prim_map()` (a HashMap) give every primitive the same integer. -/
theorem prims_list_eq_map (p : List Nat × Nat) (hp : p ∈ prims) : primFirst p.1 = some p.2 ∧ primMap p.1 = some p.2 := by
  have hc := sweep_prims
  simp only [checkPrims, Bool.and_eq_true, List.all_eq_true, beq_iff_eq] at hc
  exact hc.2 p hp

/-- every operator a version names is implemented by the evaluator that runs programs of that
    version (`DefaultProgramRunner`'s dialect choice), or is quote / apply / softfork. -/
theorem implemented_of_named (v : Nat) (n a : List Nat) (h : toAtom v n = some a) : implemented v a = true := by
  rw [toAtom_clamp] at h
  rw [implemented_clamp]
  have hc := all_le_of_decide sweep_implemented (clamp v) (clamp_le v)
  simp only [checkImplemented, Bool.and_eq_true, List.all_eq_true] at hc
  obtain ⟨r, hr, _, ha⟩ := lookupLast_some h
  rw [← ha]; exact hc.1 r hr

/-- every primitive the modern compiler can emit is implemented by the dialect the stepping
    evaluator applies operators with, and by the default runner. -/
theorem prims_implemented (n a : List Nat) (h : primAtom n = some a) :
    implemented stepperVersion a = true ∧ implemented defaultVersion a = true := by
  have hc := sweep_prims_implemented
  simp only [checkPrimsImplemented, List.all_eq_true, Bool.and_eq_true] at hc
  unfold primAtom at h
  cases hm : primMap n with
  | none => simp [hm] at h
  | some code =>
    simp only [hm, Option.map_some, Option.some.injEq] at h
    obtain ⟨p, hp, _, hcode⟩ := find_pair_some (l := prims.reverse) hm
    have := hc p (List.mem_reverse.mp hp)
    rw [← h, ← hcode]; exact this

/-- opcode scan: for every version, every one-byte atom 0..255 and every longer operator atom
    any table or dialect mentions is named by the disassembler iff the evaluator implements it. -/
theorem opcode_scan (v : Nat) :
    (∀ o, o < 256 → named v [o] = implemented v [o]) ∧ (∀ a, a ∈ longOpcodes → named v a = implemented v a) := by
  have hc := all_le_of_decide sweep_scan (clamp v) (clamp_le v)
  simp only [checkScan, Bool.and_eq_true, List.all_eq_true, beq_iff_eq] at hc
  constructor
  · intro o ho
    rw [named_clamp, implemented_clamp]
    exact hc.1 o (List.mem_range.mpr ho)
  · intro a ha
    rw [named_clamp, implemented_clamp]
    exact hc.2 a ha

/-- the operators the modern code generator hard-wires as integers (primquote, primapply,
    primcons, primexc) are `q`, `a`, `c`, `x`; both dialects agree on quote / apply / softfork
    and the tables name them `q`, `a`, `softfork` in every version. -/
theorem hardwired_operators :
    fromAtom latestVersion (atomOfInt primquoteOp) = some [113] ∧
    fromAtom latestVersion (atomOfInt primapplyOp) = some [97] ∧
    fromAtom latestVersion (atomOfInt primconsOp) = some [99] ∧
    fromAtom latestVersion (atomOfInt primexcOp) = some [120] ∧
    origQuote = chiaQuote ∧ origApply = chiaApply ∧ origSoftfork = chiaSoftfork ∧
    (List.range (versionArms + 1)).all (fun v =>
      fromAtom v [chiaQuote] == some [113] && fromAtom v [chiaApply] == some [97] &&
      fromAtom v [chiaSoftfork] == some [115, 111, 102, 116, 102, 111, 114, 107]) = true := by
  decide +kernel

/-
  The stepping evaluator.  FULL STATEMENT (C20: "every operator name denotes the same opcode …
  in the stepping evaluator"):

      ∀ p ∈ prims, stepperOp (atomOfInt p.2) = atomOfInt p.2

  TRUE since fix: 5f6df3d (`translate_head` no longer re-reads an integer that is a primitive's
  opcode as a primitive NAME; before, the opcodes 61 (`%`) and 62 (`keccak256`) - the ASCII codes of
  the names "=" and ">" - were run as 9 and 21).
-/

/-- (full) every primitive's operator atom is run by the stepping evaluator as the opcode the tables
    give it — and that opcode is implemented by the stepper's dialect
    (exhaustive over the regenerated `prims()`). -/
theorem stepper_faithful :
    ∀ p ∈ prims, stepperOp (atomOfInt p.2) = atomOfInt p.2 ∧
      implemented stepperVersion (stepperOp (atomOfInt p.2)) = true := by
  decide +kernel

/-- the former witnesses: opcode 61 (`%`, spelled like the name "=") stays 61, opcode 62 (`keccak256`,
    spelled like ">") stays 62, although both atoms ARE primitive names. -/
theorem stepper_repaired :
    primAtom [37] = some [61] ∧ primMap [61] = some 9 ∧ stepperOp [61] = [61] ∧
    primAtom [107, 101, 99, 99, 97, 107, 50, 53, 54] = some [62] ∧ primMap [62] = some 21 ∧ stepperOp [62] = [62] := by
  decide +kernel

/-- no primitive is affected any more (exhaustive over the regenerated `prims()`). -/
theorem stepper_collisions :
    prims.filter (fun p => stepperOp (atomOfInt p.2) != atomOfInt p.2) = [] := by
  decide +kernel

/-- independent of the table's contents: an operator atom that is some primitive's opcode, or that is
    no primitive name, is run as itself. -/
theorem stepper_opcode_fixed (a : List Nat) (h : isPrimOpcode a = true ∨ primMap a = none) : stepperOp a = a := by
  unfold stepperOp
  rcases h with h | h
  · cases primMap a <;> simp [h]
  · rw [h]

example : stepperOp [61] = [61] := stepper_opcode_fixed [61] (.inl (by decide +kernel))
example : stepperOp [200] = [200] := stepper_opcode_fixed [200] (.inr (by decide +kernel))

/-
  The disassembler.  FULL STATEMENT: ∀ v n a, toAtom v n = some a → disasmName v a = some n.
  `ir_for_atom` as found looks only atoms of at most 2 bytes up in the keyword table
  (`disasmKeywordMaxLen = some 2`, re-read from the sources on every run): FALSE for the two
  4-byte operators.  The model is parametric in that limit; all three theorems are always checked.
-/

/-- (full, for a disassembler that consults the table for every atom — the repaired code). -/
theorem disassembler_full (v : Nat) (n a : List Nat) (h : toAtom v n = some a) :
    disasmNameWith none v a = some n :=
  (kw_inverse v n a).mp h

/-- (partial, any limit) every operator whose atom is not longer than the limit is disassembled, in
    every version that names it, to the name the assembler reads. -/
theorem disassembler_partial (m v : Nat) (n a : List Nat) (h : toAtom v n = some a) (hl : a.length ≤ m) :
    disasmNameWith (some m) v a = some n := by
  unfold disasmNameWith
  simp only []
  rw [if_neg (by omega)]
  exact (kw_inverse v n a).mp h

/-- witness (limit 2, the code as found): `secp256k1_verify` assembles to 0x13d61f00 in version 2,
    the table of that version maps the atom back to the name, yet the disassembler does not print it;
    exactly the operators with atoms longer than 2 bytes are affected. -/
theorem disassembler_counterexample :
    toAtom 2 [115, 101, 99, 112, 50, 53, 54, 107, 49, 95, 118, 101, 114, 105, 102, 121] = some [19, 214, 31, 0] ∧
    fromAtom 2 [19, 214, 31, 0] = some [115, 101, 99, 112, 50, 53, 54, 107, 49, 95, 118, 101, 114, 105, 102, 121] ∧
    disasmNameWith (some 2) 2 [19, 214, 31, 0] = none ∧
    (kwPairs.filter (fun r => r.opcode.length > 2)).map (·.name) =
      [[115, 101, 99, 112, 50, 53, 54, 107, 49, 95, 118, 101, 114, 105, 102, 121],
       [115, 101, 99, 112, 50, 53, 54, 114, 49, 95, 118, 101, 114, 105, 102, 121]] := by
  decide +kernel

-- non-vacuity: the tables are not empty and the lookups hit
example : primAtom [43] = some [16] ∧ primMap [16] = none := by decide
example : toAtom 0 [43] = some [16] := by decide                      -- "+"
example : toAtom 0 [99, 111, 105, 110, 105, 100] = none := by decide   -- "coinid" is not in version 0
example : toAtom 1 [99, 111, 105, 110, 105, 100] = some [48] := by decide
example : primAtom [115, 101, 99, 112, 50, 53, 54, 107, 49, 95, 118, 101, 114, 105, 102, 121] = some [19, 214, 31, 0] := by decide
example : implemented 1 [62] = false ∧ implemented 2 [62] = true := by decide   -- keccak256 needs version 2
example : kwPairs.length = 49 ∧ prims.length = 49 := by decide

/-- both evaluators give an opcode the SAME operator: every arm of `OriginalDialect::op` (the
    version-0 evaluator) dispatches to the clvmr function that `ChiaDialect::op` (versions 1, 2)
    dispatches the same opcode to — so a name means one operation whichever runner version is used.
    (Function names are compared as the bytes of the Rust identifiers, re-read on every run.) -/
theorem dispatch_same_operator (op : Nat) (fn : List Nat) (h : (op, fn) ∈ origFns) : (op, fn) ∈ chiaFns := by
  have hall : origFns.all (fun p => chiaFns.contains p) = true := by decide +kernel
  rw [List.all_eq_true] at hall
  have := hall (op, fn) h
  simpa using this

/-- the function tables list exactly the dispatched opcodes (they are the same arms). -/
theorem dispatch_fn_tables_cover : origFns.map (·.1) = origOps ∧ chiaFns.map (·.1) = chiaOps.map (·.1) := by
  decide +kernel

-- non-vacuity: opcode 23 (lsh) is dispatched by both evaluators
example : (23, [111, 112, 95, 108, 115, 104]) ∈ origFns := by decide +kernel

end C20
