/-
  Props/C03.lean — property theorems for C03 (classic compiler output computes what the
  source means).

  What is kernel-checked here, for ALL parameter / constants trees and ALL path widths, is the
  classic compiler's own environment layout and path assignment
  (stage_2/module.rs: `symbol_table_for_tree`, `is_at_capture`, `build_tree`,
  `build_tree_program`, the root choice of `finish_compile_from_collection`, the first-match
  resolution of `transform_program_atom`; model `Lang/ClassicEnv.lean`, tied to the real code by
  `cvh classicenv` / `modeld classicenv`):

    * every entry of a symbol table addresses, in the run-time environment, exactly the value
      the source-level destructuring (`Lang.bindPat`) binds to that occurrence of the name, and
      the entry the compiler uses (the first) addresses the binding the source semantics uses;
    * the classic assignment equals the modern `create_name_lookup_` composed under the root
      (classic and cl21 address parameters identically);
    * `build_tree_program` builds the constants in the shape the constants table is read from,
      so in `(CONSTANTS . ARGS)` constants are found under `NodePath.first()` and arguments under
      `NodePath.rest()`, parameters shadowing constants.

  NO side condition on depth or path value is needed: `symbol_table_for_tree` only ever calls
  `NodePath::new` on a non-negative composition, so the casts of a NEGATIVE index
  (`bigint_to_bytes_clvm` → `bigint_from_bytes` → `get_u32`) are not reachable from the path
  assignment (`node_path_add_exact`).  They are reachable from the classic compiler as a whole
  through the optimiser it runs on its output: with the little-endian `get_u32` of the code as
  found a parameter 32 or more levels deep was mis-addressed there (former finding
  C03-deep-path-get-u32, repaired in /repo c2e6c4f).  Now every path the assignment writes
  whose atom is a minimal encoding — in particular every `first` chain of every depth — is
  re-rooted exactly (`deep_path_optimizer_exact`, `deep_first_chain_exact`,
  `deep_path_optimizer_repaired`).

  FULL PROPERTY (not proved as one theorem): for every classic program `P` and argument `a`,
  `evalSrc P a = ok v → Evaluates ops (classicCompile P) a v`.  The macro expansion / `com` /
  `opt` machinery is not modelled beyond the optimiser (C04); it is decided differentially
  against `Lang.evalSrc` (tools/props/c03.py).
-/
import ChialispModel.Props.C01
import ChialispModel.Proofs.ClassicEnvLemmas
import ChialispModel.Proofs.NodePathSigned
import ChialispModel.Opt.Classic
import ChialispModel.Proofs.OptRefine

namespace C03
open ClassicEnv

/-- the classic compiler's `symbol_table_for_tree` assigns the same paths as the modern
    `create_name_lookup_` (both walk the parameter tree head-first, `(@ name pat)` naming the
    current position); the correctness of that assignment for all patterns and arguments: -/
theorem parameter_paths_correct (name : Bytes) (pat : Rich) (hok : Lang.patOk pat = true) (p : Nat)
    (h : Lang.nameLookup name pat = some p) (v : Val) (ρ : Lang.Env)
    (hb : Lang.bindPat pat (Lang.SV.ofVal v) = some ρ) :
    ∃ w, Lang.lookupEnv name ρ = some (Lang.SV.ofVal w) ∧ Path.lookupNat p v = .ok w :=
  C01.name_lookup_correct name pat hok p h v ρ hb

/-- the exact shape `is_at_capture` accepts: the head is the atom `@` and the rest is a proper
    list (terminated by the empty atom) of exactly two nodes — the capture "name" `c` may be ANY
    node, `(@ n)`, `(@ n p q)` and `(@ n . p)` are ordinary lists. -/
theorem is_at_capture_shape (tf tr c d : Val) :
    isAtCapture tf tr = some (c, d) ↔ tf = .atom [64] ∧ tr = .pair c (.pair d (.atom [])) :=
  isAtCapture_iff tf tr c d

example : isAtCapture (.atom [64]) (.pair (.pair (.atom [88]) (.atom [89])) (.pair (.atom [90]) (.atom [])))
    = some (.pair (.atom [88]) (.atom [89]), .atom [90]) := by decide
example : isAtCapture (.atom [64]) (.pair (.atom [88]) (.atom [])) = none := by decide
example : isAtCapture (.atom [64]) (.pair (.atom [88]) (.pair (.atom [89]) (.atom [90]))) = none := by decide

/-- **every entry of a classic symbol table is right** (all trees, all depths, no width bound).
    For a parameter pattern `pat` (assembled: `patVal pat`) walked from `root`, and ANY run-time
    environment `E` holding at `root` a value `v` that destructures against `pat`: the table and
    the source-level environment `ρ` are aligned entry by entry — same name, and the entry's path
    atom, read as clvmr reads it (`Path.lookup` = unsigned big-endian), selects in `E` exactly
    the value bound to THAT occurrence of the name. -/
theorem symbol_table_paths_correct (pat : Rich) (hok : classicPatOk pat = true)
    (root : Nat) (hroot : 1 ≤ root) (E v : Val) (hE : Path.lookupNat root E = .ok v)
    (ρ : Lang.Env) (hb : Lang.bindPat pat (Lang.SV.ofVal v) = some ρ) :
    Aligned (EntryOk E) (symbolTableForTree (patVal pat) root) ρ :=
  symTab_forall₂_aux pat (Lang.SV.ofVal v) hok root hroot E v rfl hE ρ hb

/-- **the entry the compiler uses.**  `com` replaces a name by the path of the FIRST table entry
    with that name (`transform_program_atom`); that path selects the FIRST source-level binding
    of the name (`Lang.lookupEnv`), i.e. the value the source semantics gives the name — also
    when the name is repeated in the pattern or both captured and destructured. -/
theorem symbol_table_first_entry_correct (pat : Rich) (hok : classicPatOk pat = true)
    (root : Nat) (hroot : 1 ≤ root) (E v : Val) (hE : Path.lookupNat root E = .ok v)
    (ρ : Lang.Env) (hb : Lang.bindPat pat (Lang.SV.ofVal v) = some ρ)
    (name pb : Bytes) (hf : firstSymbol name (symbolTableForTree (patVal pat) root) = some pb) :
    ∃ w, Lang.lookupEnv name ρ = some (Lang.SV.ofVal w) ∧ Path.lookup pb E = .ok w :=
  firstSymbol_aligned E name _ ρ (symbol_table_paths_correct pat hok root hroot E v hE ρ hb) pb hf

/-- non-vacuity: `(X (@ Y (X Z)) . W)` walked from `rest` (root 3) in `(C . (1 (2 3) . 4))`:
    `X` is repeated — the first entry (path 5) selects 1, the binding the source semantics uses. -/
def exPat : Rich :=
  .cons (.atom [88]) (.cons (.cons (.atom [64]) (.cons (.atom [89]) (.cons (.cons (.atom [88]) (.cons (.atom [90]) .nil)) .nil))) (.atom [87]))
def exArgs : Val :=
  .pair (.atom [1]) (.pair (.pair (.atom [2]) (.pair (.atom [3]) (.atom []))) (.atom [4]))
example : classicPatOk exPat = true := by decide
example : symbolTableForTree (patVal exPat) 3
    = [(.atom [88], [5]), (.atom [89], [11]), (.atom [88], [19]), (.atom [90], [43]), (.atom [87], [15])] := by decide
example : (Lang.bindPat exPat (Lang.SV.ofVal exArgs)).isSome = true := by decide
example : firstSymbol [88] (symbolTableForTree (patVal exPat) 3) = some [5] := by decide
example : Path.lookup [5] (.pair (.atom [99]) exArgs) = .ok (.atom [1]) := rfl

/-- **classic = modern addressing.**  The path the classic table gives a name (first entry) is
    the path the modern `create_name_lookup_` computes for it, composed under the root; a name
    absent from one is absent from the other. -/
theorem classic_modern_paths_agree (name : Bytes) (pat : Rich) (hok : classicPatOk pat = true)
    (root : Nat) (hroot : 1 ≤ root) :
    firstSymbol name (symbolTableForTree (patVal pat) root)
      = (Lang.nameLookup name pat).map (fun p => NodePath.asPath (Path.compose root p)) :=
  firstSymbol_eq_nameLookup name pat root hroot hok

example : Lang.nameLookup [90] exPat = some 21 ∧ Path.compose 3 21 = 43 ∧
    firstSymbol [90] (symbolTableForTree (patVal exPat) 3) = some [43] := by decide

/-- what `classicPatOk` excludes is a real difference, not a proof artefact: the integer 64 is
    the byte `@` for the classic reader, so `(64 N P)` is a capture for the classic compiler and
    a three-element list for the source semantics (same family as finding C01-F6). -/
theorem classic_pattern_int64_counterexample :
    classicPatOk (.cons (.int 64) (.cons (.atom [78]) (.cons (.atom [80]) .nil))) = false ∧
    symbolTableForTree (patVal (.cons (.int 64) (.cons (.atom [78]) (.cons (.atom [80]) .nil)))) 1
      = [(.atom [78], [1]), (.atom [80], [1])] ∧
    Lang.nameLookup [80] (.cons (.int 64) (.cons (.atom [78]) (.cons (.atom [80]) .nil))) = some 11 := by
  decide

/-- **no width condition.**  `root_node.add(first/rest)` is exact for EVERY root: what `as_path`
    writes is read back by clvmr as the composed path.  (`add` calls `NodePath::new` on a
    non-negative number only, so the `get_u32` cast is never reached.) -/
theorem node_path_add_exact (a b : Nat) (hb : 1 ≤ b) :
    Bytes.toNatBE (NodePath.asPath (NodePath.add a b)) = Path.compose a b := by
  rw [NodePath.add_eq a b hb]
  exact BytesAlg.toNatBE_ofNatBE _

/-- non-vacuity beyond 2^31: the 40th parameter of a flat list gets the 6-byte path
    `0x017fffffffff` (39 × rest, then first) … -/
example : NodePath.asPath (NodePath.add (2 ^ 39 - 1 + 2 ^ 39) ClassicEnv.leftBytes) = [0x01, 0x7f, 0xff, 0xff, 0xff, 0xff] := by
  decide

/-- … and the optimiser's `path_optimizer`, which the classic compiler runs on its own output
    and which DOES go through `NodePath::new` of a negative number (it reads path atoms signed),
    re-roots every path atom that is a minimal encoding exactly, at every depth:
    `(f P)` / `(r P)` becomes the atom clvmr reads as `P·2` / `P·3`.  (False for the code as
    found from 4-byte atoms up — little-endian `get_u32`, former finding C03-deep-path-get-u32.) -/
theorem deep_path_optimizer_exact {b : Bytes} (hc : Bytes.canonical b = true) (isRest : Bool) :
    Bytes.toNatBE (NodePath.stepPath b isRest)
      = Path.compose (Bytes.toNatBE b) (if isRest then 3 else 2) := by
  rw [NodePath.toNatBE_stepPath, NodePath.new_canonical hc]

/-- **a parameter at the end of a `first` chain of ANY depth** (`k` levels: path `2^k`, the atom
    `as_path` writes is `0x80 00 … 00` whenever `k ≡ 7 mod 8` — depth 8, 16, 24, 32, 40, …) is
    addressed correctly after the optimiser re-roots it: the result is the path `2^k·2`
    (resp. `2^k·3`), i.e. one more `first` (`rest`) below the same node. -/
theorem deep_first_chain_exact (k : Nat) (isRest : Bool) :
    Bytes.toNatBE (NodePath.stepPath (NodePath.asPath (2 ^ k)) isRest)
      = Path.compose (2 ^ k) (if isRest then 3 else 2) := by
  rw [NodePath.toNatBE_stepPath, NodePath.new_asPath_two_pow]

/-- non-vacuity at the depths the former finding was about (32 and 40 levels of `first`). -/
example : NodePath.asPath (2 ^ 31) = [0x80, 0, 0, 0] ∧ Bytes.canonical [0x80, 0, 0, 0] = true ∧
    NodePath.asPath (2 ^ 39) = [0x80, 0, 0, 0, 0] ∧ Bytes.canonical [0x80, 0, 0, 0, 0] = true := by decide

/-- the former counter-witness of finding C03-deep-path-get-u32, on the repaired code:
    `(f 0x80000000)` — "first of the node at depth 31" — becomes path 2^32 (it was 256, depth 8).
    Real witness (run/brun):
    `(mod ((…((X . R0) . R1) … ) . R31) (defconstant KK 1000) (+ KK X))` now compiles to
    `(+ (q . 1000) 0x0100000000)` and returns 1777 on 32 levels of first around 777. -/
theorem deep_path_optimizer_repaired :
    NodePath.new (Bytes.toInt [0x80, 0, 0, 0]) = 2 ^ 31 ∧
    NodePath.stepPath [0x80, 0, 0, 0] false = [0x01, 0, 0, 0, 0] ∧
    Path.compose (Bytes.toNatBE [0x80, 0, 0, 0]) 2 = 2 ^ 32 ∧
    Bytes.toNatBE [0x01, 0, 0, 0, 0] = 2 ^ 32 := by
  decide

/-- **`build_tree_program`.**  If every item program `pᵢ` evaluates in `env` to `vᵢ`, the program
    built from a non-empty item list evaluates to the values laid out in the balanced shape
    `build_tree` gives the names (`valueTree`), for any operator table implementing `c`.
    (For the empty list the code emits `(q ())`, which is not used: there is no constants tree.) -/
theorem build_tree_program_correct (ops : OpSem) (hops : Core.OpsCore ops) (env : Val)
    (ents : List (Val × Val)) (hne : ents ≠ [])
    (hev : ∀ e ∈ ents, Clvm.Evaluates ops e.1 env e.2) :
    Clvm.Evaluates ops (buildTreeProgram (ents.map (·.1))) env (valueTree (ents.map (·.2))) := by
  have := buildTreeProgramFuel_evaluates ops hops env ents.length ents (Nat.le_refl _) hne hev
  unfold buildTreeProgram valueTree
  rw [List.length_map, List.length_map]
  exact this

/-- non-vacuity: three quoted items; `(c (q . 10) (c (q . 20) (q . 30)))` gives `(10 20 . 30)`,
    the shape of `build_tree [a b c] = (a b . c)`. -/
example : buildTreeProgram [Core.qv (.atom [10]), Core.qv (.atom [20]), Core.qv (.atom [30])]
      = .pair (.atom [4]) (.pair (Core.qv (.atom [10])) (.pair
          (.pair (.atom [4]) (.pair (Core.qv (.atom [20])) (.pair (Core.qv (.atom [30])) Val.nil))) Val.nil)) ∧
    valueTree [.atom [10], .atom [20], .atom [30]] = .pair (.atom [10]) (.pair (.atom [20]) (.atom [30])) ∧
    buildTree [[97], [98], [99]] = .pair (.atom [97]) (.pair (.atom [98]) (.atom [99])) := by decide
example : Clvm.Evaluates Ops.chiaOps
    (buildTreeProgram [Core.qv (.atom [10]), Core.qv (.atom [20]), Core.qv (.atom [30])]) Val.nil
    (valueTree [.atom [10], .atom [20], .atom [30]]) :=
  build_tree_program_correct Ops.chiaOps Core.chiaOps_core Val.nil
    [(Core.qv (.atom [10]), .atom [10]), (Core.qv (.atom [20]), .atom [20]), (Core.qv (.atom [30]), .atom [30])]
    (by simp) (by intro e he; simp at he; rcases he with rfl | rfl | rfl <;> exact Core.ev_quote _ _ _)

/-- **the constants table.**  The table read from `build_tree(names)` under `NodePath.first()`
    is aligned with the constants: each entry's path selects, in `(CONSTANTS . ARGS)`, the value
    of the constant it names (names non-empty, as `build_used_constants_names` guarantees:
    the empty name is MAIN and is excluded). -/
theorem constants_paths_correct (ents : List (Bytes × Val)) (hall : ∀ e ∈ ents, e.1 ≠ []) (args : Val) :
    Aligned (ConstOk (.pair (valueTree (ents.map (·.2))) args))
      (constantsSymbolTable (ents.map (·.1))) ents :=
  constants_table_aligned ents hall args

example : constantsSymbolTable [[97], [98], [99], [100], [101]]
    = [(.atom [97], [8]), (.atom [98], [12]), (.atom [99], [10]), (.atom [100], [22]), (.atom [101], [30])] := by decide

/-- **the classic run-time environment** (classic analogue of `C01.arg_path_in_env` +
    `finalize_env`).  With a non-empty list of used constants/functions `(nameᵢ, itemᵢ, valueᵢ)`
    whose item programs evaluate (in the program's arguments) to their values:
      (1) the emitted argument expression `(c TREE_PROGRAM 1)` evaluates to `(CONSTANTS . args)`;
      (2) every name `com` resolves through a function's table `local ++ constants`
          (`all_symbols` of `add_one_function`, first match) is resolved to a path that selects,
          in that environment, the argument bound to the name if the parameter pattern binds it
          (parameters shadow constants), and otherwise the value of the constant of that name
          — `args` is arbitrary, so this covers a function's table in the environment
          `(CONSTANTS . function arguments)` a call builds, as well as MAIN's;
      (3) hence `(a MAIN (c TREE_PROGRAM 1))` returns whatever MAIN's code returns in that
          environment. -/
theorem classic_env_paths_correct (ops : OpSem) (hops : Core.OpsCore ops)
    (ents : List (Bytes × Val × Val)) (hne : ents ≠ []) (hnames : ∀ e ∈ ents, e.1 ≠ [])
    (args : Val) (hev : ∀ e ∈ ents, Clvm.Evaluates ops e.2.1 args e.2.2)
    (pat : Rich) (hok : classicPatOk pat = true) (ρ : Lang.Env)
    (hb : Lang.bindPat pat (Lang.SV.ofVal args) = some ρ) :
    Clvm.Evaluates ops (argTree (ents.map (·.2.1))) args (.pair (valueTree (ents.map (·.2.2))) args) ∧
    (∀ name pb, firstSymbol name (allSymbols (patVal pat) (ents.map (·.1))) = some pb →
      (∃ w, Lang.lookupEnv name ρ = some (Lang.SV.ofVal w) ∧
          Path.lookup pb (.pair (valueTree (ents.map (·.2.2))) args) = .ok w) ∨
      (Lang.lookupEnv name ρ = none ∧
        ∃ v, List.lookup name (ents.map (fun e => (e.1, e.2.2))) = some v ∧
          Path.lookup pb (.pair (valueTree (ents.map (·.2.2))) args) = .ok v)) ∧
    (∀ mainE main v, Clvm.Evaluates ops mainE args main →
      Clvm.Evaluates ops main (.pair (valueTree (ents.map (·.2.2))) args) v →
      Clvm.Evaluates ops (.pair (.atom [2]) (.pair mainE (.pair (argTree (ents.map (·.2.1))) Val.nil))) args v) := by
  have h1 : Clvm.Evaluates ops (argTree (ents.map (·.2.1))) args (.pair (valueTree (ents.map (·.2.2))) args) := by
    have := argTree_evaluates ops hops args (ents.map (·.2)) (by cases ents <;> simp_all)
      (by intro e he; obtain ⟨e', he', rfl⟩ := List.mem_map.mp he; exact hev e' he')
    simpa [List.map_map, Function.comp_def] using this
  refine ⟨h1, ?_, ?_⟩
  · intro name pb hf
    have hemp : (!(ents.map (·.1)).isEmpty) = true := by cases ents <;> simp_all
    unfold allSymbols at hf
    rw [hemp, argsRoot_true, firstSymbol_append] at hf
    have hloc := symbol_table_paths_correct pat hok 3 (by omega)
      (.pair (valueTree (ents.map (·.2.2))) args) args (by rw [PathAlg.lookupNat_three]) ρ hb
    cases hl : firstSymbol name (symbolTableForTree (patVal pat) 3) with
    | some p =>
      rw [hl] at hf; simp at hf; subst hf
      exact Or.inl (firstSymbol_aligned _ name _ ρ hloc p hl)
    | none =>
      rw [hl] at hf; simp only at hf
      refine Or.inr ⟨firstSymbol_aligned_none _ name _ ρ hloc hl, ?_⟩
      have hc := constants_table_aligned (ents.map (fun e => (e.1, e.2.2)))
        (by intro e he; obtain ⟨e', he', rfl⟩ := List.mem_map.mp he; exact hnames e' he') args
      simp only [List.map_map, Function.comp_def] at hc
      exact firstSymbol_constAligned _ name _ _ hc pb hf
  · intro mainE main v hm hv
    exact Core.ev_apply ops mainE _ args main _ v hm h1 hv

/-- non-vacuity: `(mod (X Y) (defconstant K 7) (defun F …) …)` shape — constants `F`, `K`
    (sorted), arguments `(5 6)`; `K` at path 6, `X` at 5, `Y` at 11 of `((F . 7) . (5 6))`. -/
example : allSymbols (patVal (.cons (.atom [88]) (.cons (.atom [89]) .nil))) [[70], [75]]
    = [(.atom [88], [5]), (.atom [89], [11]), (.atom [70], [4]), (.atom [75], [6])] := by decide
example : (Lang.bindPat (.cons (.atom [88]) (.cons (.atom [89]) .nil))
    (Lang.SV.ofVal (.pair (.atom [5]) (.pair (.atom [6]) (.atom []))))).isSome = true := by decide
example : Path.lookup [6] (.pair (valueTree [.atom [1], .atom [7]]) (.pair (.atom [5]) (.pair (.atom [6]) (.atom []))))
    = .ok (.atom [7]) := rfl

/-- **no constants tree**: the argument expression is `1`, arguments are addressed from the root. -/
theorem classic_env_paths_correct_no_constants (pat : Rich) (hok : classicPatOk pat = true)
    (args : Val) (ρ : Lang.Env) (hb : Lang.bindPat pat (Lang.SV.ofVal args) = some ρ)
    (name pb : Bytes) (hf : firstSymbol name (allSymbols (patVal pat) []) = some pb) :
    argTree [] = .atom [1] ∧
    ∃ w, Lang.lookupEnv name ρ = some (Lang.SV.ofVal w) ∧ Path.lookup pb args = .ok w := by
  refine ⟨by decide, ?_⟩
  have hnil : constantsSymbolTable [] = [] := by decide
  unfold allSymbols at hf
  rw [hnil, List.append_nil] at hf
  exact symbol_table_first_entry_correct pat hok 1 (by omega) args args (PathAlg.lookupNat_one args) ρ hb name pb hf

example : firstSymbol [89] (allSymbols (patVal (.cons (.atom [88]) (.cons (.atom [89]) .nil))) []) = some [5] := by decide

/-! ### the optimiser's variable-change step, reached from classic SOURCE (finding C03-F1)

  `(mod (XX YY) (a (mod (A1 A2 A3 A4 A5 A6 A7) (+ A7 1)) YY))`: the classic compiler hands
  `(a (q . (+ 0xbf (q . 1))) 5)` to its optimiser (`0xbf` = 191 is the path of the 7th parameter, `5` the
  path of `YY`).  `path_from_args` reads `0xbf` as −65 ≤ 1 and puts the whole argument expression `5` there:
  the emitted program is `(+ 5 (q . 1))` (byte-identical to the real compiler's output `ff10ff05ffff010180`).
  On `(99 (1 2 3 4 5 6 700))` the form before the step returns 701, which is what the source means; the
  emitted form fails.  The general statement about `sub_args` is C04's (`C04.optimize_counterexample_sub_args_neg`,
  `C04.optimize_sound_partial` with the flag `sub-args-neg` as hypothesis); this is its source-level instance. -/

private def rerootArgs : Val :=
  .pair (.atom [99]) (.pair
    (.pair (.atom [1]) (.pair (.atom [2]) (.pair (.atom [3]) (.pair (.atom [4]) (.pair (.atom [5]) (.pair (.atom [6])
      (.pair (.atom [0x02, 0xbc]) (.atom []))))))))
    (.atom []))

private def rerootBefore : Val :=      -- (a (q . (+ 0xbf (q . 1))) 5)
  .pair (.atom [2]) (.pair (.pair (.atom [1]) (.pair (.atom [16]) (.pair (.atom [0xbf]) (.pair (.pair (.atom [1]) (.atom [1])) (.atom [])))))
    (.pair (.atom [5]) (.atom [])))

private def rerootAfter : Val :=       -- (+ 5 (q . 1))
  .pair (.atom [16]) (.pair (.atom [5]) (.pair (.pair (.atom [1]) (.atom [1])) (.atom [])))

theorem reroot_seventh_parameter_counterexample :
    Clvm.evalC Ops.chiaOps 8 rerootBefore rerootArgs = .ok (.atom [0x02, 0xbd]) ∧
    Opt.optimizeSexp Ops.chiaOps false 6 6 rerootBefore = .ok rerootAfter ∧
    (Clvm.evalC Ops.chiaOps 8 rerootAfter rerootArgs).isFail = true ∧
    Opt.optimizeSexp Ops.chiaOps true 6 6 rerootBefore = .error (.fail "FLAG:sub-args-neg") := by
  decide

/-- non-vacuity / control: with SIX inner parameters (path `0x5f`, top bit clear) the same step is right. -/
example :
    Opt.optimizeSexp Ops.chiaOps true 12 12
      (.pair (.atom [2]) (.pair (.pair (.atom [1]) (.pair (.atom [16]) (.pair (.atom [0x5f]) (.pair (.pair (.atom [1]) (.atom [1])) (.atom [])))))
        (.pair (.atom [5]) (.atom []))))
      = .ok (.pair (.atom [16]) (.pair (.atom [0x01, 0x7d]) (.pair (.pair (.atom [1]) (.atom [1])) (.atom [])))) := by
  decide

end C03
