/-
  Props/C03.lean — property theorems for C03 (classic compiler output computes what the
  source means).  (interim: the classic symbol-table / NodePath theorems are added once the
  C04 path-composition lemmas are merged)
-/
import ChialispModel.Props.C01

namespace C03

/-- the classic compiler's `symbol_table_for_tree` assigns the same paths as the modern
    `create_name_lookup_` (both walk the parameter tree head-first, `(@ name pat)` naming the
    current position); the correctness of that assignment for all patterns and arguments: -/
theorem parameter_paths_correct (name : Bytes) (pat : Rich) (hok : Lang.patOk pat = true) (p : Nat)
    (h : Lang.nameLookup name pat = some p) (v : Val) (ρ : Lang.Env)
    (hb : Lang.bindPat pat (Lang.SV.ofVal v) = some ρ) :
    ∃ w, Lang.lookupEnv name ρ = some (Lang.SV.ofVal w) ∧ Path.lookupNat p v = .ok w :=
  C01.name_lookup_correct name pat hok p h v ρ hb

end C03
