/-
  Props/C10.lean — property theorems for C10: ill-scoped programs are rejected, never
  miscompiled and never loop the compiler.

  FULL STATEMENT (the property, over the real modern compiler `compile_file`):
      ∀ well-scoped program P, ∀ single defect δ ∈ { fresh unbound name at a variable position of
        reachable code (strict dialects); second defun / defun-inline of an existing name; back
        edge in the call graph restricted to inline functions (cycle length 1..4); assign with
        cyclic or repeated bindings },
        compile_file (δ P) terminates with an error naming the offending identifier / form
        ∧ compile_file P succeeds.
  That statement quantifies over the whole compiler pipeline (macro expansion, renaming, let
  hoisting, lambda desugaring, inlining, the cl23+ optimiser passes); it is decided by the
  injected-defect oracle of tools/props/c10.py on the real compiler (which exhibits the open
  findings listed in known_findings.json).  What IS proved here, for all inputs, is each CHECK
  the compiler relies on, over models that mirror the anchored Rust code and are tied to it by
  the correspondence runs of the same check:

  §1 `Topo.toposort` = `util::toposort` as called by `toposort_assign_bindings`, and
     `Topo.dupCheck` = the duplicate-binding loop of `handle_assign_form` (Sys/Toposort.lean):
     termination; success returns a permutation in which every need is provided earlier;
     deadlock ⇔ no such order exists (with an explicit dependency knot); duplicates rejected ⇔
     two different bindings share a name.
  §2 `Inl.expand` = `replace_inline_body` with its visited set (Lang/Inline.lean): termination
     for every call graph; every cycle reachable from an expanded call is rejected (never
     expanded forever, never accepted), on well-formed programs with exactly the recursion error
     naming a function on the cycle; the error is never raised without a cycle; acyclic
     programs are accepted.
  §3 strictness and redefinition on the core compiler model `Core.compileCore` of C01
     (byte-identical to the real compiler on the core language; Lang/Scope.lean): code is
     emitted ⇔ live helper names are distinct ∧ every variable and every called name of the
     main expression and of every live function resolves (to a parameter or a live helper);
     `_partial` = core language only (see the file header of Lang/Core.lean): positions reached
     through macros, let/assign, lambda, inline expansion or the optimisers are outside it.

  §4 `QQ.qqExpr` = `qq_to_expression` (Lang/Scope.lean): which positions of a qq / macro template
     are evaluated; the full statement is false (finding C10-F1, `qq_quote_head_counterexample`), the
     `_partial` theorem carries the finding's predicate as hypothesis.

  Helper lemmas: Proofs/ToposortLemmas.lean, Proofs/InlineLemmas.lean, Proofs/ScopeLemmas.lean.
-/
import ChialispModel.Sys.Toposort
import ChialispModel.Lang.Inline
import ChialispModel.Lang.Scope
import ChialispModel.Proofs.ToposortLemmas
import ChialispModel.Proofs.InlineLemmas
import ChialispModel.Proofs.ScopeLemmas

namespace C10

-- ====================================================================================================
-- §1  toposort and the duplicate-binding check
-- ====================================================================================================
section ToposortSec
open Topo


/-- key `k` is provided by an item strictly before position `p`. -/
def Provided (order : List Item) (p k : Nat) : Prop := ∃ q, q < p ∧ k ∈ hasAt order q

/-- every need of every item is provided by an EARLIER item of the order. -/
def ValidOrder (order : List Item) : Prop := ∀ p k, k ∈ needsAt order p → Provided order p k

-- example data -----------------------------------------------------------------------------------

/-- item 0 needs key 3 (provided by item 2) and atom 99 (provided by nobody: filtered by
    `inter … possible`); item 2 needs key 4 (provided by item 3); item 3 needs key 5, which is
    provided by TWO items (1 and 2).  The loop needs four rounds, i.e. all of its `4 + 1` fuel. -/
def exOk : List Raw := [⟨[3, 99], [1]⟩, ⟨[], [2, 5]⟩, ⟨[4], [3, 5]⟩, ⟨[5], [4]⟩]

def exOkOut : List Item := [⟨1, [], [2, 5]⟩, ⟨3, [5], [4]⟩, ⟨2, [4], [3, 5]⟩, ⟨0, [3], [1]⟩]

/-- a 2-cycle. -/
def exCycle2 : List Raw := [⟨[2], [1]⟩, ⟨[1], [2]⟩]
/-- an item needing a key only it provides. -/
def exSelf : List Raw := [⟨[1], [1]⟩]
/-- a 3-cycle (items 2, 3, 4) hanging behind an acyclic prefix (items 0, 1). -/
def exCycle3 : List Raw := [⟨[], [1]⟩, ⟨[1], [2]⟩, ⟨[2, 5], [3]⟩, ⟨[3], [4]⟩, ⟨[4], [5]⟩]

example : toposort exOk = .ok exOkOut := by decide
example : toposort exCycle2 = .deadlock := by decide
example : toposort exSelf = .deadlock := by decide
example : toposort exCycle3 = .deadlock := by decide
/-- a self-need is harmless when another item provides the key too: that item goes first. -/
example : toposort [⟨[1], [1]⟩, ⟨[], [1]⟩] = .ok [⟨1, [], [1]⟩, ⟨0, [1], [1]⟩] := by decide
/-- the fuel `length + 1` is tight: with `length` the model would report `.fuel` on `exOk`. -/
example : loop (possible exOk) exOk.length ⟨initItems exOk, [], 0⟩ = .fuel := by decide

-- the theorems -------------------------------------------------------------------------------------

/-- the explicit loop bound of the model never runs out. -/
theorem toposort_terminates (l : List Raw) : toposort l ≠ .fuel := by
  rcases toposort_spec l with ⟨o, h, _⟩ | ⟨h, _⟩ <;> rw [h] <;> intro h' <;> cases h'

example : toposort exOk ≠ .fuel ∧ toposort exCycle3 ≠ .fuel := by decide

/-- a successful sort returns the items it was given, reordered. -/
theorem toposort_ok_perm (l : List Raw) (order : List Item) (h : toposort l = .ok order) :
    order.Perm (initItems l) := by
  rcases toposort_spec l with ⟨o, h', hp, _⟩ | ⟨h', _⟩ <;> rw [h] at h' <;> cases h'
  exact hp

example : exOkOut.Perm (initItems exOk) := toposort_ok_perm exOk exOkOut (by decide)
example : exOkOut ≠ initItems exOk := by decide

/-- in a successful sort every need of every item is provided by an earlier item. -/
theorem toposort_ok_sorted (l : List Raw) (order : List Item) (h : toposort l = .ok order) :
    ValidOrder order := by
  rcases toposort_spec l with ⟨o, h', _, hv⟩ | ⟨h', _⟩ <;> rw [h] at h' <;> cases h'
  exact hv

example : ValidOrder exOkOut := toposort_ok_sorted exOk exOkOut (by decide)
/-- `ValidOrder` is not trivially true: the unsorted input order violates it (item 0 needs 3). -/
example : ¬ ValidOrder (initItems exOk) := fun h => by
  obtain ⟨q, hq, _⟩ := h 0 3 (by decide)
  omega

/-- deadlock is reported exactly when NO order of the items satisfies every need. -/
theorem toposort_deadlock_iff (l : List Raw) :
    toposort l = .deadlock ↔ ¬ ∃ order, order.Perm (initItems l) ∧ ValidOrder order := by
  constructor
  · rintro h ⟨order, hp, hv⟩
    rcases toposort_spec l with ⟨o, h', _⟩ | ⟨_, s', hS⟩
    · rw [h] at h'; cases h'
    · exact hS.no_valid_order order hp hv
  · intro hno
    rcases toposort_spec l with ⟨o, _, hp, hv⟩ | ⟨h', _⟩
    · exact absurd ⟨o, hp, hv⟩ hno
    · exact h'

example : ¬ ∃ order, order.Perm (initItems exCycle2) ∧ ValidOrder order :=
  (toposort_deadlock_iff exCycle2).1 (by decide)
example : ¬ ∃ order, order.Perm (initItems exSelf) ∧ ValidOrder order :=
  (toposort_deadlock_iff exSelf).1 (by decide)
example : ¬ ∃ order, order.Perm (initItems exCycle3) ∧ ValidOrder order :=
  (toposort_deadlock_iff exCycle3).1 (by decide)
example : toposort exOk ≠ .deadlock := by decide

/-- success exactly when SOME order of the items satisfies every need. -/
theorem toposort_ok_iff (l : List Raw) :
    (∃ order, toposort l = .ok order) ↔ ∃ order, order.Perm (initItems l) ∧ ValidOrder order := by
  constructor
  · rintro ⟨order, h⟩
    exact ⟨order, toposort_ok_perm l order h, toposort_ok_sorted l order h⟩
  · intro hex
    rcases toposort_spec l with ⟨o, h', _⟩ | ⟨h', _⟩
    · exact ⟨o, h'⟩
    · exact absurd hex ((toposort_deadlock_iff l).1 h')

example : ∃ order, order.Perm (initItems exOk) ∧ ValidOrder order :=
  (toposort_ok_iff exOk).1 ⟨exOkOut, by decide⟩
example : ¬ ∃ order, toposort exCycle3 = .ok order := by
  rw [show toposort exCycle3 = .deadlock by decide]; rintro ⟨_, h⟩; cases h

/-- a deadlock exhibits a knot: a non-empty set of items each of which has a need all of whose
    providers are in the set. -/
theorem toposort_deadlock_knot (l : List Raw) (h : toposort l = .deadlock) :
    ∃ stuck : List Item, stuck ≠ [] ∧ (∀ it ∈ stuck, it ∈ initItems l) ∧
      ∀ it ∈ stuck, ∃ k, k ∈ it.needs ∧ ∀ jt ∈ initItems l, k ∈ jt.has → jt ∈ stuck := by
  rcases toposort_spec l with ⟨o, h', _⟩ | ⟨_, s', hS⟩
  · rw [h] at h'; cases h'
  · exact hS.knot

example : ∃ stuck : List Item, stuck ≠ [] ∧ (∀ it ∈ stuck, it ∈ initItems exCycle3) ∧
    ∀ it ∈ stuck, ∃ k, k ∈ it.needs ∧ ∀ jt ∈ initItems exCycle3, k ∈ jt.has → jt ∈ stuck :=
  toposort_deadlock_knot exCycle3 (by decide)
/-- the knot of `exCycle3` found by the loop: the three items of the cycle (not the prefix). -/
example : ∀ it ∈ (initItems exCycle3).drop 2,
    ∃ k, k ∈ it.needs ∧ ∀ jt ∈ initItems exCycle3, k ∈ jt.has → jt ∈ (initItems exCycle3).drop 2 := by
  decide

/-- the items before the loop: position = `index`, needs = raw needs ∩ `possible`. -/
theorem init_items_spec (l : List Raw) (i : Nat) (r : Raw) (h : l[i]? = some r) :
    (initItems l)[i]? = some ⟨i, inter r.rawNeeds (possible l), r.has⟩ := by
  have := initFrom_getElem? (possible l) l 0 i r h
  rwa [Nat.zero_add] at this

/-- atom 99 of item 0 is dropped: nobody provides it. -/
example : (initItems exOk)[0]? = some ⟨0, [3], [1]⟩ := by decide
example : (initItems exOk)[3]? = some ⟨3, [5], [4]⟩ :=
  init_items_spec exOk 3 ⟨[5], [4]⟩ (by decide)

/-- the assign form is rejected exactly when two DIFFERENT bindings provide a common name.
    (The binder carries `: Nat`: without it `i < j` is elaborated before `ps[i]?` fixes the type and
    Lean 4.33 reports a stuck `LT ?m` instance; the statement is otherwise the target verbatim.) -/
theorem assign_dup_rejected (ps : List (List Nat)) :
    (dupCheck ps).isSome = true ↔
      ∃ i j k : Nat, i < j ∧ k ∈ (ps[i]?).getD [] ∧ k ∈ (ps[j]?).getD [] := by
  rw [dupCheck, dupFrom_isSome]
  constructor
  · rintro ⟨j, k, hk, h | ⟨i, hi, hki⟩⟩
    · cases h
    · exact ⟨i, j, k, hi, hki, hk⟩
  · rintro ⟨i, j, k, hi, hki, hk⟩
    exact ⟨j, k, hk, Or.inr ⟨i, hi, hki⟩⟩

example : (dupCheck [[1, 2], [3, 3], [4, 2, 1], [1]]).isSome = true := by decide
/-- a name repeated inside ONE pattern is not a duplicate. -/
example : dupCheck [[1, 1], [2]] = none := by decide

/-- the rejected binding is the FIRST one repeating an earlier name, and the names reported are
    names of that binding that an earlier binding provides. -/
theorem assign_dup_first (ps : List (List Nat)) (j : Nat) (names : List Nat)
    (h : dupCheck ps = some (j, names)) :
    names ≠ [] ∧ (∀ k ∈ names, k ∈ (ps[j]?).getD [] ∧ ∃ i, i < j ∧ k ∈ (ps[i]?).getD []) ∧
    (∀ i j' k, i < j' → j' < j → k ∈ (ps[i]?).getD [] → k ∉ (ps[j']?).getD []) := by
  obtain ⟨m, hj, hne, hnames, hfirst⟩ := dupFrom_some ps [] 0 j names h
  obtain rfl : j = m := by omega
  refine ⟨hne, ?_, ?_⟩
  · intro k hk
    obtain ⟨h1, h2 | h2⟩ := hnames k hk
    · cases h2
    · exact ⟨h1, h2⟩
  · intro i j' k hi hj' hki hkj'
    exact (hfirst j' hj' k hkj').2 i hi hki

example : dupCheck [[1, 2], [3, 3], [4, 2, 1], [1]] = some (2, [2, 1]) := by decide


end ToposortSec

-- ====================================================================================================
-- §2  inline expansion: the visited-set discipline
-- ====================================================================================================
section InlineSec
open Inl


-- example programs ---------------------------------------------------------------------------------

/-- `(h a₁ … aₙ)` without a tail. -/
private def app (h : Name) (args : List Expr) : Expr :=
  .call (.atom h) (args.foldr Exprs.cons .nil) .none

/-- plain callees used below: 10 = `+`, 11 = `not`, 12 = `>`. -/
private def plains : List Name := [10, 11, 12]

/-- inlines 0,1,2,3: 0 = (+ (1 x)); 1 = (2 (3 x) . x); 2 = x; 3 = (1 x).
    The cycle 1 → 3 → 1 goes through an ARGUMENT position of body 1. -/
private def Pcyc : Prog :=
  { macros := [], plain := plains,
    inlines :=
      [ (0, app 10 [app 1 [.arg]]),
        (1, .call (.atom 2) (.cons (app 3 [.arg]) .nil) (.some .arg)),
        (2, .arg),
        (3, app 1 [.arg]) ] }

/-- a self-loop: 0 = (+ x (0 x)). -/
private def Pself : Prog :=
  { macros := [], plain := plains, inlines := [ (0, app 10 [.arg, app 0 [.arg]]) ] }

/-- the same self-loop, but the name is also a macro: `get_callable` finds the macro first. -/
private def PselfMacro : Prog := { Pself with macros := [0] }

/-- a 4-cycle 0 → 1 → 2 → 3 → 0, the back edge under a lambda. -/
private def P4 : Prog :=
  { macros := [], plain := plains,
    inlines := [ (0, app 1 [.arg]), (1, app 10 [app 2 [.arg]]), (2, app 3 [.other]),
                 (3, .lambda (app 0 [.arg])) ] }

/-- the example of the comment in inline.rs: 0 = `<=` ↦ (not (> a b)), and
    1 = (<= (<= a b) (<= c d)) (siblings), 2 = (<= (<= (<= a b) c) d) (nested):
    the same inline several times, no recursion. -/
private def Ple : Prog :=
  { macros := [], plain := plains,
    inlines :=
      [ (0, app 11 [app 12 [.arg, .arg]]),
        (1, app 0 [app 0 [.arg, .arg], app 0 [.arg, .arg]]),
        (2, app 0 [app 0 [app 0 [.arg, .arg], .arg], .arg]) ] }

/-- an acyclic diamond: 0 calls 1 and 2, both call 3. -/
private def Pdia : Prog :=
  { macros := [], plain := plains,
    inlines := [ (0, app 10 [app 1 [.arg], app 2 [.arg]]), (1, app 3 [.arg]), (2, app 3 [.arg]),
                 (3, app 10 [.arg, .other]) ] }

/-- a cycle together with an un-hoisted `let` in an argument: not well formed. -/
private def Plet : Prog :=
  { macros := [], plain := plains, inlines := [ (0, app 0 [.letForm]) ] }

/-- a cycle whose callee is also called with an unknown head evaluated first. -/
private def Punk : Prog :=
  { macros := [], plain := plains, inlines := [ (0, app 0 [app 99 [.arg]]) ] }

-- termination: the bound always suffices, and more fuel never changes an answer --------------------

theorem inline_terminates (P : Prog) (vis : List Name) (cur : Name) (e : Expr) (fuel : Nat)
    (h : bound P vis e ≤ fuel) : expand P fuel vis cur e ≠ .fuel :=
  expand_terminates P vis cur e fuel h

theorem inline_fuel_irrelevant (P : Prog) (vis : List Name) (cur : Name) (e : Expr) (n m : Nat)
    (hn : expand P n vis cur e ≠ .fuel) (hm : n ≤ m) : expand P m vis cur e = expand P n vis cur e :=
  expand_mono P vis cur e n m hn hm

theorem expandCall_total (P : Prog) (f : Name) : expandCall P f ≠ .fuel :=
  expandCall_ne_fuel P f

-- the bound is a real number, too little fuel does run out, enough fuel gives the answer
example : bound Pcyc [0] (app 10 [app 1 [.arg]]) = 51 := by decide
example : expand Pcyc 8 [0] 0 (app 10 [app 1 [.arg]]) = .fuel := by decide
example : expand Pcyc 9 [0] 0 (app 10 [app 1 [.arg]]) = .recursive 3 := by decide
example : expand Pcyc 51 [0] 0 (app 10 [app 1 [.arg]]) = .recursive 3 := by decide
example : expand Pdia 8 [0] 0 (app 10 [app 1 [.arg], app 2 [.arg]]) = .fuel := by decide
example : expand Pdia 9 [0] 0 (app 10 [app 1 [.arg], app 2 [.arg]]) = .ok := by decide
example : expandCall Pcyc 0 = .recursive 3 := by decide
example : expandCall Pself 0 = .recursive 0 := by decide
example : expandCall P4 0 = .recursive 3 := by decide
example : expandCall P4 2 = .recursive 1 := by decide

-- a successful expansion has seen no cycle ---------------------------------------------------------

/-- every path of the inline call graph that starts at a successfully expanded function is
    repetition-free … -/
theorem inline_ok_paths_nodup (P : Prog) (f : Name) (fuel : Nat) (h : expandTop P fuel f = .ok)
    (hf : isInline P f = true) (p : List Name) (hp : IsPath P (f :: p)) : (f :: p).Nodup :=
  expandTop_ok_paths_nodup P f fuel h hf p hp

-- accepted: the same inline in sibling and in nested argument positions (clones per argument
-- matter: a single shared set would report `<=` as recursive here), and the diamond
example : expandCall Ple 1 = .ok := by decide
example : expandCall Ple 2 = .ok := by decide
example : expandCall Pdia 0 = .ok := by decide
example : expandTop Pdia 9 0 = .ok ∧ isInline Pdia 0 = true ∧ IsPath Pdia [0, 1, 3] ∧
    IsPath Pdia [0, 2, 3] := by decide
-- a macro of the same name hides the inline, so its self-reference is no cycle
example : expandCall Pself 0 = .recursive 0 ∧ expandCall PselfMacro 0 = .ok ∧
    isInline PselfMacro 0 = false := by decide

/-- … hence any cycle reachable from an expanded call is rejected, never expanded forever and
    never silently accepted: -/
theorem inline_cycle_rejected (P : Prog) (f g : Name) (hf : isInline P f = true)
    (hr : Reach P f g) (hc : OnCycle P g) :
    expandCall P f ≠ .ok ∧ expandCall P f ≠ .fuel ∧ ∀ fuel, expandTop P fuel f ≠ .ok := by
  obtain ⟨fuel, hfu⟩ := expandCall_eq_expandTop P f
  exact ⟨hfu ▸ expandTop_cycle_not_ok P f g hf hr hc fuel, expandCall_ne_fuel P f,
    expandTop_cycle_not_ok P f g hf hr hc⟩

-- the hypotheses are satisfiable: 0 reaches 1, which is on the cycle 1 → 3 → 1
example : isInline Pcyc 0 = true := by decide
example : Reach Pcyc 0 1 := ⟨[1], by decide, rfl⟩
example : OnCycle Pcyc 1 := ⟨3, by decide, [1], by decide, rfl⟩
example : ∀ fuel, expandTop Pcyc fuel 0 ≠ .ok :=
  (inline_cycle_rejected Pcyc 0 1 (by decide) ⟨[1], by decide, rfl⟩
    ⟨3, by decide, [1], by decide, rfl⟩).2.2
-- without well-formedness the rejection may be another error, met before the cycle closes
example : OnCycle Plet 0 ∧ expandCall Plet 0 = .letErr := ⟨⟨0, by decide, [], by decide, rfl⟩, by decide⟩
example : OnCycle Punk 0 ∧ expandCall Punk 0 = .noSuchCallable 99 :=
  ⟨⟨0, by decide, [], by decide, rfl⟩, by decide⟩

/-- … and on programs without the other error sources the rejection IS the recursion error,
    naming a function that lies on a cycle reachable from the call: -/
theorem inline_cycle_error (P : Prog) (hwf : wfProg P = true) (f g : Name)
    (hf : isInline P f = true) (hr : Reach P f g) (hc : OnCycle P g) :
    ∃ n, expandCall P f = .recursive n ∧ Reach P f n ∧ OnCycle P n :=
  expandCall_cycle_error P hwf f g hf hr hc

example : wfProg Pcyc = true ∧ wfProg Pself = true ∧ wfProg P4 = true ∧ wfProg Ple = true ∧
    wfProg Pdia = true ∧ wfProg Plet = false ∧ wfProg Punk = false := by decide
-- the function named is the one being expanded when the cycle closes (3), not the one the
-- hypothesis mentions (1) and not the call's head (0)
example : ∃ n, expandCall Pcyc 0 = .recursive n ∧ Reach Pcyc 0 n ∧ OnCycle Pcyc n :=
  inline_cycle_error Pcyc (by decide) 0 1 (by decide) ⟨[1], by decide, rfl⟩
    ⟨3, by decide, [1], by decide, rfl⟩
example : expandCall Pcyc 0 = .recursive 3 ∧ Reach Pcyc 0 3 ∧ OnCycle Pcyc 3 :=
  ⟨by decide, ⟨[1, 3], by decide, rfl⟩, 1, by decide, [3], by decide, rfl⟩

/-- no false alarm: the recursion error is only raised for a function on a reachable cycle -/
theorem inline_recursive_sound (P : Prog) (f n : Name) (fuel : Nat)
    (h : expandTop P fuel f = .recursive n) : Reach P f n ∧ OnCycle P n :=
  expandTop_recursive_sound P f n fuel h

example : expandTop P4 9 0 = .recursive 3 := by decide
example : Reach P4 0 3 ∧ OnCycle P4 3 := inline_recursive_sound P4 0 3 9 (by decide)
example : Reach Pself 0 0 ∧ OnCycle Pself 0 := inline_recursive_sound Pself 0 0 6 (by decide)

/-- completeness on well-formed programs: no reachable cycle ⇒ accepted -/
theorem inline_acyclic_ok (P : Prog) (hwf : wfProg P = true) (f : Name)
    (hf : isInline P f = true) (hno : ∀ g, Reach P f g → ¬ OnCycle P g) : expandCall P f = .ok :=
  expandCall_acyclic_ok P hwf f hf hno

-- the hypothesis `hno` holds for the diamond and for the `<=` example: whatever is accepted has
-- no reachable cycle (contrapositive of `inline_cycle_rejected`)
example : ∀ g, Reach Pdia 0 g → ¬ OnCycle Pdia g := fun g hr hc =>
  (inline_cycle_rejected Pdia 0 g (by decide) hr hc).1 (by decide)
example : expandCall Pdia 0 = .ok :=
  inline_acyclic_ok Pdia (by decide) 0 (by decide) fun g hr hc =>
    (inline_cycle_rejected Pdia 0 g (by decide) hr hc).1 (by decide)
example : ∀ g, Reach Ple 1 g → ¬ OnCycle Ple g := fun g hr hc =>
  (inline_cycle_rejected Ple 1 g (by decide) hr hc).1 (by decide)


end InlineSec

-- ====================================================================================================
-- §3  strictness and redefinition on the core compiler model
-- ====================================================================================================
section ScopeSec
open Core

/-- the strict compile adds a check to, and otherwise IS, the byte-identical core compiler
    model of C01: whatever it emits is what `Core.compileCore` emits. -/
theorem strict_compile_bytes (P : Prog) (code : Val) (h : compileCoreStrict P = some code) :
    compileCore P = some code := by
  unfold compileCoreStrict at h
  split at h
  · exact h
  · cases h

/-- code is emitted EXACTLY when the live helper names are pairwise distinct and the program is
    closed (every variable occurrence and every called name in the main expression and in every
    live function resolves in its environment).  `_partial`: core language only. -/
theorem strict_compile_iff_partial (P : Prog) :
    (compileCoreStrict P).isSome = (nodupB (liveNames P) && closedProg P) :=
  compileCoreStrict_isSome P

/-- … so emitted code implies a closed program with distinct helper names … -/
theorem strict_compile_closed_partial (P : Prog) (code : Val) (h : compileCoreStrict P = some code) :
    closedProg P = true ∧ (liveNames P).Nodup := by
  have := strict_compile_iff_partial P
  rw [h] at this
  simp only [Option.isSome_some, Bool.true_eq, Bool.and_eq_true] at this
  exact ⟨this.2, nodupB_sound _ this.1⟩

/-- … in which every variable of the main expression is bound by the parameter pattern or names
    a live helper (no helper being called `@`), and likewise every called name … -/
theorem strict_compile_main_bound_partial (P : Prog) (code : Val) (h : compileCoreStrict P = some code)
    (hat : ∀ m ∈ liveNames P, m ≠ [64]) (n : Bytes) (hn : n ∈ varsOf P.body ∨ n ∈ callsOf P.body) :
    n ∈ liveNames P ∨ (Lang.nameLookup n P.params).isSome = true := by
  have hc := (strict_compile_closed_partial P code h).1
  simp only [closedProg, Bool.and_eq_true] at hc
  apply nameLookup_envShape n (liveNames P) P.params hat
  rcases hn with hn | hn
  · exact closedE_vars _ P.body hc.1 n hn
  · exact closedE_calls _ P.body hc.1 n hn

/-- … and every variable / called name of every LIVE function is bound by that function's
    parameter pattern or names a live helper. -/
theorem strict_compile_fn_bound_partial (P : Prog) (code : Val) (h : compileCoreStrict P = some code)
    (hat : ∀ m ∈ liveNames P, m ≠ [64]) (f : FnDef) (hf : f ∈ liveFns P) (n : Bytes)
    (hn : n ∈ varsOf f.body ∨ n ∈ callsOf f.body) :
    n ∈ liveNames P ∨ (Lang.nameLookup n f.params).isSome = true := by
  have hc := (strict_compile_closed_partial P code h).1
  simp only [closedProg, closedFns, Bool.and_eq_true, List.all_eq_true] at hc
  apply nameLookup_envShape n (liveNames P) f.params hat
  rcases hn with hn | hn
  · exact closedE_vars _ f.body (hc.2 f hf) n hn
  · exact closedE_calls _ f.body (hc.2 f hf) n hn

/-- an unbound variable in reachable code is rejected: a variable of the main expression or of
    a live function that does not resolve in its environment makes the strict compile fail. -/
theorem unbound_rejected_partial (P : Prog) (n : Bytes)
    (h : (n ∈ varsOf P.body ∧ Lang.nameLookup n (Lang.envShape (liveNames P) P.params) = none) ∨
         ∃ f ∈ liveFns P, n ∈ varsOf f.body ∧
           Lang.nameLookup n (Lang.envShape (liveNames P) f.params) = none) :
    compileCoreStrict P = none := by
  cases hc : compileCoreStrict P with
  | none => rfl
  | some code =>
    exfalso
    have hcl := (strict_compile_closed_partial P code hc).1
    simp only [closedProg, closedFns, Bool.and_eq_true, List.all_eq_true] at hcl
    rcases h with ⟨hn, hnone⟩ | ⟨f, hf, hn, hnone⟩
    · have := closedE_vars _ P.body hcl.1 n hn
      rw [hnone] at this; cases this
    · have := closedE_vars _ f.body (hcl.2 f hf) n hn
      rw [hnone] at this; cases this

/-- two live functions with the same name are rejected (`Cannot redefine`). -/
theorem redefinition_rejected_partial (P : Prog) (i j : Nat) (x : Bytes) (hij : i < j)
    (hi : (liveNames P)[i]? = some x) (hj : (liveNames P)[j]? = some x) :
    compileCoreStrict P = none := by
  unfold compileCoreStrict
  split
  · rename_i hnd
    exact absurd hj (fun hj => nodupB_no_repeat _ hnd i j x hij hi hj)
  · rfl

/-- the repaired twin compiles: distinct live names and a closed program suffice. -/
theorem repaired_compiles_partial (P : Prog) (hnd : nodupB (liveNames P) = true)
    (hc : closedProg P = true) : ∃ code, compileCoreStrict P = some code := by
  have := strict_compile_iff_partial P
  rw [hnd, hc] at this
  exact Option.isSome_iff_exists.mp this

-- non-vacuity ---------------------------------------------------------------------------------------

/-- `(mod (X) (defun F (A) (if A (+ A 1) (q . 7))) (F X))` -/
private def pGood : Prog :=
  { params := .cons (.atom [88]) .nil,
    fns := [⟨[70], .cons (.atom [65]) .nil,
             .ite (.var [65]) (.op 16 (.cons (.var [65]) (.cons (.lit (.atom [1])) .nil))) (.lit (.atom [7]))⟩],
    body := .call [70] (.cons (.var [88]) .nil) }
/-- the same with the unbound `Z` in the live function `F`: `(+ Z 1)` -/
private def pUnbound : Prog :=
  { pGood with fns := [⟨[70], .cons (.atom [65]) .nil,
             .ite (.var [65]) (.op 16 (.cons (.var [90]) (.cons (.lit (.atom [1])) .nil))) (.lit (.atom [7]))⟩] }
/-- the unbound `Z` in a function nobody calls: dropped with the function, accepted -/
private def pUnboundDead : Prog :=
  { pGood with fns := pGood.fns ++ [⟨[71], .cons (.atom [65]) .nil, .var [90]⟩] }
/-- a second `(defun F …)` -/
private def pDup : Prog :=
  { pGood with fns := pGood.fns ++ [⟨[70], .cons (.atom [66]) .nil, .var [66]⟩] }
/-- a duplicated function nobody calls: both copies are dropped, accepted -/
private def pDupDead : Prog :=
  { pGood with fns := pGood.fns ++ [⟨[71], .cons (.atom [66]) .nil, .var [66]⟩, ⟨[71], .cons (.atom [66]) .nil, .var [66]⟩] }

example : (compileCoreStrict pGood).isSome = true := by decide
example : nodupB (liveNames pGood) = true ∧ closedProg pGood = true := by decide
example : compileCoreStrict pUnbound = none := by decide
example : compileCoreStrict pUnbound = none :=
  unbound_rejected_partial pUnbound [90] (.inr ⟨_, List.mem_singleton.mpr rfl, by decide, by decide⟩)
example : (compileCoreStrict pUnboundDead).isSome = true := by decide
example : compileCoreStrict pDup = none := by decide
example : compileCoreStrict pDup = none :=
  redefinition_rejected_partial pDup 0 1 [70] (by decide) (by decide) (by decide)
example : (compileCoreStrict pDupDead).isSome = true := by decide
example : ∃ code, compileCoreStrict pGood = some code := repaired_compiles_partial pGood (by decide) (by decide)
example : compileCoreStrict pGood = compileCore pGood := by decide

end ScopeSec

-- ====================================================================================================
-- §4  quasi-quotation: which positions of a template are evaluated
-- ====================================================================================================
section QQSec
open QQ

/-
  FULL statement (every unquote of a template is an evaluated position — what makes an unbound
  name under it an "Unbound use" error):

      theorem qq_unquotes_evaluated (t : Rich) (F : Form) (h : qqExpr t = some F) :
          evals F = unquotesOf t

  It is FALSE for the code as it is (finding C10-F1): `qq_to_expression` returns a list whose
  head spells `q` or `1` quoted as a whole.  `qq_quote_head_counterexample` is the witness;
  `qq_unquotes_evaluated_partial` proves the statement with the finding's predicate
  `noQuoteHead` as hypothesis.
-/

/-- the template `(1 (unquote zork))`, and `(113 (unquote zork))` (113 = `q` as a number). -/
private def tOne : Rich := .cons (.int 1) (.cons (.cons (.atom kwUnquote) (.cons (.atom [122, 111, 114, 107]) .nil)) .nil)
private def t113 : Rich := .cons (.int 113) (.cons (.cons (.atom kwUnquote) (.cons (.atom [122, 111, 114, 107]) .nil)) .nil)
/-- `(7 (unquote zork))` -/
private def tSeven : Rich := .cons (.int 7) (.cons (.cons (.atom kwUnquote) (.cons (.atom [122, 111, 114, 107]) .nil)) .nil)

/-- finding C10-F1: an unquote that textbook quasi-quotation evaluates, and `qq_to_expression`
    does not — the whole template is returned as quoted data. -/
theorem qq_quote_head_counterexample :
    ∃ t F x, qqExpr t = some F ∧ x ∈ unquotesOf t ∧ x ∉ evals F :=
  ⟨tOne, .quoted tOne, .atom [122, 111, 114, 107], by decide, by decide, by decide⟩

example : qqExpr t113 = some (.quoted t113) ∧ unquotesOf t113 = [.atom [122, 111, 114, 107]] := by decide

/-- without such a head anywhere in the template, exactly the unquoted operands are evaluated,
    in order — for every template. -/
theorem qq_unquotes_evaluated_partial (t : Rich) (F : Form) (hq : noQuoteHead t = true)
    (h : qqExpr t = some F) : evals F = unquotesOf t :=
  evals_qqExpr t hq F h

example : noQuoteHead tSeven = true ∧ noQuoteHead tOne = false ∧ noQuoteHead t113 = false := by decide
example : (qqExpr tSeven).map evals = some [.atom [122, 111, 114, 107]] := by decide
example : ∀ F, qqExpr tSeven = some F → evals F = unquotesOf tSeven :=
  fun F h => qq_unquotes_evaluated_partial tSeven F (by decide) h

end QQSec

end C10
