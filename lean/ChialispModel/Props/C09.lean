/-
  Props/C09.lean — property theorems for C09:
  printed values and programs re-read to the identical value in both syntaxes.

  Models: Text/IR.lean (classic `disassemble` / `write_ir` / IR reader / `assemble`),
  Text/Printer.lean (`SExp::to_string`), Text/ModernReader.lean (`parse_sexp`), Text/Rich.lean
  (`convert_from_clvm_rs` / `convert_to_clvm_rs`), Text/KwTables.lean (operator keyword tables).
  All three stages of the plan are closed: ATOM level, TOKEN-STREAM level and TREE level
  (by induction over arbitrary values; no size bounds).  Helper lemmas are in Proofs/.

  FULL statement of the first sentence of the property, proved as `classic_roundtrip`:
      ∀ ver v, IR.assemble (IR.disassemble ver v) = .ok v
  It was FALSE for the code as found: an atom printed as a quoted string kept its backslashes
  unescaped while the assembler reads a backslash as an escape (finding C09-classic-backslash).
  That defect is repaired in /repo (fix: 1c2814c, `Bytes::to_formal_string` passes
  `full_repr = true`); the model constant `IR.codeFullRepr` mirrors the repaired code
  (`model_is_repaired`) and is tied to it by the correspondence run (text of every atom class incl.
  backslash-containing printable strings).  The theorems about the UNREPAIRED writer
  (`IR.disassembleWith false`) are kept: they state exactly what a regression of that repair would
  break (`classic_roundtrip_unrepaired_partial`, `…_counterexample`, `…_defect_class_exact`).

  The third sentence (command-line text denotes library bytes) is proved for compilation results
  without bare symbol atoms (`cli_text_denotes_library_bytes_partial`); a quoted bareword constant that
  is an operator name is a genuine counterexample (`cli_text_bareword_counterexample`, finding
  C09-cli-bare-symbol-constant).
-/
import ChialispModel.Text.IR
import ChialispModel.Text.Printer
import ChialispModel.Text.ModernReader
import ChialispModel.Proofs.IRLemmas
import ChialispModel.Proofs.WriterLemmas
import ChialispModel.Proofs.PrinterLemmas
import ChialispModel.Proofs.ModernPrintLemmas

namespace C09
open Rich

-- ── classic pair ────────────────────────────────────────────────────────────────────────────────

/-- THE FIRST SENTENCE OF THE PROPERTY, in full: for every operator-set version and every CLVM value
    (no size bound, no hypothesis) the disassembled text assembles to the identical value. -/
theorem classic_roundtrip (ver : Nat) (v : Val) :
    IR.assemble (IR.disassemble ver v) = .ok v :=
  IR.assemble_disassembleWith IR.codeFullRepr ver v (fun h => absurd h (by decide))

/-- the model mirrors the code AS IT IS NOW (after fix 1c2814c): the writer escapes backslashes. -/
theorem model_is_repaired : IR.codeFullRepr = true := rfl

/-- the former witness of the defect now round-trips: bytes `61 5c 62` print as `"a\\b"`. -/
theorem classic_roundtrip_backslash_repaired :
    IR.disassemble 2 (.atom [0x61, 0x5c, 0x62]) = [0x22, 0x61, 0x5c, 0x5c, 0x62, 0x22] ∧
    IR.assemble (IR.disassemble 2 (.atom [0x61, 0x5c, 0x62])) = .ok (.atom [0x61, 0x5c, 0x62]) := by
  decide

/-- either setting of the writer's flag: with the repair for every value (this is what
    `classic_roundtrip` instantiates). -/
theorem classic_roundtrip_with_fix (ver : Nat) (v : Val) :
    IR.assemble (IR.disassembleWith true ver v) = .ok v :=
  IR.assemble_disassembleWith true ver v (fun h => absurd h (by decide))

-- what a regression of the repair would break (the UNREPAIRED writer, `full_repr = false`)

/-- the unrepaired writer round-trips every value none of whose atoms is in the defect class. -/
theorem classic_roundtrip_unrepaired_partial (ver : Nat) (v : Val) (h : IR.noBackslashQuoted v = true) :
    IR.assemble (IR.disassembleWith false ver v) = .ok v :=
  IR.assemble_disassembleWith false ver v (fun _ => h)

/-- witness of the former defect: bytes `61 5c 62` printed as `"a\b"` and assembled to `61 62`. -/
theorem classic_roundtrip_unrepaired_counterexample :
    IR.disassembleWith false 2 (.atom [0x61, 0x5c, 0x62]) = [0x22, 0x61, 0x5c, 0x62, 0x22] ∧
    IR.assemble (IR.disassembleWith false 2 (.atom [0x61, 0x5c, 0x62])) = .ok (.atom [0x61, 0x62]) := by
  decide

/-- EVERY atom of the defect class (printed as a quoted string, contains a backslash) fails to
    round-trip through the unrepaired writer: the repair is necessary for exactly that class. -/
theorem classic_unrepaired_defect_class_exact (ver : Nat) (b : Bytes) (h : IR.backslashQuoted b = true) :
    IR.assemble (IR.disassembleWith false ver (.atom b)) ≠ .ok (.atom b) :=
  IR.backslash_atom_fails ver b h

/-- the explicit stack machine of `ir/writer.rs` writes exactly the text the theorems are about. -/
theorem writer_machine_eq (ir : IR) (fuel : Nat) (h : IR.machineFuel ir ≤ fuel) :
    IR.writeMachine fuel [.start ir] [] = IR.writeIR ir :=
  IR.writeMachine_eq ir fuel h

-- ── ATOM level (the committed stage), one theorem per printer choice ────────────────────────────────

/-- decimal: `BigInt::from_str_radix(.., 10)` inverts `BigInt::to_string` for every integer. -/
theorem atom_decimal (i : Int) : Lex.parseBigInt (Lex.intToDec i) = some i :=
  Lex.parseBigInt_intToDec i

/-- a 1–2 byte atom that passes the disassembler's canonical-integer test is re-encoded to itself. -/
theorem atom_short_int (b : Bytes) (h : Bytes.shortCanonical b = true) : Bytes.ofIntClvm (Bytes.toInt b) = b :=
  Bytes.ofIntClvm_toInt_short b h

/-- hex: both hex parsers invert hex printing. -/
theorem atom_hex (b : Bytes) : Lex.ofHexStrict (Lex.toHex b) = some b ∧ Lex.ofHexLossy false (Lex.toHex b) = b :=
  ⟨Lex.ofHexStrict_toHex b, Lex.ofHexLossy_toHex b⟩

/-- keywords: whatever name `keyword_from_atom(ver)` gives (any version) is a token the reader takes
    as a symbol, and the assembler's latest `keyword_to_atom` maps it back to the same atom. -/
theorem atom_keyword (ver : Nat) (atom kw : Bytes) (h : KwTables.keywordFromAtom ver atom = some kw) :
    IR.goodSymbol kw = true ∧ IR.symbolAtom kw = atom :=
  IR.kw_inverse ver atom kw h

/-- quoted strings: a string of printable bytes without `"` (and, if the writer does not escape it,
    without backslash: `PlainQ false`) is read back unchanged, whatever follows the closing quote. -/
theorem atom_quoted (fr : Bool) (b : Bytes) (h : ∀ c ∈ b, IR.PlainQ fr c) (rest : Bytes) :
    IR.consumeQuoted 34 false [] ((IR.toFormalStringWith fr b).drop 1 ++ rest) = .ok (.quotes b, rest) := by
  rw [IR.toFormalStringWith_eq]
  have := IR.consumeQuoted_repr fr b [] rest h
  simpa using this

-- ── modern printer ───────────────────────────────────────────────────────────────────────────────

/-- In the fixed integer mode the modern print of (the rich form of) every CLVM value is read by the
    modern reader as exactly one form, which converts to the identical value. -/
theorem modern_roundtrip (v : Val) :
    ∃ r', MReader.parse (print (fromClvm true v)) = .ok [r'] ∧ toClvm true r' = v := by
  obtain ⟨hp, hv⟩ := parse_print (fromClvm true v) (fromClvm_noBare v)
  exact ⟨_, hp, by rw [hv, RichLemmas.to_from]⟩

/-- … and the classic assembler reads the same text to the identical value. -/
theorem modern_to_classic (v : Val) : IR.assemble (print (fromClvm true v)) = .ok v := by
  rw [assemble_print _ (fromClvm_noBare v), RichLemmas.to_from]

/-- the same for any rich value that contains no bare (unquoted) atom: integers, quoted strings of
    either quote kind, hex constants, nil and lists of them (what the compiler emits for literal
    constants). -/
theorem modern_roundtrip_rich (r : Rich) (h : NoBareAtom r = true) :
    ∃ r', MReader.parse (print r) = .ok [r'] ∧ toClvm true r' = toClvm true r :=
  ⟨_, (parse_print r h).1, (parse_print r h).2⟩

/-- Third sentence: the text the command line prints for a compilation result `r`
    (`r.to_string()`) assembles to the bytes the library emits (`convert_to_clvm_rs r`).
    `_partial`: `r` must not contain a bare atom (see `cli_text_bareword_counterexample`). -/
theorem cli_text_denotes_library_bytes_partial (r : Rich) (h : NoBareAtom r = true) :
    IR.assemble (print r) = .ok (toClvm true r) :=
  assemble_print r h

/-- why the hypothesis is there: a quoted bareword constant that is an operator name, e.g. the
    result `(1 . a)` of `(mod () (q . a))`, is printed bare and the classic assembler reads it as the
    operator (`02`) instead of the bytes `61`. -/
theorem cli_text_bareword_counterexample :
    IR.assemble (print (.cons (.int 1) (.atom [0x61]))) = .ok (.pair (.atom [1]) (.atom [2])) ∧
    toClvm true (.cons (.int 1) (.atom [0x61])) = .pair (.atom [1]) (.atom [0x61]) := by
  decide

-- ── non-vacuity ────────────────────────────────────────────────────────────────────────────────

-- a program with a keyword head, a quoted string, a negative number, a zero-padded atom and a dotted tail
example : IR.noBackslashQuoted
    (.pair (.atom [2]) (.pair (.pair (.atom [1]) (.atom [0x61, 0x62, 0x63])) (.pair (.atom [0xff]) (.atom [0, 0])))) = true := by
  decide
example : IR.backslashQuoted [0x61, 0x5c, 0x62] = true := by decide
example : IR.backslashQuoted [0x5c, 0x62] = false := by decide   -- two bytes: printed as a number, round-trips
example : KwTables.keywordFromAtom 0 [0x0b] = some [115, 104, 97, 50, 53, 54] := by decide
example : Bytes.shortCanonical [0xff, 0x7f] = true := by decide
example : NoBareAtom (.cons (.int (-5)) (.cons (.qstr 39 [0x69, 0x74, 0x27, 0x73]) (.qstr 120 [0, 1]))) = true := by decide
example : IR.machineFuel (.cons (.symbol [113]) (.int [5] true)) ≤ 20 := by decide

end C09
