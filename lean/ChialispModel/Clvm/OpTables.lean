/-
  Clvm/OpTables.lean — how the tools USE the operator tables of `Generated/Tables.lean`
  (hand-written, small; the data is regenerated from the sources on every run).

    src/classic/clvm/mod.rs            KEYWORD_FROM_ATOM_n / KEYWORD_TO_ATOM_n: a HashMap filled by
                                       `insert` over the filtered rows in order (a later row with the
                                       same key overwrites an earlier one), `keyword_*_atom(version)`
    src/compiler/prims.rs              prims() used as an association list, prim_map() as a HashMap
    stage_0.rs / clvmr chia_dialect.rs which operator atoms a dialect dispatches to an implementation
-/
import ChialispModel.Generated.Tables

namespace OpTables
open Tables

def Cmp.holds : Cmp → Nat → Nat → Bool
  | .eq, a, b => a == b
  | .le, a, b => a ≤ b
  | .lt, a, b => a < b
  | .ge, a, b => a ≥ b
  | .gt, a, b => a > b

/-- rows that pass the filter of table `n` (no such table: no rows). -/
def rowsOf (filters : List (Nat × Cmp × Nat)) (n : Nat) : List KwRow :=
  match filters.find? (fun f => f.1 == n) with
  | some (_, c, k) => kwPairs.filter (fun r => Cmp.holds c r.version k)
  | none => []

/-- `HashMap::get` after inserting `(key r, val r)` for the rows in order: the LAST row with that key. -/
def lookupLast (rows : List KwRow) (key val : KwRow → List Nat) (k : List Nat) : Option (List Nat) :=
  (rows.reverse.find? (fun r => key r == k)).map val

/-- `keyword_from_atom(version).get(atom)`. -/
def fromAtom (version : Nat) (atom : List Nat) : Option (List Nat) :=
  lookupLast (rowsOf fromTableFilters (fromTableOf version)) (·.opcode) (·.name) atom

/-- `keyword_to_atom(version).get(name)`. -/
def toAtom (version : Nat) (name : List Nat) : Option (List Nat) :=
  lookupLast (rowsOf toTableFilters (toTableOf version)) (·.name) (·.opcode) name

/-- big-endian digits of a positive number. -/
def beDigits : Nat → Nat → List Nat
  | 0, _ => []
  | fuel + 1, n => if n = 0 then [] else beDigits fuel (n / 256) ++ [n % 256]

/-- the atom a non-negative `SExp::Integer(n)` becomes in emitted code (`u8_from_number` /
    minimal signed big-endian: a leading 0x00 when the top bit is set; 0 is the empty atom). -/
def atomOfInt (n : Nat) : List Nat :=
  match beDigits 9 n with
  | [] => []
  | d :: ds => if d ≥ 128 then 0 :: d :: ds else d :: ds

/-- `prims()` searched as a list (first match), as `#name` reader syntax and codegen do through `prim_map`… -/
def primFirst (name : List Nat) : Option Nat :=
  (prims.find? (fun p => p.1 == name)).map (·.2)

/-- … and `prim_map()` (HashMap built by `insert` in order: last row wins). -/
def primMap (name : List Nat) : Option Nat :=
  (prims.reverse.find? (fun p => p.1 == name)).map (·.2)

/-- the operator atom the modern compiler emits for a primitive name. -/
def primAtom (name : List Nat) : Option (List Nat) := (primMap name).map atomOfInt

/-- big-endian value of a byte list. -/
def beValue (a : List Nat) : Nat := a.foldl (fun acc x => acc * 256 + x) 0

/-- does the dialect selected for `operators_version = v` dispatch the operator atom `a` to an
    implementation (as opposed to "unknown operator")?
    original: atoms longer than `origMaxLen` are unknown; `small_number` must succeed (a canonical
    non-negative number: one byte in 1..0x7f); then the arm list.
    chia: 4-byte atoms by their big-endian value; 1-byte atoms by the arm list, an arm guarded by a
    flag mask counting only when the dialect was created with that flag. -/
def dispatched (v : Nat) (a : List Nat) : Bool :=
  match dialectOf v with
  | (.original, _) =>
    match a with
    | [b] => decide (1 ≤ origMaxLen) && decide (0 < b) && decide (b < 128) && origOps.contains b
    | _ => false
  | (.chia, flags) =>
    if a.length = 4 then chiaOps4.contains (beValue a)
    else
      match a with
      | [b] => decide (0 < b) && decide (b < 128) &&
                 chiaOps.any (fun arm => arm.1 == b && (arm.2 == 0 || (flags &&& arm.2) == arm.2))
      | _ => false

/-- quote / apply / softfork: handled by the evaluator itself, not by `Dialect::op`. -/
def special (v : Nat) (a : List Nat) : Bool :=
  match dialectOf v with
  | (.original, _) => a == [origQuote] || a == [origApply] || a == [origSoftfork]
  | (.chia, _) => a == [chiaQuote] || a == [chiaApply] || a == [chiaSoftfork]

def implemented (v : Nat) (a : List Nat) : Bool := dispatched v a || special v a

/-- the atom is a key of `keyword_from_atom(v)`. -/
def named (v : Nat) (a : List Nat) : Bool := (fromAtom v a).isSome

/-- the name the classic disassembler prints for an operator atom in head position
    (`ir_for_atom`, src/classic/clvm_tools/binutils.rs): with `lim = some m` the keyword table is
    consulted only in the branch for atoms of AT MOST `m` bytes (longer atoms are printed as strings
    or hex); with `none` for every atom. -/
def disasmNameWith (lim : Option Nat) (v : Nat) (a : List Nat) : Option (List Nat) :=
  match lim with
  | some m => if a.length > m then none else fromAtom v a
  | none => fromAtom v a

/-- … as the sources have it now (`disasmKeywordMaxLen` is regenerated). -/
def disasmName (v : Nat) (a : List Nat) : Option (List Nat) := disasmNameWith disasmKeywordMaxLen v a

/-- is `a` the operator atom of some primitive (`prim_map.values().any(..)` on the integer)? -/
def isPrimOpcode (a : List Nat) : Bool := prims.any (fun p => atomOfInt p.2 == a)

/-- `translate_head` of the stepping evaluator (src/compiler/clvm.rs) on an operator atom `a` of
    compiled code, which reaches it as `Integer` (convert_from_clvm_rs spells every minimally
    encoded atom so): an integer that already IS a primitive's opcode is left alone
    (fix: 5f6df3d; before, 61 `%` was run as `=` and 62 `keccak256` as `>`); any other integer is
    looked up in `prim_map()` through its byte image AS A NAME, and only when it is no primitive
    name is it run as the opcode it is. -/
def stepperOp (a : List Nat) : List Nat :=
  match primMap a with
  | some code => if isPrimOpcode a then a else atomOfInt code
  | none => a

/-- all operator atoms any table or dialect mentions that are not a single byte. -/
def longOpcodes : List (List Nat) :=
  (kwPairs.map (·.opcode)).filter (fun a => a.length ≠ 1) ++
  chiaOps4.map (fun n => [n / 16777216 % 256, n / 65536 % 256, n / 256 % 256, n % 256]) ++
  (prims.map (fun p => atomOfInt p.2)).filter (fun a => a.length ≠ 1)

end OpTables
