/-
  Clvm/SerdeSpec.lean — the consensus serialisation (clvmr `node_to_bytes` /
  `node_from_bytes`), used as the specification side of C08 and as the value syntax of the
  harness/driver line protocol.
-/
import ChialispModel.Base.Val

namespace SerdeSpec

/-- clvmr `write_atom` size prefix (atoms below 2^34 bytes). -/
def sizePrefix (n : Nat) : Option Bytes :=
  if n < 0x40 then some [UInt8.ofNat (0x80 ||| n)]
  else if n < 0x2000 then some [UInt8.ofNat (0xC0 ||| (n >>> 8)), UInt8.ofNat (n &&& 0xff)]
  else if n < 0x100000 then
    some [UInt8.ofNat (0xE0 ||| (n >>> 16)), UInt8.ofNat ((n >>> 8) &&& 0xff), UInt8.ofNat (n &&& 0xff)]
  else if n < 0x8000000 then
    some [UInt8.ofNat (0xF0 ||| (n >>> 24)), UInt8.ofNat ((n >>> 16) &&& 0xff),
          UInt8.ofNat ((n >>> 8) &&& 0xff), UInt8.ofNat (n &&& 0xff)]
  else if n < 0x400000000 then
    some [UInt8.ofNat (0xF8 ||| (n >>> 32)), UInt8.ofNat ((n >>> 24) &&& 0xff),
          UInt8.ofNat ((n >>> 16) &&& 0xff), UInt8.ofNat ((n >>> 8) &&& 0xff), UInt8.ofNat (n &&& 0xff)]
  else none

def encodeAtom (b : Bytes) : Option Bytes :=
  match b with
  | [] => some [0x80]
  | [x] => if x.toNat < 0x80 then some [x] else (sizePrefix 1).map (· ++ b)
  | _ => (sizePrefix b.length).map (· ++ b)

def encode : Val → Option Bytes
  | .atom b => encodeAtom b
  | .pair a d =>
    match encode a, encode d with
    | some x, some y => some (0xff :: (x ++ y))
    | _, _ => none

/-- number of leading one bits of a byte ≥ 0x80. -/
def leadingOnes (b : Nat) : Nat :=
  if b < 0x80 then 0 else if b < 0xC0 then 1 else if b < 0xE0 then 2 else if b < 0xF0 then 3
  else if b < 0xF8 then 4 else if b < 0xFC then 5 else if b < 0xFE then 6 else if b < 0xFF then 7 else 8

/-- `decode_size`: (first byte ≥ 0x80, rest) ↦ (atom size, rest after the prefix). -/
def decodeSize (b0 : Nat) (rest : Bytes) : Option (Nat × Bytes) :=
  let k := leadingOnes b0
  if k ≥ 8 then none else
  let first := b0 &&& (0xff >>> k)
  if rest.length < k - 1 then none else
  if k > 6 then none else
  let sz := Bytes.toNatBE (UInt8.ofNat first :: rest.take (k - 1))
  if sz ≥ 0x400000000 then none else some (sz, rest.drop (k - 1))

/-- `node_from_stream`: one value from the front of the stream, and the remaining bytes. -/
def decodeAux : Nat → Bytes → Option (Val × Bytes)
  | 0, _ => none
  | _, [] => none
  | fuel+1, b :: rest =>
    if b = 0xff then
      match decodeAux fuel rest with
      | some (a, r1) =>
        match decodeAux fuel r1 with
        | some (d, r2) => some (.pair a d, r2)
        | none => none
      | none => none
    else if b = 0x80 then some (Val.nil, rest)
    else if b.toNat < 0x80 then some (.atom [b], rest)
    else
      match decodeSize b.toNat rest with
      | some (sz, r) => if r.length < sz then none else some (.atom (r.take sz), r.drop sz)
      | none => none

/-- `node_from_bytes` (trailing bytes are ignored by clvmr). -/
def decode (bs : Bytes) : Option Val := (decodeAux (bs.length + 1) bs).map (·.1)

def toHex (v : Val) : String :=
  match encode v with
  | some b => Bytes.toHex b
  | none => "!toolarge"

def ofHex (s : String) : Option Val := (Bytes.ofHex s).bind decode

end SerdeSpec
