/-
  Clvm/Serde.lean — model of the classic (de)serialiser of clvm_tools_rs, written to MIRROR
  the Rust code as it is (defects included):

    src/classic/clvm/serialize.rs            atom_size_blob, SExpToBytesIterator, sexp_to_stream,
                                             OpCons / OpReadSexp, sexp_from_stream, atom_from_stream
    src/classic/clvm/casts.rs                int_from_bytes
    src/classic/clvm/__type_compatibility__.rs   get_u32, Stream::read / Stream::write

  Conventions.
  * A `Stream` that is only read is modelled by the list of bytes not yet consumed:
    `Stream::read(n)` returns `take n` and leaves `drop n` (a short read returns what is left
    and moves the seek to the end — exactly `take`/`drop` on lists).  A `Stream` that is only
    written at its end is modelled by the concatenation of the chunks written.
  * `u64` arithmetic is written on `Nat` with explicit `% 2^64`.
  * `x | (y << 8) | …` on disjoint byte lanes is written `x + y * 0x100 + …`.
  * The specification side (clvmr) is `SerdeSpec`; nothing here refers to it.
  * Two source-level facts are PARAMETERS (`SerdeCfg`, regenerated from the sources on every run
    by tools/translate_c08.py): the byte order of `get_u32` and whether `atom_from_stream` rejects
    7-byte length prefixes.  `SerdeCfg.asFound` is the code as found (both defects present),
    `SerdeCfg.fixed` the repaired code; the theorems cover every configuration.
-/
import ChialispModel.Base.Val
import ChialispModel.Generated.SerdeCfg

namespace Serde

inductive SerErr where
  | badEncoding      -- "bad encoding"
  | blobTooLarge     -- "blob too large"
  | intTooLarge      -- "Cannot convert Bytes to Integer larger than 64bit"
  | noValue          -- "No value left after conversion"
  | fuel             -- model artefact: step budget exhausted (proved unreachable, `decode_total`)
  deriving Repr, DecidableEq, Inhabited

-- ---------------------------------------------------------------------------------------
-- __type_compatibility__.rs / casts.rs
-- ---------------------------------------------------------------------------------------

/-- `get_u32(v, n)`: `p1 | (p2 << 8) | (p3 << 16) | (p4 << 24)` — the FIRST byte is the
    LEAST significant one (little-endian), although every caller treats the 4-byte groups
    and the left-over bytes as big-endian. -/
def getU32 (cfg : SerdeCfg) (v : Bytes) (n : Nat) : Nat :=
  if cfg.u32LittleEndian then
    (v.getD n 0).toNat + (v.getD (n + 1) 0).toNat * 0x100 + (v.getD (n + 2) 0).toNat * 0x10000
      + (v.getD (n + 3) 0).toNat * 0x1000000
  else
    (v.getD n 0).toNat * 0x1000000 + (v.getD (n + 1) 0).toNat * 0x10000 + (v.getD (n + 2) 0).toNat * 0x100
      + (v.getD (n + 3) 0).toNat

def u64 (n : Nat) : Nat := n % 18446744073709551616

/-- `order <<= 32` / `order <<= 8` on a `u64`. -/
def shl32 (order : Nat) : Nat := u64 (order * 4294967296)
def shl8 (order : Nat) : Nat := u64 (order * 256)

/-- `for i_reverse in 0..bytes4_length { let i = bytes4_length - i_reverse - 1;
      unsigned64 += get_u32(&dv, i * 4 + bytes4_remain) as u64 * order; order <<= 32; }`
    state = (unsigned64, order).  (Written as a fold over the range, not by recursion on a
    counter: large literals inside structurally recursive bodies stall Lean's equation compiler.) -/
def groupLoop (cfg : SerdeCfg) (dv : Bytes) (rem len4 : Nat) (st : Nat × Nat) : Nat × Nat :=
  (List.range len4).foldl
    (fun st iRev => (u64 (st.1 + getU32 cfg dv ((len4 - iRev - 1) * 4 + rem) * st.2), shl32 st.2)) st

/-- `for i_reverse in 0..bytes4_remain { let i = bytes4_remain - i_reverse - 1;
      unsigned64 += dv[i] as u64 * order; order <<= 8; }` -/
def byteLoop (dv : Bytes) (rem : Nat) (st : Nat × Nat) : Nat × Nat :=
  (List.range rem).foldl
    (fun st iRev => (u64 (st.1 + (dv.getD (rem - iRev - 1) 0).toNat * st.2), shl8 st.2)) st

/-- `int_from_bytes(b, None)` (unsigned; the only mode the deserialiser uses).
    (`if bytes4_length == 0 { order = 1 }` is a no-op: `order` is still 1 then.) -/
def intFromBytes (cfg : SerdeCfg) (b : Bytes) : Except SerErr Nat :=
  if b.length = 0 then .ok 0
  else if b.length * 8 > 64 then .error .intTooLarge
  else .ok (byteLoop b (b.length % 4) (groupLoop cfg b (b.length % 4) (b.length / 4) (0, 1))).1

-- ---------------------------------------------------------------------------------------
-- serialize.rs : encoder
-- ---------------------------------------------------------------------------------------

/-- `atom_size_blob`: `(original, prefix)`; `none` = `Err("oversize bytes is unrepresentable")`. -/
def atomSizeBlob (b : Bytes) : Option (Bool × Bytes) :=
  if b.length = 0 then some (false, [0x80])
  else if b.length = 1 ∧ (b.getD 0 0).toNat ≤ 0x7f then some (false, b)
  else if b.length < 0x40 then some (true, [UInt8.ofNat (0x80 ||| b.length)])
  else if b.length < 0x2000 then
    some (true, [UInt8.ofNat (0xC0 ||| (b.length >>> 8)), UInt8.ofNat (b.length &&& 0xff)])
  else if b.length < 0x100000 then
    some (true, [UInt8.ofNat (0xE0 ||| (b.length >>> 16)), UInt8.ofNat ((b.length >>> 8) &&& 0xff),
                 UInt8.ofNat (b.length &&& 0xff)])
  else if b.length < 0x8000000 then
    some (true, [UInt8.ofNat (0xF0 ||| (b.length >>> 24)), UInt8.ofNat ((b.length >>> 16) &&& 0xff),
                 UInt8.ofNat ((b.length >>> 8) &&& 0xff), UInt8.ofNat (b.length &&& 0xff)])
  else if b.length < 0x400000000 then
    some (true, [UInt8.ofNat (0xF8 ||| (b.length / (65536 * 65536))),
                 UInt8.ofNat ((b.length >>> 24) &&& 0xff), UInt8.ofNat ((b.length >>> 16) &&& 0xff),
                 UInt8.ofNat ((b.length >>> 8) &&& 0xff), UInt8.ofNat (b.length &&& 0xff)])
  else none

/-- `SExpToByteOp`. -/
inductive EncOp where
  | blob (b : Bytes)
  | object (v : Val)

/-- the chunk `next()` yields for an atom and the state pushed; `none` ends the iteration. -/
def atomStep (b : Bytes) (state : List EncOp) : Option (Bytes × List EncOp) :=
  match atomSizeBlob b with
  | some (true, pre) => some (pre, .blob b :: state)
  | some (false, pre) => some (pre, state)
  | none => none

/-- `for b in SExpToBytesIterator { f.write(b) }`: the concatenation of the chunks `next()`
    yields until the state stack is empty or `next()` returns `None` (an unrepresentable
    atom silently ENDS the iteration).  Head of the list = top of the `Vec` stack.
    `fuel` bounds the number of `next()` calls. -/
def encodeLoop : Nat → List EncOp → Bytes
  | 0, _ => []
  | _, [] => []
  | fuel + 1, .blob b :: state => b ++ encodeLoop fuel state
  | fuel + 1, .object (.pair f r) :: state => 0xff :: encodeLoop fuel (.object f :: .object r :: state)
  | fuel + 1, .object (.atom b) :: state =>
    match atomStep b state with
    | some (chunk, state') => chunk ++ encodeLoop fuel state'
    | none => []

/-- `sexp_to_stream` into an empty stream / `sexp_as_bin`.  Every node costs at most two
    `next()` calls. -/
def encode (v : Val) : Bytes := encodeLoop (2 * v.size + 1) [.object v]

-- ---------------------------------------------------------------------------------------
-- serialize.rs : decoder
-- ---------------------------------------------------------------------------------------

/-- `while (b & bit_mask) != 0 { bit_count += 1; b ^= bit_mask; bit_mask >>= 1 }`
    returns `(bit_count, b)`.  (`bit_mask` is a `u8`: after eight shifts it is 0.) -/
def stripBits : (fuel : Nat) → (b mask count : Nat) → Nat × Nat
  | 0, b, _, count => (count, b)
  | fuel + 1, b, mask, count =>
    if b &&& mask ≠ 0 then stripBits fuel (b ^^^ mask) (mask >>> 1) (count + 1) else (count, b)

def bitCount (b : UInt8) : Nat := (stripBits 9 b.toNat 0x80 0).1
def sizeByte (b : UInt8) : UInt8 := UInt8.ofNat (stripBits 9 b.toNat 0x80 0).2

/-- the closure after `int_from_bytes`: size check, `f.read(size)`, length check, `new_atom`.
    Returns the result and the stream afterwards ("blob too large" consumes nothing, a short
    read consumes everything that was left). -/
def readBlob (f : Bytes) (size : Nat) : Except SerErr Bytes × Bytes :=
  if size ≥ 0x400000000 then (.error .blobTooLarge, f)
  else if (f.take size).length ≠ size then (.error .badEncoding, f.drop size)
  else (.ok (f.take size), f.drop size)

def sizedAtom (cfg : SerdeCfg) (f : Bytes) (sizeBlob : Bytes) : Except SerErr Bytes × Bytes :=
  match intFromBytes cfg sizeBlob with
  | .ok size => readBlob f size
  | .error e => (.error e, f)

/-- `atom_from_stream(allocator, f, b, _)`: result and the stream afterwards. -/
def atomFromStream (cfg : SerdeCfg) (f : Bytes) (b : UInt8) : Except SerErr Bytes × Bytes :=
  if b = 0x80 then (.ok [], f)
  else if b.toNat ≤ 0x7f then (.ok [b], f)
  else if cfg.accept7 = false ∧ bitCount b > 6 then (.error .badEncoding, f)   -- only in the repaired code
  else if bitCount b > 1 then
    if (f.take (bitCount b - 1)).length ≠ bitCount b - 1 then (.error .badEncoding, f.drop (bitCount b - 1))
    else sizedAtom cfg (f.drop (bitCount b - 1)) (sizeByte b :: f.take (bitCount b - 1))
  else sizedAtom cfg f [sizeByte b]

/-- `OpStackEntry` implementors. -/
inductive Op where
  | cons   -- OpCons
  | read   -- OpReadSexp
  deriving Repr, DecidableEq

/-- `while let Some(Some(func)) = op_stack.pop() { func.invoke(..); }` — the value each
    `invoke` returns (an `Option<EvalErr>`) is DROPPED, exactly as in the code; an error is
    visible only through the missing push.  Heads of the lists are the tops of the `Vec`s.
    Returns the value stack when the op stack is empty. -/
def runOps (cfg : SerdeCfg) : Nat → List Op → List Val → Bytes → Except SerErr (List Val)
  | 0, _, _, _ => .error .fuel
  | _ + 1, [], vals, _ => .ok vals
  | fuel + 1, .cons :: ops, vals, f =>
    match vals with
    | r :: l :: vs => runOps cfg fuel ops (.pair l r :: vs) f   -- to_sexp_f(TupleOf(l, r))
    | [_] => runOps cfg fuel ops [] f                            -- r popped, no l: r is lost
    | [] => runOps cfg fuel ops [] f
  | fuel + 1, .read :: ops, vals, f =>
    match f with
    | [] => runOps cfg fuel ops vals []                          -- "bad encoding", dropped
    | b :: f' =>
      if b = 0xff then runOps cfg fuel (.read :: .read :: .cons :: ops) vals f'
      else
        match atomFromStream cfg f' b with
        | (.ok a, f'') => runOps cfg fuel ops (.atom a :: vals) f''
        | (.error _, f'') => runOps cfg fuel ops vals f''        -- error dropped

def decodeFuel (bs : Bytes) : Nat := 3 * bs.length + 2

/-- `sexp_from_stream(allocator, Stream::new(bs), SimpleCreateCLVMObject)`: the TOP of the
    value stack is returned if there is one (the stack is not required to be a singleton). -/
def decode (cfg : SerdeCfg) (bs : Bytes) : Except SerErr Val :=
  match runOps cfg (decodeFuel bs) [.read] [] bs with
  | .ok (v :: _) => .ok v
  | .ok [] => .error .noValue
  | .error e => .error e

-- ---------------------------------------------------------------------------------------
-- reference forms used by the theorems (and reported by the driver as branch tags)
-- ---------------------------------------------------------------------------------------

/-- recursive form of the encoder (what the iterator is proved to compute). -/
def encodeRec : Val → Bytes
  | .atom b =>
    match atomSizeBlob b with
    | some (true, pre) => pre ++ b
    | some (false, pre) => pre
    | none => []
  | .pair a d => 0xff :: (encodeRec a ++ encodeRec d)

/-- the error-free recursive reading of one value (what the op-stack machine is proved to
    compute): `none` as soon as any read fails. -/
def parse (cfg : SerdeCfg) : Nat → Bytes → Option (Val × Bytes)
  | 0, _ => none
  | _, [] => none
  | fuel + 1, b :: rest =>
    if b = 0xff then
      match parse cfg fuel rest with
      | some (a, r1) =>
        match parse cfg fuel r1 with
        | some (d, r2) => some (.pair a d, r2)
        | none => none
      | none => none
    else
      match atomFromStream cfg rest b with
      | (.ok a, r) => some (.atom a, r)
      | (.error _, _) => none

/-- the error-free reading meets an atom header of the 4-or-more-byte length class
    (first byte ≥ 0xf0) — the class whose size `int_from_bytes` assembles through `get_u32`. -/
def usesWide (cfg : SerdeCfg) : Nat → Bytes → Bool
  | 0, _ => false
  | _, [] => false
  | fuel + 1, b :: rest =>
    if b = 0xff then
      usesWide cfg fuel rest ||
        (match parse cfg fuel rest with
         | some (_, r1) => usesWide cfg fuel r1
         | none => false)
    else decide (b.toNat ≥ 0xf0)

/-- every atom is shorter than `n` bytes. -/
def AtomsBelow (n : Nat) : Val → Prop
  | .atom b => b.length < n
  | .pair a d => AtomsBelow n a ∧ AtomsBelow n d

instance (n : Nat) : (v : Val) → Decidable (AtomsBelow n v)
  | .atom b => inferInstanceAs (Decidable (b.length < n))
  | .pair a d =>
    have := instDecidableAtomsBelow n a
    have := instDecidableAtomsBelow n d
    inferInstanceAs (Decidable (AtomsBelow n a ∧ AtomsBelow n d))

end Serde
