/-
  Clvm/Eval.lean — the consensus evaluator (clvmr `run_program`) as a fuel-indexed big-step
  function, parametric in the operator table.  Mirrors `eval_pair` / `eval_op_atom` /
  `apply_op`; arguments are evaluated last-to-first exactly as clvmr's op stack does.
  `softfork` (36) is outside every property's quantifier and is a failure here.
-/
import ChialispModel.Base.Path
import ChialispModel.Clvm.Ops

namespace Clvm

/-- `get_args::<2>` for `a`. -/
def twoArgs (v : Val) : Option (Val × Val) :=
  match Ops.getArgs 2 v with
  | some [p, e] => some (p, e)
  | _ => none

mutual
/-- `eval_pair` -/
def evalC (ops : OpSem) : Nat → Val → Val → Res
  | 0, _, _ => .error .fuel
  | _+1, .atom b, env => Path.lookup b env
  | n+1, .pair (.pair x xr) args, _env =>
    -- `((X) . args)`: `get_args::<1>` on the head list, X must be an atom; args are NOT evaluated
    match xr, x with
    | .atom _, .atom xb => applyC ops n xb args
    | _, _ => failR "bad ((X)...) head"
  | n+1, .pair (.atom op) args, env =>
    if Ops.smallNumber op = some 1 then .ok args
    else
      match evalArgsC ops n args env with
      | .ok vals => applyC ops n op vals
      | .error e => .error e
/-- `apply_op` -/
def applyC (ops : OpSem) : Nat → Bytes → Val → Res
  | 0, _, _ => .error .fuel
  | n+1, op, operands =>
    if Ops.smallNumber op = some 2 then
      match twoArgs operands with
      | some (p, e) => evalC ops n p e
      | none => failR "apply args"
    else if Ops.smallNumber op = some 36 then failR "softfork unsupported"
    else ops.apply op operands
/-- operand evaluation: terminator checked first, then last operand first. -/
def evalArgsC (ops : OpSem) : Nat → Val → Val → Res
  | 0, _, _ => .error .fuel
  | _+1, .atom b, _ => if b.isEmpty then .ok Val.nil else failR "bad nil terminator"
  | n+1, .pair a rest, env =>
    match evalArgsC ops n rest env with
    | .ok rs =>
      match evalC ops n a env with
      | .ok v => .ok (.pair v rs)
      | .error e => .error e
    | .error e => .error e
end

/-- the program returns `v` in `env` (for some amount of fuel). -/
def Evaluates (ops : OpSem) (p env v : Val) : Prop := ∃ n, evalC ops n p env = .ok v
/-- the program genuinely fails (for some amount of fuel). -/
def Fails (ops : OpSem) (p env : Val) : Prop := ∃ n t, evalC ops n p env = .error (.fail t)

end Clvm
