/-
  Clvm/Ops.lean — operator semantics.

  `OpSem` is the *parameter* every theorem quantifies over: clvm_tools_rs delegates all
  non-core operators to clvmr (stepping evaluator, optimiser and compilers alike).
  `chiaOps` is the concrete instance used to *run* the model (written from clvmr 0.16
  core_ops.rs / more_ops.rs, `NO_UNKNOWN_OPS` set); BLS/secp/keccak/coinid/modpow/% are
  reported as `unsupported` (cases using them are compared implementation-vs-consensus only).
-/
import ChialispModel.Base.Val
import ChialispModel.Base.Sha256

/-- operator application: raw operator atom, evaluated operand list (may be improper). -/
structure OpSem where
  apply : Bytes → Val → Res

namespace Ops

/-- clvmr `small_number`: canonical, non-negative, fits 26 bits. -/
def smallNumber (b : Bytes) : Option Nat :=
  if b.length ≤ 4 && Bytes.canonical b && decide (0 ≤ Bytes.toInt b) && decide (Bytes.toNatBE b < 2 ^ 26)
  then some (Bytes.toNatBE b) else none

/-- clvmr `get_args::<N>`: exactly N elements, terminator not inspected. -/
def getArgs (n : Nat) (v : Val) : Option (List Val) :=
  let l := Val.elems v
  if l.length = n then some l else none

def atomOf : Val → Option Bytes
  | .atom b => some b
  | .pair _ _ => none

def intOf : Val → Option Int
  | .atom b => some (Bytes.toInt b)
  | .pair _ _ => none

/-- `i32_atom`: atom of at most 4 bytes read signed. -/
def i32Of : Val → Option Int
  | .atom b => if b.length ≤ 4 then some (Bytes.toInt b) else none
  | .pair _ _ => none

def allInts : List Val → Option (List Int)
  | [] => some []
  | v :: r => match intOf v, allInts r with
    | some i, some l => some (i :: l)
    | _, _ => none

def allAtoms : List Val → Option (List Bytes)
  | [] => some []
  | v :: r => match atomOf v, allAtoms r with
    | some i, some l => some (i :: l)
    | _, _ => none

def boolV (b : Bool) : Val := if b then Val.one else Val.nil

-- two's complement bit operations on Int through Nat operations
def iand (a b : Int) : Int :=
  match a, b with
  | .ofNat x, .ofNat y => Int.ofNat (x &&& y)
  | .ofNat x, .negSucc y => Int.ofNat (x - (x &&& y))
  | .negSucc x, .ofNat y => Int.ofNat (y - (y &&& x))
  | .negSucc x, .negSucc y => .negSucc (x ||| y)

def ior (a b : Int) : Int :=
  match a, b with
  | .ofNat x, .ofNat y => Int.ofNat (x ||| y)
  | .ofNat x, .negSucc y => .negSucc (y - (y &&& x))
  | .negSucc x, .ofNat y => .negSucc (x - (x &&& y))
  | .negSucc x, .negSucc y => .negSucc (x &&& y)

def ixor (a b : Int) : Int :=
  match a, b with
  | .ofNat x, .ofNat y => Int.ofNat (x ^^^ y)
  | .ofNat x, .negSucc y => .negSucc (x ^^^ y)
  | .negSucc x, .ofNat y => .negSucc (x ^^^ y)
  | .negSucc x, .negSucc y => Int.ofNat (x ^^^ y)

def bytesLt : Bytes → Bytes → Bool
  | [], [] => false
  | [], _ :: _ => true
  | _ :: _, [] => false
  | x :: xs, y :: ys => if x < y then true else if y < x then false else bytesLt xs ys

def shift (v : Int) (s : Int) : Int :=
  if s > 0 then v <<< s.toNat else v >>> (-s).toNat

/-- operators the driver's instance does not implement (cases using them are skipped). -/
def unsupportedOp (op : Bytes) : Bool :=
  op.length = 4 ||
  (match smallNumber op with
   | some o => o = 29 || o = 30 || (48 ≤ o && o ≤ 62) || o = 36
   | none => false)

/-- the Chia operator set without unknown-op tolerance (what `brun`, `run`, the stepping
    evaluator's delegate and the optimiser's constant folder all use). -/
def chiaApply (op : Bytes) (args : Val) : Res :=
  if unsupportedOp op then failR "UNSUPPORTED" else
  if op.length = 4 then failR "unknown 4-byte op" else
  if op.length ≠ 1 then failR "unknown op" else
  match smallNumber op with
  | none => failR "unknown op"
  | some o =>
    let l := Val.elems args
    match o with
    | 3 => match getArgs 3 args with
      | some [c, a, b] => .ok (if Val.nilp c then b else a)
      | _ => failR "i args"
    | 4 => match getArgs 2 args with
      | some [a, b] => .ok (.pair a b)
      | _ => failR "c args"
    | 5 => match getArgs 1 args with
      | some [.pair a _] => .ok a
      | _ => failR "f args"
    | 6 => match getArgs 1 args with
      | some [.pair _ d] => .ok d
      | _ => failR "r args"
    | 7 => match getArgs 1 args with
      | some [v] => .ok (boolV v.isPair)
      | _ => failR "l args"
    | 8 => failR "raise"
    | 9 => match getArgs 2 args with
      | some [.atom a, .atom b] => .ok (boolV (a == b))
      | _ => failR "= args"
    | 10 => match getArgs 2 args with
      | some [.atom a, .atom b] => .ok (boolV (bytesLt b a))
      | _ => failR ">s args"
    | 11 => match allAtoms l with
      | some bs => .ok (.atom (Sha256.hash (bs.foldl (· ++ ·) [])))
      | none => failR "sha256 on list"
    | 12 =>
      if l.length = 2 ∨ l.length = 3 then
        match l with
        | .atom s :: st :: rest =>
          match i32Of st, (match rest with | [e] => i32Of e | _ => some (Int.ofNat s.length)) with
          | some start, some stop =>
            if stop < 0 ∨ start < 0 ∨ stop > s.length ∨ stop < start then failR "substr idx"
            else .ok (.atom ((s.drop start.toNat).take (stop.toNat - start.toNat)))
          | _, _ => failR "substr int"
        | _ => failR "substr args"
      else failR "substr argc"
    | 13 => match getArgs 1 args with
      | some [.atom a] => .ok (Val.ofNat a.length)
      | _ => failR "strlen args"
    | 14 => match allAtoms l with
      | some bs => .ok (.atom (bs.foldl (· ++ ·) []))
      | none => failR "concat on list"
    | 16 => match allInts l with
      | some is => .ok (Val.ofInt (is.foldl (· + ·) 0))
      | none => failR "+ on list"
    | 17 => match allInts l with
      | some [] => .ok (Val.ofInt 0)
      | some (x :: r) => .ok (Val.ofInt (r.foldl (· - ·) x))
      | none => failR "- on list"
    | 18 => match allInts l with
      | some is => .ok (Val.ofInt (is.foldl (· * ·) 1))
      | none => failR "* on list"
    | 19 => match getArgs 2 args with
      | some [.atom a, .atom b] =>
        if Bytes.toInt b = 0 then failR "div 0" else .ok (Val.ofInt (Int.fdiv (Bytes.toInt a) (Bytes.toInt b)))
      | _ => failR "/ args"
    | 20 => match getArgs 2 args with
      | some [.atom a, .atom b] =>
        if Bytes.toInt b = 0 then failR "divmod 0"
        else .ok (.pair (Val.ofInt (Int.fdiv (Bytes.toInt a) (Bytes.toInt b)))
                        (Val.ofInt (Int.fmod (Bytes.toInt a) (Bytes.toInt b))))
      | _ => failR "divmod args"
    | 21 => match getArgs 2 args with
      | some [.atom a, .atom b] => .ok (boolV (decide (Bytes.toInt a > Bytes.toInt b)))
      | _ => failR "> args"
    | 22 => match getArgs 2 args with
      | some [.atom a, s] => match i32Of s with
        | some sh => if sh < -65535 ∨ sh > 65535 then failR "shift too large"
                     else .ok (Val.ofInt (shift (Bytes.toInt a) sh))
        | none => failR "ash int"
      | _ => failR "ash args"
    | 23 => match getArgs 2 args with
      | some [.atom a, s] => match i32Of s with
        | some sh => if sh < -65535 ∨ sh > 65535 then failR "shift too large"
                     else .ok (Val.ofInt (shift (Int.ofNat (Bytes.toNatBE a)) sh))
        | none => failR "lsh int"
      | _ => failR "lsh args"
    | 24 => match allInts l with
      | some is => .ok (Val.ofInt (is.foldl iand (-1)))
      | none => failR "logand on list"
    | 25 => match allInts l with
      | some is => .ok (Val.ofInt (is.foldl ior 0))
      | none => failR "logior on list"
    | 26 => match allInts l with
      | some is => .ok (Val.ofInt (is.foldl ixor 0))
      | none => failR "logxor on list"
    | 27 => match getArgs 1 args with
      | some [.atom a] => .ok (Val.ofInt (~~~ (Bytes.toInt a)))
      | _ => failR "lognot args"
    | 32 => match getArgs 1 args with
      | some [v] => .ok (boolV (Val.nilp v))
      | _ => failR "not args"
    | 33 => .ok (boolV (l.any (fun v => !Val.nilp v)))
    | 34 => .ok (boolV (l.all (fun v => !Val.nilp v)))
    | _ => failR "unknown op"

def chiaOps : OpSem := ⟨chiaApply⟩

end Ops
