/-
  Clvm/Step.lean — the built-in stepping evaluator of clvm_tools_rs
  (`src/compiler/clvm.rs`: `RunStep`, `run_step`, `combine`, `translate_head`, `eval_args`,
  `choose_path`, `flatten_signed_int`, `truthy`, `atom_value`, `apply_op`, `run`;
  `src/compiler/prims.rs`: `prims`, `prim_map`) over rich values with the source locations
  dropped.  Same case splits and the same order of checks as the Rust code; the branches on
  which the stepper is known or suspected to part from the consensus evaluator are reported
  by `stepFlags` (a pure function of the configuration about to be stepped).

  Representation notes
  * `Op`'s `Option<Vec<Rc<SExp>>>` of arguments still to evaluate is only ever pushed / popped
    at its end; it is kept as a list whose HEAD is the vector's LAST element.
  * `translate_head`'s `Cons(_, _, Nil)` case calls `run` recursively without a step limit;
    the nested runner is the parameter `hr` (`headRunner` ties the knot with an explicit depth).
  * the delegate `runner.run_program` is the consensus evaluator `Clvm.evalC` on the `OpSem`.
-/
import ChialispModel.Text.Rich
import ChialispModel.Clvm.Eval

namespace Step
open Rich

/-- branches where the stepping evaluator is known / suspected to differ from consensus. -/
inductive Flag where
  | headIsPair        -- `((X) …)`: `translate_head` RUNS the head (or refuses it); clvmr applies X to unevaluated args
  | nilHead           -- `(() …)`: refused at once ("cannot apply nil"); clvmr evaluates the operands first
  | refusedOp         -- operator atom that is not the minimal encoding of its value (0x0004, 0x00): refused at
                      -- once ("unknown operator"); clvmr evaluates the operands first, then refuses it as well
  | opByName          -- operator atom / string found in the prim map by the bytes of its NAME ("+", "sha256")
  | intSpellsName     -- operator INTEGER that is no primitive's opcode but whose encoding spells a primitive's
                      -- name (43 = "+"); an integer that IS an opcode (61 `%` = "=", 62 `keccak256` = ">")
                      -- is left alone
  | legacyZero        -- legacy integer mode: `truthy` calls a non-empty all-zero atom false (clvmr: true), and
                      -- `Integer 0` is the atom 0x00 for clvmr (an empty operator atom is applied as 0x00)
  deriving DecidableEq, Repr, Inhabited

/-- classes of `RunFailure::RunErr` messages. -/
inductive RunErr where
  | path        -- "bad path …"
  | nilhead     -- "cannot apply nil"
  | headform    -- "Unexpected head form in clvm …"
  | arglist     -- "bad argument list …"
  | consnum     -- "cons is not a number …"
  | improper    -- "Bad arguments given to cons …"
  | argc        -- "Wrong number of parameters to …"
  | notcons     -- "Cons expected for …"
  | op (tag : String)   -- the delegated clvmr run failed
  | timeout     -- "timeout" (step limit)
  deriving DecidableEq, Repr, Inhabited

/-- decidable equality of results (for the `decide`d witnesses). -/
instance decEqExcept {ε α : Type} [DecidableEq ε] [DecidableEq α] : DecidableEq (Except ε α)
  | .ok a, .ok b => if h : a = b then isTrue (by rw [h]) else isFalse (fun hc => h (Except.ok.inj hc))
  | .error a, .error b => if h : a = b then isTrue (by rw [h]) else isFalse (fun hc => h (Except.error.inj hc))
  | .ok _, .error _ => isFalse (fun hc => by cases hc)
  | .error _, .ok _ => isFalse (fun hc => by cases hc)

/-- `prims()`: primitive NAME bytes ↦ `SExp::Integer(opcode)`. -/
abbrev PrimMap := List (Bytes × Int)

/-- the table of src/compiler/prims.rs as (name bytes, opcode); compared with the runtime
    `prims()` by `cvh step` (`prims` line). -/
def chiaPrims : PrimMap := [
  ([113], 1),  -- q
  ([97], 2),  -- a
  ([105], 3),  -- i
  ([99], 4),  -- c
  ([102], 5),  -- f
  ([114], 6),  -- r
  ([108], 7),  -- l
  ([120], 8),  -- x
  ([61], 9),  -- =
  ([62, 115], 10),  -- >s
  ([115, 104, 97, 50, 53, 54], 11),  -- sha256
  ([115, 117, 98, 115, 116, 114], 12),  -- substr
  ([115, 116, 114, 108, 101, 110], 13),  -- strlen
  ([99, 111, 110, 99, 97, 116], 14),  -- concat
  ([43], 16),  -- +
  ([45], 17),  -- -
  ([42], 18),  -- *
  ([47], 19),  -- /
  ([100, 105, 118, 109, 111, 100], 20),  -- divmod
  ([62], 21),  -- >
  ([97, 115, 104], 22),  -- ash
  ([108, 115, 104], 23),  -- lsh
  ([108, 111, 103, 97, 110, 100], 24),  -- logand
  ([108, 111, 103, 105, 111, 114], 25),  -- logior
  ([108, 111, 103, 120, 111, 114], 26),  -- logxor
  ([108, 111, 103, 110, 111, 116], 27),  -- lognot
  ([112, 111, 105, 110, 116, 95, 97, 100, 100], 29),  -- point_add
  ([112, 117, 98, 107, 101, 121, 95, 102, 111, 114, 95, 101, 120, 112], 30),  -- pubkey_for_exp
  ([110, 111, 116], 32),  -- not
  ([97, 110, 121], 33),  -- any
  ([97, 108, 108], 34),  -- all
  ([115, 111, 102, 116, 102, 111, 114, 107], 36),  -- softfork
  ([99, 111, 105, 110, 105, 100], 48),  -- coinid
  ([103, 49, 95, 115, 117, 98, 116, 114, 97, 99, 116], 49),  -- g1_subtract
  ([103, 49, 95, 109, 117, 108, 116, 105, 112, 108, 121], 50),  -- g1_multiply
  ([103, 49, 95, 110, 101, 103, 97, 116, 101], 51),  -- g1_negate
  ([103, 50, 95, 97, 100, 100], 52),  -- g2_add
  ([103, 50, 95, 115, 117, 98, 116, 114, 97, 99, 116], 53),  -- g2_subtract
  ([103, 50, 95, 109, 117, 108, 116, 105, 112, 108, 121], 54),  -- g2_multiply
  ([103, 50, 95, 110, 101, 103, 97, 116, 101], 55),  -- g2_negate
  ([103, 49, 95, 109, 97, 112], 56),  -- g1_map
  ([103, 50, 95, 109, 97, 112], 57),  -- g2_map
  ([98, 108, 115, 95, 112, 97, 105, 114, 105, 110, 103, 95, 105, 100, 101, 110, 116, 105, 116, 121], 58),  -- bls_pairing_identity
  ([98, 108, 115, 95, 118, 101, 114, 105, 102, 121], 59),  -- bls_verify
  ([109, 111, 100, 112, 111, 119], 60),  -- modpow
  ([37], 61),  -- %
  ([107, 101, 99, 99, 97, 107, 50, 53, 54], 62),  -- keccak256
  ([115, 101, 99, 112, 50, 53, 54, 107, 49, 95, 118, 101, 114, 105, 102, 121], 332799744),  -- secp256k1_verify
  ([115, 101, 99, 112, 50, 53, 54, 114, 49, 95, 118, 101, 114, 105, 102, 121], 473599744)  -- secp256r1_verify
  ]

/-- `RunStep`: the immutable machine state chained to its parent. -/
inductive Config where
  | done (v : Rich)
  | opResult (v : Rich) (parent : Config)
  | op (head ctx tail : Rich) (remain : Option (List Rich)) (parent : Config)
  | step (e ctx : Rich) (parent : Config)
  deriving Repr, Inhabited

/-- `combine(&RunStep::Done(_, x), b)` -/
def combineDone (x : Rich) : Config → Config
  | .done _ => .done x
  | .op h c args (some remain) p => .op h c (.cons x args) (some remain) p
  | .op _ _ _ none p => combineDone x p
  | .step _ _ p => combineDone x p
  | .opResult _ _ => .done x

/-- `combine(a, b)` -/
def combine (a b : Config) : Config :=
  match a with
  | .done x => combineDone x b
  | _ => a

/-- `atom_value` (`none` = "cons is not a number") -/
def atomValue : Rich → Option Int
  | .int i => some i
  | .nil => some 0
  | .qstr _ s => some (Bytes.toInt s)
  | .atom s => some (Bytes.toInt s)
  | .cons _ _ => none

/-- `truthy` -/
def truthy (m : Mode) (r : Rich) : Bool :=
  match m, r with
  | true, .atom a => !a.isEmpty
  | true, .qstr _ a => !a.isEmpty
  | _, r =>
    match atomValue r with
    | some i => i != 0
    | none => true

/-- `flatten_signed_int`: minimal signed bytes of `v`, a zero sign byte added, read back —
    i.e. the minimal signed encoding read as an unsigned number. -/
def flattenSignedInt (v : Int) : Nat := Bytes.toNatBE (Bytes.ofInt v)

/-- `choose_path(orig, p, all, context)` (`none` = "bad path") -/
def choosePath : Nat → Rich → Option Rich
  | p, .cons a b =>
    if p = 1 then some (.cons a b)
    else if p % 2 = 0 then choosePath (p / 2) a else choosePath (p / 2) b
  | p, r => if p = 1 then some r else none

/-- `SExp::proper_list` -/
def properList : Rich → Option (List Rich)
  | .cons a d =>
    match properList d with
    | some l => some (a :: l)
    | none => none
  | r => if Rich.nilp r then some [] else none

/-- the loop of `eval_args`: (terminator, arguments with the LAST one first);
    `none` = "bad argument list". -/
def evalArgsGo (m : Mode) : Rich → List Rich → Option (Rich × List Rich)
  | .cons a b, acc => evalArgsGo m b (a :: acc)
  | t, acc => if !truthy m t then some (t, acc) else none

/-- `eval_args` -/
def evalArgs (m : Mode) (head b ctx : Rich) (parent : Config) : Except RunErr Config :=
  match evalArgsGo m b [] with
  | some (t, stack) => .ok (.op head ctx t (some stack) parent)
  | none => .error .arglist

/-- `prim_map.values().any(|p| matches!(p, SExp::Integer(_, n) if n == i))` -/
def isOpcode (pm : PrimMap) (i : Int) : Bool := pm.any (fun p => p.2 == i)

/-- the `SExp::Integer` case of `translate_head`: an integer that already is a primitive's opcode
    is not re-read as a name. -/
def translateInt (pm : PrimMap) (i : Int) : Rich :=
  match pm.lookup (Bytes.ofInt i) with
  | none => .int i
  | some v => if isOpcode pm i then .int i else .int v

/-- the `SExp::Atom` case of `translate_head` (a `QuotedString` is turned into an `Atom` first):
    an atom that is no name and not the minimal encoding of its value (`0 ↦ []`, else
    `u8_from_number`) is refused ("unknown operator …"). -/
def translateBytes (pm : PrimMap) (v : Bytes) : Except RunErr Rich :=
  match pm.lookup v with
  | none => if Bytes.canonical v then .ok (translateInt pm (Bytes.toInt v)) else .error (.op "unknown operator")
  | some x => .ok (.int x)

/-- `translate_head`; `hr` is the recursive `run` used for `Cons(_, _, Nil)` heads. -/
def translateHead (hr : Rich → Rich → Except RunErr Rich) (pm : PrimMap) (sexp ctx : Rich) :
    Except RunErr Rich :=
  match sexp with
  | .nil => .error .nilhead
  | .qstr _ v => translateBytes pm v
  | .atom v => translateBytes pm v
  | .int i => .ok (translateInt pm i)
  | .cons a .nil => hr (.cons a .nil) ctx
  | .cons _ _ => .error .headform

/-- `generate_argument_refs` -/
def argRefs : Int → Rich → Rich
  | start, .cons _ b => .cons (.int start) (argRefs (1 + 2 * start) b)
  | _, r => r

def spineLen : Rich → Nat
  | .cons _ d => spineLen d + 1
  | _ => 0

/-- `apply_op`: `(head 5 11 23 …)` run by the consensus evaluator on `(() . args)`.
    The fuel is what that program needs when `head` is an ordinary operator. -/
def applyOp (m : Mode) (ops : OpSem) (head args : Rich) : Except RunErr Rich :=
  match Clvm.evalC ops (spineLen args + 3)
      (toClvm m (.cons head (argRefs 5 args))) (toClvm m (.cons .nil args)) with
  | .ok v => .ok (fromClvm m v)
  | .error (.fail t) => .error (.op t)
  | .error .fuel => .error (.op "fuel")

/-- the `RunStep::Op(head, context, tail, None, parent)` case of `run_step` -/
def opNone (m : Mode) (ops : OpSem) (head ctx tail : Rich) (parent : Config) : Except RunErr Config :=
  match atomValue head with
  | none => .error .consnum
  | some av =>
    match properList tail with
    | none => .error .improper
    | some l =>
      if av = 3 then
        match l with
        | [c, a, b] => .ok (combineDone (if truthy m c then a else b) (.op head ctx tail none parent))
        | _ => .error .argc
      else if av = 4 then
        match l with
        | [a, b] => .ok (.opResult (.cons a b) (.op head ctx tail none parent))
        | _ => .error .argc
      else if av = 2 then
        match l with
        | [p, e] => .ok (.step p e parent)
        | _ => .error .argc
      else if av = 5 then
        match l with
        | [.cons a _] => .ok (.opResult a (.op head ctx tail none parent))
        | [_] => .error .notcons
        | _ => .error .argc
      else if av = 6 then
        match l with
        | [.cons _ b] => .ok (.opResult b (.op head ctx tail none parent))
        | [_] => .error .notcons
        | _ => .error .argc
      else
        match applyOp m ops head tail with
        | .ok r => .ok (.opResult r (.op head ctx tail none parent))
        | .error e => .error e

/-- the `RunStep::Step(Cons(a, b), context, parent)` case of `run_step` -/
def stepCons (hr : Rich → Rich → Except RunErr Rich) (m : Mode) (pm : PrimMap)
    (a b ctx : Rich) (parent : Config) : Except RunErr Config :=
  match translateHead hr pm a ctx with
  | .error e => .error e
  | .ok head =>
    match atomValue head with
    | none => .error .consnum
    | some av =>
      if av = 1 then .ok (combineDone b (.step (.cons a b) ctx parent))
      else evalArgs m head b ctx parent

/-- `run_step` (with `prim_override = None`) -/
def runStep (hr : Rich → Rich → Except RunErr Rich) (m : Mode) (pm : PrimMap) (ops : OpSem) :
    Config → Except RunErr Config
  | .opResult x p => .ok (combineDone x p)
  | .done x => .ok (.done x)
  | .step (.int v) ctx p =>
    if flattenSignedInt v = 0 then .ok (.opResult .nil (.step (.int v) ctx p))
    else
      match choosePath (flattenSignedInt v) ctx with
      | some r => .ok (.opResult r (.step (.int v) ctx p))
      | none => .error .path
  | .step (.qstr _ v) ctx p => .ok (.step (.int (Int.ofNat (Bytes.toNatBE v))) ctx p)
  | .step (.atom v) ctx p => .ok (.step (.int (Int.ofNat (Bytes.toNatBE v))) ctx p)
  | .step .nil ctx p => .ok (.opResult .nil (.step .nil ctx p))
  | .step (.cons a b) ctx p => stepCons hr m pm a b ctx p
  | .op head ctx tail (some (x :: rest)) p => .ok (.step x ctx (.op head ctx tail (some rest) p))
  | .op head ctx tail (some []) p => .ok (.op head ctx tail none p)
  | .op head ctx tail none p => opNone m ops head ctx tail p

/-- `start_step` -/
def start (p e : Rich) : Config := .step p e (.done p)

/-- the loop of `run` with `iter_limit = Some(lim)` -/
def runLoop (stepf : Config → Except RunErr Config) : Nat → Config → Except RunErr Rich
  | 0, _ => .error .timeout
  | n+1, c =>
    match stepf c with
    | .error e => .error e
    | .ok (.done x) => .ok x
    | .ok c' => runLoop stepf n c'

/-- the recursive `run` behind `translate_head`, with nesting depth `d` and `lim` steps each. -/
def headRunner (m : Mode) (pm : PrimMap) (ops : OpSem) (lim : Nat) : Nat → Rich → Rich → Except RunErr Rich
  | 0 => fun _ _ => .error .timeout
  | d+1 => fun p e => runLoop (runStep (headRunner m pm ops lim d) m pm ops) lim (start p e)

/-- `run(allocator, runner, prim_map, sexp, context, None, Some(lim))` -/
def run (m : Mode) (pm : PrimMap) (ops : OpSem) (depth lim : Nat) (p e : Rich) : Except RunErr Rich :=
  runLoop (runStep (headRunner m pm ops lim depth) m pm ops) lim (start p e)

/-- the operator table agrees with clvmr on the four operators the stepper implements itself
    (`i`, `c`, `f`, `r`); everything else is delegated, hence arbitrary. -/
def CoreOps (ops : OpSem) : Prop :=
  ∀ args, ops.apply [3] args = Ops.chiaApply [3] args ∧ ops.apply [4] args = Ops.chiaApply [4] args ∧
          ops.apply [5] args = Ops.chiaApply [5] args ∧ ops.apply [6] args = Ops.chiaApply [6] args

/-- operators do not report the evaluator's own "out of fuel" (they are total functions of
    their operands; `EvalErr.fuel` belongs to `Clvm.evalC`'s recursion only). -/
def NoFuelOps (ops : OpSem) : Prop := ∀ op args, ops.apply op args ≠ .error .fuel

-- flags ---------------------------------------------------------------------------------

def bytesOfInt (m : Mode) (i : Int) : Bytes := if m && i == 0 then [] else Bytes.ofInt i

/-- an operator integer that `translate_head` replaces by the opcode of the name it spells -/
def intHeadFlags (pm : PrimMap) (i : Int) : List Flag :=
  if (pm.lookup (Bytes.ofInt i)).isSome && !isOpcode pm i then [.intSpellsName] else []

/-- (the last case is the empty atom in legacy mode only, see `StepLemmas.legacyZero_head`) -/
def bytesHeadFlags (m : Mode) (pm : PrimMap) (v : Bytes) : List Flag :=
  if (pm.lookup v).isSome then [.opByName]
  else if !Bytes.canonical v then [.refusedOp]
  else if intHeadFlags pm (Bytes.toInt v) ≠ [] then intHeadFlags pm (Bytes.toInt v)
  else if bytesOfInt m (Bytes.toInt v) ≠ v then [.legacyZero] else []

def headFlags (m : Mode) (pm : PrimMap) : Rich → List Flag
  | .cons _ _ => [.headIsPair]
  | .nil => [.nilHead]
  | .int i => intHeadFlags pm i
  | .atom v => bytesHeadFlags m pm v
  | .qstr _ v => bytesHeadFlags m pm v

/-- `truthy` against clvmr's `nilp` of the converted value -/
def truthFlags (m : Mode) (r : Rich) : List Flag :=
  if truthy m r = Val.nilp (toClvm m r) then [.legacyZero] else []

def terminator : Rich → Rich
  | .cons _ d => terminator d
  | r => r

/-- the head of a non-pair, non-nil operator as `translate_head` returns it -/
def translateAtomHead (pm : PrimMap) : Rich → Rich
  | .int i => translateInt pm i
  | .atom v => translateInt pm (Bytes.toInt v)
  | .qstr _ v => translateInt pm (Bytes.toInt v)
  | r => r

/-- flags of the step about to be taken from a configuration. -/
def stepFlags (m : Mode) (pm : PrimMap) : Config → List Flag
  | .step (.int _) _ _ => []
  | .step (.atom _) _ _ => []
  | .step (.qstr _ _) _ _ => []
  | .step .nil _ _ => []
  | .step (.cons a b) _ _ =>
    if headFlags m pm a ≠ [] then headFlags m pm a
    else if atomValue (translateAtomHead pm a) = some 1 then []
    else truthFlags m (terminator b)
  | .op head _ tail none _ =>
    if atomValue head = some 3 then
      match properList tail with
      | some [c, _, _] => truthFlags m c
      | _ => []
    else []
  | _ => []

/-- the loop of `run`, also collecting (in `acc`, latest first) the flags of every step taken. -/
def runLoopF (stepf : Config → Except RunErr Config) (flagf : Config → List Flag) :
    Nat → Config → List Flag → Except RunErr Rich × List Flag
  | 0, _, acc => (.error .timeout, acc)
  | n+1, c, acc =>
    match stepf c with
    | .error e => (.error e, flagf c ++ acc)
    | .ok (.done x) => (.ok x, flagf c ++ acc)
    | .ok c' => runLoopF stepf flagf n c' (flagf c ++ acc)

/-- the flags raised along `run … lim p e` (executable no-flag predicate: `flagsOf … = []`). -/
def flagsOf (hr : Rich → Rich → Except RunErr Rich) (m : Mode) (pm : PrimMap) (ops : OpSem)
    (lim : Nat) (p e : Rich) : List Flag :=
  (runLoopF (runStep hr m pm ops) (stepFlags m pm) lim (start p e) []).2

/-- `run` with an arbitrary nested head runner (`run` is the instance `hr = headRunner …`). -/
def runWith (hr : Rich → Rich → Except RunErr Rich) (m : Mode) (pm : PrimMap) (ops : OpSem)
    (lim : Nat) (p e : Rich) : Except RunErr Rich :=
  runLoop (runStep hr m pm ops) lim (start p e)

end Step
