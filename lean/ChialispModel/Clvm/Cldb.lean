/-
  Clvm/Cldb.lean — the debugger's row assembly (`src/compiler/cldb.rs`: `CldbRun::step`,
  `CldbRunEnv::add_context`, `is_print_request`, `humanize`) on top of the step machine of
  Clvm/Step.lean.  `print_only = false`, `flags = 0` (so `improve_presentation` is the identity),
  no step overrides.  Of the output map only the keys the check compares are kept:
  Operator, Arguments, Value, Row, Final, Failure, Throw, Print (locations, `Function`,
  `Env`/`Env-Args`/`Function-Context`, `Argument-Refs` are dropped).
-/
import ChialispModel.Clvm.Step

namespace Cldb
open Step Rich

/-- the compared part of one `BTreeMap<String, String>` the debugger hands out (`to_print`). -/
structure Row where
  operator : Option Rich := none
  arguments : Option Rich := none
  value : Option Rich := none
  rowNo : Option Nat := none
  final : Option Rich := none
  failure : Option RunErr := none
  throw : Option Rich := none
  print : Option Rich := none
  deriving Repr, Inhabited, DecidableEq

/-- `CldbRun` (the fields that matter). -/
structure State where
  cfg : Config
  ended : Bool := false
  finalResult : Option Rich := none
  toPrint : Row := {}
  inExpr : Bool := false
  row : Nat := 0
  deriving Repr, Inhabited

/-- `SExp::get_number` (`none` for a cons cell) — same cases as `atom_value`. -/
def getNumber (r : Rich) : Option Int := atomValue r

def printBytes : Bytes := [36, 112, 114, 105, 110, 116, 36]     -- "$print$"

/-- `humanize` -/
def humanize : Rich → Rich
  | .int i =>
    if (Bytes.ofInt i).length > 2 && (Bytes.ofInt i).all (fun b => b ≥ 32 && b < 127)
    then .qstr 39 (Bytes.ofInt i) else .int i
  | .cons a b => .cons (humanize a) (humanize b)
  | r => r

/-- `is_print_request` -/
def isPrintRequest : Rich → Option Rich
  | .cons f r => if Rich.equalTo (.atom printBytes) f then some (humanize r) else none
  | _ => none

/-- `CldbRunEnv::add_context` / `whether_is_apply`: `Arguments` is recorded unless the operator is
    spelled `Integer 2` (then `Env…` keys, which are not compared). -/
def addContext (h a : Rich) (tp : Row) : Row :=
  match h with
  | .int 2 => tp
  | _ => { tp with arguments := some a }

/-- the `Ok(RunStep::Op(sexp, c, a, None, _p))` arm. -/
def onOpNone (s : State) (h c a : Rich) (p : Config) : State × Option Row :=
  match (if getNumber h = some 34 then isPrintRequest a else none) with
  | some outp =>
    -- Print row: everything gathered so far goes out; `Arguments` lands in the fresh map
    ({ s with cfg := .op h c a none p, toPrint := addContext h a {}, inExpr := true, row := s.row + 1 },
     some { s.toPrint with operator := some h, print := some outp })
  | none =>
    ({ s with cfg := .op h c a none p, toPrint := addContext h a { s.toPrint with operator := some h },
              inExpr := true }, none)

/-- `CldbRun::step`: the new state and the row handed out, if any. -/
def cldbStep (hr : Rich → Rich → Except RunErr Rich) (m : Mode) (pm : PrimMap) (ops : OpSem)
    (s : State) : State × Option Row :=
  match runStep hr m pm ops s.cfg with
  | .ok (.opResult x p) =>
    if s.inExpr then
      ({ s with cfg := .opResult x p, toPrint := {}, inExpr := false, row := s.row + 1 },
       some { s.toPrint with value := some x, rowNo := some s.row })
    else ({ s with cfg := .opResult x p }, none)
  | .ok (.done x) =>
    ({ s with cfg := .done x, ended := true, finalResult := some x, toPrint := {}, row := s.row + 1 },
     some { s.toPrint with final := some x })
  | .ok (.step e c p) => ({ s with cfg := .step e c p }, none)
  | .ok (.op h c a none p) => onOpNone s h c a p
  | .ok (.op h c a (some v) p) => ({ s with cfg := .op h c a (some v) p }, none)
  | .error e =>
    ({ s with ended := true, toPrint := {}, row := s.row + 1 }, some { s.toPrint with failure := some e })

/-- `CldbRun::new(…, start_step(prog, env))` -/
def init (p e : Rich) : State := { cfg := start p e }

/-- the `cldb` command loop: step until ended (at most `lim` steps), collecting the rows. -/
def cldbRun (hr : Rich → Rich → Except RunErr Rich) (m : Mode) (pm : PrimMap) (ops : OpSem) :
    Nat → State → List Row
  | 0, _ => []
  | n+1, s =>
    if s.ended then []
    else
      match cldbStep hr m pm ops s with
      | (s', some r) => r :: cldbRun hr m pm ops n s'
      | (s', none) => cldbRun hr m pm ops n s'

-- vocabulary of the property statements ----------------------------------------------------

/-- what a row says about the end of the run: `Final v` / `Failure`. -/
def rowEnd (r : Row) : Option (Except RunErr Rich) :=
  match r.final, r.failure with
  | some v, _ => some (.ok v)
  | none, some e => some (.error e)
  | none, none => none

/-- the first end-of-run report among the rows handed out. -/
def finalOf : List Row → Option (Except RunErr Rich)
  | [] => none
  | r :: rest => match rowEnd r with
    | some x => some x
    | none => finalOf rest

/-- what a row claims, for operators other than `a` (2) / `i` (3): operator `h` applied to
    `Arguments` gave `Value` — as one application performed by the step machine (`opNone`). -/
def RowTrue (m : Mode) (ops : OpSem) (r : Row) : Prop :=
  ∀ h v, r.operator = some h → r.value = some v → getNumber h ≠ some 2 → getNumber h ≠ some 3 →
    ∃ ctx tail k, r.arguments = some tail ∧
      opNone m ops h ctx tail k = .ok (.opResult v (.op h ctx tail none k))

end Cldb
