/-
  Opt/ClassicMemo.lean — `optimize_sexp_` WITH its memo (stage_2/optimize.rs, the
  `memo: &RefCell<HashMap<AllocatorRefOrTreeHash, NodePtr>>` threaded through every optimiser).

  The Rust memo has two kinds of keys, the node pointer and the tree hash; both identify a tree,
  so the model keys the memo by the tree itself.  Whether a lookup actually finds an entry that
  is present under one of the two key kinds depends on pointer identity, which the model does
  not have: `sel` (arbitrary) decides per lookup whether the entry is seen.  The memo survives
  errors (it is a `RefCell` mutated in place), hence every function returns it.
  Mirror only (no strict mode).  Import-free.
-/
import ChialispModel.Opt.Classic

namespace Opt

abbrev Memo := List (Val × Val)

def memoGet (k : Val) : Memo → Option Val
  | [] => none
  | (k', v) :: r => if k' == k then some v else memoGet k r

/-- a memo-threading recursive call. -/
abbrev RecM := Memo → Val → Res × Memo

def mapResM (f : RecM) : Memo → List Val → Except EvalErr (List Val) × Memo
  | m, [] => (.ok [], m)
  | m, x :: xs =>
    match f m x with
    | (.error e, m1) => (.error e, m1)
    | (.ok y, m1) =>
      match mapResM f m1 xs with
      | (.error e, m2) => (.error e, m2)
      | (.ok ys, m2) => (.ok (y :: ys), m2)

def childrenOptimizerM (rec : RecM) (m : Memo) (r : Val) : Res × Memo :=
  match properList r with
  | none => (.ok r, m)
  | some [] => (.ok r, m)
  | some (h :: t) =>
    if isQuoteAtom h then (.ok r, m)
    else
      match mapResM rec m (h :: t) with
      | (.error e, m1) => (.error e, m1)
      | (.ok l, m1) => (.ok (Val.ofList l), m1)

def varChangeKeepM (rec : RecM) (m : Memo) (r newS : Val) : Res × Memo :=
  if seemsConstant newS then rec m newS
  else
    match properList newS with
    | none => (.ok r, m)
    | some [] => (.ok r, m)
    | some (h :: t) =>
      match mapResM rec m (h :: t) with
      | (.error e, m1) => (.error e, m1)
      | (.ok opt, m1) => if nonConstantCount opt < 1 then (.ok (Val.ofList opt), m1) else (.ok r, m1)

def varChangeOptimizerM (rec : RecM) (m : Memo) (r : Val) : Res × Memo :=
  match matchSexp patQA r [] with
  | none => (.ok r, m)
  | some bs =>
    match lookupB kArgs bs, lookupB kSexp bs with
    | some args, some call => varChangeKeepM rec m r (subArgs args call)
    | _, _ => (failR "bad pattern match", m)

def tryRuleM (r : Val) (res : Res × Memo) (k : Memo → Res × Memo) : Res × Memo :=
  match res with
  | (.error e, m) => (.error e, m)
  | (.ok r1, m) => if r1 == r then k m else (.ok r1, m)

def stepM (ops : OpSem) (efuel : Nat) (rec : RecM) (m : Memo) (r : Val) : Res × Memo :=
  tryRuleM r (.ok (consOptimizer r), m) fun m =>
  tryRuleM r (constantOptimizer ops efuel r, m) fun m =>
  tryRuleM r (.ok (consQAOptimizer r), m) fun m =>
  tryRuleM r (varChangeOptimizerM rec m r) fun m =>
  tryRuleM r (childrenOptimizerM rec m r) fun m =>
  tryRuleM r (pathOptimizer false r, m) fun m =>
  tryRuleM r (.ok (quoteNullOptimizer r), m) fun m =>
  tryRuleM r (.ok (applyNullOptimizer r), m) fun m => (.ok r, m)

/-- the memo lookups at the top of `optimize_sexp_`, then the loop. -/
def withMemo (sel : Memo → Val → Bool) (loop : Memo → Val → Val → Res × Memo) : RecM :=
  fun m r =>
    match (if sel m r then memoGet r m else none) with
    | some v => (.ok v, m)
    | none => loop m r r

/-- the loop of `optimize_sexp_`; `key` is the expression the call started with (`footprint`). -/
def loopM (ops : OpSem) (efuel : Nat) (sel : Memo → Val → Bool) : Nat → Memo → Val → Val → Res × Memo
  | _, m, _, .atom b => (.ok (.atom b), m)
  | 0, m, _, .pair _ _ => (.error .fuel, m)
  | n + 1, m, key, .pair a d =>
    match stepM ops efuel (withMemo sel (loopM ops efuel sel n)) m (.pair a d) with
    | (.error e, m1) => (.error e, m1)
    | (.ok r1, m1) =>
      if r1 == .pair a d then (.ok (.pair a d), (key, .pair a d) :: (.pair a d, .pair a d) :: m1)
      else loopM ops efuel sel n m1 key r1

/-- `optimize_sexp_` with memo. -/
def optimizeSexpM (ops : OpSem) (efuel : Nat) (sel : Memo → Val → Bool) (n : Nat) : RecM :=
  withMemo sel (loopM ops efuel sel n)

end Opt
