/-
  Opt/Passes.lean — the modern compiler's CLVM-level passes, which run on every optimising
  build of a cl23+ program (`Strategy23`) and, for `null_optimization` alone, on
  `ExistingStrategy` builds with `frontend_opt` and stepping > 22:

    * `null_optimization`                               (src/compiler/optimize/mod.rs)
    * `remove_double_apply` with its three root rewrites `change_apply_double_quote`,
      `change_double_to_single_apply`, `collapse_constant_condition` and its
      `while any_transformation` loop                   (src/compiler/optimize/double_apply.rs)
    * `brief_path_selection` / `brief_path_selection_single`   (src/compiler/optimize/brief.rs)
    * their sequencing: `Strategy23::post_codegen_output_optimize`,
      `Strategy23::post_codegen_function_optimize`      (src/compiler/optimize/above22.rs)
      and `ExistingStrategy::post_codegen_output_optimize` (src/compiler/optimize/strategy.rs)

  over the rich value type (`compiler::sexp::SExp` without locations).  Same case order and the
  same recursion (`spine` flags) as the Rust code.  Every pass returns the `(bool, Rc<SExp>)`
  pair of the Rust function (`changed`, `out`) plus two GHOST fields that no other field
  depends on:

    * `flag` — the run met a shape on which the rewrite is not meaning-preserving for arbitrary
      CLVM: a pair in operator position whose operands were rewritten, a negative path integer,
      `(q . Integer 0)` under the legacy integer conversion — none of which arises on
      expression-shaped code (`exprShape`; the last one is not produced by the reader or the
      conversions the compiler uses).  The soundness theorems (Props/C02.lean) hold for every run
      with `flag = false`; every flag class has a kernel-checked counter-witness.
      (Three further classes existed before the `fix:` commits c770023–3 and are gone: a root
      quote form under `Strategy23`, legacy-mode truthiness of all-zero atoms, the double-apply
      loop re-entering quoted data.)
    * `oof`  — the fuel that bounds `remove_double_apply`'s `while` loop ran out (the driver
      supplies `rdaFuel`, which is never exhausted; the soundness theorems hold for EVERY fuel).

  Import-free (links into the native driver).
-/
import ChialispModel.Clvm.Step
import ChialispModel.Opt.NodePath

namespace Passes
open Rich

/-- what a pass returns: the Rust `(bool, Rc<SExp>)` and the two ghost fields. -/
structure PR where
  changed : Bool
  out : Rich
  flag : Bool
  oof : Bool
  deriving Repr, DecidableEq, Inhabited

/-- an unchanged result. -/
def same (r : Rich) : PR := ⟨false, r, false, false⟩

-- ---------------------------------------------------------------------------------------
-- selectors (src/compiler/sexp.rs)
-- ---------------------------------------------------------------------------------------

/-- `AtomValue::Here(&name).select_nodes(s).is_ok()`: `Nil` for the empty name, an `Atom` or a
    `QuotedString` with these bytes, an `Integer` whose `u8_from_number` is these bytes. -/
def isAtomValue (name : Bytes) : Rich → Bool
  | .nil => name.isEmpty
  | .atom n => n == name
  | .qstr _ n => n == name
  | .int i => Bytes.ofInt i == name
  | .cons _ _ => false

/-- `if let SExp::Atom(_, n) = a.atomize()`: the bytes, `none` for `Nil` and `Cons`. -/
def atomizeName : Rich → Option Bytes
  | .int i => some (Bytes.ofInt i)
  | .qstr _ b => some b
  | .atom b => some b
  | .nil => none
  | .cons _ _ => none

/-- `is_quote_atom` / `is_first_atom` / `is_rest_atom` of brief.rs (`n.len() == 1 && n[0] == k`). -/
def isOpAtom (k : UInt8) (a : Rich) : Bool :=
  match atomizeName a with
  | some n => n == [k]
  | none => false

/-- the head test of `null_optimization`: `name == vec![1] || name == b"q"`. -/
def isQName (a : Rich) : Bool :=
  match atomizeName a with
  | some n => n == [1] || n == [113]
  | none => false

/-- `NodeSel::Cons(AtomValue::Here(&[1]), ThisNode).select_nodes(s).is_ok()` -/
def isQuoted : Rich → Bool
  | .cons h _ => isAtomValue [1] h
  | _ => false

def isCons : Rich → Bool
  | .cons _ _ => true
  | _ => false

/-- `primquote(l, a)`: `Cons(Integer 1, a)`. -/
def primquote (a : Rich) : Rich := .cons (.int 1) a

/-- number of nodes (bounds the `while` loop of `remove_double_apply`). -/
def rsize : Rich → Nat
  | .cons a d => 1 + rsize a + rsize d
  | _ => 1

-- ---------------------------------------------------------------------------------------
-- null_optimization (mod.rs)
-- ---------------------------------------------------------------------------------------

/-- ghost: `(q . 0)` with `0` spelt `Integer 0` in the legacy integer mode is the atom `0x00`
    (not nil) once converted, while the replacement `Integer 0` is then the PATH `0x00` = nil. -/
def nullQuoteFlag (m : Mode) (b : Rich) : Bool :=
  match b with
  | .int _ => !m
  | _ => false

/-- the tail of `null_optimization` after the two recursive calls. -/
def nullJoin (a b : Rich) (pairHead : Bool) (ra rb : PR) : PR :=
  if ra.changed || rb.changed then
    ⟨true, .cons ra.out rb.out, ra.flag || rb.flag || pairHead, false⟩
  else ⟨false, .cons a b, ra.flag || rb.flag, false⟩

/-- `null_optimization(sexp, spine)`.  `spine = true`: the cons cell is a list tail (never a
    quote form itself); its car is an expression, its cdr a tail. -/
def nullOpt (m : Mode) : Rich → Bool → PR
  | .cons a b, spine =>
    if isQName a && !spine then
      (if nilp b then ⟨true, b, nullQuoteFlag m b, false⟩ else same (.cons a b))
    else nullJoin a b (isCons a && !spine) (nullOpt m a false) (nullOpt m b true)
  | r, _ => same r

/-- `null_optimization_of_expression` (above22.rs): the code handed to `Strategy23`'s post-codegen
    hooks is an EXPRESSION, while `null_optimization(_, true)` treats its argument as a list tail;
    a quote form is left alone (its contents are data). -/
def nullOfExpression (m : Mode) (r : Rich) : PR :=
  if isQuoted r then same r else nullOpt m r true

/-- ghost, for the `Strategy23` root call: the root cell is still treated as a list tail, so a
    PAIR-headed root has its operands rewritten (clvmr does not evaluate them). -/
def nullRootFlag (r : Rich) : Bool := match r with | .cons a _ => isCons a | _ => false

/-- `null_optimization` as the strategies call it, with the root ghost flag:
    `spine = false` — `ExistingStrategy`: `null_optimization(root, false)`;
    `spine = true`  — `Strategy23`: `null_optimization_of_expression(root)`. -/
def nullPass (m : Mode) (r : Rich) (spine : Bool) : PR :=
  if spine then
    ⟨(nullOfExpression m r).changed, (nullOfExpression m r).out,
     (nullOfExpression m r).flag || ((nullOfExpression m r).changed && nullRootFlag r), false⟩
  else nullOpt m r false

-- ---------------------------------------------------------------------------------------
-- the three root rewrites of double_apply.rs
-- ---------------------------------------------------------------------------------------

/-- `change_double_to_single_apply`: `(a (q . X) 1 . ANY)` ⇒ `X`
    (the pattern's last position is `ThisNode`: the tail is not inspected). -/
def changeDoubleToSingleApply : Rich → Bool × Rich
  | .cons h (.cons (.cons q inner) (.cons one t)) =>
    if isAtomValue [2] h && isAtomValue [1] q && isAtomValue [1] one then (true, inner)
    else (false, .cons h (.cons (.cons q inner) (.cons one t)))
  | r => (false, r)

/-- `change_apply_double_quote`: `(a (q 1 . BODY) . ANY)` ⇒ `(q . BODY)` (`primquote`). -/
def changeApplyDoubleQuote : Rich → Bool × Rich
  | .cons h (.cons (.cons q (.cons one body)) t) =>
    if isAtomValue [2] h && isAtomValue [1] q && isAtomValue [1] one then (true, primquote body)
    else (false, .cons h (.cons (.cons q (.cons one body)) t))
  | r => (false, r)

/-- `truthy_when_converted` (clvm.rs): truthiness of a constant as CLVM's `i` sees it once
    `convert_to_clvm_rs` has converted it — every non-empty atom is true; `Integer 0` is the empty
    atom only under the fixed integer conversion. -/
def truthyWhenConverted (m : Mode) : Rich → Bool
  | .cons _ _ => true
  | .nil => false
  | .atom a => !a.isEmpty
  | .qstr _ a => !a.isEmpty
  | .int i => !m || i != 0

/-- the `Option<bool>` computed inside `collapse_constant_condition` from the condition:
    `(q . X)` ⇒ `Some(truthy_when_converted(X))`; otherwise `Some(false)` when `!truthy(cond)`,
    else `None`. -/
def constCond (m : Mode) (cond : Rich) : Option Bool :=
  match cond with
  | .cons h x => if isAtomValue [1] h then some (truthyWhenConverted m x) else
      (if !Step.truthy m (.cons h x) then some false else none)
  | c => if !Step.truthy m c then some false else none

/-- `collapse_constant_condition`: `(i COND A B . ANY)` with a constant COND ⇒ `A` or `B`. -/
def collapseConstantCondition (m : Mode) : Rich → Bool × Rich
  | .cons h (.cons cond (.cons a (.cons b t))) =>
    if isAtomValue [3] h then
      match constCond m cond with
      | some true => (true, a)
      | some false => (true, b)
      | none => (false, .cons h (.cons cond (.cons a (.cons b t))))
    else (false, .cons h (.cons cond (.cons a (.cons b t))))
  | r => (false, r)

/-- CLVM truthiness of the converted value: not the empty atom. -/
def clvmTruthy (m : Mode) (x : Rich) : Bool := !Val.nilp (toClvm m x)

/-- the chain `change_apply_double_quote` → `change_double_to_single_apply` →
    `collapse_constant_condition` applied at an expression root (`spine`); all three are sound on every input (no ghost flag). -/
def rootRewrites (m : Mode) (spine : Bool) (x : Rich) : PR :=
  if spine then
    ⟨(changeApplyDoubleQuote x).1 || (changeDoubleToSingleApply (changeApplyDoubleQuote x).2).1 ||
       (collapseConstantCondition m (changeDoubleToSingleApply (changeApplyDoubleQuote x).2).2).1,
     (collapseConstantCondition m (changeDoubleToSingleApply (changeApplyDoubleQuote x).2).2).2,
     false, false⟩
  else same x

-- ---------------------------------------------------------------------------------------
-- remove_double_apply
-- ---------------------------------------------------------------------------------------

/-- ghost: a loop iteration at an expression root that is pair-headed (its operands are not
    evaluated by clvmr, yet they are rewritten). -/
def rdaShapeFlag (spine : Bool) (a _b : Rich) : Bool := spine && isCons a

mutual
/-- `remove_double_apply(sexp, spine)`; here `spine = true` means EXPRESSION position
    (the quote check applies), `false` means list tail. -/
def rda (m : Mode) : Nat → Rich → Bool → PR
  | 0, s, _ => ⟨false, s, false, true⟩
  | f+1, s, spine =>
    if spine && isQuoted s then same s else rdaLoop m f s spine false false false
/-- the `while any_transformation` loop; `was` = `was_transformed`, `fl` / `oo` accumulate the
    ghost fields. -/
def rdaLoop (m : Mode) : Nat → Rich → Bool → Bool → Bool → Bool → PR
  | 0, s, _, was, fl, _ => ⟨was, s, fl, true⟩
  | f+1, .cons a b, spine, was, fl, oo =>
    -- `if spine && was_transformed { if quoted { break } }`: a rewrite may have produced a quote form
    if spine && was && isQuoted (.cons a b) then ⟨was, .cons a b, fl, oo⟩ else
    let ra := rda m f a true
    let rb := rda m f b false
    let root := rootRewrites m spine (.cons ra.out rb.out)
    let sub := ra.changed || rb.changed
    let fl' := fl || ra.flag || rb.flag || root.flag || (rdaShapeFlag spine a b && sub)
    let oo' := oo || ra.oof || rb.oof
    if sub || root.changed then rdaLoop m f root.out spine true fl' oo'
    else ⟨was, root.out, fl', oo'⟩
  | _+1, s, _, was, fl, oo => ⟨was, s, fl, oo⟩
end

/-- fuel that the loop never exhausts (every transformation removes at least one node). -/
def rdaFuel (r : Rich) : Nat := 2 * rsize r + 2

/-- `remove_double_apply(sexp, spine)` with sufficient fuel. -/
def removeDoubleApply (m : Mode) (r : Rich) (spine : Bool) : PR := rda m (rdaFuel r) r spine

-- ---------------------------------------------------------------------------------------
-- brief_path_selection (brief.rs)
-- ---------------------------------------------------------------------------------------

/-- the `while let Some(lst) = body.proper_list()` loop of `brief_path_selection_single`:
    `(found_stack, target_path, body)` when it stops.  `proper_list()` is `Some([cmd, arg])`
    exactly for `Cons(cmd, Cons(arg, t))` with `t.nilp()`. -/
def briefScan : Rich → Nat → Nat → Nat × Nat × Rich
  | .cons cmd (.cons arg t), found, target =>
    if nilp t then
      if isOpAtom 1 cmd then (found, target, .cons cmd (.cons arg t))
      else if isOpAtom 5 cmd then briefScan arg (found + 1) (target * 2)
      else if isOpAtom 6 cmd then briefScan arg (found + 1) (target * 2 + 1)
      else (found, target, .cons cmd (.cons arg t))
    else (found, target, .cons cmd (.cons arg t))
  | body, found, target => (found, target, body)

/-- `compose_paths(&i, &target)` on a BigInt `i`: for `i <= 1` (0, 1, every negative number) the
    `while temp_path > 1` loop does not run and the mask is 0. -/
def composePathsInt (i : Int) (target : Nat) : Int :=
  if i ≤ 1 then Int.ofNat target else Int.ofNat (NodePath.composePaths i.toNat target)

/-- what `brief_path_selection_single` does with the scan result. -/
def briefFinish (orig : Rich) : Nat × Nat × Rich → PR
  | (found, target, body) =>
    if found > 0 then
      match body with
      | .int i => ⟨true, .int (composePathsInt i target), decide (i < 0), false⟩
      | _ => same orig
    else same orig

/-- `brief_path_selection_single` -/
def briefSingle (body : Rich) : PR := briefFinish body (briefScan body 0 1)

/-- `proper_list().is_some()` -/
def isProper : Rich → Bool
  | .cons _ d => isProper d
  | r => nilp r

/-- one round of the `for f in lst.iter().rev()` loop: `end = Cons(a, end)`.
    ghost `pf`: the rebuilt list is the operand list of a pair-headed form and differs from the
    original (an element was rewritten, or a terminator that is not spelt `Nil` became `Nil`). -/
def briefJoin (pf : Bool) (ra rd : PR) : PR :=
  ⟨ra.changed || rd.changed, .cons ra.out rd.out, ra.flag || rd.flag || pf, false⟩

mutual
/-- `brief_path_selection` -/
def briefPath : Rich → PR
  | .cons h t =>
    if (briefSingle (.cons h t)).changed then briefSingle (.cons h t)
    else if isProper t && isCons t && !isOpAtom 1 h then
      briefJoin (isCons h && decide (Rich.cons (briefPath h).out (briefList t).out ≠ Rich.cons h t))
        (briefPath h) (briefList t)
    else same (.cons h t)
  | r => same r
/-- the elements of the list, rebuilt onto `Nil`. -/
def briefList : Rich → PR
  | .cons a d => briefJoin false (briefPath a) (briefList d)
  | _ => same .nil
end

-- ---------------------------------------------------------------------------------------
-- sequencing
-- ---------------------------------------------------------------------------------------

/-- `Strategy23::post_codegen_output_optimize` and `::post_codegen_function_optimize`:
    null (spine = true) → double apply (spine = true) → brief; the input when nothing worked. -/
def strategy23 (m : Mode) (fuel : Nat) (r : Rich) : PR :=
  let n := nullPass m r true
  let d := rda m fuel n.out true
  let b := briefPath d.out
  if n.changed || d.changed || b.changed then
    ⟨true, b.out, n.flag || d.flag || b.flag, d.oof⟩
  else ⟨false, r, n.flag || d.flag || b.flag, d.oof⟩

/-- fuel for the double-apply stage of `strategy23`: `null_optimization` never grows a tree. -/
def strategy23Fuel (r : Rich) : Nat := rdaFuel r

/-- `opts.dialect().stepping.map(|s| s > 22).unwrap_or(false)` -/
def steppingAbove22 : Option Int → Bool
  | some s => decide (s > 22)
  | none => false

/-- `ExistingStrategy::post_codegen_output_optimize`:
    `if opts.frontend_opt() && stepping > 22 { null_optimization(generated, false) }`. -/
def existingStrategy (m : Mode) (frontendOpt : Bool) (stepping : Option Int) (r : Rich) : PR :=
  if frontendOpt && steppingAbove22 stepping then
    (if (nullPass m r false).changed then nullPass m r false else same r)
  else same r

-- ---------------------------------------------------------------------------------------
-- the shape of code-generator output (decidable; measured on every recorded pass input)
-- ---------------------------------------------------------------------------------------

mutual
/-- `CodegenShape`, expression view: an atom (a path `Integer` is not negative), a quote form
    (its data is arbitrary), or an operator call whose head is not a pair and whose operands are
    expressions. -/
def exprShape : Rich → Bool
  | .cons h t => isAtomValue [1] h || (!isCons h && argsShape t)
  | .int i => decide (0 ≤ i)
  | _ => true
/-- `CodegenShape`, operand-list view. -/
def argsShape : Rich → Bool
  | .cons a d => exprShape a && argsShape d
  | _ => true
end

end Passes
