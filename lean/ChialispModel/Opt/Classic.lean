/-
  Opt/Classic.lean — the classic CLVM-level optimiser
  (src/classic/clvm_tools/stages/stage_2/optimize.rs, pattern_match.rs), mirrored rule by rule.

  * The Rust code works on clvmr `NodePtr`s; the model works on `Val`.  Every place where the
    code compares a pointer with `NodePtr::NIL` is modelled as "empty atom" (clvmr 0.16 hands
    out the NIL pointer for every empty atom it creates through `new_atom`/deserialisation; the
    only other source, `new_substr` on a heap atom, is listed as modelled-not-verified).
  * The memo of `optimize_sexp_` is modelled as absent (it caches `tree ↦ optimize(tree)`).
  * `constant_optimizer` runs `runner.run_program(r, NIL)`; here `Clvm.evalC ops efuel r nil`.
  * The loop/recursion of `optimize_sexp_` is bounded by explicit fuel (`.error .fuel`).
  * `strict = false` is the mirror of the code.  `strict = true` is the same function, except
    that it stops with a `FLAG:*` failure at the (decidable) situations in which the code is
    NOT meaning-preserving (pair-headed forms handed to `children_optimizer`/`sub_args`, nil or
    negative-read path atoms handed to `sub_args`, path atoms that `NodePath::new` maps to a
    different index than clvmr traverses — since the `get_u32` repair (c2e6c4f) these are exactly
    non-minimal atoms with the top bit set) or overflows its stack (path atoms ≥ 1024 bytes handed
    to the recursive `path_from_args`).  The soundness theorem of Props/C04 is about
    un-flagged runs; every flag has a `decide`d counter-witness there.
  Import-free.
-/
import ChialispModel.Clvm.Eval
import ChialispModel.Opt.NodePath

namespace Opt

-- ---------------------------------------------------------------------------------------
-- pattern_match.rs
-- ---------------------------------------------------------------------------------------

abbrev Bindings := List (Bytes × Val)

def lookupB (k : Bytes) : Bindings → Option Val
  | [] => none
  | (k', v) :: r => if k' == k then some v else lookupB k r

/-- `ATOM_MATCH` = `$`, `SEXP_MATCH` = `:` -/
def atomMatch : Bytes := [36]
def sexpMatch : Bytes := [58]

/-- `unify_bindings` -/
def unifyBindings (bs : Bindings) (k : Bytes) (v : Val) : Option Bindings :=
  match lookupB k bs with
  | some b => if b == v then some bs else none
  | none => some ((k, v) :: bs)

/-- pattern `(la . ra)` (both atoms) against the atom `sa`. -/
def matchLeafAtom (la ra sa : Bytes) (kb : Bindings) : Option Bindings :=
  if la == atomMatch then
    if ra == atomMatch then (if sa == atomMatch then some [] else none)
    else unifyBindings kb ra (.atom sa)
  else if la == sexpMatch then
    if ra == sexpMatch && sa == sexpMatch then some []
    else unifyBindings kb ra (.atom sa)
  else none

/-- `match_sexp(pattern, sexp, known_bindings)` -/
def matchSexp : Val → Val → Bindings → Option Bindings
  | .atom p, s, kb =>
    match s with
    | .atom a => if p == a then some kb else none
    | .pair _ _ => none
  | .pair pl pr, s, kb =>
    match pl, pr with
    | .atom la, .atom ra =>
      match s with
      | .atom sa => matchLeafAtom la ra sa kb
      | .pair sl sr =>
        if la == sexpMatch && ra != sexpMatch then unifyBindings kb ra (.pair sl sr)
        else (matchSexp pl sl kb).bind (fun nb => matchSexp pr sr nb)
    | _, _ =>
      match s with
      | .atom _ => none
      | .pair sl sr => (matchSexp pl sl kb).bind (fun nb => matchSexp pr sr nb)

-- binding names
def kFirst : Bytes := [102, 105, 114, 115, 116]   -- "first"
def kRest : Bytes := [114, 101, 115, 116]         -- "rest"
def kSexp : Bytes := [115, 101, 120, 112]         -- "sexp"
def kArgs : Bytes := [97, 114, 103, 115]          -- "args"
def kAtom : Bytes := [97, 116, 111, 109]          -- "atom"

def qAtom : Val := .atom [1]
def aAtom : Val := .atom [2]
def cAtom : Val := .atom [4]
def fAtom : Val := .atom [5]
def rAtom : Val := .atom [6]
def anyP (k : Bytes) : Val := .pair (.atom sexpMatch) (.atom k)
def atomP (k : Bytes) : Val := .pair (.atom atomMatch) (.atom k)

/-- `(c (: . first) (: . rest))` -/
def patCons : Val := .pair cAtom (.pair (anyP kFirst) (.pair (anyP kRest) Val.nil))
/-- `(f (c (: . first) (: . rest)))` -/
def patFirstCons : Val := .pair fAtom (.pair patCons Val.nil)
/-- `(r (c (: . first) (: . rest)))` -/
def patRestCons : Val := .pair rAtom (.pair patCons Val.nil)
/-- `(a (q . (: . sexp)) (: . args))` -/
def patQA : Val := .pair aAtom (.pair (.pair qAtom (anyP kSexp)) (.pair (anyP kArgs) Val.nil))
/-- `(f ($ . atom))` -/
def patFirstAtom : Val := .pair fAtom (.pair (atomP kAtom) Val.nil)
/-- `(r ($ . atom))` -/
def patRestAtom : Val := .pair rAtom (.pair (atomP kAtom) Val.nil)
/-- `(q . 0)` -/
def patQuoteNull : Val := .pair qAtom Val.nil
/-- `(a 0 . (: . rest))` -/
def patApplyNull : Val := .pair aAtom (.pair Val.nil (anyP kRest))

-- ---------------------------------------------------------------------------------------
-- helpers of sexp.rs
-- ---------------------------------------------------------------------------------------

/-- `non_nil` -/
def nonNil : Val → Bool
  | .pair _ _ => true
  | .atom b => !b.isEmpty

/-- `proper_list(sexp, true)` -/
def properList : Val → Option (List Val)
  | .atom b => if b.isEmpty then some [] else none
  | .pair a d => (properList d).map (a :: ·)

def isProper : Val → Bool
  | .atom b => b.isEmpty
  | .pair _ d => isProper d

/-- `quote` (helpers.rs) -/
def quote (v : Val) : Val := .pair qAtom v

/-- the test `atom.len() == 1 && atom[0] == 1` on a node. -/
def isQuoteAtom : Val → Bool
  | .atom a => a == [1]
  | .pair _ _ => false

def mapRes (f : Val → Res) : List Val → Except EvalErr (List Val)
  | [] => .ok []
  | x :: xs =>
    match f x with
    | .error e => .error e
    | .ok y =>
      match mapRes f xs with
      | .error e => .error e
      | .ok ys => .ok (y :: ys)

-- ---------------------------------------------------------------------------------------
-- seems_constant / constant_optimizer
-- ---------------------------------------------------------------------------------------

mutual
/-- `seems_constant` -/
def seemsConstant : Val → Bool
  | .atom b => b.isEmpty
  | .pair (.atom a) r => if a == [1] then true else if a == [8] then false else seemsConstantTail r
  | .pair (.pair oa od) r => seemsConstant (.pair oa od) && seemsConstantTail r
/-- `seems_constant_tail` -/
def seemsConstantTail : Val → Bool
  | .pair l r => seemsConstant l && seemsConstantTail r
  | .atom b => b.isEmpty
end

/-- the short circuit `(q . X)` of `constant_optimizer`. -/
def isQuoted : Val → Bool
  | .pair (.atom a) _ => a == [1]
  | _ => false

/-- `constant_optimizer` -/
def constantOptimizer (ops : OpSem) (efuel : Nat) (r : Val) : Res :=
  if isQuoted r then .ok r
  else if seemsConstant r && nonNil r then
    match Clvm.evalC ops efuel r Val.nil with
    | .ok v => .ok (quote v)
    | .error e => .error e
  else .ok r

-- ---------------------------------------------------------------------------------------
-- cons_q_a_optimizer, cons_optimizer, quote_null, apply_null
-- ---------------------------------------------------------------------------------------

/-- `is_args_call` -/
def isArgsCall : Val → Bool
  | .atom b => b == [1]
  | .pair _ _ => false

/-- `cons_q_a_optimizer`: `(a (q . SEXP) 1) => SEXP` -/
def consQAOptimizer (r : Val) : Val :=
  match matchSexp patQA r [] with
  | none => r
  | some bs =>
    match lookupB kArgs bs, lookupB kSexp bs with
    | some args, some sexp => if isArgsCall args then sexp else r
    | _, _ => r

/-- `cons_optimizer`: `(f (c A B)) => A`, `(r (c A B)) => B` -/
def consOptimizer (r : Val) : Val :=
  match (matchSexp patFirstCons r []).bind (lookupB kFirst) with
  | some first => first
  | none =>
    match (matchSexp patRestCons r []).bind (lookupB kRest) with
    | some rest => rest
    | none => r

/-- `quote_null_optimizer`: `(q . 0) => 0` -/
def quoteNullOptimizer (r : Val) : Val :=
  match matchSexp patQuoteNull r [] with
  | some _ => Val.nil
  | none => r

/-- `apply_null_optimizer`: `(a 0 . REST) => 0` -/
def applyNullOptimizer (r : Val) : Val :=
  match matchSexp patApplyNull r [] with
  | some _ => Val.nil
  | none => r

-- ---------------------------------------------------------------------------------------
-- sub_args / path_from_args
-- ---------------------------------------------------------------------------------------

/-- `cons_f` -/
def consF (args : Val) : Val :=
  match (matchSexp patCons args []).bind (lookupB kFirst) with
  | some first => first
  | none => .pair fAtom (.pair args Val.nil)

/-- `cons_r` -/
def consR (args : Val) : Val :=
  match (matchSexp patCons args []).bind (lookupB kRest) with
  | some rest => rest
  | none => .pair rAtom (.pair args Val.nil)

/-- the recursion of `path_from_args` once `v > 1` is known (`v >> 1` is re-encoded with
    `u8_from_number` and re-read with `number_from_u8`, which is the identity on integers).
    `fuel` only bounds the recursion. -/
def pathFromArgsNat : Nat → Nat → Val → Val
  | 0, _, na => na
  | f + 1, v, na =>
    if v ≤ 1 then na
    else if v % 2 != 0 then pathFromArgsNat f (v / 2) (consR na)
    else pathFromArgsNat f (v / 2) (consF na)

/-- `path_from_args`: the atom is read with `number_from_u8` (SIGNED). -/
def pathFromArgs (sexp newArgs : Val) : Val :=
  match sexp with
  | .atom b =>
    if Bytes.toInt b ≤ 1 then newArgs
    else pathFromArgsNat (Bytes.toInt b).toNat (Bytes.toInt b).toNat newArgs
  | .pair _ _ => newArgs

mutual
/-- `sub_args(sexp, new_args)` -/
def subArgs (newArgs : Val) : Val → Val
  | .atom b => pathFromArgs (.atom b) newArgs
  | .pair (.pair fa fd) rest =>
    if isProper rest then .pair (subArgs newArgs (.pair fa fd)) (subArgsList newArgs rest)
    else newArgs
  | .pair (.atom op) rest =>
    if op == [1] then .pair (.atom op) rest
    else if isProper rest then .pair (.atom op) (subArgsList newArgs rest)
    else newArgs
/-- the `map_m … sub_args` over a proper list followed by `enlist`. -/
def subArgsList (newArgs : Val) : Val → Val
  | .pair x r => .pair (subArgs newArgs x) (subArgsList newArgs r)
  | .atom _ => Val.nil
end

mutual
/-- every atom `sub_args` would turn into a path satisfies `pa`, and it meets no pair in
    operator position (`pp` is the answer at such a position). -/
def subArgsAll (pa : Bytes → Bool) (pp : Bool) : Val → Bool
  | .atom b => pa b
  | .pair (.pair _ _) _ => pp
  | .pair (.atom op) rest => op == [1] || !(isProper rest) || subArgsAllList pa pp rest
def subArgsAllList (pa : Bytes → Bool) (pp : Bool) : Val → Bool
  | .pair x r => subArgsAll pa pp x && subArgsAllList pa pp r
  | .atom _ => true
end

/-- `sub_args` is meaning-preserving on this program: no pair-headed form, every path atom
    reads as an integer ≥ 1 under `number_from_u8`. -/
def subArgsSafe (s : Val) : Bool := subArgsAll (fun b => decide (1 ≤ Bytes.toInt b)) false s

/-- `path_from_args` recurses once per bit of the path atom (it is not a loop): some path atom
    of `s` is 1024 bytes or longer, i.e. ≥ 8192 nested calls — the real code overflows a 2 MiB
    thread stack there (observed: abort at ≈ 32 k levels on the 8 MiB main thread). -/
def subArgsLong (s : Val) : Bool := !(subArgsAll (fun b => decide (b.length < 1024)) true s)

def subArgsFlag (s : Val) : String :=
  if !(subArgsAll (fun _ => true) false s) then "FLAG:sub-args-pair-head"
  else if !(subArgsAll (fun b => decide (Bytes.toInt b ≠ 0)) true s) then "FLAG:sub-args-nil"
  else "FLAG:sub-args-neg"

-- ---------------------------------------------------------------------------------------
-- var_change_optimizer_cons_eval, children_optimizer, path_optimizer
-- ---------------------------------------------------------------------------------------

def flag (t : String) : Res := .error (.fail t)

def nonConstInc : Val → Nat
  | .pair (.atom a) _ => if a == [1] then 0 else 1
  | _ => 0

def nonConstantCount (l : List Val) : Nat := l.foldl (fun acc v => acc + nonConstInc v) 0

/-- the part of `var_change_optimizer_cons_eval` after `sub_args`. -/
def varChangeKeep (strict : Bool) (rec : Val → Res) (r newS : Val) : Res :=
  if seemsConstant newS then rec newS
  else
    match properList newS with
    | none => .ok r
    | some [] => .ok r      -- unreachable: the empty list is an atom, which seems constant
    | some (h :: t) =>
      if strict && h.isPair then flag "FLAG:pair-head"
      else
        match mapRes rec (h :: t) with
        | .error e => .error e
        | .ok opt => if nonConstantCount opt < 1 then .ok (Val.ofList opt) else .ok r

/-- `var_change_optimizer_cons_eval`: `(a (q . S) ARGS)` ⇒ `S[ARGS]` when at most … -/
def varChangeOptimizer (strict : Bool) (rec : Val → Res) (r : Val) : Res :=
  match matchSexp patQA r [] with
  | none => .ok r
  | some bs =>
    match lookupB kArgs bs, lookupB kSexp bs with
    | some args, some call =>
      if strict && !(subArgsSafe call) then flag (subArgsFlag call)
      else if strict && subArgsLong call then flag "FLAG:sub-args-long-path"
      else varChangeKeep strict rec r (subArgs args call)
    | _, _ => failR "bad pattern match"

/-- `children_optimizer` -/
def childrenOptimizer (strict : Bool) (rec : Val → Res) (r : Val) : Res :=
  match properList r with
  | none => .ok r
  | some [] => .ok r
  | some (h :: t) =>
    if isQuoteAtom h then .ok r
    else if strict && h.isPair then flag "FLAG:pair-head"
    else
      match mapRes rec (h :: t) with
      | .error e => .error e
      | .ok l => .ok (Val.ofList l)

def atomBytes : Val → Option Bytes
  | .atom b => some b
  | .pair _ _ => none

/-- the index `NodePath::new(number_from_u8(b))` is the one clvmr traverses for `b`. -/
def pathAtomOk (b : Bytes) : Bool := NodePath.new (Bytes.toInt b) == Bytes.toNatBE b

/-- the one way `pathAtomOk` fails: a NON-minimal atom with the top bit set (`0xffff`, `0xff80`),
    which `NodePath::new` re-encodes minimally before reading it unsigned.  (Every canonical
    atom is fine: `NodePath.new_canonical`; the former second tag `FLAG:get-u32-path` for
    canonical atoms of ≥ 4 bytes went with the `get_u32` repair, /repo c2e6c4f.) -/
def pathFlag (_b : Bytes) : String := "FLAG:signed-noncanonical-path"

def pathStep (strict : Bool) (b : Bytes) (isRest : Bool) : Res :=
  if strict && !(pathAtomOk b) then flag (pathFlag b)
  else .ok (.atom (NodePath.stepPath b isRest))

/-- `path_optimizer`: `(f N) => N·2`, `(r N) => N·3` -/
def pathOptimizer (strict : Bool) (r : Val) : Res :=
  match matchSexp patFirstAtom r [] with
  | some fm =>
    match (lookupB kAtom fm).bind atomBytes with
    | some b => pathStep strict b false
    | none => .ok r
  | none =>
    match matchSexp patRestAtom r [] with
    | some rm =>
      match (lookupB kAtom rm).bind atomBytes with
      | some b => pathStep strict b true
      | none => .ok r
    | none => .ok r

-- ---------------------------------------------------------------------------------------
-- optimize_sexp_
-- ---------------------------------------------------------------------------------------

/-- one optimiser of the `for opt in optimizers` loop: stop at the first result that differs. -/
def tryRule (r : Val) (res : Res) (k : Unit → Res) : Res :=
  match res with
  | .error e => .error e
  | .ok r1 => if r1 == r then k () else .ok r1

/-- one pass over the eight optimisers, in the order of the `optimizers` vector. -/
def step (ops : OpSem) (strict : Bool) (efuel : Nat) (rec : Val → Res) (r : Val) : Res :=
  tryRule r (.ok (consOptimizer r)) fun _ =>
  tryRule r (constantOptimizer ops efuel r) fun _ =>
  tryRule r (.ok (consQAOptimizer r)) fun _ =>
  tryRule r (varChangeOptimizer strict rec r) fun _ =>
  tryRule r (childrenOptimizer strict rec r) fun _ =>
  tryRule r (pathOptimizer strict r) fun _ =>
  tryRule r (.ok (quoteNullOptimizer r)) fun _ =>
  tryRule r (.ok (applyNullOptimizer r)) fun _ => .ok r

/-- `optimize_sexp_` (memo absent): loop until no optimiser changes the expression. -/
def optimizeSexp (ops : OpSem) (strict : Bool) (efuel : Nat) : Nat → Val → Res
  | _, .atom b => .ok (.atom b)
  | 0, .pair _ _ => .error .fuel
  | n + 1, .pair a d =>
    match step ops strict efuel (optimizeSexp ops strict efuel n) (.pair a d) with
    | .error e => .error e
    | .ok r1 => if r1 == .pair a d then .ok (.pair a d) else optimizeSexp ops strict efuel n r1

end Opt
