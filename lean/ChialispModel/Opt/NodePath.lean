/-
  Opt/NodePath.lean — classic `NodePath` arithmetic (src/classic/clvm_tools/node_path.rs) and
  the casts it goes through (src/classic/clvm/casts.rs, `get_u32` of
  src/classic/clvm/__type_compatibility__.rs).  Used by the classic optimiser's
  `path_optimizer` (C04) and by the classic compiler's path assignment (C03).

  The model mirrors the code AS IT IS:
  * `get_u32` assembles its four bytes big-endian (since /repo c2e6c4f; before that commit it
    was little-endian although `bigint_from_bytes` treats the groups as big-endian digits —
    former findings C04-get-u32-path, C03-deep-path-get-u32, C08-get-u32-little-endian);
    `bigint_from_bytes` is therefore the plain unsigned big-endian reading
    (`NodePath.bigintFromBytes_eq` in Proofs/NodePathLemmas.lean, all lengths);
  * `NodePath::new` re-reads a *negative* index through
    `bigint_to_bytes_clvm` → `bigint_from_bytes` (unsigned), non-negative ones are kept.
  Import-free (links into the native driver).
-/
import ChialispModel.Base.Path

namespace NodePath

/-- `dv[n]` (the Rust code indexes in bounds only; out of range reads as 0 here). -/
def byteAt (dv : Bytes) (n : Nat) : Nat := (dv.getD n 0).toNat

/-- `get_u32(v, n)`: `(p1 << 24) | (p2 << 16) | (p3 << 8) | p4` — BIG-endian
    (the four fields are disjoint, so `|` is `+`). -/
def getU32 (dv : Bytes) (n : Nat) : Nat :=
  byteAt dv n * 2 ^ 24 + byteAt dv (n + 1) * 2 ^ 16 + byteAt dv (n + 2) * 2 ^ 8 + byteAt dv (n + 3)

/-- first loop of `bigint_from_bytes`: `k` counts `i_reverse`; `i = bytes4_length - i_reverse - 1`,
    `order` starts at 1 and is shifted by 32 per round. -/
def groupSum (dv : Bytes) (rem len4 : Nat) : Nat → Nat
  | 0 => 0
  | k + 1 => groupSum dv rem len4 k + getU32 dv ((len4 - k - 1) * 4 + rem) * 2 ^ (32 * k)

/-- second loop: the `bytes4_remain` leading bytes, `i = bytes4_remain - i_reverse - 1`,
    `order` continues from the first loop and is shifted by 8 per round. -/
def remSum (dv : Bytes) (rem order : Nat) : Nat → Nat
  | 0 => 0
  | k + 1 => remSum dv rem order k + byteAt dv (rem - k - 1) * (order * 2 ^ (8 * k))

/-- `bigint_from_bytes(b, None)` (unsigned). -/
def bigintFromBytes (b : Bytes) : Nat :=
  if b.length = 0 then 0
  else groupSum b (b.length % 4) (b.length / 4) (b.length / 4)
     + remSum b (b.length % 4) (2 ^ (32 * (b.length / 4))) (b.length % 4)

/-- `bigint_to_bytes_unsigned`: `0 ↦ []`, otherwise minimal unsigned big-endian. -/
def bigintToBytesUnsigned (v : Nat) : Bytes := Bytes.ofNatBE v

/-- `NodePath::new(Some(index))`: the stored index (always ≥ 0 afterwards). -/
def new (index : Int) : Nat :=
  if index < 0 then bigintFromBytes (Bytes.ofIntClvm index) else index.toNat

/-- `NodePath::new(None)`. -/
def root : Nat := 1

/-- the `while temp_path > 1 { path_1 <<= 1; mask <<= 1; temp_path >>= 1 }` loop of
    `compose_paths`; returns `(path_1, mask)`.  `fuel` only bounds the recursion
    (`temp_path` itself suffices). -/
def composeLoop : Nat → Nat → Nat → Nat → Nat × Nat
  | 0, _, p1, m => (p1, m)
  | f + 1, t, p1, m => if t > 1 then composeLoop f (t >>> 1) (p1 <<< 1) (m <<< 1) else (p1, m)

/-- `compose_paths(path_0, path_1)`: `mask -= 1; path_1 | (path_0 & mask)`. -/
def composePaths (p0 p1 : Nat) : Nat :=
  (composeLoop p0 p0 p1 1).1 ||| (p0 &&& ((composeLoop p0 p0 p1 1).2 - 1))

/-- `self.add(other)`: `NodePath::new(Some(compose_paths(self.index, other.index)))`. -/
def add (a b : Nat) : Nat := new (Int.ofNat (composePaths a b))

/-- `self.first()`: `NodePath::new(Some(index * 2))`. -/
def first (a : Nat) : Nat := new (Int.ofNat (a * 2))

/-- `self.rest()`: `NodePath::new(Some(index * 2 + 1))`. -/
def rest (a : Nat) : Nat := new (Int.ofNat (a * 2 + 1))

/-- `self.as_path()`. -/
def asPath (a : Nat) : Bytes := bigintToBytesUnsigned a

/-- what `path_optimizer` builds from the atom `b` of `(f b)` / `(r b)`:
    `NodePath::new(Some(number_from_u8(b))).add(NodePath::new(None).first()/.rest()).as_path()`. -/
def stepPath (b : Bytes) (isRest : Bool) : Bytes :=
  asPath (add (new (Bytes.toInt b)) (if isRest then rest root else first root))

end NodePath
