/-
  Drv/Shrink.lean — `modeld shrink`: the model of the REPL's partial evaluator on a core session.
  line: `<program as rich>`  — `(mod PARAMS [sigil] (defun …)* EXPR)`: the defuns are the session's
        definition lines, EXPR its expression line (PARAMS are NOT known to the REPL: free variables)
  →     `S <frag|notfrag> <thm|nothm> R <residual as hex>` | `S … E` (error) | `S … D` (depth limit) |
        `S … U` (outside the modelled engine) | `notcore`
        frag = `Shrink.fragOk` (the sessions on which the model claims to be the REPL),
        thm  = `Shrink.thmFrag` and a residual without undecided `if` (what the soundness theorems of Props/C16.lean cover)
-/
import ChialispModel.Drv.RichIO
import ChialispModel.Lang.CoreSource
import ChialispModel.Lang.Shrink

namespace Drv.Shrink

def showR : Shrink.R Core.Expr → String
  | .ok e => "R " ++ SerdeSpec.toHex (Shrink.toVal e)
  | .fail => "E"
  | .depth => "D"
  | .unsup => "U"

def line (l : String) : String :=
  match Drv.splitWs l with
  | p :: _ =>
    match Drv.decRich p with
    | some src =>
      match Core.ofSource src with
      | none => "notcore"
      | some P =>
        let r := Shrink.replShrink Ops.chiaOps P.fns 1500 P.body
        -- covered by the theorems: expression in `thmFrag` AND (hypothesis `exprOk e'`) no undecided `if` left
        let resOk := match r with
          | .ok e' => Core.exprOk e'
          | _ => true
        "S " ++ (if Shrink.fragOk P then "frag" else "notfrag") ++ " " ++
          (if Shrink.thmFrag P.fns P.body && resOk then "thm" else "nothm") ++ " " ++ showR r
    | none => "bad-input"
  | _ => "bad-input"

def run : IO Unit := Drv.eachLine line

end Drv.Shrink
