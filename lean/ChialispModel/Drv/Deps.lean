/-
  Drv/Deps.lean — `modeld deps` (C18).

  line   := <dialect> ' ' <order> ' ' <file>(';'<file>)*
    dialect  c21 | c22 (non-strict) | s21 | c23 (strict): the sigil included first by the main program
    order    digits: the search path (directory numbers, in order)
    file     <dir digit><name> '=' ( 'F' <form>*  |  'D' <hexOk 0|1> <sexpOk 0|1> <hex bytes> )
             `0main` is the program; F-files are `<name>.clib`, D-files `<name>.dat`
    form     'i' <name> '.'   (include <name>.clib)  — a name starting with `*` is a pseudo-file
             'b'|'h'|'s' <name> '.'   (embed-file C bin|hex|sexp <name>.dat)
             'm' <form>* 'e'          a helper containing a nested (mod …) with these forms
             'o'                      another helper
  →  `deps=<ok …|err|fuel> reads=<ok …|err|fuel> n=<k>`: the listing in order (with repetitions),
     the sorted set of files read, as `d<dir>/<file>` or the pseudo-file name, and the number of
     `read_new_file` calls of one frontend pass (the check skips cases that are too expensive for
     the real compiler, whose strict-dialect preprocessor re-reads included files exponentially
     often in the include depth).
-/
import ChialispModel.Sys.Deps
import ChialispModel.Drv.Common

namespace Drv.Deps
open _root_.Deps

/-- names travel as numbers: the bytes of the string in base 256. -/
def nameId (s : String) : Nat := s.toList.foldl (fun acc c => acc * 256 + c.toNat) 0

def nameOfIdAux : Nat → Nat → List Char
  | 0, _ => []
  | fuel + 1, n => if n = 0 then [] else nameOfIdAux fuel (n / 256) ++ [Char.ofNat (n % 256)]

def nameOfId (n : Nat) : String := String.ofList (nameOfIdAux 64 n)

def mkName (s : String) : Name :=
  if s = "*macros*" then .macros else if s.startsWith "*" then .dialect (nameId s) else .file (nameId s)

/-- parse forms from a character list; returns the forms and the rest. -/
def parseForms : Nat → List Char → Option (List Form × List Char)
  | 0, _ => none
  | _ + 1, [] => some ([], [])
  | fuel + 1, c :: rest =>
    if c = 'o' then
      (parseForms fuel rest).map (fun (fs, r) => (.other :: fs, r))
    else if c = 'i' ∨ c = 'b' ∨ c = 'h' ∨ c = 's' then
      let name := String.ofList (rest.takeWhile (· ≠ '.'))
      let after := (rest.dropWhile (· ≠ '.')).drop 1
      let f : Form :=
        if c = 'i' then .incl (mkName name)
        else .embed (if c = 'b' then .bin else if c = 'h' then .hex else .sexp) (nameId name)
      (parseForms fuel after).map (fun (fs, r) => (f :: fs, r))
    else if c = 'm' then
      match parseForms fuel rest with
      | some (inner, 'e' :: r) => (parseForms fuel r).map (fun (fs, r') => (.nested inner :: fs, r'))
      | _ => none
    else some ([], c :: rest)

structure Entry where
  dir : Nat
  name : Nat
  src : Option (List Form)
  dat : Option (Bool × Bool)

def parseFile (s : String) : Option (Entry × Bool) :=
  match s.splitOn "=" with
  | [lhs, rhs] =>
    match lhs.toList, rhs.toList with
    | d :: nm, 'F' :: body =>
      match parseForms 10000 body with
      | some (fs, []) =>
        let name := String.ofList nm
        some (⟨d.toNat - 48, nameId name, some fs, none⟩, name = "main")
      | _ => none
    | d :: nm, 'D' :: h :: sx :: _ =>
      some (⟨d.toNat - 48, nameId (String.ofList nm), none, some (h = '1', sx = '1')⟩, false)
    | _, _ => none
  | _ => none

def mkDir (es : List Entry) (d : Nat) : Dir :=
  { src := fun n => (es.find? (fun e => e.dir = d ∧ e.name = n ∧ e.src.isSome)).bind (·.src),
    dat := fun n => (es.find? (fun e => e.dir = d ∧ e.name = n ∧ e.dat.isSome)).bind (·.dat) }

def showName : Name → String
  | .macros => "*macros*"
  | .dialect k => nameOfId k
  | .file n => nameOfId n

def showR (order : List Nat) : RName → String
  | .pseudo n => showName n
  | .src i n => s!"d{order.getD i 99}/{nameOfId n}.clib"
  | .dat i n => s!"d{order.getD i 99}/{nameOfId n}.dat"

def joinOr (xs : List String) : String := if xs.isEmpty then "-" else ",".intercalate xs

def sortDedup (xs : List String) : List String :=
  ((xs.toArray.qsort (· < ·)).toList).eraseDups

def showErr : Err → String
  | .fuel => "fuel"
  | _ => "err"

def fuel : Nat := 24

def line (l : String) : String :=
  match Drv.splitWs l with
  | [dial, orderS, filesS] =>
    let strict := dial = "s21" ∨ dial = "c23"
    let sigil := if dial = "c21" then "*standard-cl-21*" else if dial = "c22" then "*standard-cl-22*"
      else if dial = "c23" then "*standard-cl-23*" else if dial = "s21" then "*strict-cl-21*" else ""
    let order := orderS.toList.filterMap (fun c => if c.isDigit then some (c.toNat - 48) else none)
    let parsed := (filesS.splitOn ";").map parseFile
    if parsed.any Option.isNone then "bad-input" else
    let es := parsed.filterMap id
    match es.find? (·.2) with
    | none => "bad-input"
    | some (m, _) =>
      let entries := (es.filter (fun e => !e.2)).map (·.1)
      let cfg : Cfg := { dirs := order.map (mkDir entries), strict := strict }
      let main := (if sigil = "" then [] else [Form.incl (mkName sigil)]) ++ (m.src.getD [])
      let deps := match gatherDeps cfg fuel main with
        | .ok l => "deps=ok " ++ joinOr (l.map (showR order))
        | .error e => "deps=" ++ showErr e ++ " -"
      let reads := match compileReads cfg fuel main with
        | .ok rs => "reads=ok " ++ joinOr (sortDedup (rs.map (fun r => showR order r.res))) ++ s!" n={rs.length}"
        | .error e => "reads=" ++ showErr e ++ " - n=0"
      deps ++ " " ++ reads
  | _ => "bad-input"

def run : IO Unit := Drv.eachLine line

end Drv.Deps
