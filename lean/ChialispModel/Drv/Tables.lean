/-
  Drv/Tables.lean — `modeld tables` (C20): the table lookups of Clvm/OpTables.lean over the
  regenerated Generated/Tables.lean, on the line protocol of `cvh tables`.
    `from <v> x<atom hex>`   → `x<name hex>` | `-`       keyword_from_atom(v).get(atom)
    `to <v> x<name hex>`     → `x<atom hex>` | `-`       keyword_to_atom(v).get(name)
    `prim x<name hex>`       → `x<atom hex>` | `-`       prim_map()[name] as an operator atom
    `dis <v> x<atom hex>`    → `x<name hex>` | `-`       the keyword disassemble((atom), v) prints (impl: the printed text)
    `impl <v> x<atom hex>`   → `1` | `0`                 the dialect of version v knows the operator
    `stepimpl x<atom hex>`   → `1` | `0`                 the stepping evaluator knows the operator
-/
import ChialispModel.Clvm.OpTables
import ChialispModel.Drv.Common

namespace Drv.Tables
open OpTables

def unx (s : String) : Option (List Nat) :=
  match s.toList with
  | 'x' :: r => (Bytes.ofHexChars r).map (fun b => b.map (·.toNat))
  | _ => none

def enx (a : List Nat) : String := "x" ++ Bytes.toHex (a.map UInt8.ofNat)

def showOpt : Option (List Nat) → String
  | some a => enx a
  | none => "-"

def b01 (b : Bool) : String := if b then "1" else "0"

def line (l : String) : String :=
  match Drv.splitWs l with
  | ["from", v, a] =>
    match v.toNat?, unx a with
    | some v, some a => showOpt (fromAtom v a)
    | _, _ => "bad-input"
  | ["to", v, n] =>
    match v.toNat?, unx n with
    | some v, some n => showOpt (toAtom v n)
    | _, _ => "bad-input"
  | ["dis", v, a] =>
    match v.toNat?, unx a with
    | some v, some a => showOpt (disasmName v a)
    | _, _ => "bad-input"
  | ["prim", n] =>
    match unx n with
    | some n => showOpt (primAtom n)
    | none => "bad-input"
  | ["impl", v, a] =>
    match v.toNat?, unx a with
    | some v, some a => b01 (implemented v a)
    | _, _ => "bad-input"
  | ["stepimpl", a] =>
    match unx a with
    | some a => b01 (implemented Tables.stepperVersion (stepperOp a))
    | none => "bad-input"
  | _ => "bad-input"

def run : IO Unit := Drv.eachLine line

end Drv.Tables
