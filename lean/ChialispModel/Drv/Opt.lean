/-
  Drv/Opt.lean — `modeld opt` (C04).
  lines:
    `o <prog hex> <env hex>*` → `<mirror> <strict> r:<8 bits>`
         mirror: `ok:<hex>` | `err` | `fuel` | `unsupported` | `skipped-long-path`   (optimizeSexp, strict = false)
         strict: `clean` | `FLAG:<kind>` | `err` | `fuel` | `unsupported`   (strict = true)
         (environments are ignored by the model; the harness uses them for the oracle)
    `n <atom hex> f|r`       → hex of `NodePath.stepPath`
    `p <pattern fn name> …`  → hex of the model's pattern constant of that name
-/
import ChialispModel.Drv.Common
import ChialispModel.Opt.Classic

namespace Drv.Opt

def ofuel : Nat := 100000
def efuel : Nat := 100000

def showMirror : Res → String
  | .ok v => "ok:" ++ SerdeSpec.toHex v
  | .error .fuel => "fuel"
  | .error (.fail t) => if t = "UNSUPPORTED" then "unsupported" else "err"

def showStrict : Res → String
  | .ok _ => "clean"
  | .error .fuel => "fuel"
  | .error (.fail t) =>
    if t = "UNSUPPORTED" then "unsupported" else if t.startsWith "FLAG:" then t else "err"

/-- coverage statistic only: which of the eight optimisers change some sub-tree of the input
    when applied to it alone (bit i = optimiser i of the `optimizers` vector). -/
def ruleBits (r : Val) : List Bool :=
  let rec' := Opt.optimizeSexp Ops.chiaOps false efuel ofuel
  let ne (x : Res) : Bool := match x with | .ok v => v != r | .error _ => true
  [Opt.consOptimizer r != r, ne (Opt.constantOptimizer Ops.chiaOps efuel r), Opt.consQAOptimizer r != r,
   ne (Opt.varChangeOptimizer false rec' r), ne (Opt.childrenOptimizer false rec' r), ne (Opt.pathOptimizer false r),
   Opt.quoteNullOptimizer r != r, Opt.applyNullOptimizer r != r]

partial def ruleMask (budget : Nat) (r : Val) : List Bool :=
  match r with
  | .atom _ => List.replicate 8 false
  | .pair a d =>
    if budget = 0 then List.replicate 8 false
    else
      let here := ruleBits r
      let l := ruleMask (budget / 2) a
      let rr := ruleMask (budget / 2) d
      (here.zip (l.zip rr)).map fun (x, y, z) => x || y || z

def showMask (m : List Bool) : String := "r:" ++ String.ofList (m.map fun b => if b then '1' else '0')

def pattern (name : String) : Option Val :=
  match name with
  | "cons_q_a_optimizer_pattern" => some Opt.patQA
  | "var_change_optimizer_cons_eval_pattern" => some Opt.patQA
  | "cons_pattern" => some Opt.patCons
  | "cons_optimizer_pattern_first" => some Opt.patFirstCons
  | "cons_optimizer_pattern_rest" => some Opt.patRestCons
  | "first_atom_pattern" => some Opt.patFirstAtom
  | "rest_atom_pattern" => some Opt.patRestAtom
  | "quote_pattern_1" => some Opt.patQuoteNull
  | "apply_null_pattern_1" => some Opt.patApplyNull
  | _ => none

def line (l : String) : String :=
  match Drv.splitWs l with
  | "o" :: p :: _ =>
    match SerdeSpec.ofHex p with
    | some pv =>
      let strict := showStrict (Opt.optimizeSexp Ops.chiaOps true efuel ofuel pv)
      -- a path atom of ≥ 1024 bytes under substitution: the real code overflows its stack, and the
      -- mirror would spend minutes (quadratic) building and re-walking a chain thousands of levels deep
      if strict = "FLAG:sub-args-long-path" then "skipped-long-path " ++ strict ++ " r:00000000"
      else
        showMirror (Opt.optimizeSexp Ops.chiaOps false efuel ofuel pv) ++ " " ++ strict ++ " " ++ showMask (ruleMask 64 pv)
    | none => "bad-input"
  | ["n", h, d] =>
    match Bytes.ofHex h with
    | some b => Bytes.toHex (NodePath.stepPath b (d == "r"))
    | none => "bad-input"
  | "p" :: name :: _ =>
    match pattern name with
    | some v => SerdeSpec.toHex v
    | none => "unknown-pattern"
  | _ => "bad-input"

def run : IO Unit := Drv.eachLine line

end Drv.Opt
