/-
  Drv/CoreSyms.lean — `modeld coresyms`: the symbol table the model records for a core
  program (Lang/CoreSymbols.lean) with `H = sha256`, and the function-call programs
  `compose_run_function` builds from it.
  line: `<program as rich>`
    → `K <wf|notwf> <compiled hex> <table> <calls>` | `notcore` | `nocompile`
      table = `key:hex(value text)` sorted by key, comma-separated
      calls = `hash:path:hex(rewritten program)` for every function key, sorted, comma-separated (`-` if none)
-/
import ChialispModel.Drv.RichIO
import ChialispModel.Base.Sha256
import ChialispModel.Lang.CoreSource
import ChialispModel.Lang.CoreSymbols

namespace Drv.CoreSyms

def sortStrings (l : List String) : List String := l.mergeSort (fun a b => decide (a ≤ b))

def joinOr (l : List String) : String := if l.isEmpty then "-" else ",".intercalate l

def tableText (t : Core.SymTab) : String :=
  joinOr (sortStrings (t.map (fun kv => Core.keyText kv.1 ++ ":" ++ Bytes.toHex (Core.valText kv.2))))

def callText (code : Val) : Core.SymKey × Core.SymVal → Option String
  | (.fn h, _) =>
    match Core.extractProgramAndEnv code with
    | some (_, qenv) =>
      match Lang.pathToFunction Sha256.hash qenv h, Core.composeRunFunction Sha256.hash code h with
      | some p, some r => some (Bytes.toHex h ++ ":" ++ toString p ++ ":" ++ SerdeSpec.toHex r)
      | _, _ => some (Bytes.toHex h ++ ":none")
    | none => some (Bytes.toHex h ++ ":noenv")
  | _ => none

def line (l : String) : String :=
  match Drv.splitWs l with
  | [p] =>
    match Drv.decRich p with
    | some src =>
      match Core.ofSource src with
      | none => "notcore"
      | some P =>
        match Core.compileCoreSyms Sha256.hash P with
        | none => "nocompile"
        | some (code, tab) =>
          " ".intercalate ["K", (if Core.progWF P then "wf" else "notwf"), SerdeSpec.toHex code,
            tableText tab, joinOr (sortStrings (tab.filterMap (callText code)))]
    | none => "bad-input"
  | _ => "bad-input"

def run : IO Unit := Drv.eachLine line

end Drv.CoreSyms
