/-
  Drv/Atomic.lean — `modeld atomic` (C19).

  line  `s <entry> <prev> <mode> <data> <cuts> <crash> [ignored…]`
    entry  g = gentle_overwrite, a = atomic_write_file, c = compile_clvm (= g on the data)
    prev   `-` (output path absent) or hex of the previous contents
    mode   ok | rofile | rodir | nodir | dirfile | tgtdir | fsize:<N>
             rodir/nodir/dirfile : the directory refuses entry creation  (dirOk = false)
             rofile              : the target FILE is read-only (irrelevant to rename)
             tgtdir              : the output path is a directory: read and rename fail
             fsize:<N>           : RLIMIT_FSIZE = N: write(2) transfers N bytes, the next fails
    data   hex of the new contents;  cuts  `-` or comma-separated write(2) sizes
    crash  0 or the crash point (1,2,3,4,10,11,12) at which the process dies
  →     `<ok|err|killed> <target hex|-> <points,…|-> <ops,…|-> <leftover temp 0|1> <allowed …>`
-/
import ChialispModel.Sys.AtomicWrite
import ChialispModel.Drv.Common

namespace Drv.Atomic
open AtomicWrite

def tgt : Path := ⟨0, 0⟩

def splitCuts (data : Bytes) : List Nat → List Bytes
  | [] => if data.isEmpty then [] else [data]
  | n :: r => data.take n :: splitCuts (data.drop n) r

def opName : Op → String
  | .readOk => "readOk" | .readFail => "readFail" | .mkOk => "mkOk" | .mkFail => "mkFail"
  | .wrOk => "wrOk" | .wrFail => "wrFail" | .mvOk => "mvOk" | .mvFail => "mvFail"
  | .rmOk => "rmOk" | .rmFail => "rmFail" | .nop => "nop"

/-- crash points passed after the operation `op` performed in phase `p`. -/
def pointsAfter (c : WCfg) (p : WPhase) (op : Op) : List Nat :=
  match p, op with
  | .start, .readOk => [11, 1]
  | .start, _ => [1]
  | .create _, .mkOk => if c.chunks.isEmpty then [2, 3] else [2]
  | .create same, _ => if same then [12] else []
  | .writing _ _ [_], .wrOk => [3]
  | .writing _ _ (_ :: _), _ => []
  | .writing same _ [], .mvOk => if same then [4, 12] else [4]
  | .writing _ _ [], _ => []
  | .cleanup same _, _ => if same then [12] else []
  | _, _ => []

/-- the points up to and including the crash point. -/
def cutAt (k : Nat) : List Nat → List Nat
  | [] => []
  | x :: r => if x = k then [x] else x :: cutAt k r

structure Run where
  s : State
  points : List Nat
  ops : List Op
  killed : Bool

/-- run writer 0 alone; `faultOf` decides from the phase whether the next operation fails. -/
def runSeq (S : Sys) (crash : Nat) (faultOf : WPhase → Bool) : Nat → Run → Run
  | 0, r => r
  | fuel + 1, r =>
    if r.killed then r else
    match r.s.w 0 with
    | .done _ => r
    | .dead => r
    | p =>
      let f := faultOf p
      let op := wlabel S (S.cfg 0) f r.s.fs p
      let s' := step S r.s (.w 0 f)
      let pts := pointsAfter (S.cfg 0) p op
      if crash ≠ 0 ∧ pts.contains crash then
        { s := step S s' (.kill 0), points := r.points ++ cutAt crash pts, ops := r.ops ++ [op], killed := true }
      else
        runSeq S crash faultOf fuel { s := s', points := r.points ++ pts, ops := r.ops ++ [op], killed := false }

def showContent : Option Bytes → String
  | none => "-"
  | some b => if b.isEmpty then "empty" else Bytes.toHex b

def parseContent (s : String) : Option (Option Bytes) :=
  if s = "-" then some none else if s = "empty" then some (some []) else (Bytes.ofHex s).map some

def joinOr (xs : List String) : String := if xs.isEmpty then "-" else ",".intercalate xs

def line (l : String) : String :=
  match Drv.splitWs l with
  | "s" :: entry :: prevS :: mode :: dataS :: cutsS :: crashS :: _ =>
    match parseContent prevS, parseContent dataS with
    | some prev, some (some data) =>
      let fsize : Option Nat := if mode.startsWith "fsize:" then (mode.drop 6).toNat? else none
      let cuts : List Nat := if cutsS = "-" then [] else (cutsS.splitOn ",").filterMap String.toNat?
      let chunks : List Bytes :=
        match fsize with
        | some n =>
          if data.length ≤ n then splitCuts data []
          else if n = 0 then [data] else [data.take n, data.drop n]
        | none => splitCuts data cuts
      let wfail : Bool := match fsize with | some n => decide (n < data.length) | none => false
      let gentle := entry ≠ "a"
      let S : Sys := { target := tgt, cfg := fun _ => ⟨gentle, 1, chunks⟩, norm := normStd }
      let dirOk := !(mode = "rodir" ∨ mode = "nodir" ∨ mode = "dirfile")
      let fs₀ : FS :=
        { names := fun p => if p = tgt then (match prev with | some _ => some 0 | none => none) else none,
          inodes := fun k => if k = 0 then prev.getD [] else [],
          next := 1,
          dirOk := fun _ => dirOk }
      let faultOf : WPhase → Bool := fun p =>
        match p with
        | .start => mode = "tgtdir"
        | .writing _ _ [] => mode = "tgtdir"
        | .writing _ _ [_] => wfail
        | _ => false
      let crash := crashS.toNat?.getD 0
      let first : List Nat := if gentle then [10] else [1]
      let r0 : Run := { s := init S fs₀, points := [], ops := [], killed := false }
      let r :=
        if crash ≠ 0 ∧ first.contains crash then
          { r0 with s := step S r0.s (.kill 0), points := first, killed := true }
        else runSeq S crash faultOf (chunks.length + 10) { r0 with points := first }
      let res := if r.killed then "killed" else match r.s.w 0 with
        | .done .ok => "ok" | .done .err => "err" | _ => "killed"
      let left := if (r.s.fs.names (S.tmpPath (S.cfg 0))).isSome then "1" else "0"
      let allowed := showContent prev ++ "|" ++ showContent (some data)
      s!"{res} {showContent (r.s.fs.content tgt)} {joinOr (r.points.map toString)} {joinOr (r.ops.map opName)} {left} {allowed}"
    | _, _ => "bad-input"
  | _ => "bad-input"

def run : IO Unit := Drv.eachLine line

end Drv.Atomic
