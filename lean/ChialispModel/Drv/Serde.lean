/-
  Drv/Serde.lean — `modeld serde` (C08).  Same line protocol as `cvh serde`:
    `e <valspec>`  → `<Serde.encode v> <SerdeSpec.encode v> <rt>`
    `d|D <bytespec>` → `<Serde.decode bs> <SerdeSpec.decode bs> <Serde.decode bs | -> w<0|1>`
  (the last field, the `usesWide` branch tag, exists on the model side only).
  The decoder model runs in the configuration read from the sources (`SerdeCfg.source`).
-/
import ChialispModel.Clvm.Serde
import ChialispModel.Drv.Common

namespace Drv.Serde

def fnv1a (b : Bytes) : UInt64 :=
  b.foldl (fun h x => (h ^^^ x.toUInt64) * 0x100000001b3) 0xcbf29ce484222325

def hex16 (n : UInt64) : String :=
  String.ofList ((List.range 16).map (fun i => Bytes.hexDigit ((n.toNat >>> (4 * (15 - i))) % 16)))

def summary (b : Bytes) : String :=
  if b.length ≤ 200 then "x" ++ Bytes.toHex b
  else s!"L{b.length}:{hex16 (fnv1a b)}:{Bytes.toHex (b.take 8)}"

def parseRep (s : String) : Option Bytes :=
  match s.splitOn ":" with
  | [n, h] =>
    match n.toNat?, Bytes.ofHex h with
    | some k, some [x] => some (List.replicate k x)
    | _, _ => none
  | _ => none

def parsePiece (p : String) : Option Bytes :=
  match p.toList with
  | 'x' :: r => Bytes.ofHexChars r
  | 'r' :: r => parseRep (String.ofList r)
  | _ => none

def parseBytespec (s : String) : Option Bytes :=
  (s.splitOn ",").foldl (fun acc p =>
    match acc, parsePiece p with
    | some a, some b => some (a ++ b)
    | _, _ => none) (some [])

def parseValAux : Nat → List String → Option (Val × List String)
  | 0, _ => none
  | _, [] => none
  | fuel + 1, t :: rest =>
    if t = "P" then
      match parseValAux fuel rest with
      | some (a, r1) =>
        match parseValAux fuel r1 with
        | some (d, r2) => some (.pair a d, r2)
        | none => none
      | none => none
    else
      match t.toList with
      | 'A' :: h => (Bytes.ofHexChars h).map (fun b => (.atom b, rest))
      | 'R' :: r => (parseRep (String.ofList r)).map (fun b => (.atom b, rest))
      | _ => none

def parseVal (s : String) : Option Val :=
  let toks := s.splitOn ","
  match parseValAux (toks.length + 1) toks with
  | some (v, []) => some v
  | _ => none

def specSummary (v : Val) : String :=
  match SerdeSpec.encode v with
  | some b => summary b
  | none => "!ser"

def showDec : Except Serde.SerErr Val → String
  | .ok v => "ok:" ++ specSummary v
  | .error .fuel => "fuel"
  | .error _ => "err"

def line (l : String) : String :=
  match Drv.splitWs l with
  | ["e", vs] =>
    match parseVal vs with
    | some v =>
      let enc := Serde.encode v
      let rt := match Serde.decode SerdeCfg.source enc with
        | .ok back => if back == v then "same" else "diff:" ++ specSummary back
        | .error .fuel => "fuel"
        | .error _ => "err"
      s!"{summary enc} {specSummary v} {rt}"
    | none => "bad-input"
  | [k, bsS] =>
    if k = "d" ∨ k = "D" then
      match parseBytespec bsS with
      | some bs =>
        let r := showDec (Serde.decode SerdeCfg.source bs)
        let sp := match SerdeSpec.decode bs with
          | some v => "ok:" ++ specSummary v
          | none => "err"
        let third := if k = "D" then "-" else r
        let w := if Serde.usesWide SerdeCfg.source (bs.length + 1) bs then "w1" else "w0"
        s!"{r} {sp} {third} {w}"
      | none => "bad-input"
    else "bad-input"
  | _ => "bad-input"

def run : IO Unit := Drv.eachLine line

end Drv.Serde
