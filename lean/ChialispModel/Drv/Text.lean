/-
  Drv/Text.lean — `modeld text` (C09); same line protocol as harness/src/text.rs:
    `d <ver> <hex>`  → `<text hex> <assemble(text)>`
    `D <ver> <hex>`  → the same with the repaired writer (`full_repr = true`), for validating the proposed fix
    `m <hex>`        → `<text hex> P:<parse→clvm> A:<assemble> <own clvm hex>` for `fromClvm true v`
    `r <rich>`       → the same for a given rich value
    `p <text hex>`   → `ok <rich>,…` | `err:<kind>`
    `a <text hex>`   → `ok <hex>` | `err:<kind>`
    `k`              → keyword tables and prims
-/
import ChialispModel.Drv.RichIO
import ChialispModel.Text.IR
import ChialispModel.Text.Printer
import ChialispModel.Text.ModernReader

namespace Drv.Text

def rdErr : RdErr → String
  | .unterminated => "unterminated"
  | .missingParen => "missingParen"
  | .emptyStream => "emptyStream"
  | .badHex => "badHex"
  | .fuel => "fuel"

def pErr : MReader.PErr → String
  | .tooManyCloseParens => "tooManyCloseParens"
  | .dotAfterOpen => "dotAfterOpen"
  | .dotInStructured => "dotInStructured"
  | .dotFirst => "dotFirst"
  | .objectInTermList => "objectInTermList"
  | .illegalTermState => "illegalTermState"
  | .multipleDots => "multipleDots"
  | .unterminated => "unterminated"

def assembleLine (text : Bytes) : String :=
  match IR.assemble text with
  | .ok v => "ok " ++ SerdeSpec.toHex v
  | .error e => "err:" ++ rdErr e

def joinComma : List String → String
  | [] => ""
  | [x] => x
  | x :: r => x ++ "," ++ joinComma r

def okList (l : List String) : String :=
  if l.isEmpty then "ok" else "ok " ++ joinComma l

def parseToClvmLine (text : Bytes) : String :=
  match MReader.parse text with
  | .ok forms => okList (forms.map (fun f => SerdeSpec.toHex (Rich.toClvm true f)))
  | .error e => "err:" ++ pErr e

def modernTriple (r : Rich) : String :=
  let text := Rich.print r
  s!"{Bytes.toHex text} P:{parseToClvmLine text} A:{assembleLine text} {SerdeSpec.toHex (Rich.toClvm true r)}"

def tablesDump : String :=
  let vers := [0, 1, 2, 3]
  let part (ver : Nat) : String :=
    let f := (KwTables.fromAtomTable ver).map (fun p =>
      Bytes.toHex p.1 ++ "=" ++ (match KwTables.keywordFromAtom ver p.1 with | some n => Bytes.toHex n | none => "?"))
    let t := (KwTables.toAtomTable ver).map (fun p =>
      Bytes.toHex p.1 ++ "=" ++ (match KwTables.keywordToAtom ver p.1 with | some n => Bytes.toHex n | none => "?"))
    s!"F{ver}:{joinComma f} T{ver}:{joinComma t}"
  let ps := KwTables.prims.map (fun p =>
    Bytes.toHex p.1 ++ "=" ++ (match KwTables.primLookup p.1 KwTables.prims with | some i => Drv.encRich (.int i) | none => "?"))
  String.intercalate " " (vers.map part) ++ " P:" ++ joinComma ps

def line (l : String) : String :=
  match Drv.splitWs l with
  | ["d", ver, h] =>
    match SerdeSpec.ofHex h with
    | some v =>
      let text := IR.disassemble (Drv.natArg ver 2) v
      s!"{Bytes.toHex text} {assembleLine text}"
    | none => "bad-input"
  | ["D", ver, h] =>      -- the REPAIRED writer (full_repr = true); compared with a repaired tree only
    match SerdeSpec.ofHex h with
    | some v =>
      let text := IR.disassembleWith true (Drv.natArg ver 2) v
      s!"{Bytes.toHex text} {assembleLine text}"
    | none => "bad-input"
  | ["m", h] =>
    match SerdeSpec.ofHex h with
    | some v => modernTriple (Rich.fromClvm true v)
    | none => "bad-input"
  | ["r", rs] =>
    match Drv.decRich rs with
    | some r => modernTriple r
    | none => "bad-input"
  | ["p", h] =>
    match Bytes.ofHex h with
    | some text =>
      match MReader.parse text with
      | .ok forms => okList (forms.map Drv.encRich)
      | .error e => "err:" ++ pErr e
    | none => "bad-input"
  | ["p"] =>
    match MReader.parse [] with
    | .ok forms => okList (forms.map Drv.encRich)
    | .error e => "err:" ++ pErr e
  | ["a", h] =>
    match Bytes.ofHex h with
    | some text => assembleLine text
    | none => "bad-input"
  | ["a"] => assembleLine []
  | ["k"] => tablesDump
  | _ => "bad-input"

def run : IO Unit := Drv.eachLine line

end Drv.Text
