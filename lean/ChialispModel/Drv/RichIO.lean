/-
  Drv/RichIO.lean — text encoding of rich values on the line protocol:
  `N` | `I<decimal>;` | `Q<qq><hex>;` | `A<hex>;` | `C<a><d>`.
-/
import ChialispModel.Text.Rich
import ChialispModel.Drv.Common

namespace Drv

def intToString (i : Int) : String :=
  match i with
  | .ofNat n => toString n
  | .negSucc n => "-" ++ toString (n + 1)

partial def encRichAux (r : Rich) (acc : String) : String :=
  match r with
  | .nil => acc ++ "N"
  | .int i => acc ++ "I" ++ intToString i ++ ";"
  | .qstr q b => acc ++ "Q" ++ Bytes.toHex [q] ++ Bytes.toHex b ++ ";"
  | .atom b => acc ++ "A" ++ Bytes.toHex b ++ ";"
  | .cons a d => encRichAux d (encRichAux a (acc ++ "C"))

def encRich (r : Rich) : String := encRichAux r ""

def takeUntilSemi : List Char → List Char → Option (List Char × List Char)
  | [], _ => none
  | c :: r, acc => if c = ';' then some (acc.reverse, r) else takeUntilSemi r (c :: acc)

def parseInt (cs : List Char) : Option Int :=
  match cs with
  | '-' :: r => (String.ofList r).toNat?.map (fun n => - (Int.ofNat n))
  | _ => (String.ofList cs).toNat?.map Int.ofNat

def decRichAux : Nat → List Char → Option (Rich × List Char)
  | 0, _ => none
  | _, [] => none
  | fuel+1, c :: r =>
    if c = 'N' then some (.nil, r)
    else if c = 'C' then
      match decRichAux fuel r with
      | some (a, r1) =>
        match decRichAux fuel r1 with
        | some (d, r2) => some (.cons a d, r2)
        | none => none
      | none => none
    else
      match takeUntilSemi r [] with
      | none => none
      | some (body, rest) =>
        if c = 'I' then (parseInt body).map (fun i => (.int i, rest))
        else if c = 'A' then (Bytes.ofHexChars body).map (fun b => (.atom b, rest))
        else if c = 'Q' then
          match Bytes.ofHexChars body with
          | some (q :: b) => some (.qstr q b, rest)
          | _ => none
        else none

def decRich (s : String) : Option Rich :=
  let cs := s.toList
  match decRichAux (cs.length + 1) cs with
  | some (r, []) => some r
  | _ => none

end Drv
