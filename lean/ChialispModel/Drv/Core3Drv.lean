/-
  Drv/Core3Drv.lean — `modeld core3`: the core3 compiler model (compile-time evaluation of
  constants, core2 pipeline with liveness through constants) and the core3 source semantics.
  line: `<program as rich> <args hex>*` →
        `K <wf|notwf> <compiled hex> <result>*` | `notcore` | `nocompile <wf|notwf>` | `toolarge`
        result = `V<hex>` | `F` | `U`
  `toolarge`: as in `modeld core2` (the driver, not the model, skips programs whose inline
  expansion has more than `budget` nodes).
-/
import ChialispModel.Drv.RichIO
import ChialispModel.Drv.Core2Drv
import ChialispModel.Lang.Core3Source

namespace Drv.Core3Drv
open Core3

def line (l : String) : String :=
  match Drv.splitWs l with
  | p :: args =>
    match Drv.decRich p with
    | some src =>
      match Core3.ofSource src with
      | none => "notcore"
      | some P =>
        -- size guard on the expansion of the program without constant values (same shape)
        match Core2.expandProg (Core2.renameProg (Core3.lowerProg [] P)) with
        | none => "nocompile notwf"
        | some (FT, main) =>
          match FT.foldl (fun acc f => acc.bind (Drv.Core2Drv.sizeB f.body)) (Drv.Core2Drv.sizeB main Drv.Core2Drv.budget) with
          | none => "toolarge"
          | some _ =>
            let CE := Core3.constEnv Ops.chiaOps P
            let wf := if Core3.progWFWith Ops.chiaOps CE P then "wf" else "notwf"
            match Core3.compileLive (Core3.liveSet P) (Core3.lowerProg CE P) with
            | none => "nocompile " ++ wf
            | some code =>
              let rs := args.map (fun a =>
                match SerdeSpec.ofHex a with
                | some v => Drv.CoreDrv.showRes (Core3.evalProg Ops.chiaOps P 3000 v)
                | none => "bad-args")
              " ".intercalate ("K" :: wf :: SerdeSpec.toHex code :: rs)
    | none => "bad-input"
  | _ => "bad-input"

def run : IO Unit := Drv.eachLine line

end Drv.Core3Drv
