/-
  Drv/Base.lean — `modeld base`: consensus reference evaluator.
  line: `<prog hex> <env hex>` → `ok <hex>` | `fail` | `fuel` | `unsupported` | `bad-input`
-/
import ChialispModel.Drv.Common

namespace Drv.Base

def fuel : Nat := 100000

def line (l : String) : String :=
  match Drv.splitWs l with
  | [p, e] =>
    match SerdeSpec.ofHex p, SerdeSpec.ofHex e with
    | some pv, some ev => Drv.showRes (Clvm.evalC Ops.chiaOps fuel pv ev)
    | _, _ => "bad-input"
  | _ => "bad-input"

def run : IO Unit := Drv.eachLine line

end Drv.Base
