/-
  Drv/Scope.lean — `modeld scope` (C10): the models of Sys/Toposort.lean, Lang/Inline.lean and
  Lang/Scope.lean on the line protocol of `cvh scope`.

    `t <item>;<item>;…` | `t -`     item = `<raw needs csv>|<has csv>`
         → `ok <index>:<needs csv>:<has csv>;…` (sets sorted, duplicate-free) | `deadlock` | `fuel`
    `d <pat>;<pat>;…`               pat = csv of names (numbers)
         → `ok` | `dup <binding index> <names csv>`  (every already-provided name of that binding)
    `i <entry> <macros csv|-> <plain csv|-> <def>;<def>;… <hex source>`
         def = `<name>=<token>,<token>,…`, an expression in prefix form:
           `a` arg   `o` other   `L` let   `l` <expr> lambda(captures)
           `c<head>` | `C` (non-atom head), then `<number of args>`, the args, then `n` | `s` <expr> (tail)
         → `ok` | `rec f<name>` | `err let` | `err notcallable` | `err nosuch<name>` | `fuel`
    `k <rich program> <hex source>` → `C <compiled hex>` | `E` | `notcore`
    `q <rich template>` → `QQ.qqExpr`: `Q<rich>` | `E<rich>` | `C(<a>,<d>)` | `err`
-/
import ChialispModel.Sys.Toposort
import ChialispModel.Lang.Inline
import ChialispModel.Lang.Scope
import ChialispModel.Drv.RichIO

namespace Drv.Scope

def csv (s : String) : Option (List Nat) :=
  if s.isEmpty || s = "-" then some [] else (s.splitOn ",").mapM (fun t => t.toNat?)

def insertSorted (x : Nat) : List Nat → List Nat
  | [] => [x]
  | y :: r => if x < y then x :: y :: r else if x = y then y :: r else y :: insertSorted x r

def sortSet (l : List Nat) : List Nat := l.foldl (fun acc x => insertSorted x acc) []

def showSet (l : List Nat) : String := ",".intercalate ((sortSet l).map toString)

def parseItem (s : String) : Option Topo.Raw :=
  match s.splitOn "|" with
  | [n, h] =>
    match csv n, csv h with
    | some ns, some hs => some ⟨ns, hs⟩
    | _, _ => none
  | _ => none

def topoLine (spec : String) : String :=
  let raws : Option (List Topo.Raw) := if spec = "-" then some [] else (spec.splitOn ";").mapM parseItem
  match raws with
  | none => "bad-input"
  | some l =>
    match Topo.toposort l with
    | .deadlock => "deadlock"
    | .fuel => "fuel"
    | .ok items =>
      "ok " ++ ";".intercalate (items.map (fun it => s!"{it.index}:{showSet it.needs}:{showSet it.has}"))

def dupLine (spec : String) : String :=
  match (spec.splitOn ";").mapM csv with
  | none => "bad-input"
  | some ps =>
    match Topo.dupCheck ps with
    | none => "ok"
    | some (i, names) => s!"dup {i} {showSet names}"

-- inline graphs ---------------------------------------------------------------------------------

mutual
def pExpr : Nat → List String → Option (Inl.Expr × List String)
  | 0, _ => none
  | _, [] => none
  | f + 1, t :: r =>
    if t = "a" then some (.arg, r)
    else if t = "o" then some (.other, r)
    else if t = "L" then some (.letForm, r)
    else if t = "l" then
      match pExpr f r with
      | some (c, r') => some (.lambda c, r')
      | none => none
    else
      let head : Option Inl.Head :=
        if t = "C" then some .nonAtom
        else if t.startsWith "c" then ((t.drop 1).toString.toNat?).map Inl.Head.atom
        else none
      match head, r with
      | some h, nt :: r1 =>
        match nt.toNat? with
        | some n =>
          match pArgs f n r1 with
          | some (as, tt :: r2) =>
            if tt = "n" then some (.call h as .none, r2)
            else if tt = "s" then
              match pExpr f r2 with
              | some (e, r3) => some (.call h as (.some e), r3)
              | none => none
            else none
          | _ => none
        | none => none
      | _, _ => none
def pArgs : Nat → Nat → List String → Option (Inl.Exprs × List String)
  | 0, _, _ => none
  | _ + 1, 0, r => some (.nil, r)
  | f + 1, n + 1, r =>
    match pExpr f r with
    | some (e, r1) =>
      match pArgs f n r1 with
      | some (es, r2) => some (.cons e es, r2)
      | none => none
    | none => none
end

def parseDef (s : String) : Option (Nat × Inl.Expr) :=
  match s.splitOn "=" with
  | [n, toks] =>
    match n.toNat?, pExpr ((toks.splitOn ",").length + 2) (toks.splitOn ",") with
    | some k, some (e, []) => some (k, e)
    | _, _ => none
  | _ => none

def showInl : Inl.Res → String
  | .ok => "ok"
  | .recursive n => s!"rec f{n}"
  | .letErr => "err let"
  | .notCallable => "err notcallable"
  | .noSuchCallable n => s!"err nosuch{n}"
  | .fuel => "fuel"

def inlineLine (entry macros plain defs : String) : String :=
  match entry.toNat?, csv macros, csv plain, (defs.splitOn ";").mapM parseDef with
  | some f, some ms, some ps, some ds => showInl (Inl.expandCall ⟨ms, ds, ps⟩ f)
  | _, _, _, _ => "bad-input"

def coreLine (p : String) : String :=
  match Drv.decRich p with
  | some src =>
    match Core.ofSource src with
    | none => "notcore"
    | some P =>
      match Core.compileCoreStrict P with
      | none => "E"
      | some code => "C " ++ SerdeSpec.toHex code
  | none => "bad-input"

def showQQ : QQ.Form → String
  | .quoted r => "Q" ++ Drv.encRich r
  | .eval r => "E" ++ Drv.encRich r
  | .consCall a d => "C(" ++ showQQ a ++ "," ++ showQQ d ++ ")"

def qqLine (p : String) : String :=
  match Drv.decRich p with
  | some t =>
    match QQ.qqExpr t with
    | some f => showQQ f
    | none => "err"
  | none => "bad-input"

def line (l : String) : String :=
  match Drv.splitWs l with
  | ["t", spec] => topoLine spec
  | ["d", spec] => dupLine spec
  | ["q", p] => qqLine p
  | ["i", entry, macros, plain, defs, _] => inlineLine entry macros plain defs
  | ["k", p, _] => coreLine p
  | _ => "bad-input"

def run : IO Unit := Drv.eachLine line

end Drv.Scope
