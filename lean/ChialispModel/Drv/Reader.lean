/-
  Drv/Reader.lean — `modeld reader` (C15, C14 reader part).
  lines:
    `w <hex text>` / `s <hex text>`  → `ok <ltree>*` | `err <hex message> <loc>`
         (whole-text parse / byte-at-a-time streaming: the same fold in the model)
    `c <hex> <hex> …`                → the same, feeding the chunks one after the other
    `p`                              → the prim table `name=value,…`
    `o <loc> <loc>`                  → `<ext> <ext reversed> <overlap 0|1> <ending> <len|->`
    `a <hex text>`                   → location of the cursor after the text (tabs allowed)
  located trees: `N@L;` | `C@L;<a><d>` | `I<dec>@L;` | `Q<qq><hex>@L;` | `A<hex>@L;`
  locations `L`: `file,line,col,-` | `file,line,col,uline,ucol`.
-/
import ChialispModel.Text.Reader
import ChialispModel.Drv.RichIO

namespace Drv.Reader
open _root_.Reader

def encLoc (l : Srcloc) : String :=
  let u := match l.untl with
    | none => "-"
    | some (a, b) => s!"{a},{b}"
  s!"{l.file},{l.line},{l.col},{u}"

partial def encL (r : LRich) (acc : String) : String :=
  match r with
  | .nil l => acc ++ "N@" ++ encLoc l ++ ";"
  | .int l i => acc ++ "I" ++ Drv.intToString i ++ "@" ++ encLoc l ++ ";"
  | .qstr l q b => acc ++ "Q" ++ Bytes.toHex [q] ++ Bytes.toHex b ++ "@" ++ encLoc l ++ ";"
  | .atom l b => acc ++ "A" ++ Bytes.toHex b ++ "@" ++ encLoc l ++ ";"
  | .cons l a d => encL d (encL a (acc ++ "C@" ++ encLoc l ++ ";"))

def showResult : Except PErr (List LRich) → String
  | .ok fs => fs.foldl (fun acc f => encL f (acc ++ " ")) "ok"
  | .error (l, m) => s!"err {Bytes.toHex (strBytes m.text)} {encLoc l}"

def decLoc (s : String) : Option Srcloc :=
  match s.splitOn "," with
  | [f, l, c, "-"] =>
    match f.toNat?, l.toNat?, c.toNat? with
    | some f, some l, some c => some ⟨f, l, c, none⟩
    | _, _, _ => none
  | [f, l, c, a, b] =>
    match f.toNat?, l.toNat?, c.toNat?, a.toNat?, b.toNat? with
    | some f, some l, some c, some a, some b => some ⟨f, l, c, some (a, b)⟩
    | _, _, _, _, _ => none
  | _ => none

def hexArg (h : String) : Option Bytes := if h = "-" then some [] else Bytes.ofHex h

def line (l : String) : String :=
  match Drv.splitWs l with
  | ["w", h] | ["s", h] =>
    match hexArg h with
    | some t => showResult (parse t)
    | none => "bad-input"
  | "c" :: hs =>
    match hs.mapM hexArg with
    | some chunks =>
      showResult (match feedChunks (Partial.new (Srcloc.start Srcloc.inputFile)) chunks with
                  | .ok p => p.finalize
                  | .error e => .error e)
    | none => "bad-input"
  | ["p"] => ",".intercalate (primTable.map (fun (n, v) => s!"{Bytes.toHex (strBytes n)}={v}"))
  | ["o", a, b] =>
    match decLoc a, decLoc b with
    | some x, some y =>
      let ln := match x.len with
        | some n => toString n
        | none => "-"
      s!"{encLoc (x.ext y)} {encLoc (y.ext x)} {if x.overlap y then 1 else 0} {encLoc x.ending} {ln}"
    | _, _ => "bad-input"
  | ["a", h] =>
    match hexArg h with
    | some t => encLoc (Text.posAfter (Srcloc.start Srcloc.inputFile) t)
    | none => "bad-input"
  | _ => "bad-input"

def run : IO Unit := Drv.eachLine line

end Drv.Reader
