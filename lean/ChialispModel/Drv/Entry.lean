/-
  Drv/Entry.lean — `modeld entry` (C11): the regenerated option derivations
  (`Generated/Opts.lean`) and the hand model of `detect_modern`, on the line protocol of
  `cvh entry` (harness/src/entry.rs):
    `k`                                   → `name:stepping:strict:intfix,...` (table order)
    `d`                                   → snapshot of `DefaultCompilerOpts::new`
    `n <hex>`                             → `detect_modern` on the value
    `g <stepping|-> <optimize>`           → `err-old` | `err-new` | strategy name
    `o <site> <dialect name|-> <flag> <sp>` → `modern <snapshot> post=b` | `classic sp=..` | `opts <snapshot>`
-/
import ChialispModel.Generated.Opts
import ChialispModel.Drv.Common

namespace Drv.Entry
open Opts

def b01 (b : Bool) : String := if b then "1" else "0"

def intStr (i : Int) : String :=
  match i with
  | .ofNat n => toString n
  | .negSucc n => "-" ++ toString (n + 1)

def dialectStr (d : Dialect) : String :=
  (match d.stepping with | some s => intStr s | none => "-") ++ ":" ++ b01 d.strict ++ ":" ++ b01 d.intFix

def snapshot (o : Opts) : String :=
  "dialect=" ++ dialectStr o.dialect ++ " stdenv=" ++ b01 o.stdenv ++ " optimize=" ++ b01 o.optimize ++
  " fe=" ++ b01 o.frontendOpt ++ " sp=" ++ "|".intercalate o.searchPaths ++
  " ver=" ++ (match o.disVer with | some v => toString v | none => "-")

def pipelineStr : Pipeline → String
  | .modern o p => "modern " ++ snapshot o ++ " post=" ++ b01 p
  | .classic sp => "classic sp=" ++ "|".intercalate sp

def dialectOfName (n : String) : Option Dialect :=
  if n == "-" then some Dialect.classic else lookupDialect Gen.knownDialects n.toUTF8.toList

def parseInt (s : String) : Option Int :=
  if s.startsWith "-" then (s.drop 1).toNat?.map (fun n => - (Int.ofNat n)) else s.toNat?.map Int.ofNat

def probeSp (s : String) : List String :=
  if s == "1" then ["/nonexistent/inc-a", "/nonexistent/inc-b"] else []

def line (l : String) : String :=
  match Drv.splitWs l with
  | ["k"] =>
    ",".intercalate ((Gen.knownDialectNames.zip Gen.knownDialects).map
      (fun p => p.1 ++ ":" ++ dialectStr p.2.2))
  | ["d"] => snapshot Gen.defaultOpts
  | ["n", h] =>
    match SerdeSpec.ofHex h with
    | some v => dialectStr (detect Gen.knownDialects v)
    | none => "bad-input"
  | ["g", s, o] =>
    let st : Option (Option Int) := if s == "-" then some none else (parseInt s).map some
    match st with
    | none => "bad-input"
    | some st =>
      match Gen.getOptimizer st (o == "1") with
      | .errTooOld => "err-old"
      | .errTooNew => "err-new"
      | .strategy n => n
  | ["o", site, dn, flag, sps] =>
    match dialectOfName dn with
    | none => "unknown-dialect"
    | some d =>
      let f := flag == "1"
      let sp := probeSp sps
      if site == "lib" then pipelineStr (Gen.deriveLib sp d)
      else if site == "libopt" then pipelineStr (Gen.deriveLibOpt (Gen.libBase sp) d f)
      else if site == "py" then pipelineStr (Gen.deriveLibOpt (Gen.pyBase sp) d Gen.libDoOptimize)
      else if site == "wasm" then pipelineStr (Gen.deriveLibOpt (Gen.wasmBase sp) d Gen.libDoOptimize)
      else if site == "cli" then pipelineStr (Gen.deriveCli sp d f)
      else if site == "cldb" then pipelineStr (Gen.deriveCldb sp d f)
      else if site == "deps" then "opts " ++ snapshot (Gen.deriveDeps (Gen.libBase sp) d)
      else "bad-input"
  | _ => "bad-input"

def run : IO Unit := Drv.eachLine line

end Drv.Entry
