/-
  Drv/Core2Syms.lean — `modeld core2syms`: the symbol table the model records for a core2
  program (Lang/Core2Symbols.lean: functions, inline functions, let / let*) with `H = sha256`,
  and the function-call programs `compose_run_function` builds from it.
  line: `<program as rich>`
    → `K <wf|notwf> <compiled hex> <table> <calls> <emitted>` | `notcore` | `nocompile <wf|notwf>` | `toolarge`
      table, calls: as `modeld coresyms`
      emitted = `hex(name):hex(code hash)` of every emitted source function (`Core2.emitted`, `Core2.codeOf`),
                in source order, comma-separated (`-` if none)
  `toolarge`: as in `modeld core2` (the driver skips programs whose expansion exceeds the budget).
-/
import ChialispModel.Drv.CoreSyms
import ChialispModel.Drv.Core2Drv
import ChialispModel.Lang.Core2Symbols

namespace Drv.Core2Syms
open Drv.CoreSyms (tableText callText joinOr sortStrings)

def emittedText (P : Core2.Prog) : String :=
  joinOr ((Core2.emitted P).map (fun f =>
    Bytes.toHex f.name ++ ":" ++
      (match Core2.codeOf P f with
       | some c => Bytes.toHex (Val.treeHash Sha256.hash c)
       | none => "none")))

def line (l : String) : String :=
  match Drv.splitWs l with
  | [p] =>
    match Drv.decRich p with
    | some src =>
      match Core2.ofSource src with
      | none => "notcore"
      | some P =>
        let wf := if Core2.progWF P then "wf" else "notwf"
        match Core2.expandProg (Core2.renameProg P) with
        | none => "nocompile " ++ wf
        | some (FT, main) =>
          match FT.foldl (fun acc f => acc.bind (Drv.Core2Drv.sizeB f.body)) (Drv.Core2Drv.sizeB main Drv.Core2Drv.budget) with
          | none => "toolarge"
          | some _ =>
            match Core2.compileCore2Syms Sha256.hash P with
            | none => "nocompile " ++ wf
            | some (code, tab) =>
              " ".intercalate ["K", wf, SerdeSpec.toHex code,
                tableText tab, joinOr (sortStrings (tab.filterMap (callText code))), emittedText P]
    | none => "bad-input"
  | _ => "bad-input"

def run : IO Unit := Drv.eachLine line

end Drv.Core2Syms
