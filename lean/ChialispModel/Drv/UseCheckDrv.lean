/-
  Drv/UseCheckDrv.lean — `modeld unused`: the model of the unused-argument check on the core
  language (Lang/UseCheck.lean).
  line: `<program as rich>` → `M <wf|notwf> <comma separated hex names, pattern order>` | `notcore` | `nocompile`
  (`wf` = the decidable hypothesis `Core.progWF` of the non-interference theorem holds; the
  names are those `Core.reportedUnused` reports, i.e. those the theorem covers.)
-/
import ChialispModel.Drv.RichIO
import ChialispModel.Lang.CoreSource
import ChialispModel.Lang.UseCheck

namespace Drv.UseCheckDrv

def line (l : String) : String :=
  match Drv.splitWs l with
  | p :: _ =>
    match Drv.decRich p with
    | some src =>
      match Core.ofSource src with
      | none => "notcore"
      | some P =>
        match Core.compileCore P with
        | none => "nocompile"
        | some _ =>
          "M " ++ (if Core.progWF P then "wf" else "notwf") ++ " " ++
            ",".intercalate ((Core.reportedUnused P).map Bytes.toHex)
    | none => "bad-input"
  | _ => "bad-input"

def run : IO Unit := Drv.eachLine line

end Drv.UseCheckDrv
