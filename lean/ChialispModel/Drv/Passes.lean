/-
  Drv/Passes.lean — `modeld passes` (C02): the CLVM-level passes of Opt/Passes.lean.
  line: `<cmd> <mode 0|1> <rich> <env hex>*`   (the environments are for the harness's oracle only)
    n0 / e22 / e0   `ExistingStrategy::post_codegen_output_optimize` (frontend_opt on + stepping 23,
                    stepping 22, frontend_opt off)
    d1 / d0         `remove_double_apply(x, true / false)`
    s               `change_double_to_single_apply(x)`
    b               `brief_path_selection(x)`
    p / f           `Strategy23::post_codegen_output_optimize` / `::post_codegen_function_optimize`
  out : `<changed 0|1|-> <rich out> | F<flag 0|1> O<out of fuel 0|1>[ S<n><d><b> H<shape>]`
        (for p / f: which stage raised the ghost flag — null, double apply, brief)
-/
import ChialispModel.Opt.Passes
import ChialispModel.Drv.RichIO

namespace Drv.PassesDrv
open _root_.Passes

def b01 (b : Bool) : String := if b then "1" else "0"

def showPR (withChanged : Bool) (r : PR) : String :=
  s!"{if withChanged then b01 r.changed else "-"} {Drv.encRich r.out} | F{b01 r.flag} O{b01 r.oof}"

/-- `H<0|1>`: the input is expression-shaped (`CodegenShape`). -/
def shapeBit (r : Rich) : String := s!" H{b01 (exprShape r)}"

/-- which stage of the `Strategy23` sequence raised the ghost flag. -/
def stages (mode : Bool) (r : Rich) : String :=
  let n := nullPass mode r true
  let d := rda mode (strategy23Fuel r) n.out true
  let b := briefPath d.out
  s!" S{b01 n.flag}{b01 d.flag}{b01 b.flag}"

def line (l : String) : String :=
  match Drv.splitWs l with
  | cmd :: m :: rs :: _ =>
    match Drv.decRich rs with
    | none => "bad-input"
    | some r =>
      let mode := m == "1"
      match cmd with
      | "n0" => showPR false (existingStrategy mode true (some 23) r) ++ " S-" ++ shapeBit r
      | "e22" => showPR false (existingStrategy mode true (some 22) r)
      | "e0" => showPR false (existingStrategy mode false (some 23) r)
      | "d1" => showPR true (removeDoubleApply mode r true)
      | "d0" => showPR true (removeDoubleApply mode r false)
      | "s" => let x := changeDoubleToSingleApply r; showPR true ⟨x.1, x.2, false, false⟩
      | "b" => showPR true (briefPath r)
      | "p" => showPR false (strategy23 mode (strategy23Fuel r) r) ++ stages mode r ++ shapeBit r
      | "f" => showPR false (strategy23 mode (strategy23Fuel r) r) ++ stages mode r ++ shapeBit r
      | _ => "bad-input"
  | _ => "bad-input"

def run : IO Unit := Drv.eachLine line

end Drv.PassesDrv
