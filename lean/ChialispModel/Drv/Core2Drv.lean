/-
  Drv/Core2Drv.lean — `modeld core2`: the core2 compiler model (renaming, inline expansion,
  let hoisting, code generation) and the core2 source semantics.
  line: `<program as rich> <args hex>*` →
        `K <wf|notwf> <compiled hex> <result>*` | `notcore` | `nocompile <wf|notwf>` | `toolarge`
        result = `V<hex>` | `F` | `U`
  `toolarge`: inline expansion is call-by-name, the expanded program can be exponentially larger
  than the source (the real compiler then needs minutes); the driver (not the model) skips programs
  whose expansion has more than `budget` nodes.
-/
import ChialispModel.Drv.RichIO
import ChialispModel.Drv.CoreDrv
import ChialispModel.Lang.Core2Source

namespace Drv.Core2Drv
open Core2

mutual
/-- budget left after counting the nodes of the expression as a tree (`none`: exhausted). -/
def sizeB : Expr → Nat → Option Nat
  | _, 0 => none
  | .var _, b+1 => some b
  | .lit _, b+1 => some b
  | .argsv, b+1 => some b
  | .op _ as, b+1 => sizesB as b
  | .ite c a e, b+1 => (sizeB c b).bind (fun b1 => (sizeB a b1).bind (sizeB e))
  | .call _ as, b+1 => sizesB as b
  | .letE _ es body, b+1 => (sizesB es b).bind (sizeB body)
def sizesB : Exprs → Nat → Option Nat
  | .nil, b => some b
  | .cons e r, b => (sizeB e b).bind (sizesB r)
end

def budget : Nat := 30000

def line (l : String) : String :=
  match Drv.splitWs l with
  | p :: args =>
    match Drv.decRich p with
    | some src =>
      match Core2.ofSource src with
      | none => "notcore"
      | some P =>
        match Core2.expandProg (Core2.renameProg P) with
        | none => "nocompile " ++ (if Core2.progWF P then "wf" else "notwf")
        | some (FT, main) =>
          match FT.foldl (fun acc f => acc.bind (sizeB f.body)) (sizeB main budget) with
          | none => "toolarge"
          | some _ =>
            let wf := if Core2.progWF P then "wf" else "notwf"
            match Core2.compileCore2 P with
            | none => "nocompile " ++ wf
            | some code =>
              let rs := args.map (fun a =>
                match SerdeSpec.ofHex a with
                | some v => Drv.CoreDrv.showRes (Core2.evalProg Ops.chiaOps P 3000 v)
                | none => "bad-args")
              " ".intercalate ("K" :: wf :: SerdeSpec.toHex code :: rs)
    | none => "bad-input"
  | _ => "bad-input"

def run : IO Unit := Drv.eachLine line

end Drv.Core2Drv
