/-
  Drv/ReplLine.lean — `modeld replline` (C14): the REPL's line assembly.
  line:   `<hex of typed line>+`   (`-` = the empty line)
  output: one token per typed line, stopping after the first panic:
     `P`                                   the `panic!` branch
     `E:<line>,<col>,<until|->:<hex msg>`  `parse_sexp` error
     `M`                                   depth > 0: more input awaited (`Ok(None)`)
     `F<n>`                                n forms handed to the frontend / evaluator
-/
import ChialispModel.Sys.ReplLine
import ChialispModel.Drv.Reader

namespace Drv.ReplLine
open _root_.ReplLine _root_.Reader

def encErr (e : PErr) : String :=
  let u := match e.1.untl with
    | none => "-"
    | some (a, b) => s!"{a},{b}"
  s!"E:{e.1.line},{e.1.col},{u}:{Bytes.toHex (strBytes e.2.text)}"

def encOutcome : Outcome → String
  | .panic => "P"
  | .parseError e => encErr e
  | .more => "M"
  | .forms fs => s!"F{fs.length}"

def go : State → List Bytes → List String → List String
  | _, [], acc => acc.reverse
  | s, l :: r, acc =>
    match processLineSource s l with
    | (_, .panic) => ("P" :: acc).reverse
    | (s', o) => go s' r (encOutcome o :: acc)

def line (l : String) : String :=
  match (Drv.splitWs l).mapM Drv.Reader.hexArg with
  | some ls => if ls.isEmpty then "bad-input" else " ".intercalate (go State.init ls [])
  | none => "bad-input"

def run : IO Unit := Drv.eachLine line

end Drv.ReplLine
