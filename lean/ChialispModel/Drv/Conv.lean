/-
  Drv/Conv.lean — `modeld conv` (C07).
  lines:
    `v <mode> <hex>`        → `<rich> <hex of toClvm(fromClvm v)> <treeHash rich> <treeHash val> <tableHash rich>`
    `r <mode> <rich>`       → `<hex of toClvm r> <treeHash rich> <treeHash val> <tableHash rich> <readable 0|1>`
    `e <rich> <rich>`       → `<equalTo 0|1> <hashKey equal 0|1> <clvm(fixed) equal 0|1>`
-/
import ChialispModel.Drv.RichIO
import ChialispModel.Base.Sha256

namespace Drv.Conv
open Rich

def b01 (b : Bool) : String := if b then "1" else "0"

def line (l : String) : String :=
  match Drv.splitWs l with
  | ["v", m, h] =>
    match SerdeSpec.ofHex h with
    | some v =>
      let mode := m == "1"
      let r := fromClvm mode v
      s!"{Drv.encRich r} {SerdeSpec.toHex (toClvm mode r)} {Bytes.toHex (treeHash mode Sha256.hash r)} {Bytes.toHex (Val.treeHash Sha256.hash v)} {Bytes.toHex (tableHash Sha256.hash r)}"
    | none => "bad-input"
  | ["r", m, rs] =>
    match Drv.decRich rs with
    | some r =>
      let mode := m == "1"
      let v := toClvm mode r
      s!"{SerdeSpec.toHex v} {Bytes.toHex (treeHash mode Sha256.hash r)} {Bytes.toHex (Val.treeHash Sha256.hash v)} {Bytes.toHex (tableHash Sha256.hash r)} {b01 (Readable r)}"
    | none => "bad-input"
  | ["e", a, b] =>
    match Drv.decRich a, Drv.decRich b with
    | some ra, some rb =>
      s!"{b01 (equalTo ra rb)} {b01 (hashKey ra == hashKey rb)} {b01 (toClvm true ra == toClvm true rb)}"
    | _, _ => "bad-input"
  | _ => "bad-input"

def run : IO Unit := Drv.eachLine line

end Drv.Conv
