/-
  Drv/Step.lean — `modeld step` (C06).
  line `<mode 0|1> <rich prog> <rich env>` →
    `<stepper> | <consensus> | <flags>`
      stepper   = `ok <hex of toClvm result> <rich result>` | `fail <class>` | `timeout` | `unsupported`
      consensus = `ok <hex>` | `fail` | `fuel` | `unsupported`   (`Clvm.evalC` on the converted values)
      flags     = `-` or comma-separated flag names raised along the run
  line `prims` → the model's primitive table `name-hex:opcode,…` sorted
-/
import ChialispModel.Drv.RichIO
import ChialispModel.Clvm.Step

namespace Drv.Step
open Rich

def stepLimit : Nat := 200000
def nestDepth : Nat := 40
def consensusFuel : Nat := 100000

def errName : _root_.Step.RunErr → String
  | .path => "fail path"
  | .nilhead => "fail nilhead"
  | .headform => "fail headform"
  | .arglist => "fail arglist"
  | .consnum => "fail consnum"
  | .improper => "fail improper"
  | .argc => "fail argc"
  | .notcons => "fail notcons"
  | .op t => if t = "UNSUPPORTED" then "unsupported" else "fail op"
  | .timeout => "timeout"

def flagName : _root_.Step.Flag → String
  | .headIsPair => "HeadIsPair"
  | .nilHead => "NilHead"
  | .opByName => "OpByName"
  | .intSpellsName => "IntSpellsName"
  | .refusedOp => "RefusedOp"
  | .legacyZero => "LegacyZero"

def allFlags : List _root_.Step.Flag :=
  [.headIsPair, .nilHead, .refusedOp, .opByName, .intSpellsName, .legacyZero]

def showFlags (fl : List _root_.Step.Flag) : String :=
  let present := allFlags.filter (fun f => fl.contains f)
  if present.isEmpty then "-" else ",".intercalate (present.map flagName)

def showPrims : String :=
  let items := _root_.Step.chiaPrims.map (fun (n, v) => (Bytes.toHex n, v))
  let sorted := items.toArray.qsort (fun a b => a.1 < b.1) |>.toList
  ",".intercalate (sorted.map (fun (n, v) => n ++ ":" ++ Drv.intToString v))

def line (l : String) : String :=
  match Drv.splitWs l with
  | ["prims"] => showPrims
  | [ms, ps, es] =>
    match Drv.decRich ps, Drv.decRich es with
    | some p, some e =>
      let m := ms == "1"
      let hr := _root_.Step.headRunner m _root_.Step.chiaPrims Ops.chiaOps stepLimit nestDepth
      let (r, fl) := _root_.Step.runLoopF (_root_.Step.runStep hr m _root_.Step.chiaPrims Ops.chiaOps)
                      (_root_.Step.stepFlags m _root_.Step.chiaPrims) stepLimit (_root_.Step.start p e) []
      let left := match r with
        | .ok v => s!"ok {SerdeSpec.toHex (toClvm m v)} {Drv.encRich v}"
        | .error err => errName err
      let right := Drv.showRes (Clvm.evalC Ops.chiaOps consensusFuel (toClvm m p) (toClvm m e))
      s!"{left} | {right} | {showFlags fl}"
    | _, _ => "bad-input"
  | _ => "bad-input"

def run : IO Unit := Drv.eachLine line

end Drv.Step
