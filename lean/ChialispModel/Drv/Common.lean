/-
  Drv/Common.lean — line-protocol helpers shared by all driver sub-commands.
-/
import ChialispModel.Clvm.SerdeSpec
import ChialispModel.Clvm.Eval

namespace Drv

def splitWs (s : String) : List String :=
  (s.trimAscii.toString.splitOn " ").filter (· ≠ "")

/-- run `f` on every stdin line, print its result. -/
partial def eachLine (f : String → String) : IO Unit := do
  let stdin ← IO.getStdin
  let stdout ← IO.getStdout
  let rec loop : IO Unit := do
    let line ← stdin.getLine
    if line.isEmpty then return ()
    stdout.putStrLn (f line)
    loop
  loop
  stdout.flush

def showRes : Res → String
  | .ok v => "ok " ++ SerdeSpec.toHex v
  | .error .fuel => "fuel"
  | .error (.fail t) => if t = "UNSUPPORTED" then "unsupported" else "fail"

def natArg (s : String) (dflt : Nat) : Nat := s.toNat?.getD dflt

end Drv
