/-
  Drv/CoreDrv.lean — `modeld core`: the core compiler model and core semantics.
  line: `<program as rich> <args hex>*` → `K <wf|notwf> <compiled hex> <result>*` | `notcore` | `nocompile`
        result = `V<hex>` | `F` | `U`
-/
import ChialispModel.Drv.RichIO
import ChialispModel.Lang.CoreSource

namespace Drv.CoreDrv

def showRes : Res → String
  | .ok v => "V" ++ SerdeSpec.toHex v
  | .error .fuel => "U"
  | .error (.fail t) => if t = "UNSUPPORTED" then "U" else "F"

def line (l : String) : String :=
  match Drv.splitWs l with
  | p :: args =>
    match Drv.decRich p with
    | some src =>
      match Core.ofSource src with
      | none => "notcore"
      | some P =>
        match Core.compileCore P with
        | none => "nocompile"
        | some code =>
          let rs := args.map (fun a =>
            match SerdeSpec.ofHex a with
            | some v => showRes (Core.evalProg Ops.chiaOps P 3000 v)
            | none => "bad-args")
          " ".intercalate ("K" :: (if Core.progWF P then "wf" else "notwf") :: SerdeSpec.toHex code :: rs)
    | none => "bad-input"
  | _ => "bad-input"

def run : IO Unit := Drv.eachLine line

end Drv.CoreDrv
