/-
  Drv/ClassicEnv.lean — `modeld classicenv` (C03): the classic compiler's environment layout as
  the model (`Lang/ClassicEnv.lean`) computes it; same line protocol as `cvh classicenv`.
  line:   `<source text hex (ignored)> <rich ARGS of main> (F<name hex>:<rich ARGS> | K<name hex>)*`
          (every listed defun / defconstant is used by the program, so all of them are laid out)
  output: `main=<tbl>;arg=<1|c>;tree=<hex|->;fns=<name hex>=<tbl>|…  #ok=<0|1>`
          tbl  = `<hex of name node>:<path bytes hex>` joined by `,`
          tree = `build_tree_program` over the name atoms (sorted names)
          ok   = `classicPatOk` of main's pattern (statistic; stripped before comparison)
-/
import ChialispModel.Drv.RichIO
import ChialispModel.Lang.ClassicEnv

namespace Drv.ClassicEnv
open _root_.ClassicEnv

def showTable (t : List (Val × Bytes)) : String :=
  ",".intercalate (t.map fun e => SerdeSpec.toHex e.1 ++ ":" ++ Bytes.toHex e.2)

inductive Helper where
  | fn (name : Bytes) (args : Rich)
  | const (name : Bytes)

def Helper.name : Helper → Bytes
  | .fn n _ => n
  | .const n => n

def parseHelper (s : String) : Option Helper :=
  match s.toList with
  | 'F' :: r =>
    match (String.ofList r).splitOn ":" with
    | [n, a] =>
      match Bytes.ofHex n, Drv.decRich a with
      | some nb, some ar => some (.fn nb ar)
      | _, _ => none
    | _ => none
  | 'K' :: r => (Bytes.ofHex (String.ofList r)).map .const
  | _ => none

def parseHelpers : List String → Option (List Helper)
  | [] => some []
  | s :: r =>
    match parseHelper s, parseHelpers r with
    | some h, some t => some (h :: t)
    | _, _ => none

def line (l : String) : String :=
  match Drv.splitWs l with
  | _ :: mainArgs :: hs =>
    match Drv.decRich mainArgs, parseHelpers hs with
    | some pat, some helpers =>
      let names := sortNames (helpers.map Helper.name)
      let mainTbl := showTable (allSymbols (patVal pat) names)
      let arg := if names.isEmpty then "1" else "c"
      let tree := if names.isEmpty then "-" else SerdeSpec.toHex (buildTreeProgram (names.map Val.atom))
      let fns := names.filterMap fun n =>
        match helpers.find? (fun h => h.name == n) with
        | some (.fn _ a) => some (Bytes.toHex n ++ "=" ++ showTable (allSymbols (patVal a) names))
        | _ => none
      s!"main={mainTbl};arg={arg};tree={tree};fns={"|".intercalate fns}  #ok={if classicPatOk pat then 1 else 0}"
    | _, _ => "bad-input"
  | _ => "bad-input"

def run : IO Unit := Drv.eachLine line

end Drv.ClassicEnv
