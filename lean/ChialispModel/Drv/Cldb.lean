/-
  Drv/Cldb.lean — `modeld cldb` (C12).
  line `<mode 0|1> <s|x> <rich prog> <rich env>` →
    `<row>;<row>;…[;timeout] | <consensus> | <C06 flags of the run>`
      row = comma separated `R=<n>` `O=<hex of printed operator>` `A=…` `V=…` `F=…` `P=…` `X` `T`
  `x` = hex-supplied: program and environment go through `fromClvm ∘ toClvm` first
  (`hex_to_modern_sexp` = consensus decoding + `convert_from_clvm_rs`).
  The printer (`SExp`'s `Display`) lives here: it is not part of what C12 proves.
-/
import ChialispModel.Drv.RichIO
import ChialispModel.Clvm.Cldb
import ChialispModel.Drv.Step

namespace Drv.Cldb
open Rich

def stepLimit : Nat := 200000
def nestDepth : Nat := 40

def bytesToString (b : Bytes) : String := String.ofList (b.map (fun x => Char.ofNat x.toNat))

/-- `escape_quote` -/
def escapeQuote (q : UInt8) (s : Bytes) : String :=
  String.ofList (s.foldr (fun ch acc =>
    if ch == q then '\\' :: Char.ofNat ch.toNat :: acc else Char.ofNat ch.toNat :: acc) [])

mutual
/-- `impl Display for SExp` -/
partial def showRich : Rich → String
  | .nil => "()"
  | .cons a b => "(" ++ listNoParens a b ++ ")"
  | .int v => Drv.intToString v
  | .qstr q s =>
    if Rich.printable s true then "\"" ++ escapeQuote q s ++ "\"" else "0x" ++ Bytes.toHex s
  | .atom a =>
    if a.isEmpty then "()"
    else if Rich.printable a false then bytesToString a
    else Drv.intToString (Bytes.toInt a)
/-- `list_no_parens` -/
partial def listNoParens (a b : Rich) : String :=
  if Rich.nilp b then showRich a
  else
    match b with
    | .cons b1 c => showRich a ++ " " ++ listNoParens b1 c
    | _ => showRich a ++ " . " ++ showRich b
end

def hexStr (s : String) : String := Bytes.toHex s.toUTF8.toList

def showRow (r : _root_.Cldb.Row) : String :=
  let f : List String :=
    (match r.rowNo with | some n => [s!"R={n}"] | none => []) ++
    (match r.operator with | some v => ["O=" ++ hexStr (showRich v)] | none => []) ++
    (match r.arguments with | some v => ["A=" ++ hexStr (showRich v)] | none => []) ++
    (match r.value with | some v => ["V=" ++ hexStr (showRich v)] | none => []) ++
    (match r.final with | some v => ["F=" ++ hexStr (showRich v)] | none => []) ++
    (match r.print with | some v => ["P=" ++ hexStr (showRich v)] | none => []) ++
    (match r.failure with | some _ => ["X"] | none => []) ++
    (match r.throw with | some _ => ["T"] | none => [])
  ",".intercalate f

/-- tail-recursive twin of `Cldb.cldbRun` that also reports whether the step limit was hit. -/
def loop (m : Mode) (hr : Rich → Rich → Except _root_.Step.RunErr Rich) :
    Nat → _root_.Cldb.State → List String → List String
  | 0, s, acc => if s.ended then acc.reverse else ("timeout" :: acc).reverse
  | n+1, s, acc =>
    if s.ended then acc.reverse
    else
      match _root_.Cldb.cldbStep hr m _root_.Step.chiaPrims Ops.chiaOps s with
      | (s', some r) => loop m hr n s' (showRow r :: acc)
      | (s', none) => loop m hr n s' acc


def line (l : String) : String :=
  match Drv.splitWs l with
  | [ms, kind, ps, es] =>
    match Drv.decRich ps, Drv.decRich es with
    | some p0, some e0 =>
      let m := ms == "1"
      let p := if kind == "x" then fromClvm m (toClvm m p0) else p0
      let e := if kind == "x" then fromClvm m (toClvm m e0) else e0
      let hr := _root_.Step.headRunner m _root_.Step.chiaPrims Ops.chiaOps stepLimit nestDepth
      let rows := loop m hr stepLimit (_root_.Cldb.init p e) []
      let right := Drv.showRes (Clvm.evalC Ops.chiaOps 100000 (toClvm m p0) (toClvm m e0))
      let uns := match _root_.Step.run m _root_.Step.chiaPrims Ops.chiaOps nestDepth stepLimit p e with
        | .error (.op t) => t == "UNSUPPORTED"
        | _ => false
      let fl := _root_.Step.flagsOf hr m _root_.Step.chiaPrims Ops.chiaOps stepLimit p e
      if uns then s!"unsupported | {right} | {Drv.Step.showFlags fl}"
      else s!"{";".intercalate rows} | {right} | {Drv.Step.showFlags fl}"
    | _, _ => "bad-input"
  | _ => "bad-input"

def run : IO Unit := Drv.eachLine line

end Drv.Cldb
