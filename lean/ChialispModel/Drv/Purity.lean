/-
  Drv/Purity.lean — `modeld purity` (C05): the guard model on the line protocol of `cvh purity`:
    `g <initial mode 0|1> <code>` → `<mode after 0|1> <outcome> <observed bits>`
    `y <name hex> <counter>`      → `<generated name hex> <counter after>`   (`gensym`)
  code (prefix form): `K` skip, `O` observe, `E` stop err, `R` stop early, `P` stop unwind,
  `;ab` seq, `G0a` / `G1a` guarded.
-/
import ChialispModel.Sys.Purity
import ChialispModel.Drv.Common

namespace Drv.Purity
open _root_.Purity

def parse : Nat → List Char → Option (Code × List Char)
  | 0, _ => none
  | _, [] => none
  | fuel + 1, c :: r =>
    if c = 'K' then some (.skip, r)
    else if c = 'O' then some (.observe, r)
    else if c = 'E' then some (.stop .err, r)
    else if c = 'R' then some (.stop .early, r)
    else if c = 'P' then some (.stop .unwind, r)
    else if c = ';' then
      match parse fuel r with
      | some (a, r1) =>
        match parse fuel r1 with
        | some (b, r2) => some (.seq a b, r2)
        | none => none
      | none => none
    else if c = 'G' then
      match r with
      | v :: r1 =>
        match parse fuel r1 with
        | some (b, r2) => some (.guarded (v = '1') b, r2)
        | none => none
      | [] => none
    else none

def outcomeStr : Outcome → String
  | .ok => "ok" | .err => "err" | .early => "early" | .unwind => "unwind"

def line (l : String) : String :=
  match Drv.splitWs l with
  | ["g", m, code] =>
    match parse (code.length + 1) code.toList with
    | some (c, []) =>
      let r := exec 0 c ⟨fun _ => m == "1"⟩
      (if r.world.mode 0 then "1" else "0") ++ " " ++ outcomeStr r.outcome ++ " " ++
        String.ofList (r.seen.map (fun b => if b then '1' else '0'))
    | _ => "bad-input"
  | ["y", h, k] =>
    match Bytes.ofHex h, k.toNat? with
    | some name, some ctr =>
      match gensym name ctr with
      | (n, c) => Bytes.toHex n ++ " " ++ toString c
    | _, _ => "bad-input"
  | _ => "bad-input"

def run : IO Unit := Drv.eachLine line

end Drv.Purity
