/-
  Drv/Fresh.lean — `modeld fresh` (C05): the core2 compiler model with the explicit name counter.
  line: `<k> <D> <program as rich>`  (k: counter start value, D: number of names the real frontend drew
        in total; the names drawn before the first user helper — prelude macros, macro expansions — are
        not modelled: the model starts at k + D - drawsProg P)
  →     `K <compiled hex> <drawsProg> <tok>*` | `nocompile <drawsProg> <tok>*` | `notcore` | `toolarge`
  tokens as `cvh fresh` prints them (live helpers only).
-/
import ChialispModel.Drv.Core2Drv
import ChialispModel.Lang.Core2Fresh

namespace Drv.Fresh
open Core2

def showTok (t : Char × Bytes) : String := String.singleton t.1 ++ ":" ++ Bytes.toHex t.2

def fnToks (f : FnDef) : List String :=
  "H" :: ((patAtoms f.params).map (fun n => showTok ('P', n)) ++ (tokensE f.body).map showTok)

/-- `frontend` drops the helpers that are not reachable from the main expression AFTER renaming all
    of them: dead helpers draw names but are not printed. -/
def progToks (P : Prog) : List String :=
  ((P.fns.filter (fun f => (liveSet P).contains f.name)).map fnToks).flatten ++ ("M" :: (tokensE P.body).map showTok)

def line (l : String) : String :=
  match Drv.splitWs l with
  | [ks, ds, p] =>
    match ks.toNat?, ds.toNat?, Drv.decRich p with
    | some k, some d, some src =>
      match Core2.ofSource src with
      | none => "notcore"
      | some P =>
        let Q := renameProgWith (k + d - drawsProg P) P
        match Core2.expandProg Q with
        | none => " ".intercalate ("nocompile" :: toString (drawsProg P) :: progToks Q)
        | some (FT, main) =>
          match FT.foldl (fun acc f => acc.bind (Drv.Core2Drv.sizeB f.body)) (Drv.Core2Drv.sizeB main Drv.Core2Drv.budget) with
          | none => "toolarge"
          | some _ =>
            match compileCore2With (k + d - drawsProg P) P with
            | none => " ".intercalate ("nocompile" :: toString (drawsProg P) :: progToks Q)
            | some code => " ".intercalate ("K" :: SerdeSpec.toHex code :: toString (drawsProg P) :: progToks Q)
    | _, _, _ => "bad-input"
  | _ => "bad-input"

def run : IO Unit := Drv.eachLine line

end Drv.Fresh
