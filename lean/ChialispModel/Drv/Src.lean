/-
  Drv/Src.lean — `modeld src`: the source-level reference interpreter (`Lang.evalSrc`).
  line: `<program as rich> <args hex>*`  →  `S <result>*`, result = `V<hex>` | `F` | `U:<why>`
-/
import ChialispModel.Drv.RichIO
import ChialispModel.Lang.Env

namespace Drv.Src

def showOut : Lang.Out Val → String
  | .ok v => "V" ++ SerdeSpec.toHex v
  | .fail => "F"
  | .undef w => "U:" ++ (w.replace " " "_")

def line (l : String) : String :=
  match Drv.splitWs l with
  | ["L", pat, nameHex] =>
    -- `create_name_lookup_` on a pattern: `P <path>` | `none`
    match Drv.decRich pat, Bytes.ofHex nameHex with
    | some p, some n =>
      (match Lang.nameLookup n p with
       | some q => s!"P {q}"
       | none => "none")
    | _, _ => "bad-input"
  | p :: args =>
    match Drv.decRich p with
    | some prog =>
      let rs := args.map (fun a =>
        match SerdeSpec.ofHex a with
        | some v => showOut (Lang.evalSrc prog v)
        | none => "bad-args")
      " ".intercalate ("S" :: rs)
    | none => "bad-input"
  | _ => "bad-input"

def run : IO Unit := Drv.eachLine line

end Drv.Src
