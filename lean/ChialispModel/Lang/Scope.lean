/-
  Lang/Scope.lean — scoping on the core compiler model (C10).  Import-free of Std/Mathlib.

  `Core.compileCore` (Lang/Core.lean) is byte-identical to the real modern compiler's
  non-optimising output on the core language.  Two things the real compiler does on the way
  are made explicit here:

  * redefinition: `dummy_functions` / `codegen_` (codegen.rs) reject a helper whose name is
    already in the inline or defun table (`fail_if_present`: "Cannot redefine NAME").  The check
    runs over the helpers that survive `frontend`'s live-helper pruning, i.e. over
    `Core.liveFns`.  `compileCoreStrict` = that check, then `compileCore`.
  * unbound names: in a strict dialect `generate_expr_code` has no fallback for an atom
    `create_name_lookup` cannot resolve ("Unbound use of X as a variable name"), and a call head
    that is neither macro, inline, defun/parameter path nor primitive is "no such callable".
    `compileCore` already mirrors this: `compileE` returns `none` when `nameLookup` fails.
    `closedE` is the decidable statement "every variable and every called name of this
    expression resolves in this environment".
-/
import ChialispModel.Lang.CoreSource

namespace Core

/-- names of the helpers that reach code generation. -/
def liveNames (P : Prog) : List Bytes := (liveFns P).map (·.name)

/-- the strict modern compiler on the core language: redefinition check, then code generation
    (which fails on any name it cannot resolve). -/
def compileCoreStrict (P : Prog) : Option Val :=
  if nodupB (liveNames P) then compileCore P else none

mutual
/-- every variable occurrence and every called name resolves in `env`. -/
def closedE (env : Rich) : Expr → Bool
  | .var n => (Lang.nameLookup n env).isSome
  | .lit _ => true
  | .op _ as => closedEs env as
  | .ite c a b => closedE env c && closedE env a && closedE env b
  | .call f as => (Lang.nameLookup f env).isSome && closedEs env as
def closedEs (env : Rich) : Exprs → Bool
  | .nil => true
  | .cons e r => closedE env e && closedEs env r
end

/-- every function of `fs` is closed in its own environment `(names-tree . its parameters)`. -/
def closedFns (names : List Bytes) (fs : List FnDef) : Bool :=
  fs.all (fun f => closedE (Lang.envShape names f.params) f.body)

/-- the program is closed: main expression and every live function. -/
def closedProg (P : Prog) : Bool :=
  closedE (Lang.envShape (liveNames P) P.params) P.body && closedFns (liveNames P) (liveFns P)

mutual
/-- variables occurring in an expression (with repetitions). -/
def varsOf : Expr → List Bytes
  | .var n => [n]
  | .lit _ => []
  | .op _ as => varsOfs as
  | .ite c a b => varsOf c ++ varsOf a ++ varsOf b
  | .call _ as => varsOfs as
def varsOfs : Exprs → List Bytes
  | .nil => []
  | .cons e r => varsOf e ++ varsOfs r
end

end Core

/-
  Quasi-quotation in expression position: `qq_to_expression` / `qq_to_expression_list`
  (/repo/src/compiler/frontend.rs).  `(qq T)` becomes nested `(c … …)` calls over the template;
  `(unquote e)` is the only way back to evaluated code, so these are the "qq / macro template"
  variable positions of C10.  The Rust function has one rule beyond textbook quasi-quotation:
  a list whose head spells `q` or `1` (as atom, string or integer — `u8_from_number`, so also the
  integer 113) is returned quoted AS A WHOLE, unquotes and all.
-/
namespace QQ

/-- the result: what is quoted, what is handed to `compile_bodyform` (evaluated), and the
    `(c a d)` calls that rebuild the list structure. -/
inductive Form
  | quoted (r : Rich)
  | eval (r : Rich)
  | consCall (a d : Form)
deriving DecidableEq, Repr

/-- the operator bytes the Rust code reads off the head of a list. -/
def opBytes : Rich → Bytes
  | .atom o => o
  | .qstr _ s => s
  | .int i => Bytes.ofInt i
  | _ => []

/-- `op.len() == 1 && (op[0] == b'q' || op[0] == 1)` -/
def isQuoteOp (op : Bytes) : Bool := op == [113] || op == [1]

/-- `SExp::proper_list` (the end of the list is anything `nilp`). -/
def properL : Rich → Option (List Rich)
  | .cons a d => (properL d).map (a :: ·)
  | .nil => some []
  | .atom b => if b.isEmpty then some [] else none
  | .qstr _ b => if b.isEmpty then some [] else none
  | .int i => if i == 0 then some [] else none

def kwQuote : Bytes := [113, 117, 111, 116, 101]
def kwUnquote : Bytes := [117, 110, 113, 117, 111, 116, 101]

mutual
/-- `qq_to_expression` (`none` = a `CompileErr`: "bad form" / "Bad list tail in qq"). -/
def qqExpr : Rich → Option Form
  | .cons f r =>
    if isQuoteOp (opBytes f) then some (.quoted (.cons f r))
    else
      match properL r with
      | some [x] =>
        if opBytes f == kwQuote then some (.quoted x)
        else if opBytes f == kwUnquote then some (.eval x)
        else
          match qqExpr f, qqList r with
          | some a, some d => some (.consCall a d)
          | _, _ => none
      | some _ =>
        if opBytes f == kwQuote || opBytes f == kwUnquote then none
        else
          match qqExpr f, qqList r with
          | some a, some d => some (.consCall a d)
          | _, _ => none
      | none =>
        match qqExpr f, qqList r with
        | some a, some d => some (.consCall a d)
        | _, _ => none
  | .nil => some (.quoted .nil)
  | .atom b => some (.quoted (.atom b))
  | .int i => some (.quoted (.int i))
  | .qstr q b => some (.quoted (.qstr q b))
/-- `qq_to_expression_list` -/
def qqList : Rich → Option Form
  | .cons f r =>
    match qqExpr f, qqList r with
    | some a, some d => some (.consCall a d)
    | _, _ => none
  | .nil => some (.quoted .nil)
  | _ => none
end

/-- the sub-expressions that are evaluated. -/
def evals : Form → List Rich
  | .quoted _ => []
  | .eval r => [r]
  | .consCall a d => evals a ++ evals d

mutual
/-- what textbook quasi-quotation evaluates: the `x` of every `(unquote x)` reached through list
    structure without entering a `(quote _)` or an `(unquote _)`. -/
def unquotesOf : Rich → List Rich
  | .cons f r =>
    match properL r with
    | some [x] =>
      if opBytes f == kwQuote then []
      else if opBytes f == kwUnquote then [x]
      else unquotesOf f ++ unquotesOfList r
    | _ => unquotesOf f ++ unquotesOfList r
  | _ => []
def unquotesOfList : Rich → List Rich
  | .cons f r => unquotesOf f ++ unquotesOfList r
  | _ => []
end

mutual
/-- no list anywhere in the template (outside `(quote _)` / `(unquote _)`) has a head spelling
    `q` or `1` — the predicate of finding C10-F1. -/
def noQuoteHead : Rich → Bool
  | .cons f r =>
    !isQuoteOp (opBytes f) &&
    (match properL r with
     | some [_] =>
       if opBytes f == kwQuote || opBytes f == kwUnquote then true
       else noQuoteHead f && noQuoteHeadList r
     | _ => noQuoteHead f && noQuoteHeadList r)
  | _ => true
def noQuoteHeadList : Rich → Bool
  | .cons f r => noQuoteHead f && noQuoteHeadList r
  | _ => true
end

end QQ
