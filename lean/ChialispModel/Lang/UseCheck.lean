/-
  Lang/UseCheck.lean — the unused-argument check (`--check-unused-args`,
  `check_parameters_used_compileform` in src/compiler/usecheck.rs) on the CORE language
  (Lang/Core.lean), in the form the non-interference theorem (Proofs/NonInterference.lean,
  Props/C17.lean) can consume.

  The real check renames every atom of the parameter pattern (`produce_env_captures`) to a
  unique token, partially evaluates the whole program (`shrink_bodyform` with
  `mash_conditions`: helper calls are expanded, conditions it cannot decide keep both
  branches) and reports the lower-case names (`consider_as_uncurried`) whose token does not
  occur in the residue (`remove_present_atoms`).

  The model keeps the parts that are plain code (which atoms of the pattern are candidates,
  which names are eligible) and replaces "token absent from the partially evaluated residue"
  by the syntactic under-approximation "name absent from the main expression"
  (`usedNames` = variables ∪ called names).  A name that does not occur in the main
  expression cannot enter a residue of it through a variable reference, so on programs the
  evaluator accepts the model's report is contained in the real one — with one observed
  exception in the conservative direction: the name of a capture `(@ cap pat)` around a leaf
  that is used under an undecided `if` (the evaluator's environment expression carries the
  capture's token where compiled code uses a path into it).  The converse inclusion fails
  where the evaluator removes an occurrence (an argument of a helper that ignores it, a
  statically decided `if`, and the defects C17-F2/F4) — there the theorem does not apply and
  the property is decided by the differential oracle alone (`tools/props/c17.py` records both
  directions on every run).
-/
import ChialispModel.Lang.Core

namespace Core

mutual
/-- the variables an expression reads (occurrences of `.var`). -/
def freeVars : Expr → List Bytes
  | .var n => [n]
  | .lit _ => []
  | .op _ as => freeVarss as
  | .ite c a b => freeVars c ++ freeVars a ++ freeVars b
  | .call _ as => freeVarss as
def freeVarss : Exprs → List Bytes
  | .nil => []
  | .cons e r => freeVars e ++ freeVarss r
end

/-- every name whose environment path the compiled expression mentions: variables read and
    functions called. -/
def usedNames (e : Expr) : List Bytes := freeVars e ++ callsOf e

/-- `produce_env_captures`: every atom of the parameter pattern is a candidate (both sides
    of every cons, so also the `@` of a capture form and the capture's name); integers,
    strings and nil are not. -/
def paramAtoms : Rich → List Bytes
  | .cons a d => paramAtoms a ++ paramAtoms d
  | .atom a => [a]
  | _ => []

/-- `consider_as_uncurried`: only names starting with a lower-case letter are reported. -/
def considerAsUncurried : Bytes → Bool
  | [] => false
  | c :: _ => 97 ≤ c.toNat && c.toNat ≤ 122

/-- is `x` reported by the model of the check: an eligible atom of the parameter pattern that
    the main expression never mentions. -/
def isReportedUnused (P : Prog) (x : Bytes) : Bool :=
  (paramAtoms P.params).contains x && considerAsUncurried x && !(usedNames P.body).contains x

/-- the model's report, in pattern order (duplicates kept; the driver prints it as a set). -/
def reportedUnused (P : Prog) : List Bytes :=
  (paramAtoms P.params).filter (fun x => considerAsUncurried x && !(usedNames P.body).contains x)

end Core
