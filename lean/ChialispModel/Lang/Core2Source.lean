/-
  Lang/Core2Source.lean — reading a core2 program (Lang/Core2.lean) from the source tree.
  Anything outside the core2 language yields `none` (the program is then not in the scope of
  the Layer-B2 theorem; it is still covered by the differential run against `Lang.evalSrc`).
  `let*` is read as nested single-binding `let`s (that is how the compiler treats it, both
  in `rename` and in `hoist_body_let_binding`).
-/
import ChialispModel.Lang.Core2
import ChialispModel.Lang.CoreSource

namespace Core2

mutual
def exprOf (fnames : List Bytes) : Nat → Rich → Option Expr
  | 0, _ => none
  | _+1, .nil => some (.lit Val.nil)
  -- in non-strict dialects an integer whose bytes spell `@` is the environment reference: not core
  | _+1, .int i => if Bytes.ofInt i == [64] then none else some (.lit (.atom (Bytes.ofInt i)))
  -- cl21: a string / hex literal spelling `@` that goes through a macro (`list`, `if`) comes back
  -- as the environment reference (known finding C01-F8): not core
  | _+1, .qstr _ b => if b == [64] then none else some (.lit (.atom b))
  | _+1, .atom name => if name.isEmpty then some (.lit Val.nil) else some (.var name)
  | n+1, .cons (.atom h) tl =>
    if h == Lang.str "q" then
      -- a quoted bare identifier is renamed together with the variables (`rename_in_bodyform`
      -- on `BodyForm::Quoted(Atom)`): not core
      match tl with
      | .atom _ => none
      | _ => some (.lit (Rich.toClvm false tl))
    else if Core.isDefunName h fnames then (exprsOf fnames n tl).map (.call h)
    else if h == Lang.str "if" then
      match tl with
      | .cons c (.cons a (.cons b .nil)) =>
        match exprOf fnames n c, exprOf fnames n a, exprOf fnames n b with
        | some c', some a', some b' => some (.ite c' a' b')
        | _, _, _ => none
      | _ => none
    else if h == Lang.str "list" then listOf fnames n tl
    else if h == Lang.str "let" then
      match tl with
      | .cons bs (.cons body .nil) =>
        match bindsOf fnames n bs, exprOf fnames n body with
        | some (names, es), some b => some (.letE names es b)
        | _, _ => none
      | _ => none
    else if h == Lang.str "let*" then
      match tl with
      | .cons bs (.cons body .nil) => letStarOf fnames n bs body
      | _ => none
    else
      -- `/` is an inline function of the standard environment, `x` never returns: not core
      if h == Lang.str "/" || h == Lang.str "x" then none else
      match Lang.primOpcode h with
      | some oc => (exprsOf fnames n tl).map (.op oc)
      | none => none
  | _+1, _ => none
def exprsOf (fnames : List Bytes) : Nat → Rich → Option Exprs
  | 0, _ => none
  | _+1, .nil => some .nil
  | n+1, .cons e r =>
    match exprOf fnames n e, exprsOf fnames n r with
    | some e', some r' => some (.cons e' r')
    | _, _ => none
  | _+1, _ => none
/-- `(list a b …)` = `(c a (c b … (q)))` -/
def listOf (fnames : List Bytes) : Nat → Rich → Option Expr
  | 0, _ => none
  | _+1, .nil => some (.lit Val.nil)
  | n+1, .cons e r =>
    match exprOf fnames n e, listOf fnames n r with
    | some e', some r' => some (.op 4 (.cons e' (.cons r' .nil)))
    | _, _ => none
  | _+1, _ => none
/-- `((n1 e1) (n2 e2) …)` -/
def bindsOf (fnames : List Bytes) : Nat → Rich → Option (List Bytes × Exprs)
  | 0, _ => none
  | _+1, .nil => some ([], .nil)
  | n+1, .cons (.cons (.atom nm) (.cons e .nil)) r =>
    match exprOf fnames n e, bindsOf fnames n r with
    | some e', some (ns, es) => some (nm :: ns, .cons e' es)
    | _, _ => none
  | _+1, _ => none
/-- `(let* ((n1 e1) …) body)` = `(let ((n1 e1)) (let* (…) body))` -/
def letStarOf (fnames : List Bytes) : Nat → Rich → Rich → Option Expr
  | 0, _, _ => none
  | n+1, .nil, body => exprOf fnames n body
  | n+1, .cons (.cons (.atom nm) (.cons e .nil)) r, body =>
    match exprOf fnames n e, letStarOf fnames n r body with
    | some e', some inner => some (.letE [nm] (.cons e' .nil) inner)
    | _, _ => none
  | _+1, _, _ => none
end

/-- collect `(defun name params body)` / `(defun-inline …)` helpers; the last form is the
    main expression. -/
def helpersOf : List Rich → Option (List (Bytes × Rich × Rich × Bool) × Rich)
  | [] => none
  | [body] => some ([], body)
  | h :: r =>
    match Lang.isDialectInclude h with
    | some _ => helpersOf r
    | none =>
      match h with
      | .cons (.atom kw) (.cons (.atom name) (.cons ps (.cons body .nil))) =>
        if kw == Lang.str "defun" then (helpersOf r).map (fun x => ((name, ps, body, false) :: x.1, x.2))
        else if kw == Lang.str "defun-inline" then (helpersOf r).map (fun x => ((name, ps, body, true) :: x.1, x.2))
        else none
      | _ => none

def fnDefsOf (fnames : List Bytes) : List (Bytes × Rich × Rich × Bool) → Option (List FnDef)
  | [] => some []
  | (name, ps, body, inl) :: r =>
    match exprOf fnames (Core.richSize body + 1) body, fnDefsOf fnames r with
    | some b, some fs => some (⟨name, ps, b, inl⟩ :: fs)
    | _, _ => none

/-- names that would make the reading ambiguous when used for a function. -/
def reservedName (n : Bytes) : Bool :=
  n == Lang.str "q" || n == Lang.str "if" || n == Lang.str "list" || n == Lang.str "let" || n == Lang.str "let*" ||
  n == Lang.str "com" || n == Lang.str "@" || n == Lang.str "@*env*" || (Lang.primOpcode n).isSome

/-- `(mod PARAMS [sigil] (defun …)* body)` over the core2 expression language. -/
def ofSource (src : Rich) : Option Prog :=
  match src with
  | .cons (.atom md) (.cons params rest) =>
    if md == Lang.str "mod" then
      match Lang.properList rest with
      | some forms =>
        match helpersOf forms with
        | some (hs, body) =>
          let fnames := hs.map (·.1)
          if fnames.any reservedName then none else
          match fnDefsOf fnames hs, exprOf fnames (Core.richSize body + 1) body with
          | some fns, some b => some ⟨params, fns, b⟩
          | _, _ => none
        | none => none
      | none => none
    else none
  | _ => none

end Core2
