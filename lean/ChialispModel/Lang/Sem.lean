/-
  Lang/Sem.lean — the reference meaning of Chialisp source programs: a call-by-value
  big-step interpreter over the *source tree* (a `Rich` value as the reader produces it).
  This is the "reference kept under /verif" the compiler properties (C01, C02, C03, C13,
  C16, C17) are stated against.  It is written from the language's documented meaning, NOT
  from the compiler's code; outcomes are

    ok v      the source evaluation returns v         (the only outcome the properties use)
    fail      the program raises / an operator fails  (no claim: compiled code may be lazier)
    undef     out of fuel or a construct outside the interpreted language (no claim)

  Covered surface: mod with arbitrary parameter patterns incl. `(@ name pat)` captures,
  defun, defun-inline, defconstant / defconst, let / let* / assign (+ -inline / -lambda hints),
  if (lazy, 3-argument and multi-branch), list, q / quote / qq+unquote, all operators of
  `Ops.chiaOps` by name, `a` on data, `&rest` call tails, `@`, template macros (defmacro with a
  qq template), lambda with captures and nested mod (as closures, applicable with `a`).
-/
import ChialispModel.Text.Rich
import ChialispModel.Clvm.Eval

namespace Lang

inductive Out (α : Type) where
  | ok (v : α)
  | fail
  | undef (why : String)
  deriving Repr, Inhabited

instance : Monad Out where
  pure := .ok
  bind x f := match x with
    | .ok v => f v
    | .fail => .fail
    | .undef w => .undef w

def ofRes : Res → Out Val
  | .ok v => .ok v
  | .error .fuel => .undef "fuel"
  | .error (.fail t) => if t = "UNSUPPORTED" then .undef "unsupported operator" else .fail

/-- operator names → opcode atom (the modern `prims()` table, value-returning operators only;
    the C20 check ties the real table to the classic ones). -/
def primOpcode (name : Bytes) : Option Nat :=
  let tbl : List (String × Nat) := [
    ("i", 3), ("c", 4), ("f", 5), ("r", 6), ("l", 7), ("x", 8), ("=", 9), (">s", 10),
    ("sha256", 11), ("substr", 12), ("strlen", 13), ("concat", 14), ("+", 16), ("-", 17),
    ("*", 18), ("/", 19), ("divmod", 20), (">", 21), ("ash", 22), ("lsh", 23), ("logand", 24),
    ("logior", 25), ("logxor", 26), ("lognot", 27), ("not", 32), ("any", 33), ("all", 34)]
  (tbl.find? (fun p => p.1.toUTF8.toList == name)).map (·.2)

def str (s : String) : Bytes := s.toUTF8.toList

/-- semantic values: CLVM values, plus closures (lambda / nested mod / function references)
    whose CLVM bytes are the compiler's business. -/
inductive SV where
  | atom (b : Bytes)
  | pair (a d : SV)
  | clo (params : Rich) (body : Rich) (env : List (Bytes × SV)) (captures : Option SV)
  deriving Inhabited

abbrev Env := List (Bytes × SV)

namespace SV
def nil : SV := .atom []

def ofVal : Val → SV
  | .atom b => .atom b
  | .pair a d => .pair (ofVal a) (ofVal d)

/-- a CLVM value, if no closure occurs inside. -/
def toVal? : SV → Option Val
  | .atom b => some (.atom b)
  | .pair a d => match toVal? a, toVal? d with
    | some x, some y => some (.pair x y)
    | _, _ => none
  | .clo _ _ _ _ => none

def nilp : SV → Bool
  | .atom b => b.isEmpty
  | _ => false

def ofList (l : List SV) (tail : SV := nil) : SV :=
  l.foldr (fun x acc => .pair x acc) tail
end SV

structure Fn where
  name : Bytes
  params : Rich
  body : Rich
  inline : Bool
  deriving Inhabited

structure Prog where
  mode : Mode                      -- integer conversion mode of the dialect
  params : Rich
  fns : List Fn
  consts : List (Bytes × Rich)
  macros : List Fn                 -- template macros: body is `(qq template)`
  body : Rich
  deriving Inhabited

def lookupEnv (n : Bytes) : Env → Option SV
  | [] => none
  | (k, v) :: r => if k == n then some v else lookupEnv n r

/-- the name a pattern leaf binds (`atomize`: integers and strings name themselves). -/
def patName : Rich → Option Bytes
  | .atom b => some b
  | .int i => some (Bytes.ofInt i)
  | .qstr _ b => some b
  | _ => none

/-- `(@ name sub)` -/
def atCapture : Rich → Option (Bytes × Rich)
  | .cons (.atom [64]) (.cons (.atom cap) (.cons sub .nil)) => some (cap, sub)
  | _ => none

/-- does a pattern bind any name? -/
def patHasNames : Rich → Bool
  | .nil => false
  | .cons a d => patHasNames a || patHasNames d
  | _ => true

/-- destructure `v` against a parameter pattern; `none` when a name cannot be bound
    (the compiled program would fail when it used it; the source meaning is then `fail`). -/
def bindPat : Rich → SV → Option Env
  | .nil, _ => some []
  | .atom b, v => if b.isEmpty then some [] else some [(b, v)]
  | .int i, v => some [(Bytes.ofInt i, v)]
  | .qstr _ b, v => some [(b, v)]
  | .cons (.atom [64]) (.cons (.atom cap) (.cons sub .nil)), v =>
    match bindPat sub v with
    | some e => some ((cap, v) :: e)
    | none => none
  | .cons a d, .pair x y =>
    match bindPat a x, bindPat d y with
    | some e1, some e2 => some (e1 ++ e2)
    | _, _ => none
  | .cons a d, _ => if patHasNames a || patHasNames d then none else some []

/-- names bound by a pattern -/
def patNames : Rich → List Bytes
  | .nil => []
  | .atom b => if b.isEmpty then [] else [b]
  | .int i => [Bytes.ofInt i]
  | .qstr _ b => [b]
  | .cons (.atom [64]) (.cons (.atom cap) (.cons sub .nil)) => cap :: patNames sub
  | .cons a d => patNames a ++ patNames d

/-- quoted source data as a value (`convert_to_clvm_rs` in the dialect's integer mode). -/
def dataVal (m : Mode) (r : Rich) : SV := SV.ofVal (Rich.toClvm m r)

def properList : Rich → Option (List Rich)
  | .nil => some []
  | .cons a d => (properList d).map (a :: ·)
  | .atom b => if b.isEmpty then some [] else none
  | _ => none

/-- all atoms occurring in a source expression (over-approximation of its free names). -/
def mentions : Rich → List Bytes
  | .atom b => [b]
  | .cons a d => mentions a ++ mentions d
  | _ => []

def findFn (n : Bytes) : List Fn → Option Fn
  | [] => none
  | f :: r => if f.name == n then some f else findFn n r

def findConst (n : Bytes) : List (Bytes × Rich) → Option Rich
  | [] => none
  | (k, e) :: r => if k == n then some e else findConst n r

/-- instantiate a macro template: `(unquote X)` with X a macro parameter → the argument form. -/
def substTemplate (sub : List (Bytes × Rich)) : Rich → Rich
  | .cons (.atom u) (.cons (.atom x) .nil) =>
    if u == str "unquote" then
      match sub.find? (fun p => p.1 == x) with
      | some (_, form) => form
      | none => .cons (.atom u) (.cons (.atom x) .nil)
    else .cons (.atom u) (.cons (.atom x) .nil)
  | .cons a d => .cons (substTemplate sub a) (substTemplate sub d)
  | r => r

/-- bind macro parameters to argument *forms* (flat or dotted parameter lists). -/
def bindForms : Rich → Rich → Option (List (Bytes × Rich))
  | .nil, _ => some []
  | .atom b, forms => some [(b, forms)]
  | .cons (.atom p) d, .cons x y => (bindForms d y).map ((p, x) :: ·)
  | _, _ => none

/-- split a call tail into argument forms and an optional `&rest` form -/
def splitRest : List Rich → Option (List Rich × Option Rich)
  | [] => some ([], none)
  | [.atom a, t] => if a == str "&rest" then some ([], some t) else some ([.atom a, t], none)
  | x :: r =>
    match x with
    | .atom a => if a == str "&rest" then none else (splitRest r).map (fun p => (x :: p.1, p.2))
    | _ => (splitRest r).map (fun p => (x :: p.1, p.2))

def applyOp (opcode : Nat) (args : SV) : Out SV :=
  match args.toVal? with
  | none => .undef "operator on closure"
  | some v => do
    let r ← ofRes (Ops.chiaApply [UInt8.ofNat opcode] v)
    pure (SV.ofVal r)

def clvmFuel : Nat := 20000

mutual
/-- evaluate a source expression. `self` = the current function's whole argument value (`@`). -/
def evalE (P : Prog) : Nat → Env → SV → Rich → Out SV
  | 0, _, _, _ => .undef "fuel"
  | _+1, _, _, .nil => .ok SV.nil
  | _+1, _, _, .int i => .ok (.atom (if P.mode && i == 0 then [] else Bytes.ofInt i))
  | _+1, _, _, .qstr _ b => .ok (.atom b)
  | n+1, ρ, self, .atom name =>
    if name.isEmpty then .ok SV.nil
    else if name == [64] then .ok self
    else match lookupEnv name ρ with
      | some v => .ok v
      | none =>
        match findConst name P.consts with
        | some e => evalE P n [] SV.nil e
        | none =>
          match findFn name P.fns with
          | some f => if f.inline then .undef "inline as value" else .ok (.clo f.params f.body [] none)
          | none => .undef "unbound identifier"
  | n+1, ρ, self, .cons hd tl =>
    match hd with
    | .int i => evalE P n ρ self (.cons (.atom (Bytes.ofInt i)) tl)
    | .atom h =>
      if h == str "q" || h == [1] then .ok (dataVal P.mode tl)
      else match properList tl with
      | none => .undef "improper form"
      | some args =>
        if h == str "quote" then
          match args with
          | [x] => .ok (dataVal P.mode x)
          | _ => .undef "quote arity"
        else if h == str "qq" then
          match args with
          | [x] => evalQQ P n ρ self x
          | _ => .undef "qq arity"
        else if h == str "if" && (findFn h P.fns).isNone && (findFn h P.macros).isNone then
          evalIf P n ρ self args
        else if h == str "list" && (findFn h P.fns).isNone && (findFn h P.macros).isNone then
          match splitRest args with
          | some (fs, t) => do
            let vs ← evalList P n ρ self fs
            let tv ← (match t with | some tf => evalE P n ρ self tf | none => .ok SV.nil)
            pure (SV.ofList vs tv)
          | none => .undef "bad &rest"
        else if h == str "let" || h == str "let*" then
          match args with
          | [bs, body] =>
            match properList bs with
            | some bl =>
              if h == str "let" then do
                let ρ' ← evalLetPar P n ρ self bl
                evalE P n (ρ' ++ ρ) self body
              else evalLetSeq P n ρ self bl body
            | none => .undef "let bindings"
          | _ => .undef "let arity"
        else if h == str "assign" || h == str "assign-inline" || h == str "assign-lambda" then
          evalAssign P n ρ self args
        else if h == str "lambda" then
          match args with
          | [ps, body] => evalLambda P n ρ self ps body
          | _ => .undef "lambda arity"
        else if h == str "mod" then
          .undef "nested mod"
        else if h == str "com" then .undef "com"
        else match findFn h P.macros with
        | some mac =>
          match mac.body with
          | .cons (.atom qq) (.cons tmpl .nil) =>
            if qq == str "qq" then
              match bindForms mac.params tl with
              | some sub => evalE P n ρ self (substTemplate sub tmpl)
              | none => .undef "macro args"
            else .undef "macro body"
          | _ => .undef "macro body"
        | none =>
          match splitRest args with
          | none => .undef "bad &rest"
          | some (fs, t) => do
            let vs ← evalList P n ρ self fs
            let tv ← (match t with | some tf => evalE P n ρ self tf | none => .ok SV.nil)
            let argv := SV.ofList vs tv
            match lookupEnv h ρ with
            | some _ => .undef "call of a variable"
            | none =>
              match findFn h P.fns with
              | some f =>
                match bindPat f.params argv with
                | some ρ' => evalE P n ρ' argv f.body
                | none => .fail
              | none =>
                if h == str "a" then
                  match vs, t with
                  | [code, env], none => applyCode P n code env
                  | _, _ => .undef "a arity"
                else match primOpcode h with
                  | some oc => applyOp oc argv
                  | none => .undef "unknown function"
    | _ => .undef "bad head"

def evalList (P : Prog) : Nat → Env → SV → List Rich → Out (List SV)
  | 0, _, _, _ => .undef "fuel"
  | _+1, _, _, [] => .ok []
  | n+1, ρ, self, e :: r => do
    let v ← evalE P n ρ self e
    let vs ← evalList P n ρ self r
    pure (v :: vs)

/-- `(if c a b)`; the multi-branch form `(if c1 a c2 b … else)` of the newer dialects. -/
def evalIf (P : Prog) : Nat → Env → SV → List Rich → Out SV
  | 0, _, _, _ => .undef "fuel"
  | n+1, ρ, self, [c, a, b] => do
    let cv ← evalE P n ρ self c
    if cv.nilp then evalE P n ρ self b else evalE P n ρ self a
  | n+1, ρ, self, c :: a :: rest => do
    let cv ← evalE P n ρ self c
    if cv.nilp then evalIf P n ρ self rest else evalE P n ρ self a
  | _+1, _, _, _ => .undef "if arity"

def evalQQ (P : Prog) : Nat → Env → SV → Rich → Out SV
  | 0, _, _, _ => .undef "fuel"
  | n+1, ρ, self, .cons hd tl =>
    let op : Bytes := match hd with
      | .atom o => o
      | .qstr _ s => s
      | .int i => Bytes.ofInt i
      | _ => []
    if op == str "q" || op == [1] then .undef "qq of a q-headed form (treated as quoted by the compiler)"
    else
      match properList tl, (if op == str "unquote" then 1 else if op == str "quote" then 2 else 0) with
      | some [x], 1 => evalE P n ρ self x
      | some [x], 2 => .ok (dataVal P.mode x)
      | _, _ => do
        let a ← evalQQ P n ρ self hd
        let d ← evalQQTail P n ρ self tl
        pure (.pair a d)
  | _+1, _, _, r => .ok (dataVal P.mode r)

def evalQQTail (P : Prog) : Nat → Env → SV → Rich → Out SV
  | 0, _, _, _ => .undef "fuel"
  | n+1, ρ, self, .cons hd tl => do
    let a ← evalQQ P n ρ self hd
    let d ← evalQQTail P n ρ self tl
    pure (.pair a d)
  | _+1, _, _, .nil => .ok SV.nil
  | _+1, _, _, _ => .undef "qq improper tail"

def evalLetPar (P : Prog) : Nat → Env → SV → List Rich → Out Env
  | 0, _, _, _ => .undef "fuel"
  | _+1, _, _, [] => .ok []
  | n+1, ρ, self, b :: r =>
    match b with
    | .cons nm (.cons e .nil) =>
      match patName nm with
      | some name => do
        let v ← evalE P n ρ self e
        let rest ← evalLetPar P n ρ self r
        pure ((name, v) :: rest)
      | none => .undef "let name"
    | _ => .undef "let binding"

def evalLetSeq (P : Prog) : Nat → Env → SV → List Rich → Rich → Out SV
  | 0, _, _, _, _ => .undef "fuel"
  | n+1, ρ, self, [], body => evalE P n ρ self body
  | n+1, ρ, self, b :: r, body =>
    match b with
    | .cons nm (.cons e .nil) =>
      match patName nm with
      | some name => do
        let v ← evalE P n ρ self e
        evalLetSeq P n ((name, v) :: ρ) self r body
      | none => .undef "let name"
    | _ => .undef "let binding"

/-- `(assign pat1 e1 pat2 e2 … body)`: bindings are evaluated in dependency order. -/
def evalAssign (P : Prog) : Nat → Env → SV → List Rich → Out SV
  | 0, _, _, _ => .undef "fuel"
  | n+1, ρ, self, forms =>
    let rec pairs : List Rich → Option (List (Rich × Rich) × Rich)
      | [body] => some ([], body)
      | p :: e :: r => (pairs r).map (fun x => ((p, e) :: x.1, x.2))
      | [] => none
    match pairs forms with
    | none => .undef "assign shape"
    | some (bs, body) =>
      let provided : List Bytes := bs.foldr (fun b acc => patNames b.1 ++ acc) []
      if provided.eraseDups.length != provided.length then .undef "assign duplicate"
      else evalAssignLoop P n ρ self provided bs [] body (bs.length + 1)

/-- repeatedly evaluate the first binding all of whose needs are available. -/
def evalAssignLoop (P : Prog) : Nat → Env → SV → List Bytes → List (Rich × Rich) → List Bytes → Rich → Nat → Out SV
  | 0, _, _, _, _, _, _, _ => .undef "fuel"
  | n+1, ρ, self, _, [], _, body, _ => evalE P n ρ self body
  | _+1, _, _, _, _ :: _, _, _, 0 => .undef "assign cycle"
  | n+1, ρ, self, provided, bs, done, body, k+1 =>
    let ready := fun (b : Rich × Rich) =>
      (mentions b.2).all (fun m => !(provided.contains m) || done.contains m)
    match bs.find? ready with
    | none => .undef "assign cycle"
    | some b =>
      match evalE P n ρ self b.2 with
      | .ok v =>
        match bindPat b.1 v with
        | some ρ' =>
          evalAssignLoop P n (ρ' ++ ρ) self provided (bs.filter (fun x => !(x.1 == b.1 && x.2 == b.2)))
            (patNames b.1 ++ done) body k
        | none => .fail
      | .fail => .fail
      | .undef w => .undef w

/-- `(lambda ((& c1 c2 …) p1 p2 …) body)`: captures are evaluated now, by name. -/
def evalLambda (P : Prog) : Nat → Env → SV → Rich → Rich → Out SV
  | 0, _, _, _, _ => .undef "fuel"
  | n+1, ρ, self, ps, body =>
    match ps with
    | .cons (.cons (.atom amp) caps) rest =>
      if amp == [38] then
        match properList caps with
        | some cl => do
          let cvs ← evalList P n ρ self cl
          let names := cl.map (fun c => match c with | .atom b => b | _ => [])
          pure (.clo rest body (names.zip cvs) none)
        | none => .undef "captures"
      else .ok (.clo ps body [] none)
    | _ => .ok (.clo ps body [] none)

/-- `(a code env)`: a closure is applied to the argument value; data is run as CLVM. -/
def applyCode (P : Prog) : Nat → SV → SV → Out SV
  | 0, _, _ => .undef "fuel"
  | n+1, .clo ps body cenv _, argv =>
    match bindPat ps argv with
    | some ρ' => evalE P n (ρ' ++ cenv) argv body
    | none => .fail
  | _+1, code, env =>
    match code.toVal?, env.toVal? with
    | some c, some e => do
      let r ← ofRes (Clvm.evalC Ops.chiaOps clvmFuel c e)
      pure (SV.ofVal r)
    | _, _ => .undef "a on closure data"
end

-- program structure ---------------------------------------------------------------------

def isDialectInclude (r : Rich) : Option Bytes :=
  match r with
  | .cons (.atom inc) (.cons (.atom nm) .nil) => if inc == str "include" then some nm else none
  | _ => none

/-- integer-conversion mode of a dialect sigil (`int_fix`). -/
def dialectMode (nm : Bytes) : Bool :=
  nm == str "*standard-cl-23.1*" || nm == str "*standard-cl-24*"

def parseHelpers (m : Mode) (params : Rich) : List Rich → Prog → Option Prog
  | [], _ => none
  | [body], acc => some { acc with mode := m, params := params, body := body }
  | h :: r, acc =>
    match isDialectInclude h with
    | some nm => parseHelpers (m || dialectMode nm) params r acc
    | none =>
      match h with
      | .cons (.atom kw) (.cons (.atom name) (.cons ps (.cons body .nil))) =>
        if kw == str "defun" then parseHelpers m params r { acc with fns := acc.fns ++ [⟨name, ps, body, false⟩] }
        else if kw == str "defun-inline" then parseHelpers m params r { acc with fns := acc.fns ++ [⟨name, ps, body, true⟩] }
        else if kw == str "defmacro" then parseHelpers m params r { acc with macros := acc.macros ++ [⟨name, ps, body, true⟩] }
        else none
      | .cons (.atom kw) (.cons (.atom name) (.cons body .nil)) =>
        if kw == str "defconstant" || kw == str "defconst" then
          parseHelpers m params r { acc with consts := acc.consts ++ [(name, body)] }
        else none
      | _ => none

/-- `(mod PARAMS helpers… body)` -/
def parseProg (src : Rich) : Option Prog :=
  match src with
  | .cons (.atom md) (.cons params rest) =>
    if md == str "mod" then
      match properList rest with
      | some forms => parseHelpers false params forms ⟨false, .nil, [], [], [], .nil⟩
      | none => none
    else none
  | _ => none

def srcFuel : Nat := 4000

/-- the meaning of a whole program on an argument value. -/
def evalSrc (src : Rich) (args : Val) : Out Val :=
  match parseProg src with
  | none => .undef "program shape"
  | some P =>
    let argv := SV.ofVal args
    match bindPat P.params argv with
    | none => .fail
    | some ρ =>
      match evalE P srcFuel ρ argv P.body with
      | .ok v => match v.toVal? with
        | some x => .ok x
        | none => .undef "closure result"
      | .fail => .fail
      | .undef w => .undef w

end Lang
