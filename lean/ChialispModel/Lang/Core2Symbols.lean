/-
  Lang/Core2Symbols.lean — the symbol table the modern compiler reports next to a compiled
  CORE2 program (Lang/Core2.lean: core + `defun-inline` + `let` / `let*`).

  Which helpers get entries (real code, non-optimising build, dialects cl21 / strict-cl21):
  * `PrimaryCodegen::add_defun` is called from exactly one place, `codegen_` (codegen.rs), and
    only in the branch `HelperForm::Defun(inline = false, …)`; the `inline = true` branch calls
    `add_inline`, which touches no symbol.  So `defun-inline` functions get NO entry.
  * `hoist_body_let_binding` turns every `let` into a helper named `letbinding_$_N` (`gensym`,
    global counter) built by `generate_let_defun`, whose inline flag is
    `should_inline_let(letdata.inline_hint)`.  The frontend gives `let` and `let*` the hint
    `None` (frontend.rs; only cl23's `assign-lambda` / the CSE pass produce `NonInline`), and
    `should_inline_let(None) = true`: the hoisted helpers are INLINE helpers, they go through
    `add_inline` and get NO entry either — no `letbinding_$_N` name and hence no value that
    depends on the gensym counter ever reaches the table.  (Checked against the real table by
    the tie: any extra key or value is a byte difference.)
  * the remaining helpers, the live non-inline functions of the source in source order
    (`to_process`), get the three `add_defun` inserts of Lang/CoreSymbols.lean, keyed by the
    tree hash of their FINAL code — the wrapped compiled body AFTER renaming, inline expansion
    and let hoisting — with `<hash>_arguments` = `defun.orig_args`, the SOURCE parameter list
    (`rename` leaves `orig_args` alone; the model never renames parameters).
  * `__chia__main_arguments` ↦ the mod's parameter list; `source_file` is not modelled.

  The key/value types, `HashMap::insert`/`get`, `add_defun`, `extract_program_and_env`,
  `rewrite_in_program` and `compose_run_function` are those of Lang/CoreSymbols.lean.
-/
import ChialispModel.Lang.Core2
import ChialispModel.Lang.CoreSymbols

namespace Core2
open Core (SymKey SymVal SymTab symInsert symGet addDefun)

/-- the `for f in to_process { codegen_ … add_defun }` loop: functions paired with their
    compiled code (`compileFns` yields the codes in the same order). -/
def addDefuns (H : Bytes → Bytes) : List FnDef → List (Bytes × Val) → SymTab → SymTab
  | f :: fs, e :: es, t => addDefuns H fs es (addDefun H f.name f.params e.2 t)
  | _, _, t => t

/-- the table recorded for emitted functions `FS` with compiled entries `entries` and mod
    parameters `params`. -/
def symbolsWith (H : Bytes → Bytes) (FS : List FnDef) (entries : List (Bytes × Val)) (params : Rich) : SymTab :=
  symInsert .mainArguments (.pattern params) (addDefuns H FS entries [])

/-- a function's final code as `codegen_` hands it to `add_defun` and `finalize_env` stores it in
    the environment tree: the wrapped compiled body `(a (q . BODY) 1)`. -/
def fnCode (names : List Bytes) (f : FnDef) : Option Val :=
  match compileE (Lang.envShape names f.params) f.body with
  | some c => some (Core.wrap c)
  | none => none

/-- expansion + code generation + symbol table of a program whose lets do not shadow
    (`compileNS` together with the table). -/
def compileNSSyms (H : Bytes → Bytes) (P : Prog) : Option (Val × SymTab) :=
  match expandProg P with
  | some (FT, main) =>
    match compileWith (keep FT (liveSet P)) P.params main,
          compileFns ((keep FT (liveSet P)).map (·.name)) (keep FT (liveSet P)) with
    | some code, some entries => some (code, symbolsWith H (keep FT (liveSet P)) entries P.params)
    | _, _ => none
  | none => none

/-- what a successful non-optimising compilation of a core2 program returns: the emitted
    program (`compileCore2`, byte-identical to the real output) and the symbol table. -/
def compileCore2Syms (H : Bytes → Bytes) (P : Prog) : Option (Val × SymTab) :=
  compileNSSyms H (renameProg P)

def symbolsOf (H : Bytes → Bytes) (P : Prog) : Option SymTab := (compileCore2Syms H P).map (·.2)

/-- the body of a function of a shadow-free program as the code generator sees it: inline
    calls and lets expanded (`none` for an inline function: it has no code of its own). -/
def targetBodyNS (Q : Prog) (f : FnDef) : Option Expr :=
  if f.inline then none else expand Q.fns (expandFuel Q) f.params .top f.body

/-- the emitted (live, non-inline) functions, in source order. -/
def emittedNS (Q : Prog) : List FnDef :=
  Q.fns.filter (fun f => !f.inline && (liveSet Q).contains f.name)

/-- the final code of function `f` of a shadow-free program: its target body compiled in the
    environment of the emitted functions' names, wrapped. -/
def codeOfNS (Q : Prog) (f : FnDef) : Option Val :=
  match targetBodyNS Q f with
  | some b => fnCode ((emittedNS Q).map (·.name)) { f with body := b }
  | none => none

/-- the emitted (live, non-inline) functions of the source program, in source order
    (renaming changes neither names nor liveness: `Core2.emitted_names`). -/
def emitted (P : Prog) : List FnDef :=
  P.fns.filter (fun f => !f.inline && (liveSet P).contains f.name)

/-- the final code of the source function `f` in program `P`: let-bound names renamed, inline
    calls and lets expanded, compiled, wrapped (`none` for an inline function). -/
def codeOf (P : Prog) (f : FnDef) : Option Val := codeOfNS (renameProg P) (renameFn f)

end Core2
