/-
  Lang/CoreSymbols.lean — the symbol table the modern compiler reports next to a compiled
  CORE program (Lang/Core.lean), and the functions that locate and call a function through it.

  Real code mirrored here:
  * `PrimaryCodegen::add_defun` (src/compiler/comptypes.rs): for every non-inline function,
    in the order of `to_process` (= the live helpers in source order, `codegen` in codegen.rs),
    three `HashMap::insert`s keyed by the hex of `sha256tree(code)` of the function's FINAL code
    (the wrapped body `(a (q . BODY) 1)` exactly as it is stored in the environment tree):
      `<hash>` ↦ name,  `<hash>_left_env` ↦ "1" (always taken),  `<hash>_arguments` ↦ `orig_args.to_string()`.
    A later function with the same code hash OVERWRITES the earlier one's three entries.
  * `codegen` (src/compiler/codegen.rs): the table is `function_symbols` plus `source_file`
    (the caller's file name — not a function of the program; NOT modelled) and
    `__chia__main_arguments` ↦ the mod's parameter list.
  * `extract_program_and_env`, `rewrite_in_program` (src/compiler/compiler.rs), used by
    `compose_run_function` (src/py/api.rs) together with `path_to_function` (Lang/Symbols.lean):
    given `(a MAIN (c QENV 1))` they build `(a (a (q . PATH/2) QENV) (c QENV 1))`, where PATH is
    the path of the function's code inside `QENV = (q . ENV)`.
    They are modelled on the CLVM value of the program (`Val`): `SExp::proper_list`'s `nilp`
    end test is the empty atom, `SExp::to_bigint` is the signed big-endian value of an atom,
    `SExp::Integer n` becomes the atom `Bytes.ofInt n` (legacy integer conversion; differs from
    the fixed mode only for the number 0, which no path into a function table is).

  The hash function is a parameter `H`; the driver instantiates it with `Sha256.hash`.
-/
import ChialispModel.Lang.Core
import ChialispModel.Lang.Symbols
import ChialispModel.Text.Printer

namespace Core

/-- the key families of the symbol table that are modelled. -/
inductive SymKey where
  | fn (h : Bytes)           -- `<hex h>`
  | arguments (h : Bytes)    -- `<hex h>_arguments`
  | leftEnv (h : Bytes)      -- `<hex h>_left_env`
  | mainArguments            -- `__chia__main_arguments`
  deriving DecidableEq, Repr

inductive SymVal where
  | name (n : Bytes)         -- a function name
  | pattern (p : Rich)       -- a parameter list, recorded as its printed text
  | one                      -- the text `1`
  deriving DecidableEq, Repr

abbrev SymTab := List (SymKey × SymVal)

/-- `HashMap::insert`: replace the value of an existing key, else add the pair. -/
def symInsert (k : SymKey) (v : SymVal) : SymTab → SymTab
  | [] => [(k, v)]
  | (k', v') :: r => if k' = k then (k, v) :: r else (k', v') :: symInsert k v r

/-- `HashMap::get` -/
def symGet (k : SymKey) : SymTab → Option SymVal
  | [] => none
  | (k', v') :: r => if k' = k then some v' else symGet k r

/-- `PrimaryCodegen::add_defun(name, args, code, left_env = true)` on `function_symbols`. -/
def addDefun (H : Bytes → Bytes) (name : Bytes) (args : Rich) (code : Val) (t : SymTab) : SymTab :=
  symInsert (.arguments (Val.treeHash H code)) (.pattern args)
    (symInsert (.leftEnv (Val.treeHash H code)) .one
      (symInsert (.fn (Val.treeHash H code)) (.name name) t))

/-- the `for f in to_process { codegen_ … add_defun }` loop: functions paired with their
    compiled code (`compileFns` yields the codes in the same order). -/
def addDefuns (H : Bytes → Bytes) : List FnDef → List (Bytes × Val) → SymTab → SymTab
  | f :: fs, e :: es, t => addDefuns H fs es (addDefun H f.name f.params e.2 t)
  | _, _, t => t

/-- the table recorded for live functions `FS` with compiled entries `entries` and mod
    parameters `params`. -/
def symbolsWith (H : Bytes → Bytes) (FS : List FnDef) (entries : List (Bytes × Val)) (params : Rich) : SymTab :=
  symInsert .mainArguments (.pattern params) (addDefuns H FS entries [])

/-- the live (emitted) functions, in source order: `liveFns P` without the `let`. -/
def live (P : Prog) : List FnDef := keep P.fns (liveSet P)

/-- a function's final code as `codegen_` hands it to `add_defun` and `finalize_env` stores it in
    the environment tree: the wrapped compiled body `(a (q . BODY) 1)` (`compileFns`). -/
def fnCode (names : List Bytes) (f : FnDef) : Option Val :=
  match compileE (Lang.envShape names f.params) f.body with
  | some c => some (wrap c)
  | none => none

/-- the code of function `f` in program `P`. -/
def codeOf (P : Prog) (f : FnDef) : Option Val := fnCode ((live P).map (·.name)) f

/-- what a successful non-optimising compilation of a core program returns: the emitted
    program (`compileCore`, byte-identical to the real output) and the symbol table. -/
def compileCoreSyms (H : Bytes → Bytes) (P : Prog) : Option (Val × SymTab) :=
  match compileCore P, compileFns ((live P).map (·.name)) (live P) with
  | some code, some entries => some (code, symbolsWith H (live P) entries P.params)
  | _, _ => none

def symbolsOf (H : Bytes → Bytes) (P : Prog) : Option SymTab := (compileCoreSyms H P).map (·.2)

-- extraction ---------------------------------------------------------------------------------------

/-- `SExp::proper_list` on a CLVM value: the elements, if the list ends in the empty atom. -/
def properList : Val → Option (List Val)
  | .atom b => if b.isEmpty then some [] else none
  | .pair a d =>
    match properList d with
    | some l => some (a :: l)
    | none => none

/-- `is_operator(op, atom)`: the atom's (signed big-endian) number is `op`; a pair is no number. -/
def isOperator (op : Int) : Val → Bool
  | .atom b => Bytes.toInt b == op
  | .pair _ _ => false

/-- second half of `extract_program_and_env`: the `(c ENV 1)` form. -/
def extractEnv (real : Val) : List Val → Option (Val × Val)
  | [c0, env, c2] => if isOperator 4 c0 && isOperator 1 c2 then some (real, env) else none
  | _ => none

/-- `extract_program_and_env`: `(a MAIN (c QENV 1))` ↦ `(MAIN, QENV)`. -/
def extractProgramAndEnv (prog : Val) : Option (Val × Val) :=
  match properList prog with
  | some [o, real, c] =>
    if isOperator 2 o then
      match properList c with
      | some cexp => extractEnv real cexp
      | none => none
    else none
  | _ => none

/-- `op2(op, code, env)` = `(op code env)` -/
def op2 (op : UInt8) (code env : Val) : Val :=
  .pair (.atom [op]) (.pair code (.pair env Val.nil))

/-- `rewrite_in_program(path, env)` = `(a (a (q . path/2) env) (c env 1))`. -/
def rewriteInProgram (path : Nat) (env : Val) : Val :=
  op2 2 (op2 2 (qv (.atom (Bytes.ofInt (Int.ofNat (path / 2))))) env) (op2 4 env (.atom [1]))

/-- `compose_run_function` (py/api.rs) after the name → hash lookup: the program that calls the
    function whose code has tree hash `hash`. -/
def composeRunFunction (H : Bytes → Bytes) (prog : Val) (hash : Bytes) : Option Val :=
  match extractProgramAndEnv prog with
  | some (_, qenv) =>
    match Lang.pathToFunction H qenv hash with
    | some p => some (rewriteInProgram p qenv)
    | none => none
  | none => none

-- rendering (what the `.sym` file / the returned `HashMap<String,String>` holds) ---------------

def keyText : SymKey → String
  | .fn h => Bytes.toHex h
  | .arguments h => Bytes.toHex h ++ "_arguments"
  | .leftEnv h => Bytes.toHex h ++ "_left_env"
  | .mainArguments => "__chia__main_arguments"

/-- the value text as bytes (`Bytes::decode` of the name, `SExp::to_string` of a pattern). -/
def valText : SymVal → Bytes
  | .name n => n
  | .pattern p => Rich.print p
  | .one => [49]

end Core
