/-
  Lang/Env.lean — how the modern code generator addresses names in an environment pattern
  (`create_name_lookup_` in codegen.rs) and the environment it lays out
  (`compute_env_shape` / `build_tree`).
-/
import ChialispModel.Lang.Sem

namespace Lang

/-- `create_name_lookup_`: the path (as a number, first step = least significant bit below
    the top 1) at which `name` is found in the pattern; first match, head before rest;
    an `(@ cap sub)` capture names the whole position. -/
def nameLookup (name : Bytes) : Rich → Option Nat
  | .atom a => if a == name then some 1 else none
  | .int i => if Bytes.ofInt i == name then some 1 else none
  | .cons (.atom [64]) (.cons (.atom cap) (.cons sub .nil)) =>
    if cap == name then some 1 else nameLookup name sub
  | .cons head rest =>
    match nameLookup name head with
    | some v => some (2 * v)
    | none =>
      match nameLookup name rest with
      | some v => some (2 * v + 1)
      | none => none
  | _ => none

/-- patterns whose leaves are identifiers (what the reader produces for parameter lists):
    no quoted strings, no empty atoms. -/
def patOk : Rich → Bool
  | .nil => true
  | .atom b => !b.isEmpty
  | .int _ => true
  | .qstr _ _ => false
  | .cons a d => patOk a && patOk d

/-- `build_tree`: balanced tree over the helper names `s..e`. -/
def buildTree (names : List Bytes) : Nat → Rich
  | 0 => .nil
  | fuel+1 =>
    match names with
    | [] => .nil
    | [n] => .atom n
    | _ =>
      let mid := names.length / 2
      .cons (buildTree (names.take mid) fuel) (buildTree (names.drop mid) fuel)

/-- `compute_env_shape`: `(helpers-tree . args)` -/
def envShape (helpers : List Bytes) (args : Rich) : Rich :=
  .cons (buildTree helpers (helpers.length + 1)) args

end Lang
