/-
  Lang/Symbols.lean — `path_to_function` (compiler.rs): find, in an emitted program, the
  environment path of the subtree whose tree hash is a symbol-table key.
-/
import ChialispModel.Base.Path
import ChialispModel.Text.Rich

namespace Lang

/-- `path_to_function_inner`: children first (left, then right), then the node itself. -/
def pathToFunctionInner (H : Bytes → Bytes) (hash : Bytes) : Val → Nat → Nat → Option Nat
  | .pair a b, mask, cur =>
    match pathToFunctionInner H hash a (2 * mask) cur with
    | some p => some p
    | none =>
      match pathToFunctionInner H hash b (2 * mask) (cur + mask) with
      | some p => some p
      | none => if Val.treeHash H (.pair a b) == hash then some (cur + mask) else none
  | .atom x, mask, cur => if Val.treeHash H (.atom x) == hash then some (cur + mask) else none

def pathToFunction (H : Bytes → Bytes) (prog : Val) (hash : Bytes) : Option Nat :=
  pathToFunctionInner H hash prog 1 0

/-- `sub` occurs in `v`. -/
inductive Subtree : Val → Val → Prop where
  | refl (v : Val) : Subtree v v
  | left {s a : Val} (d : Val) : Subtree s a → Subtree s (.pair a d)
  | right {s d : Val} (a : Val) : Subtree s d → Subtree s (.pair a d)

end Lang
