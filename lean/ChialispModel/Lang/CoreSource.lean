/-
  Lang/CoreSource.lean — reading a core program (Lang/Core.lean) from the source tree.
  Anything outside the core language yields `none` (the program is then simply not in the
  scope of the Layer-B theorem; it is still covered by the differential run against
  `Lang.evalSrc`).
-/
import ChialispModel.Lang.Core

namespace Core

def isDefunName (n : Bytes) (fnames : List Bytes) : Bool := fnames.contains n

mutual
def exprOf (fnames : List Bytes) : Nat → Rich → Option Expr
  | 0, _ => none
  | _+1, .nil => some (.lit Val.nil)
  -- in non-strict dialects an integer whose bytes spell `@` is the environment reference: not core
  | _+1, .int i => if Bytes.ofInt i == [64] then none else some (.lit (.atom (Bytes.ofInt i)))
  | _+1, .qstr _ b => some (.lit (.atom b))
  | _+1, .atom name => if name.isEmpty then some (.lit Val.nil) else some (.var name)
  | n+1, .cons (.atom h) tl =>
    if h == Lang.str "q" then some (.lit (Rich.toClvm false tl))
    else if h == Lang.str "if" && !isDefunName h fnames then
      match tl with
      | .cons c (.cons a (.cons b .nil)) =>
        match exprOf fnames n c, exprOf fnames n a, exprOf fnames n b with
        | some c', some a', some b' => some (.ite c' a' b')
        | _, _, _ => none
      | _ => none
    else if h == Lang.str "list" && !isDefunName h fnames then listOf fnames n tl
    else if isDefunName h fnames then (exprsOf fnames n tl).map (.call h)
    else
      -- `/` is an inline function of the standard environment, `x` never returns: not core
      if h == Lang.str "/" || h == Lang.str "x" then none else
      match Lang.primOpcode h with
      | some oc => (exprsOf fnames n tl).map (.op oc)
      | none => none
  | _+1, _ => none
def exprsOf (fnames : List Bytes) : Nat → Rich → Option Exprs
  | 0, _ => none
  | _+1, .nil => some .nil
  | n+1, .cons e r =>
    match exprOf fnames n e, exprsOf fnames n r with
    | some e', some r' => some (.cons e' r')
    | _, _ => none
  | _+1, _ => none
/-- `(list a b …)` = `(c a (c b … (q)))` -/
def listOf (fnames : List Bytes) : Nat → Rich → Option Expr
  | 0, _ => none
  | _+1, .nil => some (.lit Val.nil)
  | n+1, .cons e r =>
    match exprOf fnames n e, listOf fnames n r with
    | some e', some r' => some (.op 4 (.cons e' (.cons r' .nil)))
    | _, _ => none
  | _+1, _ => none
end

def richSize : Rich → Nat
  | .cons a d => 1 + richSize a + richSize d
  | _ => 1

/-- collect `(defun name params body)` helpers; the last form is the main expression. -/
def helpersOf : List Rich → Option (List (Bytes × Rich × Rich) × Rich)
  | [] => none
  | [body] => some ([], body)
  | h :: r =>
    match Lang.isDialectInclude h with
    | some _ => helpersOf r
    | none =>
      match h with
      | .cons (.atom kw) (.cons (.atom name) (.cons ps (.cons body .nil))) =>
        if kw == Lang.str "defun" then (helpersOf r).map (fun x => ((name, ps, body) :: x.1, x.2)) else none
      | _ => none

def fnDefsOf (fnames : List Bytes) : List (Bytes × Rich × Rich) → Option (List FnDef)
  | [] => some []
  | (name, ps, body) :: r =>
    match exprOf fnames (richSize body + 1) body, fnDefsOf fnames r with
    | some b, some fs => some (⟨name, ps, b⟩ :: fs)
    | _, _ => none

/-- `(mod PARAMS [sigil] (defun …)* body)` over the core expression language. -/
def ofSource (src : Rich) : Option Prog :=
  match src with
  | .cons (.atom md) (.cons params rest) =>
    if md == Lang.str "mod" then
      match Lang.properList rest with
      | some forms =>
        match helpersOf forms with
        | some (hs, body) =>
          let fnames := hs.map (·.1)
          match fnDefsOf fnames hs, exprOf fnames (richSize body + 1) body with
          | some fns, some b => some ⟨params, fns, b⟩
          | _, _ => none
        | none => none
      | none => none
    else none
  | _ => none

end Core
