/-
  Lang/Core.lean — the CORE language of the compiler-correctness theorem (DESIGN §4, C01
  Layer B): a mod with an arbitrary parameter pattern, non-inline functions (possibly
  recursive) with arbitrary parameter patterns, variables, quoted constants, primitive
  operator calls, the lazy `if`, and function calls.

  * `evalCore` — call-by-value big-step meaning of a core program (fuel-indexed).
  * `compileCore` — what the modern code generator emits for it without optimisation
    (`start_codegen` / `generate_expr_code` / `compile_call` / `process_defun_call` /
    `finalize_env`), written to be BYTE-IDENTICAL to the real compiler's output on this
    subset (checked by `modeld core` vs `cvh compile`).
  * `ofSource` — reads a core program from the source tree (the same `Rich` tree the real
    compiler and `Lang.evalSrc` get), so model, reference semantics and implementation run
    on the same text.
-/
import ChialispModel.Lang.Env

namespace Core

mutual
inductive Expr where
  | var (name : Bytes)
  | lit (v : Val)                          -- quoted constant
  | op (code : Nat) (args : Exprs)         -- primitive operator (opcode 3..34), args evaluated left to right
  | ite (c a b : Expr)                     -- lazy `if`
  | call (f : Bytes) (args : Exprs)        -- call of a (non-inline) function
inductive Exprs where
  | nil
  | cons (e : Expr) (r : Exprs)
end

structure FnDef where
  name : Bytes
  params : Rich
  body : Expr

structure Prog where
  params : Rich
  fns : List FnDef
  body : Expr

def findFn (n : Bytes) : List FnDef → Option FnDef
  | [] => none
  | f :: r => if f.name == n then some f else findFn n r

/-- the value a parameter pattern binds to `n` in argument value `args`
    (`Lang.bindPat`, the source-level destructuring; `none` if unbound or not destructurable). -/
def paramValue (pat : Rich) (args : Val) (n : Bytes) : Option Val :=
  match Lang.bindPat pat (Lang.SV.ofVal args) with
  | some ρ => match Lang.lookupEnv n ρ with
    | some sv => sv.toVal?
    | none => none
  | none => none

-- source meaning ---------------------------------------------------------------------------

mutual
/-- value of an expression given the current function's argument value `args`
    (variables are read through the destructuring of `args` against `pat`). -/
def evalCore (ops : OpSem) (fns : List FnDef) : Nat → Rich → Val → Expr → Res
  | 0, _, _, _ => .error .fuel
  | _+1, pat, args, .var n =>
    match paramValue pat args n with
    | some v => .ok v
    | none => failR "unbound"
  | _+1, _, _, .lit v => .ok v
  | n+1, pat, args, .op code as =>
    match evalArgs ops fns n pat args as with
    | .ok vs => ops.apply [UInt8.ofNat code] vs
    | .error e => .error e
  | n+1, pat, args, .ite c a b =>
    match evalCore ops fns n pat args c with
    | .ok cv => if Val.nilp cv then evalCore ops fns n pat args b else evalCore ops fns n pat args a
    | .error e => .error e
  | n+1, pat, args, .call f as =>
    match findFn f fns with
    | none => failR "no such function"
    | some fd =>
      match evalArgs ops fns n pat args as with
      | .ok vs => evalCore ops fns n fd.params vs fd.body
      | .error e => .error e
/-- arguments, as the proper list value of their results. -/
def evalArgs (ops : OpSem) (fns : List FnDef) : Nat → Rich → Val → Exprs → Res
  | 0, _, _, _ => .error .fuel
  | _+1, _, _, .nil => .ok Val.nil
  | n+1, pat, args, .cons e r =>
    match evalCore ops fns n pat args e with
    | .ok v =>
      match evalArgs ops fns n pat args r with
      | .ok vs => .ok (.pair v vs)
      | .error e => .error e
    | .error e => .error e
end

def evalProg (ops : OpSem) (P : Prog) (fuel : Nat) (args : Val) : Res :=
  evalCore ops P.fns fuel P.params args P.body

-- code generation ------------------------------------------------------------------------------

def pathAtom (p : Nat) : Val := .atom (Bytes.ofIntClvm (Int.ofNat p))
def qv (v : Val) : Val := .pair (.atom [1]) v
/-- `(a (q . x) 1)` — how `com` and function bodies are wrapped. -/
def wrap (x : Val) : Val := .pair (.atom [2]) (.pair (qv x) (.pair (.atom [1]) Val.nil))

mutual
/-- `generate_expr_code` on the core; `env` is the environment shape `(helpers . params)`. -/
def compileE (env : Rich) : Expr → Option Val
  | .var n => (Lang.nameLookup n env).map pathAtom
  | .lit v => some (qv v)
  | .op code as => (compileArgs env as).map (fun l => .pair (.atom [UInt8.ofNat code]) l)
  | .ite c a b =>
    match compileE env c, compileE env a, compileE env b with
    | some c', some a', some b' =>
      some (.pair (.atom [2]) (.pair
        (.pair (.atom [3]) (.pair c' (.pair (qv (wrap a')) (.pair (qv (wrap b')) Val.nil))))
        (.pair (.atom [1]) Val.nil)))
    | _, _, _ => none
  | .call f as =>
    match Lang.nameLookup f env, compileCallArgs env as with
    | some pf, some l =>
      some (.pair (.atom [2]) (.pair (pathAtom pf)
        (.pair (.pair (.atom [4]) (.pair (.atom [2]) (.pair l Val.nil))) Val.nil)))
    | _, _ => none
/-- operator argument list: `(e1' e2' …)` -/
def compileArgs (env : Rich) : Exprs → Option Val
  | .nil => some Val.nil
  | .cons e r =>
    match compileE env e, compileArgs env r with
    | some e', some r' => some (.pair e' r')
    | _, _ => none
/-- function-call argument list: `(c e1' (c e2' … ()))` -/
def compileCallArgs (env : Rich) : Exprs → Option Val
  | .nil => some Val.nil
  | .cons e r =>
    match compileE env e, compileCallArgs env r with
    | some e', some r' => some (.pair (.atom [4]) (.pair e' (.pair r' Val.nil)))
    | _, _ => none
end

/-- the compiled function bodies laid out like `build_tree` lays out their names. -/
def codeTree (codes : List Val) : Nat → Val
  | 0 => Val.nil
  | fuel+1 =>
    match codes with
    | [] => Val.nil
    | [c] => c
    | _ =>
      .pair (codeTree (codes.take (codes.length / 2)) fuel) (codeTree (codes.drop (codes.length / 2)) fuel)

/-- (name, code) of every function; the code of a function is its wrapped body. -/
def compileFns (names : List Bytes) : List FnDef → Option (List (Bytes × Val))
  | [] => some []
  | f :: r =>
    match compileE (Lang.envShape names f.params) f.body, compileFns names r with
    | some c, some cs => some ((f.name, wrap c) :: cs)
    | _, _ => none

mutual
/-- function names called in an expression -/
def callsOf : Expr → List Bytes
  | .var _ => []
  | .lit _ => []
  | .op _ as => callsOfs as
  | .ite c a b => callsOf c ++ callsOf a ++ callsOf b
  | .call f as => f :: callsOfs as
def callsOfs : Exprs → List Bytes
  | .nil => []
  | .cons e r => callsOf e ++ callsOfs r
end

/-- one round of `calculate_live_helpers`: add the callees of every live function. -/
def liveStep (fns : List FnDef) (live : List Bytes) : List Bytes :=
  fns.foldl (fun acc f => if acc.contains f.name then
      (callsOf f.body).foldl (fun a n => if a.contains n then a else a ++ [n]) acc else acc) live

def liveIter (fns : List FnDef) : Nat → List Bytes → List Bytes
  | 0, live => live
  | k+1, live => liveIter fns k (liveStep fns live)

/-- the helpers reachable from the main expression, in source order (dead functions are
    not emitted: `frontend` keeps only live helpers). -/
def liveFns (P : Prog) : List FnDef :=
  let live := liveIter P.fns (P.fns.length + 1) ((callsOf P.body).eraseDups)
  P.fns.filter (fun f => live.contains f.name)

/-- the whole program: `(a (q . MAIN) (c (q . FUNCS) 1))`. -/
def compileCore (P0 : Prog) : Option Val :=
  let P : Prog := { P0 with fns := liveFns P0 }
  let names := P.fns.map (·.name)
  match compileE (Lang.envShape names P.params) P.body, compileFns names P.fns with
  | some main, some entries =>
    some (.pair (.atom [2]) (.pair (qv main)
      (.pair (.pair (.atom [4]) (.pair (qv (codeTree (entries.map (·.2)) (entries.length + 1))) (.pair (.atom [1]) Val.nil))) Val.nil)))
  | _, _ => none

/-- an operator code the core may use: not quote / apply / softfork. -/
def opOk (code : Nat) : Bool :=
  Ops.smallNumber [UInt8.ofNat code] != some 1 && Ops.smallNumber [UInt8.ofNat code] != some 2 &&
  Ops.smallNumber [UInt8.ofNat code] != some 36

mutual
def exprOk : Expr → Bool
  | .var _ => true
  | .lit _ => true
  | .op code as => opOk code && exprsOk as
  | .ite c a b => exprOk c && exprOk a && exprOk b
  | .call _ as => exprsOk as
def exprsOk : Exprs → Bool
  | .nil => true
  | .cons e r => exprOk e && exprsOk r
end


/-- the live set is closed: every live function only calls live functions. -/
def liveClosed (FS : List FnDef) (live : List Bytes) : Bool :=
  FS.all (fun f => !live.contains f.name || (callsOf f.body).all live.contains)

def keep (FS : List FnDef) (live : List Bytes) : List FnDef := FS.filter (fun f => live.contains f.name)


/-- decidable well-formedness of a core program (what the Layer-B theorem assumes):
    distinct function names, none called `@`, identifier-only parameter patterns that do not
    reuse function names, admissible operator codes, and a call-closed live set. -/
def nodupB : List Bytes → Bool
  | [] => true
  | x :: xs => !xs.contains x && nodupB xs

def fnsWF (FS : List FnDef) : Bool :=
  nodupB (FS.map (·.name)) &&
  FS.all (fun f => f.name != [64] && Lang.patOk f.params && exprOk f.body &&
    FS.all (fun g => (Lang.nameLookup g.name f.params).isNone))

def liveSet (P : Prog) : List Bytes := liveIter P.fns (P.fns.length + 1) ((callsOf P.body).eraseDups)

def progWF (P : Prog) : Bool :=
  fnsWF P.fns && Lang.patOk P.params && exprOk P.body &&
  P.fns.all (fun g => (Lang.nameLookup g.name P.params).isNone) &&
  liveClosed P.fns (liveSet P) && (callsOf P.body).all (liveSet P).contains

end Core
