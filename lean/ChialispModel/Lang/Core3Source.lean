/-
  Lang/Core3Source.lean — reading a core3 program (Lang/Core3.lean) from the source tree:
  the core2 reader plus `(defconstant NAME <int | string | hex literal>)` and
  `(defconst NAME <core2 expression>)`.  Anything else yields `none` (not in the scope of the
  Layer-B3 theorem; still covered by the differential run against `Lang.evalSrc`).
  A `defconstant` body is NOT evaluated by the compiler (`start_codegen`, `ConstantKind::Simple`:
  the body is quoted as it stands), so only literal bodies — where that is the meaning — are read.
-/
import ChialispModel.Lang.Core3
import ChialispModel.Lang.Core2Source

namespace Core3

inductive Helper where
  | fn (name : Bytes) (ps body : Rich) (inl : Bool)
  | const (name : Bytes) (body : Rich) (simple : Bool)

/-- collect the helper forms; the last form is the main expression. -/
def helpersOf : List Rich → Option (List Helper × Rich)
  | [] => none
  | [body] => some ([], body)
  | h :: r =>
    match Lang.isDialectInclude h with
    | some _ => helpersOf r
    | none =>
      match h with
      | .cons (.atom kw) (.cons (.atom name) (.cons ps (.cons body .nil))) =>
        if kw == Lang.str "defun" then (helpersOf r).map (fun x => (.fn name ps body false :: x.1, x.2))
        else if kw == Lang.str "defun-inline" then (helpersOf r).map (fun x => (.fn name ps body true :: x.1, x.2))
        else none
      | .cons (.atom kw) (.cons (.atom name) (.cons body .nil)) =>
        if kw == Lang.str "defconstant" then (helpersOf r).map (fun x => (.const name body true :: x.1, x.2))
        else if kw == Lang.str "defconst" then (helpersOf r).map (fun x => (.const name body false :: x.1, x.2))
        else none
      | _ => none

def helperName : Helper → Bytes
  | .fn n _ _ _ => n
  | .const n _ _ => n

def fnNames : List Helper → List Bytes
  | [] => []
  | .fn n _ _ _ :: r => n :: fnNames r
  | .const _ _ _ :: r => fnNames r

/-- a literal body (what `defconstant` can carry). -/
def isLiteral : Rich → Bool
  | .nil => true
  | .int _ => true
  | .qstr _ _ => true
  | _ => false

def readHelpers (fnames : List Bytes) : List Helper → Option (List Core2.FnDef × List (Bytes × Core2.Expr))
  | [] => some ([], [])
  | .fn name ps body inl :: r =>
    match Core2.exprOf fnames (Core.richSize body + 1) body, readHelpers fnames r with
    | some b, some (fs, cs) => some (⟨name, ps, b, inl⟩ :: fs, cs)
    | _, _ => none
  | .const name body simple :: r =>
    if simple && !isLiteral body then none else
    match Core2.exprOf fnames (Core.richSize body + 1) body, readHelpers fnames r with
    | some b, some (fs, cs) => some (fs, (name, b) :: cs)
    | _, _ => none

/-- `(mod PARAMS [sigil] (defun … | defun-inline … | defconstant … | defconst …)* body)`. -/
def ofSource (src : Rich) : Option Prog :=
  match src with
  | .cons (.atom md) (.cons params rest) =>
    if md == Lang.str "mod" then
      match Lang.properList rest with
      | some forms =>
        match helpersOf forms with
        | some (hs, body) =>
          if (hs.map helperName).any Core2.reservedName then none else
          match readHelpers (fnNames hs) hs, Core2.exprOf (fnNames hs) (Core.richSize body + 1) body with
          | some (fns, consts), some b => some ⟨params, consts, fns, b⟩
          | _, _ => none
        | none => none
      | none => none
    else none
  | _ => none

end Core3
