/-
  Lang/Core2Fresh.lean — C05: the core2 compiler model with the process-global fresh-name counter
  (`ARGNAME_CTR`, `gensym`) made EXPLICIT.

  `Lang/Core2.lean` abstracts the names that `rename.rs` generates by names derived from the binding
  depth (`lvlName`).  Here `rename` is modelled as it is: every name is drawn from the counter, in the
  order in which `rename_children_compileform` draws them:
    * helpers in source order (`map_m(&rename_args_helperform, &c.helpers)`), for each defun
      - one name per parameter atom other than `@`, head before tail (`invent_new_names_sexp`),
      - then the body (`rename_args_bodyform`),
      - the parameter renaming is applied to the ALREADY renamed body afterwards (`rename_in_bodyform`);
    * then the main expression (`rename_args_bodyform`; the parameters of the `mod` are NOT renamed);
    * in a `let`: one name per binding, left to right (`make_binding_unique`), then the binding
      expressions left to right, then the body; the let's own renaming is applied to the already
      renamed body afterwards (inner scopes first — this is why a user name that looks like a generated
      one can be captured, `noFreshNames`);
    * call / operator arguments left to right; `if`: condition, then-branch, else-branch.
  A generated name is `gensym name ctr = name ++ "_$_" ++ decimal (ctr + 1)` (`Purity.gensym`,
  tied to the real `gensym` by `cvh purity` `y` lines).  Maps are `HashMap`s: the LAST insertion of a
  key wins (`lastWins`).

  `compileCore2With k P = compileNS (renameProgWith k P)`: the compiler as a function of the counter.
-/
import ChialispModel.Lang.Core2

namespace Core2

/-- the `_$_` separator of generated names -/
def sepBytes : Bytes := [95, 36, 95]

def hasSepAt : Bytes → Bool
  | 95 :: 36 :: 95 :: _ => true
  | _ => false

/-- the name contains `_$_` -/
def hasSep : Bytes → Bool
  | [] => false
  | a :: r => hasSepAt (a :: r) || hasSep r

/-- decimal digits, most significant first (structural, so that it reduces under `decide`). -/
def digitsFuel : Nat → Nat → Bytes → Bytes
  | 0, _, acc => acc
  | f+1, n, acc =>
    if n < 10 then UInt8.ofNat (48 + n) :: acc
    else digitsFuel f (n / 10) (UInt8.ofNat (48 + n % 10) :: acc)

def decBytes (n : Nat) : Bytes := digitsFuel (n + 1) n []

/-- `gensym name` when the counter is `ctr`: `name_$_<ctr+1>` (= `(Purity.gensym name ctr).1`; the tie
    compares the generated names with the real ones). -/
def gensymName (name : Bytes) (ctr : Nat) : Bytes := name ++ sepBytes ++ decBytes (ctr + 1)

/-- `gensym` applied to each name in turn. -/
def gensymAll : List Bytes → Nat → List Bytes
  | [], _ => []
  | n :: r, k => gensymName n k :: gensymAll r (k + 1)

/-- `invent_new_names_sexp`: the atoms of a pattern other than `@`, head before tail. -/
def patAtoms : Rich → List Bytes
  | .atom a => if a == [64] then [] else [a]
  | .cons h t => patAtoms h ++ patAtoms t
  | _ => []

/-- a `HashMap` filled by inserting the pairs in order: the last insertion of a key wins. -/
def lastWins (ks vs : List Bytes) : List (Bytes × Bytes) := (ks.zip vs).reverse

/-- `rename_in_cons` (no qq handling needed for identifier patterns): atoms found in the map are
    replaced; a list headed by the atom `q` or `quote` is left alone. -/
def renamePat (m : List (Bytes × Bytes)) : Rich → Rich
  | .atom a => .atom (ren m a)
  | .cons (.atom h) t =>
    if h == [113] || h == [113, 117, 111, 116, 101] then .cons (.atom h) t
    else .cons (.atom (ren m h)) (renamePat m t)
  | .cons h t => .cons (renamePat m h) (renamePat m t)
  | p => p

mutual
/-- `rename_in_bodyform`: variable references found in the map are replaced; binding names of
    inner lets are not touched (they are already unique), function names are a separate namespace. -/
def renameIn (m : List (Bytes × Bytes)) : Expr → Expr
  | .var x => .var (ren m x)
  | .lit v => .lit v
  | .argsv => .argsv
  | .op code as => .op code (renameIns m as)
  | .ite c a b => .ite (renameIn m c) (renameIn m a) (renameIn m b)
  | .call f as => .call f (renameIns m as)
  | .letE names es body => .letE names (renameIns m es) (renameIn m body)
def renameIns (m : List (Bytes × Bytes)) : Exprs → Exprs
  | .nil => .nil
  | .cons e r => .cons (renameIn m e) (renameIns m r)
end

mutual
/-- number of names `rename_args_bodyform` draws in the expression. -/
def drawsE : Expr → Nat
  | .var _ => 0
  | .lit _ => 0
  | .argsv => 0
  | .op _ as => drawsEs as
  | .ite c a b => drawsE c + drawsE a + drawsE b
  | .call _ as => drawsEs as
  | .letE names es body => names.length + drawsEs es + drawsE body
def drawsEs : Exprs → Nat
  | .nil => 0
  | .cons e r => drawsE e + drawsEs r
end

mutual
/-- `rename_args_bodyform` with the counter value `k` at entry (it is `k + drawsE e` at exit). -/
def renameEWith (k : Nat) : Expr → Expr
  | .var x => .var x
  | .lit v => .lit v
  | .argsv => .argsv
  | .op code as => .op code (renameEsWith k as)
  | .ite c a b =>
    .ite (renameEWith k c) (renameEWith (k + drawsE c) a) (renameEWith (k + drawsE c + drawsE a) b)
  | .call f as => .call f (renameEsWith k as)
  | .letE names es body =>
    .letE (gensymAll names k) (renameEsWith (k + names.length) es)
      (renameIn (lastWins names (gensymAll names k)) (renameEWith (k + names.length + drawsEs es) body))
def renameEsWith (k : Nat) : Exprs → Exprs
  | .nil => .nil
  | .cons e r => .cons (renameEWith k e) (renameEsWith (k + drawsE e) r)
end

/-- names drawn for one helper: its parameters, then its body. -/
def drawsFn (f : FnDef) : Nat := (patAtoms f.params).length + drawsE f.body

/-- `rename_args_helperform` on a defun. -/
def renameFnWith (k : Nat) (f : FnDef) : FnDef :=
  { f with
    params := renamePat (lastWins (patAtoms f.params) (gensymAll (patAtoms f.params) k)) f.params
    body := renameIn (lastWins (patAtoms f.params) (gensymAll (patAtoms f.params) k))
              (renameEWith (k + (patAtoms f.params).length) f.body) }

def renameFnsWith : Nat → List FnDef → List FnDef
  | _, [] => []
  | k, f :: r => renameFnWith k f :: renameFnsWith (k + drawsFn f) r

def drawsFns : List FnDef → Nat
  | [] => 0
  | f :: r => drawsFn f + drawsFns r

/-- `rename_children_compileform`: helpers in order, then the main expression. -/
def renameProgWith (k : Nat) (P : Prog) : Prog :=
  { params := P.params, fns := renameFnsWith k P.fns, body := renameEWith (k + drawsFns P.fns) P.body }

/-- all names the program draws. -/
def drawsProg (P : Prog) : Nat := drawsFns P.fns + drawsE P.body

/-- THE COMPILER AS A FUNCTION OF THE COUNTER. -/
def compileCore2With (k : Nat) (P : Prog) : Option Val := compileNS (renameProgWith k P)

-- the side condition: user names do not look like generated names ---------------------------------

mutual
def exprNames : Expr → List Bytes
  | .var x => [x]
  | .lit _ => []
  | .argsv => []
  | .op _ as => exprsNames as
  | .ite c a b => exprNames c ++ exprNames a ++ exprNames b
  | .call _ as => exprsNames as
  | .letE names es body => names ++ exprsNames es ++ exprNames body
def exprsNames : Exprs → List Bytes
  | .nil => []
  | .cons e r => exprNames e ++ exprsNames r
end

/-- every variable, binding and parameter name of the program. -/
def progNames (P : Prog) : List Bytes :=
  patAtoms P.params ++ (P.fns.map (fun f => patAtoms f.params ++ exprNames f.body)).flatten ++ exprNames P.body

/-- no user-written variable, binding or parameter name contains `_$_`. -/
def noFreshNames (P : Prog) : Bool := (progNames P).all (fun n => !hasSep n)

mutual
/-- the names `rename_args_bodyform` renames, in the order in which it draws their new names. -/
def basesE : Expr → List Bytes
  | .var _ => []
  | .lit _ => []
  | .argsv => []
  | .op _ as => basesEs as
  | .ite c a b => basesE c ++ basesE a ++ basesE b
  | .call _ as => basesEs as
  | .letE names es body => names ++ basesEs es ++ basesE body
def basesEs : Exprs → List Bytes
  | .nil => []
  | .cons e r => basesE e ++ basesEs r
end

/-- all renamed names of the program in draw order, and the names drawn for them from `k` on. -/
def drawBases (P : Prog) : List Bytes :=
  (P.fns.map (fun f => patAtoms f.params ++ basesE f.body)).flatten ++ basesE P.body

def drawnNames (k : Nat) (P : Prog) : List Bytes := gensymAll (drawBases P) k

-- the names in traversal order (what `cvh fresh` prints) --------------------------------------------

mutual
def tokensE : Expr → List (Char × Bytes)
  | .var x => if hasSep x then [('V', x)] else []
  | .lit _ => []
  | .argsv => []
  | .op _ as => tokensEs as
  | .ite c a b => tokensE c ++ tokensE a ++ tokensE b
  | .call _ as => tokensEs as
  | .letE names es body => names.map (fun n => ('L', n)) ++ tokensEs es ++ tokensE body
def tokensEs : Exprs → List (Char × Bytes)
  | .nil => []
  | .cons e r => tokensE e ++ tokensEs r
end

end Core2
