/-
  Lang/Shrink.lean — the CORE of the partial evaluator behind the REPL
  (`Evaluator::shrink_bodyform_visited`, src/compiler/evaluate.rs, driven by
  `Repl::process_line` with `only_inline = false`), over the core language of Lang/Core.lean.

  Mirrored, in the order the Rust code checks them:
  * `BodyForm::Quoted` / `Value(non-atom)`      → quoted constant                      (`.lit`)
  * `Value(Atom name)`: `@` / a function's name → outside the fragment (`unsup`);
      bound in the environment → the reflex capture itself, otherwise the bound expression
      shrunk AGAIN in the same environment; unbound → left as it is (free variable)
  * call of a primitive (`invoke_primitive`): arguments shrunk LAST FIRST; all constant →
      `run_prim` = the CLVM call `(op (q . c1) … (q . cn))` run on `()`; otherwise the call is
      rebuilt and `chase_apply` looks at it: `(a (q . code) env)` with a non-constant `env`
      continues by DECOMPILING `code` (`continue_apply`/`promote_program_to_bodyform`) — that
      symbolic CLVM evaluator is NOT modelled (`unsup`)
  * `(if c t e)`: the standard macro expands to `(a (i c (com t) (com e)) @)`, which is shrunk as a
      primitive call: `@` (= `synthesize_args` of the current parameter pattern, shrunk), then
      `(com e)`, `(com t)` (= the real COMPILER on `(mod PARAMS helpers branch)`; an unbound
      identifier is compiled as its own quoted name — findings C16-F1/F3 — `quoteFree`), then `c`
  * call of a defun (`handle_invoke`): `build_argument_captures`/`create_argument_captures` bind the
      parameter names to argument EXPRESSIONS (call by name; `(f x)`/`(r x)` selectors through a
      non-constant argument, constants taken apart directly), every captured expression is shrunk
      in the caller's environment, then the body is shrunk under the captures.
  The depth limit (`VisitedMarker`, 200 frames) is the fuel; the two are not numerically tied.
-/
import ChialispModel.Lang.Core

namespace Shrink
open Core

abbrev Env := List (Bytes × Expr)

/-- outcome: a residual expression, an error reported by the REPL, the depth limit, or a
    construct outside the modelled fragment. -/
inductive R (α : Type) where
  | ok (x : α)
  | fail
  | depth
  | unsup

def lookup (n : Bytes) : Env → Option Expr
  | [] => none
  | (k, v) :: r => if k == n then some v else lookup n r

def toList : Exprs → List Expr
  | .nil => []
  | .cons e r => e :: toList r

def ofList : List Expr → Exprs
  | [] => .nil
  | e :: r => .cons e (ofList r)

/-- `arg_inputs_primitive`: constants of a list of shrunk arguments (all or nothing). -/
def allLits : List Expr → Option (List Val)
  | [] => some []
  | .lit v :: r => (allLits r).map (v :: ·)
  | _ :: _ => none

/-- `((q . c1) (q . c2) …)` -/
def quotedArgs : List Val → Val
  | [] => Val.nil
  | c :: r => .pair (qv c) (quotedArgs r)

/-- `PRIM_RUN_LIMIT` (steps in the real evaluator, recursion depth here). -/
def primFuel : Nat := 100000

/-- `run_prim`: the operator applied to the quoted constants, run as CLVM on `()`. -/
def runPrim (ops : OpSem) (code : Nat) (cs : List Val) : R Expr :=
  match Clvm.evalC ops primFuel (.pair (.atom [UInt8.ofNat code]) (quotedArgs cs)) Val.nil with
  | .ok v => .ok (.lit v)
  | .error .fuel => .depth
  | .error (.fail _) => .fail

def firstIsLit : List Expr → Bool
  | .lit _ :: _ => true
  | _ => false

/-- what `invoke_primitive` + `chase_apply` do once the arguments are shrunk. -/
def finishOp (ops : OpSem) (code : Nat) (as : List Expr) : R Expr :=
  if code == 1 || code == 36 then .unsup else
  match allLits as with
  | some cs => runPrim ops code cs
  | none =>
    if code == 2 && decide (as.length ≥ 2) && firstIsLit as then .unsup   -- `continue_apply`: decompiler
    else .ok (.op code (ofList as))

mutual
/-- the non-strict compiler's reading of an identifier that the parameter pattern does not
    bind: its own name, quoted (C16-F1/F3). -/
def quoteFree (pat : Rich) : Expr → Expr
  | .var n => if (Lang.nameLookup n pat).isSome then .var n else .lit (.atom n)
  | .lit v => .lit v
  | .op c as => .op c (quoteFrees pat as)
  | .ite c a b => .ite (quoteFree pat c) (quoteFree pat a) (quoteFree pat b)
  | .call f as => .call f (quoteFrees pat as)
def quoteFrees (pat : Rich) : Exprs → Exprs
  | .nil => .nil
  | .cons e r => .cons (quoteFree pat e) (quoteFrees pat r)
end

/-- `(com branch)`: the compiler on `(mod PARAMS helpers branch)`; `invoke_primitive` conses the
    evaluator's helpers one by one in front of the branch, so they reach the compiler in REVERSE
    order of definition (which decides their places in the compiled environment). -/
def comCode (fns : List FnDef) (pat : Rich) (e : Expr) : Option Val :=
  compileCore { params := pat, fns := fns.reverse, body := quoteFree pat e }

/-- `synthesize_args`: the argument list `@` rebuilt from the environment. -/
def synthArgs (env : Env) : Rich → Option Expr
  | .atom name => lookup name env
  | .cons f r =>
    match synthArgs env f, synthArgs env r with
    | some a, some b => some (.op 4 (.cons a (.cons b .nil)))
    | _, _ => none
  | .nil => some (.lit Val.nil)
  | _ => none

/-- `ArgInputs` -/
inductive ArgIn where
  | whole (e : Expr)
  | pair (a b : ArgIn)

/-- `get_bodyform_from_arginput` -/
def ArgIn.toExpr : ArgIn → Expr
  | .whole e => e
  | .pair a b => .op 4 (.cons a.toExpr (.cons b.toExpr .nil))

/-- `build_argument_captures`: `(a1 a2 … . (q))` -/
def formArgs : List Expr → ArgIn
  | [] => .whole (.lit Val.nil)
  | e :: r => .pair (.whole e) (formArgs r)

/-- `create_argument_captures` (patterns without `@` captures). -/
def captures : Rich → ArgIn → Env → Option Env
  | .nil, _, acc => some acc
  | .cons f r, .whole bf, acc =>
    match bf with
    | .lit (.pair fa ra) =>
      match captures f (.whole (.lit fa)) acc with
      | some acc' => captures r (.whole (.lit ra)) acc'
      | none => none
    | _ =>
      match captures f (.whole (.op 5 (.cons bf .nil))) acc with
      | some acc' => captures r (.whole (.op 6 (.cons bf .nil))) acc'
      | none => none
  | .cons f r, .pair af ar, acc =>
    match captures f af acc with
    | some acc' => captures r ar acc'
    | none => none
  | .atom name, ai, acc => some ((name, ai.toExpr) :: acc)
  | _, _, _ => none

mutual
/-- `shrink_bodyform_visited`; `pat` = `prog_args`. -/
def shrink (ops : OpSem) (fns : List FnDef) : Nat → Rich → Env → Expr → R Expr
  | 0, _, _, _ => .depth
  | k+1, pat, env, .var n =>
    if n == [64] then .unsup
    else if (findFn n fns).isSome then .unsup
    else
      match lookup n env with
      | some (.var m) => if m == n then .ok (.var m) else shrink ops fns k pat env (.var m)
      | some x => shrink ops fns k pat env x
      | none => .ok (.var n)
  | _+1, _, _, .lit v => .ok (.lit v)
  | k+1, pat, env, .op code as =>
    match shrinkArgs ops fns k pat env as with
    | .ok as' => finishOp ops code as'
    | .fail => .fail
    | .depth => .depth
    | .unsup => .unsup
  | k+1, pat, env, .ite c a b =>
    match synthArgs env pat with
    | none => .fail
    | some ae =>
      match shrink ops fns k pat env ae with
      | .ok at' =>
        match comCode fns pat b, comCode fns pat a with
        | some cb, some ca =>
          match shrink ops fns k pat env c with
          | .ok c' =>
            match finishOp ops 3 [c', .lit ca, .lit cb] with
            | .ok x => finishOp ops 2 [x, at']
            | .fail => .fail
            | .depth => .depth
            | .unsup => .unsup
          | .fail => .fail
          | .depth => .depth
          | .unsup => .unsup
        | _, _ => .fail
      | .fail => .fail
      | .depth => .depth
      | .unsup => .unsup
  | k+1, pat, env, .call f as =>
    match findFn f fns with
    | none => .fail
    | some fd =>
      match captures fd.params (formArgs (toList as)) [] with
      | none => .fail
      | some caps =>
        match shrinkEnv ops fns k pat env caps with
        | .ok caps' => shrink ops fns k fd.params caps' fd.body
        | .fail => .fail
        | .depth => .depth
        | .unsup => .unsup
/-- arguments of a primitive, LAST FIRST. -/
def shrinkArgs (ops : OpSem) (fns : List FnDef) : Nat → Rich → Env → Exprs → R (List Expr)
  | 0, _, _, _ => .depth
  | _+1, _, _, .nil => .ok []
  | k+1, pat, env, .cons e r =>
    match shrinkArgs ops fns k pat env r with
    | .ok r' =>
      match shrink ops fns k pat env e with
      | .ok e' => .ok (e' :: r')
      | .fail => .fail
      | .depth => .depth
      | .unsup => .unsup
    | .fail => .fail
    | .depth => .depth
    | .unsup => .unsup
/-- the captured argument expressions, each shrunk in the caller's environment. -/
def shrinkEnv (ops : OpSem) (fns : List FnDef) : Nat → Rich → Env → Env → R Env
  | 0, _, _, _ => .depth
  | _+1, _, _, [] => .ok []
  | k+1, pat, env, (n, x) :: r =>
    match shrink ops fns k pat env x with
    | .ok x' =>
      match shrinkEnv ops fns k pat env r with
      | .ok r' => .ok ((n, x') :: r')
      | .fail => .fail
      | .depth => .depth
      | .unsup => .unsup
    | .fail => .fail
    | .depth => .depth
    | .unsup => .unsup
end

/-- the REPL on an expression line: no parameters, empty environment. -/
def replShrink (ops : OpSem) (fns : List FnDef) (fuel : Nat) (e : Expr) : R Expr :=
  shrink ops fns fuel .nil [] e

-- the fragment ---------------------------------------------------------------------------------

/-- parameter patterns of the fragment: identifiers other than `@`, pairs, `()`. -/
def patSimple : Rich → Bool
  | .nil => true
  | .atom b => !b.isEmpty && b != [64]
  | .cons a d => patSimple a && patSimple d
  | _ => false

def patNames : Rich → List Bytes
  | .atom b => [b]
  | .cons a d => patNames a ++ patNames d
  | _ => []

mutual
def varsOf : Expr → List Bytes
  | .var n => [n]
  | .lit _ => []
  | .op _ as => varsOfs as
  | .ite c a b => varsOf c ++ varsOf a ++ varsOf b
  | .call _ as => varsOfs as
def varsOfs : Exprs → List Bytes
  | .nil => []
  | .cons e r => varsOf e ++ varsOfs r
end

/-- names the evaluator or the compiler treats specially. -/
def reserved (n : Bytes) : Bool :=
  (Lang.primOpcode n).isSome || n == Lang.str "if" || n == Lang.str "list" || n == Lang.str "com" ||
  n == Lang.str "q" || n == Lang.str "a" || n == [64] || n == Lang.str "mod" || n == Lang.str "lambda" ||
  n == Lang.str "qq" || n == Lang.str "unquote" || n == Lang.str "let" || n == Lang.str "let*" ||
  n == Lang.str "assign" || n == Lang.str "$interpreter-version" || n.length ≤ 1

/-- the sessions on which the model claims to BE the REPL: defuns with identifier patterns
    (pairwise distinct names, no `@` capture), bodies closed over their parameters, no name doing
    double duty (function / parameter / free variable / operator), admissible operator codes. -/
def fragOk (P : Prog) : Bool :=
  fnsWF P.fns && exprOk P.body &&
  P.fns.all (fun f => patSimple f.params && nodupB (patNames f.params) && !reserved f.name &&
    (varsOf f.body).all (fun v => (patNames f.params).contains v) &&
    (patNames f.params).all (fun v => !reserved v && (findFn v P.fns).isNone) &&
    (varsOf P.body).all (fun v => !(patNames f.params).contains v)) &&
  (varsOf P.body).all (fun v => !reserved v && (findFn v P.fns).isNone)


-- the fragment of the kernel-checked soundness theorems (Props/C16.lean) ---------------------------

mutual
/-- no variable at all (the branches of an `if` the theorems cover). -/
def closedE : Expr → Bool
  | .var _ => false
  | .lit _ => true
  | .op _ as => closedEs as
  | .ite c a b => closedE c && closedE a && closedE b
  | .call _ as => closedEs as
def closedEs : Exprs → Bool
  | .nil => true
  | .cons e r => closedE e && closedEs r
end

/-- the program the evaluator hands to the compiler for the branch of an `if` met at top level. -/
def branchProg (fns : List FnDef) (a : Expr) : Prog := { params := .nil, fns := fns.reverse, body := a }

mutual
/-- expressions the soundness theorems speak about: variables, constants, operators (not q / a /
    softfork) and an `if` whose two branches are CLOSED core expressions of any kind (function
    calls included: the evaluator compiles and runs them; the compiled branch program must meet
    the hypothesis `progWF` of the compiler theorem).  Function calls outside such branches are
    NOT covered (they are decided by the tie and the differential oracle). -/
def thmFrag (fns : List FnDef) : Expr → Bool
  | .var _ => true
  | .lit _ => true
  | .op code as => opOk code && thmFrags fns as
  | .ite c a b => thmFrag fns c && closedE a && closedE b &&
      progWF (branchProg fns a) && progWF (branchProg fns b)
  | .call _ _ => false
def thmFrags (fns : List FnDef) : Exprs → Bool
  | .nil => true
  | .cons e r => thmFrag fns e && thmFrags fns r
end

-- printing (what `BodyForm::to_sexp` prints, re-read as a CLVM value) ------------------------------

/-- the operator's name as the REPL prints it (bytes spelled out so that the kernel can evaluate it). -/
def opName (code : Nat) : Bytes :=
  let tbl : List (Nat × Bytes) := [
    (2, [97])  /- a -/,
    (3, [105])  /- i -/,
    (4, [99])  /- c -/,
    (5, [102])  /- f -/,
    (6, [114])  /- r -/,
    (7, [108])  /- l -/,
    (8, [120])  /- x -/,
    (9, [61])  /- = -/,
    (10, [62, 115])  /- >s -/,
    (11, [115, 104, 97, 50, 53, 54])  /- sha256 -/,
    (12, [115, 117, 98, 115, 116, 114])  /- substr -/,
    (13, [115, 116, 114, 108, 101, 110])  /- strlen -/,
    (14, [99, 111, 110, 99, 97, 116])  /- concat -/,
    (16, [43])  /- + -/,
    (17, [45])  /- - -/,
    (18, [42])  /- * -/,
    (19, [47])  /- / -/,
    (20, [100, 105, 118, 109, 111, 100])  /- divmod -/,
    (21, [62])  /- > -/,
    (22, [97, 115, 104])  /- ash -/,
    (23, [108, 115, 104])  /- lsh -/,
    (24, [108, 111, 103, 97, 110, 100])  /- logand -/,
    (25, [108, 111, 103, 105, 111, 114])  /- logior -/,
    (26, [108, 111, 103, 120, 111, 114])  /- logxor -/,
    (27, [108, 111, 103, 110, 111, 116])  /- lognot -/,
    (32, [110, 111, 116])  /- not -/,
    (33, [97, 110, 121])  /- any -/,
    (34, [97, 108, 108])  /- all -/]
  match tbl.find? (fun p => p.1 == code) with
  | some p => p.2
  | none => [UInt8.ofNat code]

mutual
def toVal : Expr → Val
  | .var n => .atom n
  | .lit v => .pair (.atom [113]) v
  | .op code as => .pair (.atom (opName code)) (toVals as)
  | .ite c a b => .pair (.atom (Lang.str "if")) (.pair (toVal c) (.pair (toVal a) (.pair (toVal b) Val.nil)))
  | .call f as => .pair (.atom f) (toVals as)
def toVals : Exprs → Val
  | .nil => Val.nil
  | .cons e r => .pair (toVal e) (toVals r)
end

/-- the printed form of an outcome (`none`: no residual), for comparisons by evaluation. -/
def shown : R Expr → Option Val
  | .ok e => some (toVal e)
  | _ => none

/-- the value of a result (`none`: no value), for comparisons by evaluation. -/
def resVal : Res → Option Val
  | .ok v => some v
  | .error _ => none

end Shrink
