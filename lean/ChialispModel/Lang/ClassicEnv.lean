/-
  Lang/ClassicEnv.lean — how the CLASSIC compiler assigns environment paths
  (src/classic/clvm_tools/stages/stage_2/module.rs):

    symbol_table_for_tree   walks a parameter / constants tree with `NodePath` arithmetic
    is_at_capture           (inline.rs) the `(@ name substructure)` shape it accepts
    build_tree              names → balanced tree            (the tree the symbol table is read from)
    build_tree_program      compiled items → `(c L R)` program that BUILDS the constants tree at run time
    finish_compile_from_collection / add_one_function
                            constants at `NodePath.first()`, arguments at `NodePath.rest()` when there
                            is a constants tree, else at the root; every function's table is
                            `local ++ constants`; the program is `(a MAIN (c TREE_PROGRAM 1))`
    transform_program_atom  (compile.rs) a name is replaced by the value of the FIRST table entry
                            whose name is an atom with the same bytes

  The classic compiler works on assembled CLVM trees (`NodePtr`), so patterns are `Val`s here;
  a symbol-table entry is `(NodePtr, Vec<u8>)` = `Val × Bytes` (the name of a capture may be any
  node).  `NodePath` values are the non-negative index (`Opt/NodePath.lean`, casts as the code has
  them).  Imports only other model files (links into the native driver).
-/
import ChialispModel.Opt.NodePath
import ChialispModel.Lang.Env

namespace ClassicEnv

/-- `non_nil` (classic/clvm/sexp.rs): a pair, or an atom of length ≠ 0. -/
def nonNil : Val → Bool
  | .pair _ _ => true
  | .atom b => b.length != 0

/-- `proper_list(allocator, sexp, true)`: the elements, if the list ends in an empty atom. -/
def properList : Val → Option (List Val)
  | .atom b => if nonNil (.atom b) then none else some []
  | .pair f r =>
    match properList r with
    | some l => some (f :: l)
    | none => none

/-- `is_at_capture(tree_first, tree_rest)`: `tree_first` is the atom `@` and `tree_rest` is a
    proper list of exactly two elements; returns them (`(capture, destructure)`) — the capture
    name is NOT required to be an atom. -/
def isAtCapture (treeFirst treeRest : Val) : Option (Val × Val) :=
  match treeFirst, properList treeRest with
  | .atom firstAtom, some spec =>
    if firstAtom == [64] && spec.length == 2 then some (spec.getD 0 Val.nil, spec.getD 1 Val.nil) else none
  | _, _ => none

/-- `NodePath::new(None).first()` / `.rest()` — `left_bytes`, `right_bytes`. -/
def leftBytes : Nat := NodePath.first NodePath.root
def rightBytes : Nat := NodePath.rest NodePath.root

/-- `symbol_table_for_tree(tree, root_node)`; `fuel` only bounds the recursion (the capture case
    continues with a sub-tree obtained through `proper_list`). -/
def symbolTableFuel : Nat → Val → Nat → List (Val × Bytes)
  | 0, _, _ => []
  | fuel + 1, tree, rootNode =>
    if !nonNil tree then []
    else
      match tree with
      | .atom _ => [(tree, NodePath.asPath rootNode)]
      | .pair treeFirst treeRest =>
        match isAtCapture treeFirst treeRest with
        | some (capture, destructure) =>
          (capture, NodePath.asPath rootNode) :: symbolTableFuel fuel destructure rootNode
        | none =>
          symbolTableFuel fuel treeFirst (NodePath.add rootNode leftBytes)
            ++ symbolTableFuel fuel treeRest (NodePath.add rootNode rightBytes)

def symbolTableForTree (tree : Val) (rootNode : Nat) : List (Val × Bytes) :=
  symbolTableFuel (Val.size tree) tree rootNode

/-- how `com` resolves a name (`transform_program_atom` / `find_symbol_match` in compile.rs): the
    value of the first entry whose name is an atom with these bytes; entries named by a pair are
    skipped. -/
def firstSymbol (name : Bytes) : List (Val × Bytes) → Option Bytes
  | [] => none
  | (.atom a, p) :: r => if a == name then some p else firstSymbol name r
  | (.pair _ _, _) :: r => firstSymbol name r

/-- `build_tree(items)`: `[] ↦ ()`, `[x] ↦ x`, else split at `len >> 1`. -/
def buildTreeFuel : Nat → List Bytes → Val
  | 0, _ => Val.nil
  | fuel + 1, items =>
    match items with
    | [] => Val.nil
    | [x] => .atom x
    | _ =>
      .pair (buildTreeFuel fuel (items.take (items.length >>> 1)))
            (buildTreeFuel fuel (items.drop (items.length >>> 1)))

def buildTree (items : List Bytes) : Val := buildTreeFuel items.length items

/-- `build_tree_program(items)`: `[] ↦ (q ())` (i.e. `(1 . (()))`), `[p] ↦ p`,
    else `(c LEFT RIGHT)` split at `len >> 1`. -/
def buildTreeProgramFuel : Nat → List Val → Val
  | 0, _ => .pair (.atom [1]) (.pair Val.nil Val.nil)
  | fuel + 1, items =>
    match items with
    | [] => .pair (.atom [1]) (.pair Val.nil Val.nil)
    | [p] => p
    | _ =>
      .pair (.atom [4])
        (.pair (buildTreeProgramFuel fuel (items.take (items.length >>> 1)))
          (.pair (buildTreeProgramFuel fuel (items.drop (items.length >>> 1))) Val.nil))

def buildTreeProgram (items : List Val) : Val := buildTreeProgramFuel items.length items

/-- the run-time constants tree: values laid out in the shape `build_tree` gives their names
    (what `build_tree_program` is meant to construct). -/
def valueTreeFuel : Nat → List Val → Val
  | 0, _ => Val.nil
  | fuel + 1, items =>
    match items with
    | [] => Val.nil
    | [v] => v
    | _ =>
      .pair (valueTreeFuel fuel (items.take (items.length >>> 1)))
            (valueTreeFuel fuel (items.drop (items.length >>> 1)))

def valueTree (items : List Val) : Val := valueTreeFuel items.length items

/-- `Vec<u8>` ordering (lexicographic, a proper prefix is smaller). -/
def bytesLe : Bytes → Bytes → Bool
  | [], _ => true
  | _ :: _, [] => false
  | x :: xs, y :: ys => if x < y then true else if y < x then false else bytesLe xs ys

def insertSorted (x : Bytes) : List Bytes → List Bytes
  | [] => [x]
  | y :: r => if bytesLe x y then x :: y :: r else y :: insertSorted x r

/-- `used_name_list.sort()` -/
def sortNames (l : List Bytes) : List Bytes := l.foldr insertSorted []

/-- `constants_root_node = NodePath::new(None).first()` -/
def constantsRoot : Nat := NodePath.first NodePath.root

/-- `args_root_node = if has_constants_tree { NodePath::new(None).rest() } else { NodePath::new(None) }` -/
def argsRoot (hasConstantsTree : Bool) : Nat :=
  if hasConstantsTree then NodePath.rest NodePath.root else NodePath.root

/-- `constants_symbol_table = symbol_table_for_tree(build_tree(all_constants_names), constants_root_node)` -/
def constantsSymbolTable (allConstantsNames : List Bytes) : List (Val × Bytes) :=
  symbolTableForTree (buildTree allConstantsNames) constantsRoot

/-- `add_one_function`: `all_symbols = symbol_table_for_tree(function_args, args_root_node) ++ constants_symbol_table`. -/
def allSymbols (functionArgs : Val) (allConstantsNames : List Bytes) : List (Val × Bytes) :=
  symbolTableForTree functionArgs (argsRoot (!allConstantsNames.isEmpty))
    ++ constantsSymbolTable allConstantsNames

/-- the `arg_tree` of `finish_compile_from_collection`: `(c ALL_CONSTANTS_TREE_PROGRAM 1)` when there
    is a constants tree, else `1`; the emitted program is `(opt (q . (a MAIN argTree)))`. -/
def argTree (items : List Val) : Val :=
  if items.isEmpty then .atom (NodePath.asPath NodePath.root)
  else .pair (.atom [4]) (.pair (buildTreeProgram items) (.pair (.atom (NodePath.asPath NodePath.root)) Val.nil))

/-- the assembled form of a source parameter pattern — what the classic reader hands to
    `compile_mod`: identifiers and strings are their bytes, integers their minimal signed
    encoding with `0 ↦ ()`. -/
def patVal (pat : Rich) : Val := Rich.toClvm true pat

/-- source patterns on which the classic reading and the source-level destructuring
    (`Lang.bindPat`) have the same shape: every leaf is a non-empty identifier or a non-zero
    integer, and wherever the classic `is_at_capture` fires on the assembled tree the source
    level sees an `(@ name sub)` capture too (this excludes `(64 n p)` — the integer 64 IS the
    byte `@` for the classic reader —, and `(@ X p)` with `X` not an identifier). -/
def classicPatOk : Rich → Bool
  | .nil => true
  | .atom b => !b.isEmpty
  | .int i => i != 0
  | .qstr _ _ => false
  | .cons a d =>
    classicPatOk a && classicPatOk d &&
      (!(isAtCapture (patVal a) (patVal d)).isSome || (Lang.atCapture (.cons a d)).isSome)

end ClassicEnv
