/-
  Lang/Core3.lean — the CORE3 language of the compiler-correctness theorem (DESIGN §4, C01
  Layer B3): the core2 language of Lang/Core2.lean (functions, inline functions with
  destructuring parameters, `let`/`let*` with shadowing) enlarged with CONSTANTS:
  `(defconstant K <literal>)` and `(defconst K <closed expression>)`, referenced from the
  main expression, from functions, from inline functions and from other constants (in any
  order of definition, also through functions and inline functions).

  * `evalL` / `evalProg` — THE SOURCE MEANING: `Core2.evalL` (call-by-value, lexically
    scoped) plus: an identifier that is not bound by the patterns in scope and names a
    constant means the value of the constant's body in the empty environment (the same
    order as `Lang.evalSrc`: variables first, then constants).
  * `compileCore3` — THE COMPILER MODEL:
      1. `constEnv`: the value of every constant, computed AT COMPILE TIME by compiling the
         body (with the values of the constants it depends on already put in) as the program
         `(mod () body)` over the program's functions and running the emitted CLVM with the
         consensus evaluator on `()`; constants that depend on constants not yet evaluated
         wait for a later round (`start_codegen`: `ConstantKind::Complex`, evaluated on demand);
      2. `lowerProg`: every reference to a constant becomes the quoted value
         (`generate_expr_code`: `compiler.constants`), which gives a core2 program;
      3. `Core2` renaming, inline expansion / let hoisting and code generation on the result,
         with the live-helper set computed on the SOURCE program THROUGH the constants, as
         `frontend` (`calculate_live_helpers`) does: a function that is only called from the
         body of a live constant is still emitted.
    BYTE-IDENTICAL to the real compiler's non-optimising output on this subset for the
    dialects cl21 and strict-cl21 (`modeld core3` vs `cvh compile`).
  * `progWF` — the decidable hypothesis of the theorem (Proofs/Core3Lemmas.lean,
    `compileCore3_correct`): constant names are not bound by any pattern or `let`, every
    constant has a compile-time value that the check RE-DERIVES with the final constant
    environment, and the lowered program satisfies the core2 conditions.
-/
import ChialispModel.Lang.Core2

namespace Core3
open Core2 (Expr Exprs FnDef findFn namesPat bindsOk)

structure Prog where
  params : Rich
  consts : List (Bytes × Expr)
  fns : List FnDef
  body : Expr

def findConst (n : Bytes) : List (Bytes × Expr) → Option Expr
  | [] => none
  | (k, e) :: r => if k == n then some e else findConst n r

-- source meaning ---------------------------------------------------------------------------

mutual
/-- LEXICALLY SCOPED call-by-value meaning: `Core2.evalL` plus constants. -/
def evalL (ops : OpSem) (consts : List (Bytes × Expr)) (fns : List FnDef) : Nat → Rich → Val → Expr → Res
  | 0, _, _, _ => .error .fuel
  | n+1, pat, args, .var x =>
    match Core.paramValue pat args x with
    | some v => .ok v
    | none =>
      match findConst x consts with
      | some body => evalL ops consts fns n .nil Val.nil body
      | none => failR "unbound"
  | _+1, _, _, .lit v => .ok v
  | _+1, _, args, .argsv => .ok args
  | n+1, pat, args, .op code as =>
    match evalArgsL ops consts fns n pat args as with
    | .ok vs => ops.apply [UInt8.ofNat code] vs
    | .error e => .error e
  | n+1, pat, args, .ite c a b =>
    match evalL ops consts fns n pat args c with
    | .ok cv => if Val.nilp cv then evalL ops consts fns n pat args b else evalL ops consts fns n pat args a
    | .error e => .error e
  | n+1, pat, args, .call f as =>
    match findFn f fns with
    | none => failR "no such function"
    | some fd =>
      match evalArgsL ops consts fns n pat args as with
      | .ok vs => if bindsOk fd.params vs then evalL ops consts fns n fd.params vs fd.body else failR "bind"
      | .error e => .error e
  | n+1, pat, args, .letE names es body =>
    match evalArgsL ops consts fns n pat args es with
    | .ok vs =>
      if bindsOk (.cons (namesPat names) pat) (.pair vs args) then
        evalL ops consts fns n (.cons (namesPat names) pat) (.pair vs args) body
      else failR "bind"
    | .error e => .error e
def evalArgsL (ops : OpSem) (consts : List (Bytes × Expr)) (fns : List FnDef) : Nat → Rich → Val → Exprs → Res
  | 0, _, _, _ => .error .fuel
  | _+1, _, _, .nil => .ok Val.nil
  | n+1, pat, args, .cons e r =>
    match evalL ops consts fns n pat args e with
    | .ok v =>
      match evalArgsL ops consts fns n pat args r with
      | .ok vs => .ok (.pair v vs)
      | .error e => .error e
    | .error e => .error e
end

/-- THE SOURCE MEANING of a core3 program. -/
def evalProg (ops : OpSem) (P : Prog) (fuel : Nat) (args : Val) : Res :=
  if bindsOk P.params args then evalL ops P.consts P.fns fuel P.params args P.body else failR "bind"

-- constants put in ---------------------------------------------------------------------------

/-- the constant environment: compile-time values. -/
def lookupCE (n : Bytes) : List (Bytes × Val) → Option Val
  | [] => none
  | (k, v) :: r => if k == n then some v else lookupCE n r

mutual
/-- every reference to an evaluated constant becomes the quoted value. -/
def lowerE (CE : List (Bytes × Val)) : Expr → Expr
  | .var x =>
    match lookupCE x CE with
    | some v => .lit v
    | none => .var x
  | .lit v => .lit v
  | .argsv => .argsv
  | .op code as => .op code (lowerEs CE as)
  | .ite c a b => .ite (lowerE CE c) (lowerE CE a) (lowerE CE b)
  | .call f as => .call f (lowerEs CE as)
  | .letE names es body => .letE names (lowerEs CE es) (lowerE CE body)
def lowerEs (CE : List (Bytes × Val)) : Exprs → Exprs
  | .nil => .nil
  | .cons e r => .cons (lowerE CE e) (lowerEs CE r)
end

def lowerFn (CE : List (Bytes × Val)) (f : FnDef) : FnDef := { f with body := lowerE CE f.body }

def lowerFns (CE : List (Bytes × Val)) (fns : List FnDef) : List FnDef := fns.map (lowerFn CE)

/-- the program `(mod () body)` over the program's functions, constants put in. -/
def constProg (CE : List (Bytes × Val)) (fns : List FnDef) (body : Expr) : Core2.Prog :=
  { params := .nil, fns := lowerFns CE fns, body := lowerE CE body }

/-- fuel of the compile-time run. -/
def constFuel : Nat := 6000

/-- compile-time evaluation of a constant's body: compile, run on `()`. -/
def evalConst (ops : OpSem) (CE : List (Bytes × Val)) (fns : List FnDef) (body : Expr) : Option Val :=
  match Core2.compileCore2 (constProg CE fns body) with
  | some code =>
    match Clvm.evalC ops constFuel code Val.nil with
    | .ok v => some v
    | .error _ => none
  | none => none

/-- one round: every constant that can be evaluated with the values known so far. -/
def constRound (ops : OpSem) (fns : List FnDef) : List (Bytes × Expr) → List (Bytes × Val) → List (Bytes × Val)
  | [], CE => CE
  | (k, body) :: r, CE =>
    if (lookupCE k CE).isSome then constRound ops fns r CE
    else
      match evalConst ops CE fns body with
      | some v => constRound ops fns r (CE ++ [(k, v)])
      | none => constRound ops fns r CE

def constIter (ops : OpSem) (fns : List FnDef) (consts : List (Bytes × Expr)) : Nat → List (Bytes × Val) → List (Bytes × Val)
  | 0, CE => CE
  | k+1, CE => constIter ops fns consts k (constRound ops fns consts CE)

/-- the compile-time values of the program's constants. -/
def constEnv (ops : OpSem) (P : Prog) : List (Bytes × Val) :=
  constIter ops P.fns P.consts P.consts.length []

def lowerProg (CE : List (Bytes × Val)) (P : Prog) : Core2.Prog :=
  { params := P.params, fns := lowerFns CE P.fns, body := lowerE CE P.body }

-- liveness through constants -------------------------------------------------------------------

mutual
/-- `collect_used_names_bodyform`: every identifier mentioned (variables and call heads). -/
def usedOf : Expr → List Bytes
  | .var x => [x]
  | .lit _ => []
  | .argsv => []
  | .op _ as => usedOfs as
  | .ite c a b => usedOf c ++ usedOf a ++ usedOf b
  | .call f as => f :: usedOfs as
  | .letE _ es body => usedOfs es ++ usedOf body
def usedOfs : Exprs → List Bytes
  | .nil => []
  | .cons e r => usedOf e ++ usedOfs r
end

/-- helpers as `calculate_live_helpers` sees them: name and body. -/
def helperBodies (P : Prog) : List (Bytes × Expr) :=
  P.fns.map (fun f => (f.name, f.body)) ++ P.consts

def liveStep (hs : List (Bytes × Expr)) (live : List Bytes) : List Bytes :=
  hs.foldl (fun acc h => if acc.contains h.1 then
      (usedOf h.2).foldl (fun a n => if a.contains n then a else a ++ [n]) acc else acc) live

def liveIter (hs : List (Bytes × Expr)) : Nat → List Bytes → List Bytes
  | 0, live => live
  | k+1, live => liveIter hs k (liveStep hs live)

/-- the names reachable from the main expression through functions AND constants. -/
def liveSet (P : Prog) : List Bytes :=
  liveIter (helperBodies P) ((helperBodies P).length + 1) ((usedOf P.body).eraseDups)

-- core2 pipeline with a given live set ---------------------------------------------------------

/-- `Core2.compileNS` with the live set as a parameter. -/
def compileNSLive (live : List Bytes) (P : Core2.Prog) : Option Val :=
  match Core2.expandProg P with
  | some (FT, main) => Core2.compileWith (Core2.keep FT live) P.params main
  | none => none

/-- `Core2.progWFNS` with the live set as a parameter. -/
def progWFNSLive (live : List Bytes) (P : Core2.Prog) : Bool :=
  Core2.fnsWF P.fns && Core2.patWF P.params && Core2.exprWF P.params P.body &&
  match Core2.expandProg P with
  | none => false
  | some (FT, main) =>
    Core2.targetWF FT && Core2.exprOk main &&
    FT.all (fun g => (Lang.nameLookup g.name P.params).isNone) &&
    Core2.liveClosed FT live && (Core2.callsOf main).all live.contains

def compileLive (live : List Bytes) (P : Core2.Prog) : Option Val :=
  compileNSLive live (Core2.renameProg P)

def progWFLive (live : List Bytes) (P : Core2.Prog) : Bool :=
  P.fns.all (fun f => Core2.lexWF f.body) && Core2.lexWF P.body && progWFNSLive live (Core2.renameProg P)

/-- THE COMPILER MODEL: evaluate the constants, put them in, core2 pipeline. -/
def compileCore3 (ops : OpSem) (P : Prog) : Option Val :=
  compileLive (liveSet P) (lowerProg (constEnv ops P) P)

-- decidable well-formedness --------------------------------------------------------------------

/-- no evaluated constant is bound by the (lexical) pattern. -/
def constFree (ks : List Bytes) (lp : Rich) : Bool :=
  Lang.patOk lp && ks.all (fun k => (Lang.nameLookup k lp).isNone)

mutual
/-- every `let` keeps the constants' names free (patterns as `evalL` builds them). -/
def scopeOk (ks : List Bytes) : Rich → Expr → Bool
  | _, .var _ => true
  | _, .lit _ => true
  | _, .argsv => true
  | lp, .op _ as => scopesOk ks lp as
  | lp, .ite c a b => scopeOk ks lp c && scopeOk ks lp a && scopeOk ks lp b
  | lp, .call _ as => scopesOk ks lp as
  | lp, .letE names es body =>
    scopesOk ks lp es && constFree ks (.cons (namesPat names) lp) && scopeOk ks (.cons (namesPat names) lp) body
def scopesOk (ks : List Bytes) : Rich → Exprs → Bool
  | _, .nil => true
  | lp, .cons e r => scopeOk ks lp e && scopesOk ks lp r
end

/-- the recorded value of a constant is what compiling and running its body (with the FINAL
    constant environment put in) gives, and that little program is a well-formed core2 program. -/
def constCheck (ops : OpSem) (CE : List (Bytes × Val)) (fns : List FnDef) (body : Expr) (w : Val) : Bool :=
  Core2.progWF (constProg CE fns body) && scopeOk (CE.map (·.1)) .nil body &&
  match Core2.compileCore2 (constProg CE fns body) with
  | some code =>
    match Clvm.evalC ops constFuel code Val.nil with
    | .ok v => decide (v = w)
    | .error _ => false
  | none => false

/-- every constant has a value in `CE`, and the value checks. -/
def constsOk (ops : OpSem) (CE : List (Bytes × Val)) (fns : List FnDef) (consts : List (Bytes × Expr)) : Bool :=
  consts.all (fun kb =>
    match lookupCE kb.1 CE with
    | some w => constCheck ops CE fns kb.2 w
    | none => false)

/-- decidable well-formedness of a core3 program — the hypothesis of the Layer-B3 theorem. -/
def progWFWith (ops : OpSem) (CE : List (Bytes × Val)) (P : Prog) : Bool :=
  constsOk ops CE P.fns P.consts &&
  P.fns.all (fun f => constFree (CE.map (·.1)) f.params && scopeOk (CE.map (·.1)) f.params f.body) &&
  constFree (CE.map (·.1)) P.params && scopeOk (CE.map (·.1)) P.params P.body &&
  progWFLive (liveSet P) (lowerProg CE P)

def progWF (ops : OpSem) (P : Prog) : Bool := progWFWith ops (constEnv ops P) P

end Core3
