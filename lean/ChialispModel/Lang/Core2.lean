/-
  Lang/Core2.lean — the CORE2 language of the compiler-correctness theorem (DESIGN §4, C01
  Layer B2): the core language of Lang/Core.lean enlarged with `defun-inline` functions
  (any identifier parameter pattern: nested, dotted, `(@ name pat)` captures below the top
  level; any number of call arguments, no `&rest` tail) and `let` (parallel bindings,
  lexically scoped, shadowing allowed; `let*` is read as nested `let`s).

  * `evalL` / `evalProg` — THE SOURCE MEANING: call-by-value big-step (fuel-indexed),
    lexically scoped: an inline call means exactly what an ordinary call means, `let` binds
    the VALUES of its binding expressions and hides outer bindings of the same names.  A call
    (and a `let`) binds its parameter pattern when it is entered (`bindsOk`), as
    `Lang.evalSrc` does.
  * `compileCore2` — THE COMPILER MODEL, three stages mirroring the real pipeline:
      1. `renameProg` (`rename.rs`): every let-bound name becomes a name that is unique along
         its scope chain (names never reach the emitted code, so the model uses the binding
         depth instead of the global counter);
      2. `expand` — inline functions and lets as a source-to-source function into the
         inline-free, let-free fragment:
         - `hoist_body_let_binding` turns `(let ((x e)…) body)` inside a function with
           parameter pattern PAT into a call of an inline helper with parameters `(PAT x …)`
           whose first argument is `(r @*env*)` (`argsv`) in a non-inline function and the
           expression rebuilt by `create_let_env_expression` in an inline one;
         - `replace_in_inline` / `replace_inline_body` substitute the ARGUMENT EXPRESSIONS
           for the parameter names (`arg_lookup`, `pick_value_from_arg_element`: first/rest
           wrappers for destructured parameters, a `c`-list of the surplus arguments for a
           dotted tail), nested inline calls are expanded recursively;
      3. `compileWith` — the code generator of Lang/Core.lean (`generate_expr_code` /
         `process_defun_call` / `finalize_env`) on the result, with the live-helper set
         computed on the SOURCE program as `frontend` does (a function that is only mentioned
         in a dropped inline argument is still emitted).
    BYTE-IDENTICAL to the real compiler's non-optimising output on this subset for the
    dialects cl21 and strict-cl21 (`modeld core2` vs `cvh compile`).
  * `eval` — the meaning used between the stages (a `let` appends its names behind the names
    in scope; equal to `evalL` when nothing is shadowed, which `progWFNS` checks after renaming).
  * `progWF` — the decidable hypothesis of the theorem (Proofs/Core2Lemmas.lean,
    `compileCore2_correct`).
-/
import ChialispModel.Lang.Core

namespace Core2

mutual
inductive Expr where
  | var (name : Bytes)
  | lit (v : Val)                                   -- quoted constant
  | op (code : Nat) (args : Exprs)                  -- primitive operator, args evaluated left to right
  | ite (c a b : Expr)                              -- lazy `if`
  | call (f : Bytes) (args : Exprs)                 -- call of a function (inline or not)
  | letE (names : List Bytes) (es : Exprs) (body : Expr)   -- `(let ((n e) …) body)`, parallel
  | argsv                                           -- `(r @*env*)`: the current argument value (only produced by `expand`)
inductive Exprs where
  | nil
  | cons (e : Expr) (r : Exprs)
end

structure FnDef where
  name : Bytes
  params : Rich
  body : Expr
  inline : Bool

structure Prog where
  params : Rich
  fns : List FnDef
  body : Expr

def findFn (n : Bytes) : List FnDef → Option FnDef
  | [] => none
  | f :: r => if f.name == n then some f else findFn n r

/-- `(n1 n2 …)` as a parameter pattern. -/
def namesPat : List Bytes → Rich
  | [] => .nil
  | n :: r => .cons (.atom n) (namesPat r)

/-- can the pattern be bound to the value (source-level destructuring succeeds)? -/
def bindsOk (pat : Rich) (args : Val) : Bool := (Lang.bindPat pat (Lang.SV.ofVal args)).isSome

-- source meaning ---------------------------------------------------------------------------

mutual
/-- value of an expression; the environment is the pair (parameter pattern, argument value):
    variables are read through the destructuring of `args` against `pat`; a `let` extends
    the pattern with the new names and the value with the new values. -/
def eval (ops : OpSem) (fns : List FnDef) : Nat → Rich → Val → Expr → Res
  | 0, _, _, _ => .error .fuel
  | _+1, pat, args, .var n =>
    match Core.paramValue pat args n with
    | some v => .ok v
    | none => failR "unbound"
  | _+1, _, _, .lit v => .ok v
  | _+1, _, args, .argsv => .ok args
  | n+1, pat, args, .op code as =>
    match evalArgs ops fns n pat args as with
    | .ok vs => ops.apply [UInt8.ofNat code] vs
    | .error e => .error e
  | n+1, pat, args, .ite c a b =>
    match eval ops fns n pat args c with
    | .ok cv => if Val.nilp cv then eval ops fns n pat args b else eval ops fns n pat args a
    | .error e => .error e
  | n+1, pat, args, .call f as =>
    match findFn f fns with
    | none => failR "no such function"
    | some fd =>
      match evalArgs ops fns n pat args as with
      | .ok vs => if bindsOk fd.params vs then eval ops fns n fd.params vs fd.body else failR "bind"
      | .error e => .error e
  | n+1, pat, args, .letE names es body =>
    match evalArgs ops fns n pat args es with
    | .ok vs =>
      if bindsOk (.cons pat (namesPat names)) (.pair args vs) then
        eval ops fns n (.cons pat (namesPat names)) (.pair args vs) body
      else failR "bind"
    | .error e => .error e
/-- arguments, as the proper list value of their results. -/
def evalArgs (ops : OpSem) (fns : List FnDef) : Nat → Rich → Val → Exprs → Res
  | 0, _, _, _ => .error .fuel
  | _+1, _, _, .nil => .ok Val.nil
  | n+1, pat, args, .cons e r =>
    match eval ops fns n pat args e with
    | .ok v =>
      match evalArgs ops fns n pat args r with
      | .ok vs => .ok (.pair v vs)
      | .error e => .error e
    | .error e => .error e
end

/-- meaning of a program whose lets do not shadow (the intermediate language after `rename`). -/
def evalProgNS (ops : OpSem) (P : Prog) (fuel : Nat) (args : Val) : Res :=
  if bindsOk P.params args then eval ops P.fns fuel P.params args P.body else failR "bind"

-- inline expansion ---------------------------------------------------------------------------

/-- `pick_value_from_arg_element`: the expression selecting `name` inside one argument
    expression `cur` matched against the parameter sub-pattern (first/rest wrappers). -/
def pick (name : Bytes) : Rich → Expr → Option Expr
  | .cons (.atom [64]) (.cons (.atom cap) (.cons sub .nil)), cur =>
    if cap == name then some cur else pick name sub cur
  | .cons a d, cur =>
    match pick name a (.op 5 (.cons cur .nil)) with
    | some x => some x
    | none => pick name d (.op 6 (.cons cur .nil))
  | .atom a, cur => if a == name then some cur else none
  | _, _ => none

/-- `enlist_remaining_args` (no `&rest` tail): `(c a1 (c a2 … ()))`. -/
def enlist : Exprs → Expr
  | .nil => .lit Val.nil
  | .cons a r => .op 4 (.cons a (.cons (enlist r) .nil))

/-- `arg_lookup` (call without `&rest` tail): outer `none` = the compile error "Lookup for
    argument N that wasn't passed", inner `none` = not a parameter of this inline. -/
def argLookup (name : Bytes) : Rich → Exprs → Option (Option Expr)
  | .cons f r, .cons a rest =>
    match pick name f a with
    | some x => some (some x)
    | none => argLookup name r rest
  | .cons _ _, .nil => none
  | tailpat, as => some (pick name tailpat (enlist as))

/-- how the names of the current parameter pattern are addressed: directly (`top`, inside
    a non-inline function or the main expression) or through the argument expressions of the
    inline expansion in progress (`inl`). -/
inductive Ctx where
  | top
  | inl (as : Exprs)

def substVar (pat : Rich) : Ctx → Bytes → Option Expr
  | .top, n => some (.var n)
  | .inl as, n =>
    match argLookup n pat as with
    | none => none
    | some none => some (.var n)
    | some (some t) => some t

/-- `create_let_env_expression` with the names already replaced by what they stand for. -/
def letEnv (pat0 : Rich) (ctx : Ctx) : Rich → Option Expr
  | .cons (.atom [64]) (.cons (.atom cap) (.cons _ .nil)) => substVar pat0 ctx cap
  | .cons a d =>
    match letEnv pat0 ctx a, letEnv pat0 ctx d with
    | some x, some y => some (.op 4 (.cons x (.cons y .nil)))
    | _, _ => none
  | .atom n => if n.isEmpty then some (.lit Val.nil) else substVar pat0 ctx n
  | .nil => some (.lit Val.nil)
  | _ => none

/-- the first argument of a hoisted let's helper call. -/
def envExpr (pat : Rich) : Ctx → Option Expr
  | .top => some .argsv
  | .inl as => letEnv pat (.inl as) pat

mutual
/-- the expression with every inline call and every `let` expanded (`none`: out of fuel —
    recursive inlines — or one of the compile errors above). -/
def expand (fns : List FnDef) : Nat → Rich → Ctx → Expr → Option Expr
  | 0, _, _, _ => none
  | _+1, pat, ctx, .var n => substVar pat ctx n
  | _+1, _, _, .lit v => some (.lit v)
  | _+1, _, ctx, .argsv => match ctx with | .top => some .argsv | .inl _ => none
  | k+1, pat, ctx, .op code as => (expandArgs fns k pat ctx as).map (.op code)
  | k+1, pat, ctx, .ite c a b =>
    match expand fns k pat ctx c, expand fns k pat ctx a, expand fns k pat ctx b with
    | some c', some a', some b' => some (.ite c' a' b')
    | _, _, _ => none
  | k+1, pat, ctx, .call f as =>
    match findFn f fns with
    | none => none
    | some fd =>
      match expandArgs fns k pat ctx as with
      | none => none
      | some as' => if fd.inline then expand fns k fd.params (.inl as') fd.body else some (.call f as')
  | k+1, pat, ctx, .letE names es body =>
    match expandArgs fns k pat ctx es, envExpr pat ctx with
    | some es', some envE => expand fns k (.cons pat (namesPat names)) (.inl (.cons envE es')) body
    | _, _ => none
def expandArgs (fns : List FnDef) : Nat → Rich → Ctx → Exprs → Option Exprs
  | 0, _, _, _ => none
  | _+1, _, _, .nil => some .nil
  | k+1, pat, ctx, .cons e r =>
    match expand fns k pat ctx e, expandArgs fns k pat ctx r with
    | some e', some r' => some (.cons e' r')
    | _, _ => none
end

/-- the non-inline functions with expanded bodies. -/
def expandFns (all : List FnDef) (fuel : Nat) : List FnDef → Option (List FnDef)
  | [] => some []
  | f :: r =>
    if f.inline then expandFns all fuel r
    else
      match expand all fuel f.params .top f.body, expandFns all fuel r with
      | some b, some fs => some ({ f with body := b } :: fs)
      | _, _ => none

mutual
def exprSize : Expr → Nat
  | .var _ => 1
  | .lit _ => 1
  | .argsv => 1
  | .op _ as => 1 + exprsSize as
  | .ite c a b => 1 + exprSize c + exprSize a + exprSize b
  | .call _ as => 1 + exprsSize as
  | .letE _ es body => 1 + exprsSize es + exprSize body
def exprsSize : Exprs → Nat
  | .nil => 1
  | .cons e r => 1 + exprSize e + exprsSize r
end

/-- fuel for the expansion: every chain of nested inline bodies is shorter than the number
    of functions (recursion among inlines is an error), each adds at most its own depth. -/
def expandFuel (P : Prog) : Nat :=
  (P.fns.length + 2) * ((P.fns.foldl (fun acc f => acc + exprSize f.body) (exprSize P.body)) + 2)

-- code generation (the inline-free, let-free fragment) -----------------------------------------

open Core (pathAtom qv wrap codeTree)

mutual
/-- `generate_expr_code`; `env` is the environment shape `(helpers . params)`. -/
def compileE (env : Rich) : Expr → Option Val
  | .var n => (Lang.nameLookup n env).map pathAtom
  | .lit v => some (qv v)
  | .argsv => some (.pair (.atom [6]) (.pair (.atom [1]) Val.nil))
  | .op code as => (compileArgs env as).map (fun l => .pair (.atom [UInt8.ofNat code]) l)
  | .ite c a b =>
    match compileE env c, compileE env a, compileE env b with
    | some c', some a', some b' =>
      some (.pair (.atom [2]) (.pair
        (.pair (.atom [3]) (.pair c' (.pair (qv (wrap a')) (.pair (qv (wrap b')) Val.nil))))
        (.pair (.atom [1]) Val.nil)))
    | _, _, _ => none
  | .call f as =>
    match Lang.nameLookup f env, compileCallArgs env as with
    | some pf, some l =>
      some (.pair (.atom [2]) (.pair (pathAtom pf)
        (.pair (.pair (.atom [4]) (.pair (.atom [2]) (.pair l Val.nil))) Val.nil)))
    | _, _ => none
  | .letE _ _ _ => none
/-- operator argument list: `(e1' e2' …)` -/
def compileArgs (env : Rich) : Exprs → Option Val
  | .nil => some Val.nil
  | .cons e r =>
    match compileE env e, compileArgs env r with
    | some e', some r' => some (.pair e' r')
    | _, _ => none
/-- function-call argument list: `(c e1' (c e2' … ()))` -/
def compileCallArgs (env : Rich) : Exprs → Option Val
  | .nil => some Val.nil
  | .cons e r =>
    match compileE env e, compileCallArgs env r with
    | some e', some r' => some (.pair (.atom [4]) (.pair e' (.pair r' Val.nil)))
    | _, _ => none
end

/-- (name, code) of every function; the code of a function is its wrapped body. -/
def compileFns (names : List Bytes) : List FnDef → Option (List (Bytes × Val))
  | [] => some []
  | f :: r =>
    match compileE (Lang.envShape names f.params) f.body, compileFns names r with
    | some c, some cs => some ((f.name, wrap c) :: cs)
    | _, _ => none

mutual
/-- function names called in an expression -/
def callsOf : Expr → List Bytes
  | .var _ => []
  | .lit _ => []
  | .argsv => []
  | .op _ as => callsOfs as
  | .ite c a b => callsOf c ++ callsOf a ++ callsOf b
  | .call f as => f :: callsOfs as
  | .letE _ es body => callsOfs es ++ callsOf body
def callsOfs : Exprs → List Bytes
  | .nil => []
  | .cons e r => callsOf e ++ callsOfs r
end

/-- one round of `calculate_live_helpers`: add the callees of every live function. -/
def liveStep (fns : List FnDef) (live : List Bytes) : List Bytes :=
  fns.foldl (fun acc f => if acc.contains f.name then
      (callsOf f.body).foldl (fun a n => if a.contains n then a else a ++ [n]) acc else acc) live

def liveIter (fns : List FnDef) : Nat → List Bytes → List Bytes
  | 0, live => live
  | k+1, live => liveIter fns k (liveStep fns live)

/-- the helpers reachable from the main expression IN THE SOURCE PROGRAM (inline functions
    included; `frontend` computes liveness before anything is expanded). -/
def liveSet (P : Prog) : List Bytes := liveIter P.fns (P.fns.length + 1) ((callsOf P.body).eraseDups)

def keep (FS : List FnDef) (live : List Bytes) : List FnDef := FS.filter (fun f => live.contains f.name)

/-- the whole program over a given function list: `(a (q . MAIN) (c (q . FUNCS) 1))`. -/
def compileWith (FS : List FnDef) (params : Rich) (body : Expr) : Option Val :=
  match compileE (Lang.envShape (FS.map (·.name)) params) body, compileFns (FS.map (·.name)) FS with
  | some main, some entries =>
    some (.pair (.atom [2]) (.pair (qv main)
      (.pair (.pair (.atom [4]) (.pair (qv (codeTree (entries.map (·.2)) (entries.length + 1))) (.pair (.atom [1]) Val.nil))) Val.nil)))
  | _, _ => none

/-- the expanded program: live non-inline functions (source order) and the main expression. -/
def expandProg (P : Prog) : Option (List FnDef × Expr) :=
  match expandFns P.fns (expandFuel P) P.fns, expand P.fns (expandFuel P) P.params .top P.body with
  | some FT, some main => some (FT, main)
  | _, _ => none

/-- expansion + code generation of a program whose lets do not shadow. -/
def compileNS (P : Prog) : Option Val :=
  match expandProg P with
  | some (FT, main) => compileWith (keep FT (liveSet P)) P.params main
  | none => none

-- decidable well-formedness --------------------------------------------------------------------

/-- identifier patterns as the inline machinery reads them: leaves are non-empty atoms other
    than `@`, captures are `(@ name sub)`, every pair binds at least one name. -/
def ipatOk : Rich → Bool
  | .nil => true
  | .atom b => !b.isEmpty && b != [64]
  | .cons (.atom [64]) (.cons (.atom cap) (.cons sub .nil)) => !cap.isEmpty && cap != [64] && ipatOk sub
  | .cons a d => ipatOk a && ipatOk d && (Lang.patHasNames a || Lang.patHasNames d)
  | _ => false

/-- no suffix of the top-level parameter list has the shape of a capture (`arg_lookup` walks
    the top level as a plain list). -/
def spineOk : Rich → Bool
  | .cons (.atom [64]) (.cons (.atom _) (.cons _ .nil)) => false
  | .cons _ d => spineOk d
  | _ => true

def patWF (pat : Rich) : Bool :=
  Lang.patOk pat && ipatOk pat && spineOk pat && Core.nodupB (Lang.patNames pat)

mutual
/-- admissible operator codes; every `let` extends the pattern to a well-formed pattern
    (in particular: no shadowing), binds as many names as it has expressions; no `argsv`. -/
def exprWF (pat : Rich) : Expr → Bool
  | .var _ => true
  | .lit _ => true
  | .argsv => false
  | .op code as => Core.opOk code && exprsWF pat as
  | .ite c a b => exprWF pat c && exprWF pat a && exprWF pat b
  | .call _ as => exprsWF pat as
  | .letE names es body =>
    exprsWF pat es && patWF (.cons pat (namesPat names)) && exprWF (.cons pat (namesPat names)) body
def exprsWF (pat : Rich) : Exprs → Bool
  | .nil => true
  | .cons e r => exprWF pat e && exprsWF pat r
end

mutual
/-- the target fragment: admissible operators, no `let` (inline calls are excluded by the
    function table). -/
def exprOk : Expr → Bool
  | .var _ => true
  | .lit _ => true
  | .argsv => true
  | .op code as => Core.opOk code && exprsOk as
  | .ite c a b => exprOk c && exprOk a && exprOk b
  | .call _ as => exprsOk as
  | .letE _ _ _ => false
def exprsOk : Exprs → Bool
  | .nil => true
  | .cons e r => exprOk e && exprsOk r
end

/-- the live set is closed: every live function only calls live functions. -/
def liveClosed (FS : List FnDef) (live : List Bytes) : Bool :=
  FS.all (fun f => !live.contains f.name || (callsOf f.body).all live.contains)

/-- source functions: distinct names, none called `@`, well-formed parameter patterns that
    do not reuse function names, well-formed bodies. -/
def fnsWF (FS : List FnDef) : Bool :=
  Core.nodupB (FS.map (·.name)) &&
  FS.all (fun f => f.name != [64] && patWF f.params && exprWF f.params f.body)

/-- target functions (after expansion): distinct names, none called `@`, identifier
    parameter patterns that do not reuse function names, bodies in the target fragment. -/
def targetWF (FT : List FnDef) : Bool :=
  Core.nodupB (FT.map (·.name)) &&
  FT.all (fun f => f.name != [64] && Lang.patOk f.params && exprOk f.body &&
    FT.all (fun g => (Lang.nameLookup g.name f.params).isNone))

/-- decidable well-formedness of a program whose lets do not shadow. -/
def progWFNS (P : Prog) : Bool :=
  fnsWF P.fns && patWF P.params && exprWF P.params P.body &&
  match expandProg P with
  | none => false
  | some (FT, main) =>
    targetWF FT && exprOk main &&
    FT.all (fun g => (Lang.nameLookup g.name P.params).isNone) &&
    liveClosed FT (liveSet P) && (callsOf main).all (liveSet P).contains

-- lexical scoping: `rename` ---------------------------------------------------------------------
/-
  The real compiler first renames every binding to a unique name (`rename.rs`), so that the
  helper functions a `let` is desugared into cannot capture; names never reach the emitted
  code.  The model renames every let-bound name to a name determined by its nesting depth
  inside the function (sibling scopes may reuse names, nested scopes cannot), which is all
  that the later stages need: the renamed program has no shadowing (checked by `progWFNS`).
-/

/-- the `k`-th let-bound name of a function body: not a name the reader can produce. -/
def lvlName (k : Nat) : Bytes := 0 :: List.replicate k 1

def freshNames (d : Nat) : Nat → List Bytes
  | 0 => []
  | k+1 => lvlName d :: freshNames (d + 1) k

def renLookup (x : Bytes) : List (Bytes × Bytes) → Option Bytes
  | [] => none
  | (k, v) :: r => if k == x then some v else renLookup x r

/-- the current name of a variable: the innermost renaming, or itself (a parameter). -/
def ren (r : List (Bytes × Bytes)) (x : Bytes) : Bytes := (renLookup x r).getD x

mutual
def renameE (r : List (Bytes × Bytes)) (d : Nat) : Expr → Expr
  | .var x => .var (ren r x)
  | .lit v => .lit v
  | .argsv => .argsv
  | .op code as => .op code (renameEs r d as)
  | .ite c a b => .ite (renameE r d c) (renameE r d a) (renameE r d b)
  | .call f as => .call f (renameEs r d as)
  | .letE names es body =>
    .letE (freshNames d names.length) (renameEs r d es)
      (renameE (names.zip (freshNames d names.length) ++ r) (d + names.length) body)
def renameEs (r : List (Bytes × Bytes)) (d : Nat) : Exprs → Exprs
  | .nil => .nil
  | .cons e rest => .cons (renameE r d e) (renameEs r d rest)
end

def renameFn (f : FnDef) : FnDef := { f with body := renameE [] 0 f.body }

def renameProg (P : Prog) : Prog :=
  { params := P.params, fns := P.fns.map renameFn, body := renameE [] 0 P.body }

mutual
/-- LEXICALLY SCOPED call-by-value meaning (the source meaning of core2): as `eval`, but a
    `let` puts its names IN FRONT of the names in scope, so an inner binding hides an outer
    one of the same name. -/
def evalL (ops : OpSem) (fns : List FnDef) : Nat → Rich → Val → Expr → Res
  | 0, _, _, _ => .error .fuel
  | _+1, pat, args, .var n =>
    match Core.paramValue pat args n with
    | some v => .ok v
    | none => failR "unbound"
  | _+1, _, _, .lit v => .ok v
  | _+1, _, args, .argsv => .ok args
  | n+1, pat, args, .op code as =>
    match evalArgsL ops fns n pat args as with
    | .ok vs => ops.apply [UInt8.ofNat code] vs
    | .error e => .error e
  | n+1, pat, args, .ite c a b =>
    match evalL ops fns n pat args c with
    | .ok cv => if Val.nilp cv then evalL ops fns n pat args b else evalL ops fns n pat args a
    | .error e => .error e
  | n+1, pat, args, .call f as =>
    match findFn f fns with
    | none => failR "no such function"
    | some fd =>
      match evalArgsL ops fns n pat args as with
      | .ok vs => if bindsOk fd.params vs then evalL ops fns n fd.params vs fd.body else failR "bind"
      | .error e => .error e
  | n+1, pat, args, .letE names es body =>
    match evalArgsL ops fns n pat args es with
    | .ok vs =>
      if bindsOk (.cons (namesPat names) pat) (.pair vs args) then
        evalL ops fns n (.cons (namesPat names) pat) (.pair vs args) body
      else failR "bind"
    | .error e => .error e
def evalArgsL (ops : OpSem) (fns : List FnDef) : Nat → Rich → Val → Exprs → Res
  | 0, _, _, _ => .error .fuel
  | _+1, _, _, .nil => .ok Val.nil
  | n+1, pat, args, .cons e r =>
    match evalL ops fns n pat args e with
    | .ok v =>
      match evalArgsL ops fns n pat args r with
      | .ok vs => .ok (.pair v vs)
      | .error e => .error e
    | .error e => .error e
end

/-- THE SOURCE MEANING of a core2 program. -/
def evalProg (ops : OpSem) (P : Prog) (fuel : Nat) (args : Val) : Res :=
  if bindsOk P.params args then evalL ops P.fns fuel P.params args P.body else failR "bind"

/-- THE COMPILER MODEL: rename, expand inlines and lets, generate code. -/
def compileCore2 (P : Prog) : Option Val := compileNS (renameProg P)

mutual
/-- let-bound names are non-empty identifiers other than `@`, distinct within one `let`. -/
def lexWF : Expr → Bool
  | .var _ => true
  | .lit _ => true
  | .argsv => false
  | .op _ as => lexsWF as
  | .ite c a b => lexWF c && lexWF a && lexWF b
  | .call _ as => lexsWF as
  | .letE names es body =>
    names.all (fun n => !n.isEmpty && n != [64]) && Core.nodupB names && lexsWF es && lexWF body
def lexsWF : Exprs → Bool
  | .nil => true
  | .cons e r => lexWF e && lexsWF r
end

/-- decidable well-formedness of a core2 program — the hypothesis of the Layer-B2 theorem:
    well-formed let names, and the renamed program passes `progWFNS`. -/
def progWF (P : Prog) : Bool :=
  P.fns.all (fun f => lexWF f.body) && lexWF P.body && progWFNS (renameProg P)

end Core2
