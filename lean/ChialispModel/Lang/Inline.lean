/-
  Lang/Inline.lean — model of the visited-set discipline of inline expansion
  (`replace_in_inline` / `replace_inline_body` / `make_args_for_call_from_inline` in
  /repo/src/compiler/inline.rs) on an abstract call graph (C10).  Import-free.

  What is kept of a `BodyForm`: its shape as far as `replace_inline_body` case-splits on it —
  `Let` (error: should have been hoisted), `Call` (head, argument list, optional `&rest` tail),
  `Value(Atom)` (a parameter reference or any other atom: `arg_lookup` substitutes the already
  expanded argument, nothing is expanded again), `Lambda` (only the captures are rewritten), and
  everything else (returned unchanged).  What is dropped: the expression that is built (the
  expansion's RESULT is irrelevant to termination and to which error is reported, because
  substituted arguments are never re-expanded) and the errors of `arg_lookup` (a call that
  passes too few arguments without a tail).

  The `visited_inlines` set:
    * `replace_in_inline` starts every expansion with `{ inline.name }`;
    * `make_args_for_call_from_inline` hands a CLONE of the current set to every argument
      after the head and to the tail — what happens inside an argument never reaches its
      siblings, nor the callee lookup that follows;
    * after the arguments, `get_inline_callable` classifies the head (macro before inline before
      defun / primitive / `com` / `@`); an inline callee whose name is in the set is the error
      `recursive call to inline function <name of the inline being expanded>`; otherwise the name
      is inserted and the callee's body is expanded with the same (grown) set;
    * the `Lambda` case passes the set on to the captures.
  Since a clone is made at every branching point and the only other uses are tail positions, the
  `&mut HashSet` behaves as a value passed down the call chain; the model passes a list.

  `expand` runs on explicit fuel; `Props/C10.inline_terminates` gives the bound that always
  suffices (so the real recursion is well founded: lexicographically, the number of inline
  functions not yet visited, then the size of the expression).
-/

namespace Inl

abbrev Name := Nat

inductive Head
  | atom (n : Name)           -- `BodyForm::Value(Atom | Integer)`: a name to be classified
  | nonAtom                   -- anything else: `get_call_name` fails ("not yet callable")
deriving DecidableEq, Repr

mutual
inductive Expr
  | arg                                        -- `Value(Atom)`: parameter reference / free atom
  | other                                      -- `Quoted`, `Value` of a non-atom, `Mod`
  | letForm                                    -- `Let`: "let binding should have been hoisted"
  | call (h : Head) (args : Exprs) (tail : Tail)
  | lambda (captures : Expr)
inductive Exprs
  | nil
  | cons (e : Expr) (r : Exprs)
inductive Tail
  | none
  | some (e : Expr)
end

/-- the tables `get_callable` consults, in its order of precedence. -/
structure Prog where
  macros : List Name                     -- `compiler.macros`
  inlines : List (Name × Expr)           -- `compiler.inlines`: name ↦ body
  plain : List Name                      -- defuns, primitives, `com`, `@`, `@*env*`

inductive Callee
  | inline (body : Expr)
  | plain
  | unknown

def lookupInline (n : Name) : List (Name × Expr) → Option Expr
  | [] => none
  | (m, b) :: r => if m == n then some b else lookupInline n r

/-- `get_callable`: macro, then inline, then everything else that can be called. -/
def classify (P : Prog) (n : Name) : Callee :=
  if P.macros.contains n then .plain
  else match lookupInline n P.inlines with
    | some b => .inline b
    | none => if P.plain.contains n then .plain else .unknown

inductive Res
  | ok
  | recursive (cur : Name)       -- "recursive call to inline function <cur>"
  | letErr                       -- "let binding should have been hoisted before optimization"
  | notCallable                  -- "not yet callable …"
  | noSuchCallable (n : Name)    -- "no such callable '…'"
  | fuel                         -- model artefact (proved impossible with `bound` fuel)
deriving DecidableEq, Repr

def Res.isOk : Res → Bool
  | .ok => true
  | _ => false

mutual
/-- `replace_inline_body visited … inline=cur … expr` -/
def expand (P : Prog) : Nat → List Name → Name → Expr → Res
  | 0, _, _, _ => .fuel
  | _ + 1, _, _, .arg => .ok
  | _ + 1, _, _, .other => .ok
  | _ + 1, _, _, .letForm => .letErr
  | f + 1, vis, cur, .lambda c => expand P f vis cur c
  | f + 1, vis, cur, .call h args tail =>
    -- make_args_for_call_from_inline: arguments left to right, then the tail, each on a clone
    match expandArgs P f vis cur args with
    | .ok =>
      match expandTail P f vis cur tail with
      | .ok =>
        -- get_inline_callable
        match h with
        | .nonAtom => .notCallable
        | .atom n =>
          match classify P n with
          | .inline body =>
            if vis.contains n then .recursive cur
            else expand P f (n :: vis) n body
          | .plain => .ok
          | .unknown => .noSuchCallable n
      | e => e
    | e => e
def expandArgs (P : Prog) : Nat → List Name → Name → Exprs → Res
  | 0, _, _, _ => .fuel
  | _ + 1, _, _, .nil => .ok
  | f + 1, vis, cur, .cons e r =>
    match expand P f vis cur e with
    | .ok => expandArgs P f vis cur r
    | x => x
def expandTail (P : Prog) : Nat → List Name → Name → Tail → Res
  | 0, _, _, _ => .fuel
  | _ + 1, _, _, .none => .ok
  | f + 1, vis, cur, .some e => expand P f vis cur e
end

mutual
def Expr.size : Expr → Nat
  | .arg => 1
  | .other => 1
  | .letForm => 1
  | .lambda c => 1 + c.size
  | .call _ args tail => 2 + args.size + tail.size
def Exprs.size : Exprs → Nat
  | .nil => 1
  | .cons e r => 1 + e.size + r.size
def Tail.size : Tail → Nat
  | .none => 1
  | .some e => 1 + e.size
end

def maxBody : List (Name × Expr) → Nat
  | [] => 0
  | (_, b) :: r => Nat.max b.size (maxBody r)

/-- names of the inline table not yet visited (the first component of the measure). -/
def unvisited (P : Prog) (vis : List Name) : Nat :=
  ((P.inlines.map (·.1)).filter (fun n => !vis.contains n)).length

/-- fuel that always suffices to expand `e` with visited set `vis`. -/
def bound (P : Prog) (vis : List Name) (e : Expr) : Nat :=
  e.size + unvisited P vis * (maxBody P.inlines + 1) + 1

/-- `compile_call` on a call whose head is `f`: when `get_callable` says inline,
    `replace_in_inline` expands its body with `visited = {f}`; other callees expand nothing. -/
def expandTop (P : Prog) (fuel : Nat) (f : Name) : Res :=
  match classify P f with
  | .inline body => expand P fuel [f] f body
  | .plain => .ok
  | .unknown => .noSuchCallable f

/-- …with the fuel that always suffices. -/
def expandCall (P : Prog) (f : Name) : Res :=
  match classify P f with
  | .inline body => expand P (bound P [f] body) [f] f body
  | .plain => .ok
  | .unknown => .noSuchCallable f

-- the inline call graph ------------------------------------------------------------------------

mutual
/-- heads of the calls `replace_inline_body` visits inside an expression (arguments, tails,
    lambda captures, nested to any depth). -/
def heads : Expr → List Name
  | .arg => []
  | .other => []
  | .letForm => []
  | .lambda c => heads c
  | .call (.atom n) args tail => headsArgs args ++ headsTail tail ++ [n]
  | .call .nonAtom args tail => headsArgs args ++ headsTail tail
def headsArgs : Exprs → List Name
  | .nil => []
  | .cons e r => heads e ++ headsArgs r
def headsTail : Tail → List Name
  | .none => []
  | .some e => heads e
end

def isInline (P : Prog) (n : Name) : Bool :=
  match classify P n with
  | .inline _ => true
  | _ => false

/-- `g → h` in the call graph restricted to inline functions: the body of inline `g` calls `h`
    (in a position the expansion visits) and `get_callable` resolves `h` to an inline. -/
def edge (P : Prog) (g h : Name) : Bool :=
  match classify P g with
  | .inline body => (heads body).contains h && isInline P h
  | _ => false

end Inl
