// `cvh classicenv` (C03): the classic compiler's own environment layout, observed on the REAL
// code.  `symbol_table_for_tree`, `build_tree`, `build_tree_program`, `add_one_function` and
// `finish_compile_from_collection` are private, but what they compute is visible in the
// *unevaluated* result of the stage-2 `com` operator on a `(mod …)` form:
//
//     (com (mod ARGS helper… BODY))
//       = (a (q . (opt (q . (a MAIN ARGTREE)))) 1)
//     MAIN     = (opt (com (q . BODY) MACRO_LOOKUP_PROGRAM (q . ALL_SYMBOLS)))     add_one_function
//     ARGTREE  = 1                                  no constants tree
//              | (c TREE_PROGRAM 1)                 TREE_PROGRAM = build_tree_program(items)
//     item     = (opt (com (q . FBODY) ML (q . ALL_SYMBOLS_OF_F)))  for a defun
//              | (q . VALUE)                                         for a defconstant
//     ALL_SYMBOLS = ((NAME PATH) …) = symbol_table_for_tree(args, args_root) ++
//                                     symbol_table_for_tree(build_tree(names), first)
//
// so the probe runs `(com 2)` on `(SOURCE)` with the stage-2 runner (`run_program_for_search_paths`,
// the runner `compile_clvm_text` uses) and prints the tables and the tree program.  Nothing is
// optimised at that point, so the paths are exactly what the private functions produced.
//
//   line:   `run <source text hex> <args hex>`  → `C <program hex> V<hex>|F`  or `E <one line>`:
//           compile_clvm_text (classic, as `cvh compile text:O1`) and a clvmr run with a cost limit
//           (a mis-laid-out constants tree can make a compiled program loop);
//   line:   `<source text hex> <model part, ignored here>…`
//   output: `main=<tbl>;arg=<1|c>;tree=<hex|->;fns=<name hex>=<tbl>|…`   (functions sorted by name)
//           tbl   = `<hex of name node>:<path bytes hex>` joined by `,`
//           tree  = TREE_PROGRAM with every leaf item replaced by the atom of the name it defines
//                   (the probes use `(defun NAME ARGS (q . NAME))` and `(defconstant NAME NAME)`,
//                   so an item identifies itself)
//           or `E <one line>` when the compiler rejects the program, `shape:<where>` when the
//           result does not have the form above.
use std::rc::Rc;

use crate::common::*;
use crate::compile::one_line;
use chialisp::classic::clvm_tools::binutils::assemble;
use chialisp::classic::clvm::OPERATORS_LATEST_VERSION;
use chialisp::classic::clvm_tools::stages::stage_0::{DefaultProgramRunner, RunProgramOption, TRunProgram};
use chialisp::classic::clvm_tools::stages::stage_2::operators::run_program_for_search_paths;
use clvmr::allocator::{Allocator, NodePtr, SExp};

fn pair(a: &Allocator, n: NodePtr) -> Option<(NodePtr, NodePtr)> {
    match a.sexp(n) {
        SExp::Pair(f, r) => Some((f, r)),
        SExp::Atom => None,
    }
}

fn atom_bytes(a: &Allocator, n: NodePtr) -> Option<Vec<u8>> {
    match a.sexp(n) {
        SExp::Atom => Some(a.atom(n).as_ref().to_vec()),
        SExp::Pair(_, _) => None,
    }
}

fn is_atom(a: &Allocator, n: NodePtr, b: &[u8]) -> bool {
    atom_bytes(a, n).map(|x| x == b).unwrap_or(false)
}

/// elements of a proper list (terminated by an empty atom)
fn list(a: &Allocator, mut n: NodePtr) -> Option<Vec<NodePtr>> {
    let mut out = vec![];
    loop {
        match a.sexp(n) {
            SExp::Pair(f, r) => {
                out.push(f);
                n = r;
            }
            SExp::Atom => {
                return if a.atom_len(n) == 0 { Some(out) } else { None };
            }
        }
    }
}

/// `(q . X)` → X
fn unquote(a: &Allocator, n: NodePtr) -> Option<NodePtr> {
    let (h, t) = pair(a, n)?;
    if is_atom(a, h, &[1]) {
        Some(t)
    } else {
        None
    }
}

/// `(opt (com (q . BODY) ML (q . SYMS)))` → (BODY, SYMS)
fn opt_com(a: &Allocator, n: NodePtr) -> Option<(NodePtr, NodePtr)> {
    let l = list(a, n)?;
    if l.len() != 2 || !is_atom(a, l[0], b"opt") {
        return None;
    }
    let c = list(a, l[1])?;
    if c.len() != 4 || !is_atom(a, c[0], b"com") {
        return None;
    }
    Some((unquote(a, c[1])?, unquote(a, c[3])?))
}

fn table(a: &Allocator, syms: NodePtr) -> Option<String> {
    let mut out = vec![];
    for e in list(a, syms)? {
        let kv = list(a, e)?;
        if kv.len() != 2 {
            return None;
        }
        let p = atom_bytes(a, kv[1])?;
        out.push(format!("{}:{}", hex_of_node(a, kv[0]), hex::encode(p)));
    }
    Some(out.join(","))
}

/// walk TREE_PROGRAM; leaves are replaced by the atom of the name they define
fn tree(a: &mut Allocator, n: NodePtr, fns: &mut Vec<(Vec<u8>, String)>) -> Option<NodePtr> {
    if let Some((body, syms)) = opt_com(a, n) {
        // (defun NAME ARGS (q . NAME))
        let name_node = unquote(a, body)?;
        let name = atom_bytes(a, name_node)?;
        fns.push((name, table(a, syms)?));
        return Some(name_node);
    }
    if let Some(v) = unquote(a, n) {
        // (defconstant NAME NAME)
        atom_bytes(a, v)?;
        return Some(v);
    }
    let l = list(a, n)?;
    if l.len() == 3 && is_atom(a, l[0], &[4]) {
        let left = tree(a, l[1], fns)?;
        let right = tree(a, l[2], fns)?;
        let nil = a.nil();
        let t = a.new_pair(right, nil).ok()?;
        let t = a.new_pair(left, t).ok()?;
        return a.new_pair(l[0], t).ok();
    }
    None
}

fn probe(text: &str) -> String {
    let mut a = Allocator::new();
    let runner = run_program_for_search_paths("*verif*.clsp", &[], false);
    let src = match assemble(&mut a, text) {
        Ok(s) => s,
        Err(e) => return format!("E {}", one_line(&format!("{e:?}"))),
    };
    let Ok(prog) = assemble(&mut a, "(com 2)") else {
        return "shape:probe".to_string();
    };
    let nil = a.nil();
    let Ok(env) = a.new_pair(src, nil) else {
        return "shape:probe".to_string();
    };
    let runner2: Rc<dyn TRunProgram> = runner.clone();
    let res = match runner2.run_program(&mut a, prog, env, None) {
        Ok(r) => r.1,
        Err(e) => return format!("E {}", one_line(&format!("{e:?}"))),
    };
    // (a (q . (opt (q . (a MAIN ARGTREE)))) 1)
    let Some(l) = list(&a, res) else { return "shape:outer".to_string() };
    if l.len() != 3 || !is_atom(&a, l[0], &[2]) || !is_atom(&a, l[2], &[1]) {
        return "shape:outer".to_string();
    }
    let Some(x) = unquote(&a, l[1]) else { return "shape:outer-quote".to_string() };
    let Some(o) = list(&a, x) else { return "shape:opt".to_string() };
    if o.len() != 2 || !is_atom(&a, o[0], b"opt") {
        return "shape:opt".to_string();
    }
    let Some(app) = unquote(&a, o[1]).and_then(|n| list(&a, n)) else {
        return "shape:apply".to_string();
    };
    if app.len() != 3 || !is_atom(&a, app[0], &[2]) {
        return "shape:apply".to_string();
    }
    let Some((_, main_syms)) = opt_com(&a, app[1]) else { return "shape:main".to_string() };
    let Some(main_tbl) = table(&a, main_syms) else { return "shape:main-table".to_string() };
    let mut fns: Vec<(Vec<u8>, String)> = vec![];
    let (arg, tree_hex) = if is_atom(&a, app[2], &[1]) {
        ("1", "-".to_string())
    } else {
        let Some(c) = list(&a, app[2]) else { return "shape:argtree".to_string() };
        if c.len() != 3 || !is_atom(&a, c[0], &[4]) || !is_atom(&a, c[2], &[1]) {
            return "shape:argtree".to_string();
        }
        let Some(t) = tree(&mut a, c[1], &mut fns) else { return "shape:tree".to_string() };
        ("c", hex_of_node(&a, t))
    };
    fns.sort();
    let fs: Vec<String> = fns.iter().map(|(n, t)| format!("{}={}", hex::encode(n), t)).collect();
    format!("main={};arg={};tree={};fns={}", main_tbl, arg, tree_hex, fs.join("|"))
}

fn compile_and_run(src_hex: &str, args_hex: &str) -> String {
    let Some(text) = hex::decode(src_hex).ok().and_then(|b| String::from_utf8(b).ok()) else {
        return "bad-input".to_string();
    };
    let mut a = Allocator::new();
    let mut symbols = std::collections::HashMap::new();
    let prog = match crate::compile::compile_entry(&mut a, "text:O1", &text, &mut symbols, &[]) {
        Ok(p) => p,
        Err(e) => return format!("E {e}"),
    };
    let Some(args) = node_of_hex(&mut a, args_hex) else {
        return "bad-input".to_string();
    };
    let runner = DefaultProgramRunner::new();
    let opt = RunProgramOption {
        max_cost: Some(200_000_000),
        pre_eval_f: None,
        strict: false,
        operators_version: OPERATORS_LATEST_VERSION,
    };
    let r = match runner.run_program(&mut a, prog, args, Some(opt)) {
        Ok(r) => format!("V{}", hex_of_node(&a, r.1)),
        Err(_) => "F".to_string(),
    };
    format!("C {} {}", hex_of_node(&a, prog), r)
}

pub fn run(_args: &[String]) {
    each_line(|l| {
        let parts: Vec<&str> = l.split_whitespace().collect();
        if parts.is_empty() {
            return "bad-input".to_string();
        }
        if parts[0] == "run" && parts.len() == 3 {
            return compile_and_run(parts[1], parts[2]);
        }
        let Ok(src) = hex::decode(parts[0]) else {
            return "bad-input".to_string();
        };
        let Ok(text) = String::from_utf8(src) else {
            return "bad-input".to_string();
        };
        probe(&text)
    });
}
