// `cvh step` (C06): the built-in stepping evaluator (`compiler::clvm::run` with `prims::prim_map()`
// and `DefaultProgramRunner`) next to the consensus evaluator on the converted value.
//   `<mode 0|1> <rich prog> <rich env>`
//     -> `<stepper> | <consensus>`
//        stepper   = `ok <hex of convert_to_clvm_rs(result)> <rich result>` | `fail <class>` | `timeout`
//        consensus = `ok <hex>` | `fail` | `cost`      (run on convert_to_clvm_rs of prog / env)
//   `prims` -> the runtime table `prims()` as `<name hex>:<opcode>,...` sorted
use std::rc::Rc;

use crate::common::*;
use crate::rich::*;
use chialisp::classic::clvm_tools::stages::stage_0::{DefaultProgramRunner, RunProgramOption, TRunProgram};
use chialisp::compiler::clvm::{convert_to_clvm_rs, run as step_run, NewStyleIntConversion};
use chialisp::classic::clvm::OPERATORS_LATEST_VERSION;
use chialisp::compiler::prims::prim_map;
use chialisp::compiler::runtypes::RunFailure;
use clvmr::allocator::{Allocator, NodePtr};

pub const STEP_LIMIT: usize = 200_000;
pub const COST_LIMIT: u64 = 2_000_000_000;

/// coarse, stable classes of the stepping evaluator's error messages (order of checks is
/// part of what the model mirrors)
pub fn err_class(msg: &str) -> &'static str {
    if msg == "timeout" {
        "timeout"
    } else if msg.starts_with("bad path") {
        "path"
    } else if msg.starts_with("cannot apply nil") {
        "nilhead"
    } else if msg.starts_with("Unexpected head form") {
        "headform"
    } else if msg.starts_with("bad argument list") {
        "arglist"
    } else if msg.starts_with("cons is not a number") {
        "consnum"
    } else if msg.starts_with("Bad arguments given to cons") {
        "improper"
    } else if msg.starts_with("Wrong number of parameters") {
        "argc"
    } else if msg.starts_with("Cons expected") {
        "notcons"
    } else if msg.starts_with("failed to alloc") {
        "alloc"
    } else {
        "op"
    }
}

pub fn consensus_limited(a: &mut Allocator, p: NodePtr, e: NodePtr) -> String {
    let runner = DefaultProgramRunner::new();
    match runner.run_program(
        a,
        p,
        e,
        Some(RunProgramOption {
            max_cost: Some(COST_LIMIT),
            operators_version: OPERATORS_LATEST_VERSION,
            ..RunProgramOption::default()
        }),
    ) {
        Ok(r) => format!("ok {}", hex_of_node(a, r.1)),
        Err(e) => {
            let s = format!("{e:?}");
            if s.contains("CostExceeded") || s.to_lowercase().contains("cost exceeded") {
                "cost".to_string()
            } else {
                "fail".to_string()
            }
        }
    }
}

pub fn run(_args: &[String]) {
    each_line(|l| {
        let parts: Vec<&str> = l.split_whitespace().collect();
        if parts == ["prims"] {
            // the runtime primitive table, for comparison with the model's copy
            let mut items: Vec<(String, String)> = chialisp::compiler::prims::prims()
                .iter()
                .map(|(n, v)| (hex::encode(n), rich_string(v)))
                .collect();
            items.sort();
            return items
                .iter()
                .map(|(n, v)| format!("{n}:{}", v.trim_start_matches('I').trim_end_matches(';')))
                .collect::<Vec<_>>()
                .join(",");
        }
        if parts.len() != 3 {
            return "bad-input".to_string();
        }
        let _mode = NewStyleIntConversion::new(parts[0] == "1");
        let (Some(p), Some(e)) = (dec_rich(parts[1]), dec_rich(parts[2])) else {
            return "bad-input".to_string();
        };
        let (p, e) = (Rc::new(p), Rc::new(e));
        let mut a = Allocator::new();
        let runner: Rc<dyn TRunProgram> = Rc::new(DefaultProgramRunner::new());
        let stepped = step_run(&mut a, runner, prim_map(), p.clone(), e.clone(), None, Some(STEP_LIMIT));
        let left = match stepped {
            Ok(v) => match convert_to_clvm_rs(&mut a, v.clone()) {
                Ok(n) => format!("ok {} {}", hex_of_node(&a, n), rich_string(&v)),
                Err(_) => "fail alloc".to_string(),
            },
            Err(RunFailure::RunErr(_, m)) => {
                let c = err_class(&m);
                if c == "timeout" {
                    "timeout".to_string()
                } else {
                    format!("fail {c}")
                }
            }
            Err(RunFailure::RunExn(_, _)) => "fail exn".to_string(),
        };
        let mut a2 = Allocator::new();
        let right = match (convert_to_clvm_rs(&mut a2, p), convert_to_clvm_rs(&mut a2, e)) {
            (Ok(pn), Ok(en)) => consensus_limited(&mut a2, pn, en),
            _ => "fail".to_string(),
        };
        format!("{left} | {right}")
    });
}
