// `cvh fresh` (C05): the real compiler after `ARGNAME_CTR.store(k)`.
//   line:   `<k> <source text as hex>`
//   output: `K <program hex> <ctr after frontend> <tok>*`   or   `E <error>`
//   <tok>*: the names `rename` (frontend) produced, in source order:
//           per user defun/defun-inline `H`, `P:<hex>` per parameter atom (not `@`), then its body;
//           `M`, then the main expression;  body: `L:<hex>` per let binding name, the binding
//           expressions, the let body; `V:<hex>` per variable reference containing `_$_`.
//   `<ctr after frontend>` is relative: counter value after `frontend` minus k.
use std::borrow::Borrow;
use std::collections::HashMap;
use std::rc::Rc;
use std::sync::atomic::Ordering;

use crate::common::*;
use crate::compile::{compile_entry, one_line};
use chialisp::classic::clvm_tools::binutils::assemble;
use chialisp::compiler::compiler::DefaultCompilerOpts;
use chialisp::compiler::comptypes::{BindingPattern, BodyForm, CompilerOpts, HelperForm};
use chialisp::compiler::dialect::detect_modern;
use chialisp::compiler::frontend::frontend;
use chialisp::compiler::gensym::ARGNAME_CTR;
use chialisp::compiler::sexp::{parse_sexp, SExp};
use chialisp::compiler::srcloc::Srcloc;
use clvmr::allocator::Allocator;

fn has_sep(n: &[u8]) -> bool {
    n.windows(3).any(|w| w == b"_$_")
}

fn pat_atoms(p: &SExp, out: &mut Vec<String>) {
    match p {
        SExp::Atom(_, n) => {
            if n != b"@" {
                out.push(format!("P:{}", hex::encode(n)));
            }
        }
        SExp::Cons(_, a, b) => {
            pat_atoms(a.borrow(), out);
            pat_atoms(b.borrow(), out);
        }
        _ => {}
    }
}

fn walk(b: &BodyForm, out: &mut Vec<String>) {
    match b {
        BodyForm::Let(_, ld) => {
            for bi in ld.bindings.iter() {
                match &bi.pattern {
                    BindingPattern::Name(n) => out.push(format!("L:{}", hex::encode(n))),
                    BindingPattern::Complex(p) => {
                        out.push("LC".to_string());
                        pat_atoms(p.borrow(), out)
                    }
                }
            }
            for bi in ld.bindings.iter() {
                walk(bi.body.borrow(), out);
            }
            walk(ld.body.borrow(), out);
        }
        BodyForm::Value(SExp::Atom(_, n)) => {
            if has_sep(n) {
                out.push(format!("V:{}", hex::encode(n)));
            }
        }
        BodyForm::Call(_, vs, tail) => {
            for v in vs.iter().skip(1) {
                walk(v.borrow(), out);
            }
            if let Some(t) = tail {
                walk(t.borrow(), out);
            }
        }
        BodyForm::Lambda(_) => out.push("LAMBDA".to_string()),
        BodyForm::Mod(_, _) => out.push("MOD".to_string()),
        _ => {}
    }
}

pub fn run(_args: &[String]) {
    each_line(|l| {
        let parts: Vec<&str> = l.split_whitespace().collect();
        if parts.len() != 2 {
            return "bad-input".to_string();
        }
        let (Ok(k), Ok(src)) = (parts[0].parse::<usize>(), hex::decode(parts[1])) else {
            return "bad-input".to_string();
        };
        let Ok(text) = String::from_utf8(src) else {
            return "bad-input".to_string();
        };
        let filename = "*verif*.clsp";
        let mut a = Allocator::new();
        let Ok(assembled) = assemble(&mut a, &text) else {
            return "E assemble".to_string();
        };
        let dialect = detect_modern(&mut a, assembled);
        let opts: Rc<dyn CompilerOpts> = Rc::new(DefaultCompilerOpts::new(filename));
        let opts = opts.set_dialect(dialect).set_optimize(false).set_frontend_opt(false);
        let pre_forms = match parse_sexp(Srcloc::start(filename), text.bytes()) {
            Ok(p) => p,
            Err(e) => return format!("E parse {}", one_line(&e.1)),
        };
        ARGNAME_CTR.store(k, Ordering::SeqCst);
        let fe = frontend(opts, &pre_forms);
        let after = ARGNAME_CTR.load(Ordering::SeqCst);
        let cf = match fe {
            Ok(c) => c,
            Err(e) => {
                ARGNAME_CTR.store(0, Ordering::SeqCst);
                return format!("E {}", one_line(&format!("{}: {}", e.0, e.1)));
            }
        };
        let mut toks: Vec<String> = Vec::new();
        for h in cf.helpers.iter() {
            if let HelperForm::Defun(_, d) = h {
                toks.push("H".to_string());
                pat_atoms(d.args.borrow(), &mut toks);
                walk(d.body.borrow(), &mut toks);
            }
        }
        toks.push("M".to_string());
        walk(cf.exp.borrow(), &mut toks);
        // the bytes, with the counter set to the same start value
        let mut symbols = HashMap::new();
        ARGNAME_CTR.store(k, Ordering::SeqCst);
        let prog = compile_entry(&mut a, "text:O0", &text, &mut symbols, &[]);
        ARGNAME_CTR.store(0, Ordering::SeqCst);
        match prog {
            Ok(p) => format!("K {} {} {}", hex_of_node(&a, p), after.wrapping_sub(k), toks.join(" ")),
            Err(e) => format!("E {e}"),
        }
    });
}
