// `cvh atomic` / `cvh atomic-child` (C19): the output file is replaced atomically.
//
// `cvh atomic-child <entry g|a|c> <input path> <output path> <data hex|empty|@file> [uid=N] [fsize=N]`
//     one call of gentle_overwrite (g) / atomic_write_file (a) / compile_clvm (c) in THIS
//     process.  The verification hook in /repo (cfg chialisp_verif) appends the crash points
//     reached to $CHIALISP_VERIF_TRACE and aborts at $CHIALISP_VERIF_CRASH_AT.
//     exit 0 = Ok, 1 = Err, SIGABRT = killed at the crash point.
//     uid=N: drop privileges first (makes read-only modes effective when the parent is root);
//     fsize=N: RLIMIT_FSIZE=N with SIGXFSZ ignored (write(2) transfers N bytes, then EFBIG).
//
// `cvh atomic` line protocol (same lines as `modeld atomic`):
//   `s <entry> <prev> <mode> <data> <cuts> <crash> [src hex for entry c]`
//        -> `<ok|err|killed> <target hex|-|empty> <points|-> ? <leftover temp files> <info>`
//           (`skip-root` when the mode needs an unprivileged child and none can be had)
//   `e <src hex>`   -> hex of the text compile_clvm would write for that source (computed in
//                      process from compile_clvm_inner, no file involved)
//   `p`             -> `uid=<uid> drop=<0|1>`
//   `c <writers> <readers> <rounds> <seed> <init -|hex> <kill percent>`
//        -> `bad=<n> enoent_after=<n> left_ok=<0|1> final_ok=<0|1> # statistics…`
use std::collections::HashMap;
use std::fs;
use std::io::Read;
use std::os::unix::fs::PermissionsExt;
use std::os::unix::process::ExitStatusExt;
use std::path::{Path, PathBuf};
use std::process::{Command, Stdio};
use std::rc::Rc;
use std::sync::atomic::{AtomicBool, Ordering};
use std::sync::Arc;

use crate::common::each_line;
use chialisp::classic::clvm::__type_compatibility__::Stream;
use chialisp::classic::clvm_tools::clvmc::{compile_clvm, compile_clvm_inner};
use chialisp::compiler::compiler::DefaultCompilerOpts;
use chialisp::compiler::comptypes::CompilerOpts;
use chialisp::util::{atomic_write_file, gentle_overwrite};
use clvmr::allocator::Allocator;

const NOBODY: u32 = 65534;

fn content_of_hex(h: &str) -> Option<Option<Vec<u8>>> {
    match h {
        "-" => Some(None),
        "empty" => Some(Some(vec![])),
        _ => hex::decode(h).ok().map(Some),
    }
}

fn hex_of_content(c: &Option<Vec<u8>>) -> String {
    match c {
        None => "-".to_string(),
        Some(b) if b.is_empty() => "empty".to_string(),
        Some(b) => hex::encode(b),
    }
}

// ------------------------------------------------------------------------------------------
// child
// ------------------------------------------------------------------------------------------

pub fn child(args: &[String]) {
    if args.len() < 4 {
        eprintln!("usage: cvh atomic-child <g|a|c> <input> <output> <data hex> [uid=N] [fsize=N]");
        std::process::exit(2);
    }
    for a in &args[4..] {
        if let Some(n) = a.strip_prefix("fsize=") {
            let n: u64 = n.parse().unwrap();
            unsafe {
                libc::signal(libc::SIGXFSZ, libc::SIG_IGN);
                let lim = libc::rlimit { rlim_cur: n, rlim_max: n };
                if libc::setrlimit(libc::RLIMIT_FSIZE, &lim) != 0 {
                    std::process::exit(3);
                }
            }
        }
    }
    for a in &args[4..] {
        if let Some(n) = a.strip_prefix("uid=") {
            let n: u32 = n.parse().unwrap();
            unsafe {
                if libc::setgroups(0, std::ptr::null()) != 0 || libc::setgid(n) != 0 || libc::setuid(n) != 0 {
                    std::process::exit(3);
                }
            }
        }
    }
    if args[0] == "probe" {
        std::process::exit(0);
    }
    // data: hex, or `@file` holding the raw bytes (argv strings are limited to 128 KiB)
    let data = if let Some(p) = args[3].strip_prefix('@') {
        String::from_utf8(fs::read(p).unwrap_or_default()).unwrap_or_default()
    } else {
        match content_of_hex(&args[3]) {
            Some(Some(d)) => String::from_utf8(d).unwrap_or_default(),
            _ => String::new(),
        }
    };
    let r = match args[0].as_str() {
        "g" => gentle_overwrite(&args[1], &args[2], &data),
        "a" => atomic_write_file(&args[1], &args[2], &data),
        "c" => {
            let mut symbols = HashMap::new();
            compile_clvm(&args[1], &args[2], &[], &mut symbols).map(|_| ())
        }
        _ => std::process::exit(2),
    };
    std::process::exit(if r.is_ok() { 0 } else { 1 });
}

// ------------------------------------------------------------------------------------------
// parent
// ------------------------------------------------------------------------------------------

fn can_drop() -> bool {
    if unsafe { libc::getuid() } != 0 {
        return false;
    }
    let exe = std::env::current_exe().unwrap();
    Command::new(exe)
        .args(["atomic-child", "probe", "-", "-", "-", &format!("uid={NOBODY}")])
        .stdin(Stdio::null())
        .stdout(Stdio::null())
        .stderr(Stdio::null())
        .status()
        .map(|s| s.success())
        .unwrap_or(false)
}

fn chown(p: &Path, uid: u32) {
    let _ = std::os::unix::fs::chown(p, Some(uid), Some(uid));
}

fn chmod(p: &Path, mode: u32) {
    let _ = fs::set_permissions(p, fs::Permissions::from_mode(mode));
}

/// text compile_clvm writes for this source (hex of program + newline), computed without files
fn expected_output(src: &str, name: &str) -> Result<String, String> {
    let mut allocator = Allocator::new();
    let mut symbols = HashMap::new();
    let mut stream = Stream::new(None);
    let opts: Rc<dyn CompilerOpts> = Rc::new(DefaultCompilerOpts::new(name));
    compile_clvm_inner(&mut allocator, opts, &mut symbols, name, src, &mut stream, false)?;
    Ok(stream.get_value().hex() + "\n")
}

struct Outcome {
    status: String,
}

fn run_child(
    entry: &str,
    input: &Path,
    output: &Path,
    data: &str,
    trace: Option<&Path>,
    crash: u32,
    extra: &[String],
) -> Outcome {
    let exe = std::env::current_exe().unwrap();
    let mut cmd = Command::new(exe);
    cmd.arg("atomic-child")
        .arg(entry)
        .arg(input)
        .arg(output)
        .arg(data)
        .args(extra)
        .stdin(Stdio::null())
        .stdout(Stdio::null())
        .stderr(Stdio::null())
        .env_remove("CHIALISP_VERIF_TRACE")
        .env_remove("CHIALISP_VERIF_CRASH_AT");
    if let Some(t) = trace {
        cmd.env("CHIALISP_VERIF_TRACE", t);
    }
    if crash != 0 {
        cmd.env("CHIALISP_VERIF_CRASH_AT", crash.to_string());
    }
    let status = match cmd.status() {
        Ok(s) => {
            if s.signal() == Some(libc::SIGABRT) {
                "killed".to_string()
            } else if s.code() == Some(0) {
                "ok".to_string()
            } else if s.code() == Some(1) {
                "err".to_string()
            } else {
                format!("weird:{s:?}").replace(' ', "_")
            }
        }
        Err(e) => format!("spawn:{e:?}").replace(' ', "_"),
    };
    Outcome { status }
}

fn read_target(p: &Path) -> Option<Vec<u8>> {
    match fs::symlink_metadata(p) {
        Ok(m) if m.is_file() => fs::read(p).ok(),
        _ => None,
    }
}

fn scenario(parts: &[&str], drop: bool, root: bool) -> String {
    if parts.len() < 7 {
        return "bad-input".to_string();
    }
    let entry = parts[1];
    let (Some(prev), Some(Some(data))) = (content_of_hex(parts[2]), content_of_hex(parts[4])) else {
        return "bad-input".to_string();
    };
    let mode = parts[3];
    let crash: u32 = parts[6].parse().unwrap_or(0);
    let needs_unpriv = mode == "rodir" || mode == "rofile";
    if needs_unpriv && root && !drop {
        return "skip-root".to_string();
    }
    let top = tempfile::Builder::new().prefix("cvh-c19-").tempdir().unwrap();
    chmod(top.path(), 0o755);
    let d = top.path().join("d");
    let t = top.path().join("t");
    fs::create_dir(&d).unwrap();
    fs::create_dir(&t).unwrap();
    chmod(&t, 0o777);
    let trace = t.join("trace");
    let input = top.path().join("input.clsp");
    let src = if parts.len() > 7 {
        String::from_utf8(hex::decode(parts[7]).unwrap_or_default()).unwrap_or_default()
    } else {
        "(mod () 1)".to_string()
    };
    fs::write(&input, &src).unwrap();
    let mut dir = d.clone();
    match mode {
        "nodir" => dir = d.join("missing"),
        "dirfile" => {
            dir = d.join("notadir");
            fs::write(&dir, b"x").unwrap();
        }
        _ => {}
    }
    let output = dir.join("out.hex");
    if mode == "tgtdir" {
        fs::create_dir(&output).unwrap();
    } else if let Some(p) = &prev {
        if dir.is_dir() {
            fs::write(&output, p).unwrap();
        }
    }
    // the output must not look newer than the input (compile_clvm's `newer` test skips the
    // compilation otherwise): write the input last
    fs::write(&input, &src).unwrap();
    let mut extra: Vec<String> = vec![];
    if drop {
        chown(&d, NOBODY);
        chown(&output, NOBODY);
        chown(&input, NOBODY);
        extra.push(format!("uid={NOBODY}"));
    }
    if let Some(n) = mode.strip_prefix("fsize:") {
        extra.push(format!("fsize={n}"));
    }
    match mode {
        "rofile" => chmod(&output, 0o444),
        "rodir" => chmod(&d, 0o555),
        _ => {}
    }
    let data_arg = if data.len() > 20000 {
        let p = top.path().join("data.bin");
        fs::write(&p, &data).unwrap();
        format!("@{}", p.to_string_lossy())
    } else {
        hex_of_content(&Some(data.clone()))
    };
    let o = run_child(entry, &input, &output, &data_arg, Some(&trace), crash, &extra);
    chmod(&d, 0o755);
    let after = read_target(&output);
    let points = fs::read_to_string(&trace)
        .map(|s| s.split_whitespace().collect::<Vec<_>>().join(","))
        .unwrap_or_default();
    let mut left = 0;
    if let Ok(rd) = fs::read_dir(&d) {
        for e in rd.flatten() {
            let n = e.file_name();
            if n != "out.hex" && n != "notadir" {
                left += 1;
            }
        }
    }
    let mode_after = fs::metadata(&output).map(|m| m.permissions().mode() & 0o777).unwrap_or(0);
    format!(
        "{} {} {} ? {} mode={:o},unpriv={}",
        o.status,
        hex_of_content(&after),
        if points.is_empty() { "-".to_string() } else { points },
        left,
        mode_after,
        if drop || !root { 1 } else { 0 }
    )
}

// ------------------------------------------------------------------------------------------
// concurrent writers and readers
// ------------------------------------------------------------------------------------------

struct Lcg(u64);
impl Lcg {
    fn next(&mut self) -> u64 {
        self.0 = self.0.wrapping_mul(6364136223846793005).wrapping_add(1442695040888963407);
        self.0 >> 33
    }
}

fn concurrent(parts: &[&str]) -> String {
    if parts.len() < 7 {
        return "bad-input".to_string();
    }
    let nw: usize = parts[1].parse().unwrap_or(1);
    let nr: usize = parts[2].parse().unwrap_or(1);
    let rounds: usize = parts[3].parse().unwrap_or(1);
    let seed: u64 = parts[4].parse().unwrap_or(1);
    let Some(init) = content_of_hex(parts[5]) else {
        return "bad-input".to_string();
    };
    let killpct: u64 = parts[6].parse().unwrap_or(0);
    let top = tempfile::Builder::new().prefix("cvh-c19c-").tempdir().unwrap();
    let d = top.path().join("d");
    let sdir = top.path().join("src");
    fs::create_dir(&d).unwrap();
    fs::create_dir(&sdir).unwrap();
    let output = d.join("out.hex");
    // sources of clearly different sizes, so that a torn read could not be a valid content
    let mut srcs: Vec<(PathBuf, String, String)> = vec![];
    let mut allowed: Vec<Vec<u8>> = vec![];
    for i in 0..nw {
        let ch = (b'a' + (i as u8 % 26)) as char;
        let body: String = std::iter::repeat(ch).take(300 * (i + 1) + 17 * i).collect();
        let src = format!("(mod (X) (c (q . \"{body}\") (c {} X)))", i + 2);
        let p = sdir.join(format!("src_{i}.clsp"));
        let exp = match expected_output(&src, &p.to_string_lossy()) {
            Ok(e) => e,
            Err(e) => return format!("compile-failed {e}").replace('\n', " "),
        };
        fs::write(&p, &src).unwrap();
        allowed.push(exp.clone().into_bytes());
        srcs.push((p, src, exp));
    }
    if let Some(i) = &init {
        fs::write(&output, i).unwrap();
        allowed.push(i.clone());
    }
    let allowed = Arc::new(allowed);
    let init_present = init.is_some();
    let stop = Arc::new(AtomicBool::new(false));
    // readers
    let mut rthreads = vec![];
    for r in 0..nr {
        let stop = stop.clone();
        let allowed = allowed.clone();
        let output = output.clone();
        rthreads.push(std::thread::spawn(move || {
            let mut obs: u64 = 0;
            let mut bad: Vec<Vec<u8>> = vec![];
            let mut enoent_after: u64 = 0;
            let mut other_err: u64 = 0;
            let mut seen = init_present;
            let mut distinct: HashMap<Vec<u8>, u64> = HashMap::new();
            while !stop.load(Ordering::Relaxed) {
                let res: std::io::Result<Vec<u8>> = if r % 2 == 0 {
                    fs::read(&output)
                } else {
                    // piecewise reader: open, then small reads with yields in between
                    fs::File::open(&output).and_then(|mut f| {
                        let mut acc = vec![];
                        let mut buf = [0u8; 97];
                        loop {
                            let n = f.read(&mut buf)?;
                            if n == 0 {
                                break;
                            }
                            acc.extend_from_slice(&buf[..n]);
                            std::thread::yield_now();
                        }
                        Ok(acc)
                    })
                };
                match res {
                    Ok(b) => {
                        obs += 1;
                        seen = true;
                        if !allowed.iter().any(|a| *a == b) {
                            if bad.len() < 3 {
                                bad.push(b.clone());
                            } else {
                                bad.push(vec![]);
                            }
                        }
                        *distinct.entry(b).or_insert(0) += 1;
                    }
                    Err(e) if e.kind() == std::io::ErrorKind::NotFound => {
                        if seen {
                            enoent_after += 1;
                        }
                    }
                    Err(_) => other_err += 1,
                }
            }
            (obs, bad, enoent_after, other_err, distinct.len())
        }));
    }
    // writers
    let mut wthreads = vec![];
    for (i, (p, src, exp)) in srcs.iter().cloned().enumerate() {
        let output = output.clone();
        let mut rng = Lcg(seed.wrapping_mul(1000003).wrapping_add(i as u64 * 7919 + 1));
        wthreads.push(std::thread::spawn(move || {
            let mut ok = 0u64;
            let mut err = 0u64;
            let mut aborted = 0u64;
            let mut expect_left = 0u64;
            let mut weird = 0u64;
            for _ in 0..rounds {
                let crash = if rng.next() % 100 < killpct {
                    [1u32, 2, 3, 4, 10, 11, 12, 2, 3][(rng.next() % 9) as usize]
                } else {
                    0
                };
                let entry = if i % 2 == 0 { "c" } else { "g" };
                if entry == "c" {
                    // bump the source's mtime so that compile_clvm does compile
                    let _ = fs::write(&p, &src);
                }
                let o = run_child(entry, &p, &output, &hex::encode(exp.as_bytes()), None, crash, &[]);
                match o.status.as_str() {
                    "ok" => ok += 1,
                    "err" => err += 1,
                    "killed" => {
                        aborted += 1;
                        if crash == 2 || crash == 3 {
                            expect_left += 1;
                        }
                    }
                    _ => weird += 1,
                }
            }
            (ok, err, aborted, expect_left, weird)
        }));
    }
    let (mut ok, mut err, mut aborted, mut expect_left, mut weird) = (0, 0, 0, 0, 0);
    for t in wthreads {
        let (a, b, c, d2, e) = t.join().unwrap();
        ok += a;
        err += b;
        aborted += c;
        expect_left += d2;
        weird += e;
    }
    stop.store(true, Ordering::Relaxed);
    let (mut obs, mut nbad, mut enoent_after, mut other_err, mut distinct) = (0u64, 0usize, 0u64, 0u64, 0usize);
    let mut first_bad = String::new();
    for t in rthreads {
        let (a, b, c, d2, e) = t.join().unwrap();
        obs += a;
        if first_bad.is_empty() {
            if let Some(x) = b.first() {
                first_bad = format!("len{}:{}", x.len(), hex::encode(&x[..x.len().min(24)]));
            }
        }
        nbad += b.len();
        enoent_after += c;
        other_err += d2;
        distinct = distinct.max(e);
    }
    let mut left = 0u64;
    for e in fs::read_dir(&d).unwrap().flatten() {
        if e.file_name() != "out.hex" {
            left += 1;
        }
    }
    let fin = read_target(&output);
    let final_ok = match &fin {
        Some(b) => allowed.iter().any(|a| a == b),
        None => !init_present && ok == 0,
    };
    format!(
        "bad={} enoent_after={} left_ok={} final_ok={} weird={} # obs={} distinct={} ok={} err={} aborted={} left={} expect_left={} other_read_err={} first_bad={}",
        nbad,
        enoent_after,
        if left == expect_left { 1 } else { 0 },
        if final_ok { 1 } else { 0 },
        weird,
        obs,
        distinct,
        ok,
        err,
        aborted,
        left,
        expect_left,
        other_err,
        if first_bad.is_empty() { "-" } else { &first_bad }
    )
}

pub fn run(_args: &[String]) {
    let root = unsafe { libc::getuid() } == 0;
    let drop = can_drop();
    each_line(|l| {
        let parts: Vec<&str> = l.split_whitespace().collect();
        match parts.first().copied() {
            Some("s") => scenario(&parts, drop, root),
            Some("e") => {
                if parts.len() != 2 {
                    return "bad-input".to_string();
                }
                let src = String::from_utf8(hex::decode(parts[1]).unwrap_or_default()).unwrap_or_default();
                match expected_output(&src, "input.clsp") {
                    Ok(t) => hex::encode(t.as_bytes()),
                    Err(_) => "compile-failed".to_string(),
                }
            }
            Some("p") => format!("uid={} drop={}", unsafe { libc::getuid() }, if drop { 1 } else { 0 }),
            Some("c") => concurrent(&parts),
            _ => "bad-input".to_string(),
        }
    });
}
