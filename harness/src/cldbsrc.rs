// `cvh cldb-compile` (C06 / C12): the modern compiler on a source text; hands back the compiled program as the
// compiler's own rich value (the form `cldb` steps when it is given a source file).
//   `<hex of the utf-8 source text>` -> `ok <rich value of the compiled program>` | `err`
use std::collections::HashMap;
use std::rc::Rc;

use crate::common::*;
use crate::rich::*;
use chialisp::classic::clvm_tools::stages::stage_0::DefaultProgramRunner;
use chialisp::compiler::compiler::{compile_file, DefaultCompilerOpts};
use chialisp::compiler::comptypes::CompilerOpts;
use clvmr::allocator::Allocator;

pub fn run(_args: &[String]) {
    each_line(|l| {
        let Ok(bytes) = hex::decode(l.trim()) else {
            return "bad-input".to_string();
        };
        let Ok(src) = String::from_utf8(bytes) else {
            return "bad-input".to_string();
        };
        let mut a = Allocator::new();
        let runner = Rc::new(DefaultProgramRunner::new());
        let opts: Rc<dyn CompilerOpts> = Rc::new(DefaultCompilerOpts::new("*verif*"));
        let mut syms = HashMap::new();
        match compile_file(&mut a, runner, opts, &src, &mut syms) {
            Ok(r) => format!("ok {}", rich_string(&r)),
            Err(_) => "err".to_string(),
        }
    });
}
