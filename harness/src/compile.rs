// `cvh compile`: the real compilers + the consensus evaluator.
//   line:   `<entry> <source text as hex> <args hex>*`
//   entry:  `text:O0` | `text:O1`  — compile_clvm_text_maybe_opt (library / CLI path; classic when no sigil)
//           `file:<opt><fe><post>`  — compile_file with set_optimize(opt) set_frontend_opt(fe), then the
//                                      classic post-optimiser when post = 1   (three 0/1 digits)
//   output: `C <program hex> <result>*`  with result = `V<hex>` | `F`      or  `E <compile error, one line>`
use std::collections::HashMap;
use std::rc::Rc;

use crate::common::*;
use chialisp::classic::clvm_tools::clvmc::compile_clvm_text_maybe_opt;
use chialisp::classic::clvm_tools::stages::stage_0::DefaultProgramRunner;
use chialisp::compiler::clvm::convert_to_clvm_rs;
use chialisp::compiler::compiler::{compile_file, DefaultCompilerOpts};
use chialisp::compiler::comptypes::CompilerOpts;
use chialisp::compiler::dialect::detect_modern;
use chialisp::compiler::optimize::maybe_finalize_program_via_classic_optimizer;
use chialisp::classic::clvm_tools::binutils::assemble;
use clvmr::allocator::{Allocator, NodePtr};

pub fn one_line(s: &str) -> String {
    let t: String = s.chars().map(|c| if c == '\n' || c == '\r' { ' ' } else { c }).collect();
    t.chars().take(200).collect()
}

pub fn compile_entry(
    a: &mut Allocator,
    entry: &str,
    text: &str,
    symbols: &mut HashMap<String, String>,
    search: &[String],
) -> Result<NodePtr, String> {
    let filename = "*verif*.clsp";
    let opts: Rc<dyn CompilerOpts> =
        Rc::new(DefaultCompilerOpts::new(filename)).set_search_paths(search);
    if let Some(flag) = entry.strip_prefix("text:O") {
        compile_clvm_text_maybe_opt(a, flag == "1", opts.clone(), symbols, text, filename, true)
            .map_err(|e| one_line(&e.format(a, opts)))
    } else if let Some(bits) = entry.strip_prefix("file:") {
        let b: Vec<bool> = bits.chars().map(|c| c == '1').collect();
        if b.len() != 3 {
            return Err("bad entry".to_string());
        }
        let assembled = assemble(a, text).map_err(|e| one_line(&format!("{e:?}")))?;
        let dialect = detect_modern(a, assembled);
        if dialect.stepping.is_none() {
            return Err("file: entry needs a dialect sigil".to_string());
        }
        let runner = Rc::new(DefaultProgramRunner::new());
        let opts = opts.set_dialect(dialect).set_optimize(b[0]).set_frontend_opt(b[1]);
        let unopt = compile_file(a, runner.clone(), opts.clone(), text, symbols)
            .map_err(|e| one_line(&format!("{}: {}", e.0, e.1)))?;
        let res = maybe_finalize_program_via_classic_optimizer(a, runner, opts, b[2], &unopt)
            .map_err(|e| one_line(&format!("{}: {}", e.0, e.1)))?;
        convert_to_clvm_rs(a, res).map_err(|e| one_line(&format!("{e:?}")))
    } else {
        Err("bad entry".to_string())
    }
}

pub fn run(args: &[String]) {
    // `ctr=<n>`: every line is compiled after ARGNAME_CTR.store(n) (C05: which option sets let generated
    // names reach the output)
    let ctr: Option<usize> = args.iter().find_map(|a| a.strip_prefix("ctr=").and_then(|v| v.parse().ok()));
    each_line(|l| {
        if let Some(c) = ctr {
            chialisp::compiler::gensym::ARGNAME_CTR.store(c, std::sync::atomic::Ordering::SeqCst);
        }
        let parts: Vec<&str> = l.split_whitespace().collect();
        if parts.len() < 2 {
            return "bad-input".to_string();
        }
        let Ok(src) = hex::decode(parts[1]) else {
            return "bad-input".to_string();
        };
        let Ok(text) = String::from_utf8(src) else {
            return "bad-input".to_string();
        };
        let mut a = Allocator::new();
        let mut symbols = HashMap::new();
        let prog = match compile_entry(&mut a, parts[0], &text, &mut symbols, &[]) {
            Ok(p) => p,
            Err(e) => return format!("E {e}"),
        };
        let mut out = format!("C {}", hex_of_node(&a, prog));
        for ah in &parts[2..] {
            let Some(args) = node_of_hex(&mut a, ah) else {
                out.push_str(" bad-args");
                continue;
            };
            match run_consensus(&mut a, prog, args) {
                Ok(v) => {
                    out.push_str(" V");
                    out.push_str(&hex_of_node(&a, v));
                }
                Err(_) => out.push_str(" F"),
            }
        }
        out
    });
}
