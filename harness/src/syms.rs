// `cvh syms`: compile and report the symbol table.
//   line:   `<entry> <source text hex>`       (entries as in `cvh compile`)
//   output: `S <program hex> <symbols as JSON object, hex-encoded utf8 with sorted keys>` | `E <msg>`
use std::collections::{BTreeMap, HashMap};

use crate::common::*;
use crate::compile::compile_entry;
use clvmr::allocator::Allocator;

pub fn run(_args: &[String]) {
    each_line(|l| {
        let parts: Vec<&str> = l.split_whitespace().collect();
        if parts.len() != 2 {
            return "bad-input".to_string();
        }
        let Ok(src) = hex::decode(parts[1]) else { return "bad-input".to_string() };
        let Ok(text) = String::from_utf8(src) else { return "bad-input".to_string() };
        let mut a = Allocator::new();
        let mut symbols = HashMap::new();
        let prog = match compile_entry(&mut a, parts[0], &text, &mut symbols, &[]) {
            Ok(p) => p,
            Err(e) => return format!("E {e}"),
        };
        let sorted: BTreeMap<String, String> = symbols.into_iter().collect();
        let js = serde_json::to_string(&sorted).unwrap_or_else(|_| "{}".to_string());
        format!("S {} {}", hex_of_node(&a, prog), hex::encode(js.as_bytes()))
    });
}
