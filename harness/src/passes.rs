// `cvh passes` (C02): the modern compiler's CLVM-level passes on arbitrary rich values.
//   line: `<cmd> <mode 0|1> <rich> <env hex>*`
//     n0   ExistingStrategy::post_codegen_output_optimize, frontend_opt on, stepping 23
//          (= null_optimization(x, false), which is private)
//     e22  the same with stepping 22            (identity)
//     e0   the same with frontend_opt off       (identity)
//     d1 / d0   remove_double_apply(x, true / false)
//     s    change_double_to_single_apply(x)
//     b    brief_path_selection(x)
//     p    Strategy23::post_codegen_output_optimize(x)       (null(true) -> double apply -> brief)
//     f    Strategy23::post_codegen_function_optimize(x)     (the same sequence on an Rc)
//   out : `<changed 0|1|-> <rich out> | <before> <after> ...`
//     for every env the consensus value (clvmr) of the converted INPUT and of the converted OUTPUT
//     (`ok:<hex>` | `fail`), conversion in the given integer mode.
//   line: `rec <entry bits> <source hex>` — compile the program with compile_file's own steps but with
//     the optimizer object wrapped in a recorder; prints every post_codegen_* call the compiler made:
//     `R <mode> <kind>:<rich in>:<rich out> ...`   (kind = p | f)   or `E <error>`
use std::borrow::Borrow;
use std::cell::RefCell;
use std::collections::HashMap;
use std::rc::Rc;

use crate::common::*;
use crate::compile::one_line;
use crate::rich::*;
use chialisp::classic::clvm_tools::binutils::assemble;
use chialisp::classic::clvm_tools::stages::stage_0::{DefaultProgramRunner, TRunProgram};
use chialisp::compiler::clvm::{convert_to_clvm_rs, NewStyleIntConversion};
use chialisp::compiler::compiler::{compile_pre_forms, DefaultCompilerOpts};
use chialisp::compiler::comptypes::{
    BodyForm, CompileErr, CompileForm, CompilerOpts, DefunData, HelperForm, PrimaryCodegen,
};
use chialisp::compiler::dialect::{detect_modern, AcceptedDialect};
use chialisp::compiler::optimize::above22::Strategy23;
use chialisp::compiler::optimize::brief::brief_path_selection;
use chialisp::compiler::optimize::double_apply::{change_double_to_single_apply, remove_double_apply};
use chialisp::compiler::optimize::strategy::ExistingStrategy;
use chialisp::compiler::optimize::{get_optimizer, Optimization};
use chialisp::compiler::sexp::{parse_sexp, SExp};
use chialisp::compiler::srcloc::Srcloc;
use chialisp::compiler::{CompileContextWrapper, StartOfCodegenOptimization};
use clvmr::allocator::Allocator;

fn opts_for(stepping: i32, mode: bool, fe: bool, opt: bool) -> Rc<dyn CompilerOpts> {
    let o: Rc<dyn CompilerOpts> = Rc::new(DefaultCompilerOpts::new("*verif*"));
    o.set_dialect(AcceptedDialect { stepping: Some(stepping), strict: true, int_fix: mode })
        .set_frontend_opt(fe)
        .set_optimize(opt)
}

fn cons_of(a: &mut Allocator, s: Rc<SExp>, e: clvmr::allocator::NodePtr) -> String {
    match convert_to_clvm_rs(a, s) {
        Ok(p) => match run_consensus(a, p, e) {
            Ok(v) => format!("ok:{}", hex_of_node(a, v)),
            Err(_) => "fail".to_string(),
        },
        Err(_) => "err-conv".to_string(),
    }
}

fn pass_line(parts: &[&str]) -> String {
    if parts.len() < 3 {
        return "bad-input".to_string();
    }
    let mode = parts[1] == "1";
    let _mode = NewStyleIntConversion::new(mode);
    let Some(x) = dec_rich(parts[2]) else {
        return "bad-input".to_string();
    };
    let x = Rc::new(x);
    let mut a = Allocator::new();
    let runner: Rc<dyn TRunProgram> = Rc::new(DefaultProgramRunner::new());
    let borrowed: &SExp = x.borrow();
    let (chg, out): (String, Rc<SExp>) = match parts[0] {
        "n0" | "e22" | "e0" => {
            let opts = match parts[0] {
                "n0" => opts_for(23, mode, true, false),
                "e22" => opts_for(22, mode, true, false),
                _ => opts_for(23, mode, false, false),
            };
            let mut s = ExistingStrategy::new();
            match s.post_codegen_output_optimize(opts, borrowed.clone()) {
                Ok(r) => ("-".to_string(), Rc::new(r)),
                Err(_) => return "err".to_string(),
            }
        }
        "d1" | "d0" => {
            let (c, r) = remove_double_apply(x.clone(), parts[0] == "d1");
            ((c as u8).to_string(), r)
        }
        "s" => {
            let (c, r) = change_double_to_single_apply(x.clone());
            ((c as u8).to_string(), r)
        }
        "b" => {
            let (c, r) = brief_path_selection(x.clone());
            ((c as u8).to_string(), r)
        }
        "p" => {
            let mut s = Strategy23::new();
            match s.post_codegen_output_optimize(opts_for(23, mode, false, true), borrowed.clone()) {
                Ok(r) => ("-".to_string(), Rc::new(r)),
                Err(_) => return "err".to_string(),
            }
        }
        "f" => {
            let mut s = Strategy23::new();
            match s.post_codegen_function_optimize(
                &mut a,
                runner.clone(),
                opts_for(23, mode, false, true),
                None,
                x.clone(),
            ) {
                Ok(r) => ("-".to_string(), r),
                Err(_) => return "err".to_string(),
            }
        }
        _ => return "bad-input".to_string(),
    };
    let mut line = format!("{} {} |", chg, rich_string(out.borrow()));
    for h in &parts[3..] {
        let Some(e) = node_of_hex(&mut a, h) else {
            return "bad-input".to_string();
        };
        let before = cons_of(&mut a, x.clone(), e);
        let after = cons_of(&mut a, out.clone(), e);
        line.push_str(&format!(" {before} {after}"));
    }
    line
}

// --- recording the pass invocations of a real compilation --------------------------------

type Log = Rc<RefCell<Vec<(char, String, String)>>>;

struct Recorder {
    inner: Box<dyn Optimization>,
    log: Log,
}

impl Optimization for Recorder {
    fn frontend_optimization(
        &mut self,
        allocator: &mut Allocator,
        runner: Rc<dyn TRunProgram>,
        opts: Rc<dyn CompilerOpts>,
        cf: CompileForm,
    ) -> Result<CompileForm, CompileErr> {
        self.inner.frontend_optimization(allocator, runner, opts, cf)
    }
    fn post_desugar_optimization(
        &mut self,
        allocator: &mut Allocator,
        runner: Rc<dyn TRunProgram>,
        opts: Rc<dyn CompilerOpts>,
        cf: CompileForm,
    ) -> Result<CompileForm, CompileErr> {
        self.inner.post_desugar_optimization(allocator, runner, opts, cf)
    }
    fn start_of_codegen_optimization(
        &mut self,
        allocator: &mut Allocator,
        runner: Rc<dyn TRunProgram>,
        opts: Rc<dyn CompilerOpts>,
        to_optimize: StartOfCodegenOptimization,
    ) -> Result<StartOfCodegenOptimization, CompileErr> {
        self.inner.start_of_codegen_optimization(allocator, runner, opts, to_optimize)
    }
    fn macro_optimization(
        &mut self,
        allocator: &mut Allocator,
        runner: Rc<dyn TRunProgram>,
        opts: Rc<dyn CompilerOpts>,
        code: Rc<SExp>,
    ) -> Result<Rc<SExp>, CompileErr> {
        self.inner.macro_optimization(allocator, runner, opts, code)
    }
    fn defun_body_optimization(
        &mut self,
        allocator: &mut Allocator,
        runner: Rc<dyn TRunProgram>,
        opts: Rc<dyn CompilerOpts>,
        codegen: &PrimaryCodegen,
        defun: &DefunData,
    ) -> Result<Rc<BodyForm>, CompileErr> {
        self.inner.defun_body_optimization(allocator, runner, opts, codegen, defun)
    }
    fn post_codegen_function_optimize(
        &mut self,
        allocator: &mut Allocator,
        runner: Rc<dyn TRunProgram>,
        opts: Rc<dyn CompilerOpts>,
        helper: Option<&HelperForm>,
        code: Rc<SExp>,
    ) -> Result<Rc<SExp>, CompileErr> {
        let r = self
            .inner
            .post_codegen_function_optimize(allocator, runner, opts, helper, code.clone())?;
        self.log
            .borrow_mut()
            .push(('f', rich_string(code.borrow()), rich_string(r.borrow())));
        Ok(r)
    }
    fn pre_final_codegen_optimize(
        &mut self,
        allocator: &mut Allocator,
        runner: Rc<dyn TRunProgram>,
        opts: Rc<dyn CompilerOpts>,
        codegen: &PrimaryCodegen,
    ) -> Result<Rc<BodyForm>, CompileErr> {
        self.inner.pre_final_codegen_optimize(allocator, runner, opts, codegen)
    }
    fn post_codegen_output_optimize(
        &mut self,
        opts: Rc<dyn CompilerOpts>,
        generated: SExp,
    ) -> Result<SExp, CompileErr> {
        let r = self.inner.post_codegen_output_optimize(opts, generated.clone())?;
        self.log
            .borrow_mut()
            .push(('p', rich_string(&generated), rich_string(&r)));
        Ok(r)
    }
    fn duplicate(&self) -> Box<dyn Optimization> {
        Box::new(Recorder { inner: self.inner.duplicate(), log: self.log.clone() })
    }
}

fn rec_line(parts: &[&str]) -> String {
    if parts.len() != 3 {
        return "bad-input".to_string();
    }
    let b: Vec<bool> = parts[1].chars().map(|c| c == '1').collect();
    if b.len() != 2 {
        return "bad-input".to_string();
    }
    let Ok(src) = hex::decode(parts[2]) else {
        return "bad-input".to_string();
    };
    let Ok(text) = String::from_utf8(src) else {
        return "bad-input".to_string();
    };
    let mut a = Allocator::new();
    let Ok(assembled) = assemble(&mut a, &text) else {
        return "E assemble".to_string();
    };
    let dialect = detect_modern(&mut a, assembled);
    if dialect.stepping.is_none() {
        return "E no-sigil".to_string();
    }
    let mode = dialect.int_fix;
    let opts: Rc<dyn CompilerOpts> = Rc::new(DefaultCompilerOpts::new("*verif*.clsp"));
    let opts = opts.set_dialect(dialect).set_optimize(b[0]).set_frontend_opt(b[1]);
    // the body of compile_file, with the optimizer object wrapped
    let _int = NewStyleIntConversion::new(mode);
    let srcloc = Srcloc::start(&opts.filename());
    let pre_forms = match parse_sexp(srcloc.clone(), text.bytes()) {
        Ok(p) => p,
        Err(e) => return format!("E {}", one_line(&e.1)),
    };
    let inner = match get_optimizer(&srcloc, opts.clone()) {
        Ok(o) => o,
        Err(e) => return format!("E {}", one_line(&e.1)),
    };
    let log: Log = Rc::new(RefCell::new(Vec::new()));
    let runner: Rc<dyn TRunProgram> = Rc::new(DefaultProgramRunner::new());
    let mut symbols = HashMap::new();
    let res = {
        let mut wrapper = CompileContextWrapper::new(
            &mut a,
            runner,
            &mut symbols,
            Box::new(Recorder { inner, log: log.clone() }),
        );
        compile_pre_forms(&mut wrapper.context, opts, &pre_forms)
    };
    if let Err(e) = res {
        return format!("E {}", one_line(&e.1));
    }
    let mut out = format!("R {}", mode as u8);
    for (k, i, o) in RefCell::borrow(&log).iter() {
        out.push_str(&format!(" {k}:{i}:{o}"));
    }
    out
}

pub fn run(_args: &[String]) {
    each_line(|l| {
        let parts: Vec<&str> = l.split_whitespace().collect();
        if parts.is_empty() {
            return "bad-input".to_string();
        }
        if parts[0] == "rec" {
            rec_line(&parts)
        } else {
            pass_line(&parts)
        }
    });
}
