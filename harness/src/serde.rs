// `cvh serde` (C08): the classic (de)serialiser vs clvmr.
//
//   byte strings travel as a comma separated list of pieces, `x<hex>` (literal) and
//   `r<len>:<hh>` (len copies of byte hh); values as comma separated prefix tokens
//   `P` (pair, two values follow), `A<hex>` (atom), `R<len>:<hh>` (atom of len copies of hh).
//   Long results are summarised: `L<len>:<fnv1a-64>:<first 8 bytes>`.
//
//   `e <valspec>`   -> `<sexp_to_stream bytes> <clvmr node_to_bytes> <rt>`
//                      rt = `same` when sexp_from_stream(sexp_to_stream v) == v, else
//                      `diff:<consensus bytes of what came back>` or `err`
//   `d <bytespec>`  -> `<sexp_from_stream> <clvmr node_from_bytes> <hex_to_modern_sexp>`
//                      each `ok:<consensus bytes of the value>` or `err`
//   `D <bytespec>`  -> same, third field `-` (hex_to_modern_sexp is recursive and quadratic;
//                      skipped for deep inputs)
use std::collections::HashMap;

use crate::common::*;
use crate::rich::loc;
use chialisp::classic::clvm::__type_compatibility__::{Bytes, BytesFromType, Stream};
use chialisp::classic::clvm::serialize::{sexp_from_stream, sexp_to_stream, SimpleCreateCLVMObject};
use chialisp::classic::clvm::sexp::sexp_as_bin;
use chialisp::compiler::cldb::hex_to_modern_sexp;
use chialisp::compiler::clvm::convert_to_clvm_rs;
use clvmr::allocator::{Allocator, NodePtr, SExp};
use clvmr::serde::{node_from_bytes, node_to_bytes_limit};

pub fn fnv1a(b: &[u8]) -> u64 {
    let mut h: u64 = 0xcbf29ce484222325;
    for x in b {
        h ^= *x as u64;
        h = h.wrapping_mul(0x100000001b3);
    }
    h
}

pub fn summary(b: &[u8]) -> String {
    if b.len() <= 200 {
        format!("x{}", hex::encode(b))
    } else {
        format!("L{}:{:016x}:{}", b.len(), fnv1a(b), hex::encode(&b[..8]))
    }
}

pub fn parse_bytespec(s: &str) -> Option<Vec<u8>> {
    let mut out = Vec::new();
    for piece in s.split(',') {
        if let Some(h) = piece.strip_prefix('x') {
            out.extend(hex::decode(h).ok()?);
        } else if let Some(r) = piece.strip_prefix('r') {
            let (n, b) = r.split_once(':')?;
            let n: usize = n.parse().ok()?;
            let b = u8::from_str_radix(b, 16).ok()?;
            out.resize(out.len() + n, b);
        } else {
            return None;
        }
    }
    Some(out)
}

fn parse_val<'a, I: Iterator<Item = &'a str>>(a: &mut Allocator, toks: &mut I) -> Option<NodePtr> {
    // explicit stack: valspecs may be deep
    enum W {
        Need,
        Build,
    }
    let mut work = vec![W::Need];
    let mut vals: Vec<NodePtr> = Vec::new();
    while let Some(w) = work.pop() {
        match w {
            W::Need => {
                let t = toks.next()?;
                if t == "P" {
                    work.push(W::Build);
                    work.push(W::Need);
                    work.push(W::Need);
                } else if let Some(h) = t.strip_prefix('A') {
                    vals.push(a.new_atom(&hex::decode(h).ok()?).ok()?);
                } else if let Some(r) = t.strip_prefix('R') {
                    let (n, b) = r.split_once(':')?;
                    let n: usize = n.parse().ok()?;
                    let b = u8::from_str_radix(b, 16).ok()?;
                    vals.push(a.new_atom(&vec![b; n]).ok()?);
                } else {
                    return None;
                }
            }
            W::Build => {
                let d = vals.pop()?;
                let f = vals.pop()?;
                vals.push(a.new_pair(f, d).ok()?);
            }
        }
    }
    vals.pop()
}

fn consensus_bytes(a: &Allocator, n: NodePtr) -> Option<Vec<u8>> {
    node_to_bytes_limit(a, n, usize::MAX / 4).ok()
}

fn value_summary(a: &Allocator, n: NodePtr) -> String {
    match consensus_bytes(a, n) {
        Some(b) => summary(&b),
        None => "!ser".to_string(),
    }
}

/// structural equality without recursion
fn same_value(a: &Allocator, x: NodePtr, y: NodePtr) -> bool {
    let mut st = vec![(x, y)];
    while let Some((p, q)) = st.pop() {
        match (a.sexp(p), a.sexp(q)) {
            (SExp::Pair(pa, pd), SExp::Pair(qa, qd)) => {
                st.push((pa, qa));
                st.push((pd, qd));
            }
            (SExp::Atom, SExp::Atom) => {
                if a.atom(p).as_ref() != a.atom(q).as_ref() {
                    return false;
                }
            }
            _ => return false,
        }
    }
    true
}

fn classic_decode(a: &mut Allocator, b: &[u8]) -> Option<NodePtr> {
    let mut stream = Stream::new(Some(Bytes::new(Some(BytesFromType::Raw(b.to_vec())))));
    sexp_from_stream(a, &mut stream, Box::new(SimpleCreateCLVMObject {}))
        .ok()
        .map(|r| r.1)
}

pub fn run(_args: &[String]) {
    each_line(|l| {
        let parts: Vec<&str> = l.split_whitespace().collect();
        if parts.len() != 2 {
            return "bad-input".to_string();
        }
        let mut a = Allocator::new();
        match parts[0] {
            "e" => {
                let mut toks = parts[1].split(',');
                let Some(v) = parse_val(&mut a, &mut toks) else {
                    return "bad-input".to_string();
                };
                let mut f = Stream::new(None);
                sexp_to_stream(&mut a, v, &mut f);
                let enc = f.get_value().data().clone();
                let enc2 = sexp_as_bin(&mut a, v).data().clone();
                let cons = consensus_bytes(&a, v);
                let rt = match classic_decode(&mut a, &enc) {
                    Some(back) => {
                        if same_value(&a, v, back) {
                            "same".to_string()
                        } else {
                            format!("diff:{}", value_summary(&a, back))
                        }
                    }
                    None => "err".to_string(),
                };
                let mut out = format!(
                    "{} {} {}",
                    summary(&enc),
                    cons.map(|c| summary(&c)).unwrap_or_else(|| "!ser".to_string()),
                    rt
                );
                if enc2 != enc {
                    out.push_str(" !sexp_as_bin-differs");
                }
                out
            }
            "d" | "D" => {
                let Some(bs) = parse_bytespec(parts[1]) else {
                    return "bad-input".to_string();
                };
                let r1 = match classic_decode(&mut a, &bs) {
                    Some(v) => format!("ok:{}", value_summary(&a, v)),
                    None => "err".to_string(),
                };
                let r2 = match node_from_bytes(&mut a, &bs) {
                    Ok(v) => format!("ok:{}", value_summary(&a, v)),
                    Err(_) => "err".to_string(),
                };
                let r3 = if parts[0] == "D" {
                    "-".to_string()
                } else {
                    match hex_to_modern_sexp(&mut a, &HashMap::new(), loc(), &hex::encode(&bs)) {
                        Ok(s) => match convert_to_clvm_rs(&mut a, s) {
                            Ok(v) => format!("ok:{}", value_summary(&a, v)),
                            Err(_) => "err-conv".to_string(),
                        },
                        Err(_) => "err".to_string(),
                    }
                };
                format!("{r1} {r2} {r3}")
            }
            _ => "bad-input".to_string(),
        }
    });
}
