// `cvh unused`: the unused-argument check (`--check-unused-args`).
//   line:   `<source text hex>`
//   output: `U <comma separated sorted names reported unused>` (possibly empty) | `E <message>`
use std::rc::Rc;

use crate::common::*;
use crate::compile::one_line;
use chialisp::classic::clvm_tools::debug::check_unused;
use chialisp::compiler::compiler::DefaultCompilerOpts;

pub fn run(_args: &[String]) {
    each_line(|l| {
        let Ok(b) = hex::decode(l.trim()) else { return "bad-input".to_string() };
        let Ok(text) = String::from_utf8(b) else { return "bad-input".to_string() };
        let opts = Rc::new(DefaultCompilerOpts::new("*verif*.clsp"));
        match check_unused(opts, &text) {
            Ok((_ok, out)) => {
                let mut names: Vec<String> = out
                    .lines()
                    .filter_map(|x| x.strip_prefix(" - ").map(|s| s.to_string()))
                    .collect();
                names.sort();
                format!("U {}", names.join(","))
            }
            Err(e) => format!("E {}", one_line(&e.1)),
        }
    });
}
