// `cvh cldb` (C12): the debugger's row stream (`CldbRun::step` loop as in the `cldb` command,
// `CldbRunEnv` + `CldbNoOverride`, plain view) next to the consensus evaluator.
//   `<mode 0|1> <s|x> <rich prog> <rich env>`
//        s = the rich values are handed to `start_step` as they are (source-supplied)
//        x = the values are serialised and read back with `hex_to_modern_sexp` (`cldb -x`)
//     -> `<row>;<row>;…[;timeout] | <consensus>`
//        row = comma separated fields, present when the key is in the row's map:
//          R=<Row> O=<hex of the Operator string> A=<…Arguments> V=<…Value> F=<…Final> P=<…Print>
//          X (Failure present)  T (Throw present)
//          and, for the oracle only, the CLVM hex of the strings parsed back with the compiler's reader:
//          o=<hex> a=<hex> v=<hex> f=<hex>   (`!` when the string does not parse)
use std::collections::{BTreeMap, HashMap};
use std::rc::Rc;

use crate::common::*;
use crate::rich::*;
use crate::step::{consensus_limited, STEP_LIMIT};
use chialisp::classic::clvm_tools::stages::stage_0::{DefaultProgramRunner, TRunProgram};
use chialisp::compiler::cldb::{hex_to_modern_sexp, CldbNoOverride, CldbRun, CldbRunEnv};
use chialisp::compiler::clvm::{convert_to_clvm_rs, start_step, NewStyleIntConversion};
use chialisp::compiler::prims::prim_map;
use chialisp::compiler::sexp::{parse_sexp, SExp};
use chialisp::compiler::srcloc::Srcloc;
use clvmr::allocator::Allocator;

fn parse_back(s: &str) -> String {
    match parse_sexp(Srcloc::start("*row*"), s.bytes()) {
        Ok(v) if v.len() == 1 => {
            let mut a = Allocator::new();
            match convert_to_clvm_rs(&mut a, v[0].clone()) {
                Ok(n) => hex_of_node(&a, n),
                Err(_) => "!".to_string(),
            }
        }
        _ => "!".to_string(),
    }
}

fn show_row(row: &BTreeMap<String, String>) -> String {
    let mut f: Vec<String> = Vec::new();
    if let Some(r) = row.get("Row") {
        f.push(format!("R={r}"));
    }
    for (key, tag, low) in [
        ("Operator", "O", "o"),
        ("Arguments", "A", "a"),
        ("Value", "V", "v"),
        ("Final", "F", "f"),
        ("Print", "P", ""),
    ] {
        if let Some(s) = row.get(key) {
            f.push(format!("{tag}={}", hex::encode(s.as_bytes())));
            if !low.is_empty() {
                f.push(format!("{low}={}", parse_back(s)));
            }
        }
    }
    if row.contains_key("Failure") {
        f.push("X".to_string());
    }
    if row.contains_key("Throw") {
        f.push("T".to_string());
    }
    f.join(",")
}

fn through_hex(s: Rc<SExp>) -> Option<Rc<SExp>> {
    let mut a = Allocator::new();
    let n = convert_to_clvm_rs(&mut a, s).ok()?;
    let h = hex_of_node(&a, n);
    hex_to_modern_sexp(&mut a, &HashMap::new(), Srcloc::start("*hex*"), &h).ok()
}

pub fn run(_args: &[String]) {
    each_line(|l| {
        let parts: Vec<&str> = l.split_whitespace().collect();
        if parts.len() != 4 {
            return "bad-input".to_string();
        }
        let _mode = NewStyleIntConversion::new(parts[0] == "1");
        let (Some(p), Some(e)) = (dec_rich(parts[2]), dec_rich(parts[3])) else {
            return "bad-input".to_string();
        };
        let (mut p, mut e) = (Rc::new(p), Rc::new(e));
        let mut a2 = Allocator::new();
        let right = match (convert_to_clvm_rs(&mut a2, p.clone()), convert_to_clvm_rs(&mut a2, e.clone())) {
            (Ok(pn), Ok(en)) => consensus_limited(&mut a2, pn, en),
            _ => "fail".to_string(),
        };
        if parts[1] == "x" {
            match (through_hex(p.clone()), through_hex(e.clone())) {
                (Some(p2), Some(e2)) => {
                    p = p2;
                    e = e2;
                }
                _ => return "hex-error".to_string(),
            }
        }
        let mut a = Allocator::new();
        let runner: Rc<dyn TRunProgram> = Rc::new(DefaultProgramRunner::new());
        let env = CldbRunEnv::new(None, Rc::new(Vec::new()), Box::new(CldbNoOverride::new()));
        let mut cldbrun = CldbRun::new(runner, prim_map(), Box::new(env), start_step(p, e));
        let mut rows: Vec<String> = Vec::new();
        let mut steps = 0;
        loop {
            if cldbrun.is_ended() {
                break;
            }
            if steps >= STEP_LIMIT {
                rows.push("timeout".to_string());
                break;
            }
            steps += 1;
            if let Some(row) = cldbrun.step(&mut a) {
                rows.push(show_row(&row));
            }
        }
        format!("{} | {right}", rows.join(";"))
    });
}
