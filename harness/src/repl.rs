// `cvh repl`: one REPL session per protocol line.
//   line:   `<input line as hex>+`   (each field is one line typed into the REPL)
//   output: result of the LAST input line: `R <printed residual as hex>` | `N` (no result) | `E <message>`
//           (an error on an earlier line is reported as `E@<index> <message>`)
use std::rc::Rc;

use crate::common::*;
use crate::compile::one_line;
use chialisp::classic::clvm_tools::stages::stage_0::DefaultProgramRunner;
use chialisp::compiler::compiler::DefaultCompilerOpts;
use chialisp::compiler::repl::Repl;
use clvmr::allocator::Allocator;

pub fn run(_args: &[String]) {
    each_line(|l| {
        let parts: Vec<&str> = l.split_whitespace().collect();
        if parts.is_empty() {
            return "bad-input".to_string();
        }
        let mut a = Allocator::new();
        let opts = Rc::new(DefaultCompilerOpts::new("*repl*"));
        let runner = Rc::new(DefaultProgramRunner::new());
        let mut repl = Repl::new(opts, runner);
        let mut last = "N".to_string();
        for (i, h) in parts.iter().enumerate() {
            let Ok(b) = hex::decode(h) else { return "bad-input".to_string() };
            let Ok(t) = String::from_utf8(b) else { return "bad-input".to_string() };
            match repl.process_line(&mut a, t) {
                Ok(Some(bf)) => {
                    last = format!("R {}", hex::encode(bf.to_sexp().to_string().as_bytes()));
                }
                Ok(None) => {
                    last = "N".to_string();
                }
                Err(e) => {
                    if i + 1 == parts.len() {
                        return format!("E {}", one_line(&e.1));
                    }
                    return format!("E@{} {}", i, one_line(&e.1));
                }
            }
        }
        last
    });
}
