// `cvh repl`: one REPL session per protocol line.
//   line:   `<input line as hex>+`   (each field is one line typed into the REPL)
//   output: result of the LAST input line: `R <printed residual as hex>` | `N` (no result) | `E <message>`
//           (an error on an earlier line is reported as `E@<index> <message>`)
//   `cvh repl clvm`: `R <printed residual as hex> <to_sexp() tree as serialised CLVM hex>` (the tree itself,
//           not its re-read text: atoms that print like numbers keep their bytes)
use std::rc::Rc;

use crate::common::*;
use crate::compile::one_line;
use chialisp::classic::clvm_tools::stages::stage_0::DefaultProgramRunner;
use chialisp::compiler::compiler::DefaultCompilerOpts;
use chialisp::compiler::repl::Repl;
use clvmr::allocator::Allocator;

pub fn run(args: &[String]) {
    let with_clvm = args.iter().any(|a| a == "clvm");
    each_line(|l| {
        let parts: Vec<&str> = l.split_whitespace().collect();
        if parts.is_empty() {
            return "bad-input".to_string();
        }
        let mut a = Allocator::new();
        let opts = Rc::new(DefaultCompilerOpts::new("*repl*"));
        let runner = Rc::new(DefaultProgramRunner::new());
        let mut repl = Repl::new(opts, runner);
        let mut last = "N".to_string();
        for (i, h) in parts.iter().enumerate() {
            let Ok(b) = hex::decode(h) else { return "bad-input".to_string() };
            let Ok(t) = String::from_utf8(b) else { return "bad-input".to_string() };
            match repl.process_line(&mut a, t) {
                Ok(Some(bf)) => {
                    last = format!("R {}", hex::encode(bf.to_sexp().to_string().as_bytes()));
                    if with_clvm {
                        let mut b = Allocator::new();
                        match chialisp::compiler::clvm::convert_to_clvm_rs(&mut b, bf.to_sexp()) {
                            Ok(n) => last = format!("{} {}", last, hex_of_node(&b, n)),
                            Err(_) => last = format!("{} unconvertible", last),
                        }
                    }
                }
                Ok(None) => {
                    last = "N".to_string();
                }
                Err(e) => {
                    if i + 1 == parts.len() {
                        return format!("E {}", one_line(&e.1));
                    }
                    return format!("E@{} {}", i, one_line(&e.1));
                }
            }
        }
        last
    });
}
