// `cvh opt` (C04): the classic CLVM-level optimiser on arbitrary CLVM.
//   line: `o <prog hex> <env hex>*`
//   out : `<A> <B> <C>[ ; <before> <after>]*`
//     A = optimize_sexp with DefaultProgramRunner (what the modern compiler passes to run_optimizer)
//     B = optimize_sexp with the stage_2 runner (run_program_for_search_paths, what `opt`/do_com use)
//     C = compiler::optimize::run_optimizer (rich SExp in, rich SExp out) with DefaultProgramRunner
//     each `ok:<hex>` | `err`
//     for every env: consensus value of the ORIGINAL program, consensus value of A's output
//     (`ok:<hex>` | `fail`, `-` when A is `err`)
//   line: `n <atom hex> f|r` -> hex of `NodePath::new(number_from_u8(atom)).add(first/rest).as_path()`
//   line: `p <pattern fn name> <pattern text>` -> hex of `assemble(text)` (ties the model's pattern
//         constants to the strings in optimize.rs, which the check extracts from the source)
use std::rc::Rc;

use crate::common::*;
use chialisp::classic::clvm_tools::node_path::NodePath;
use chialisp::classic::clvm_tools::binutils::assemble;
use chialisp::classic::clvm_tools::stages::stage_0::{DefaultProgramRunner, TRunProgram};
use chialisp::classic::clvm_tools::stages::stage_2::operators::run_program_for_search_paths;
use chialisp::classic::clvm_tools::stages::stage_2::optimize::optimize_sexp;
use chialisp::compiler::clvm::{convert_from_clvm_rs, convert_to_clvm_rs};
use chialisp::compiler::optimize::run_optimizer;
use chialisp::compiler::srcloc::Srcloc;
use chialisp::util::number_from_u8;
use clvmr::allocator::{Allocator, NodePtr};

fn okhex(a: &Allocator, r: Result<NodePtr, ()>) -> String {
    match r {
        Ok(n) => format!("ok:{}", hex_of_node(a, n)),
        Err(_) => "err".to_string(),
    }
}

fn cons_line(a: &mut Allocator, p: NodePtr, e: NodePtr) -> String {
    match run_consensus(a, p, e) {
        Ok(v) => format!("ok:{}", hex_of_node(a, v)),
        Err(_) => "fail".to_string(),
    }
}

fn opt_line(parts: &[&str]) -> String {
    if parts.is_empty() {
        return "bad-input".to_string();
    }
    let mut a = Allocator::new();
    let Some(p) = node_of_hex(&mut a, parts[0]) else {
        return "bad-input".to_string();
    };
    let mut envs = vec![];
    for h in &parts[1..] {
        match node_of_hex(&mut a, h) {
            Some(e) => envs.push(e),
            None => return "bad-input".to_string(),
        }
    }
    // A: the way run_optimizer does it
    let runner: Rc<dyn TRunProgram> = Rc::new(DefaultProgramRunner::new());
    let ra = optimize_sexp(&mut a, p, runner.clone()).map_err(|_| ());
    let sa = okhex(&a, ra);
    // B: stage_2 runner (fresh allocator so that nothing is shared with A)
    let sb = {
        let mut b = Allocator::new();
        let pb = node_of_hex(&mut b, parts[0]).unwrap();
        let r2 = run_program_for_search_paths("*verif*", &[], false);
        let rb = optimize_sexp(&mut b, pb, r2).map_err(|_| ());
        okhex(&b, rb)
    };
    // C: run_optimizer on the rich form
    let sc = {
        let mut c = Allocator::new();
        let pc = node_of_hex(&mut c, parts[0]).unwrap();
        match convert_from_clvm_rs(&mut c, Srcloc::start("*verif*"), pc) {
            Err(_) => "err-conv".to_string(),
            Ok(rich) => {
                let runner: Rc<dyn TRunProgram> = Rc::new(DefaultProgramRunner::new());
                match run_optimizer(&mut c, runner, rich) {
                    Err(_) => "err".to_string(),
                    Ok(out) => match convert_to_clvm_rs(&mut c, out) {
                        Ok(n) => format!("ok:{}", hex_of_node(&c, n)),
                        Err(_) => "err-conv".to_string(),
                    },
                }
            }
        }
    };
    let mut out = format!("{sa} {sb} {sc}");
    for e in envs {
        let before = cons_line(&mut a, p, e);
        let after = match ra {
            Ok(o) => cons_line(&mut a, o, e),
            Err(_) => "-".to_string(),
        };
        out.push_str(&format!(" ; {before} {after}"));
    }
    out
}

fn np_line(parts: &[&str]) -> String {
    if parts.len() != 2 {
        return "bad-input".to_string();
    }
    let Ok(b) = hex::decode(parts[0]) else {
        return "bad-input".to_string();
    };
    let n = number_from_u8(&b);
    let base = NodePath::new(Some(n));
    let step = match parts[1] {
        "f" => NodePath::new(None).first(),
        "r" => NodePath::new(None).rest(),
        _ => return "bad-input".to_string(),
    };
    hex::encode(base.add(step).as_path().data())
}

fn pat_line(parts: &[&str]) -> String {
    if parts.len() < 2 {
        return "bad-input".to_string();
    }
    let text = parts[1..].join(" ");
    let mut a = Allocator::new();
    match assemble(&mut a, &text) {
        Ok(n) => hex_of_node(&a, n),
        Err(_) => "err".to_string(),
    }
}

fn one_line(l: &str) -> String {
    let parts: Vec<&str> = l.split_whitespace().collect();
    match parts.first().copied() {
        Some("o") => opt_line(&parts[1..]),
        Some("n") => np_line(&parts[1..]),
        Some("p") => pat_line(&parts[1..]),
        _ => "bad-input".to_string(),
    }
}

// like common::each_line, but the output is flushed after every line: the optimiser can abort
// the process (stack overflow), and the driver attributes the abort to the first line without
// an answer.
pub fn run(_args: &[String]) {
    use std::io::{BufRead, Write};
    let stdin = std::io::stdin();
    let stdout = std::io::stdout();
    let mut out = stdout.lock();
    std::panic::set_hook(Box::new(|_| {}));
    for line in stdin.lock().lines() {
        let line = line.unwrap();
        let r = std::panic::catch_unwind(std::panic::AssertUnwindSafe(|| one_line(line.trim())));
        match r {
            Ok(s) => writeln!(out, "{s}").unwrap(),
            Err(_) => writeln!(out, "panic").unwrap(),
        }
        out.flush().unwrap();
    }
}
