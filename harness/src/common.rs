#![allow(dead_code)]
use std::io::{self, BufRead, Write};
use std::rc::Rc;

use chialisp::classic::clvm_tools::stages::stage_0::{DefaultProgramRunner, TRunProgram};
use clvmr::allocator::{Allocator, NodePtr};
use clvmr::serde::{node_from_bytes, node_to_bytes};

pub use clvmr;

/// run `f` on each stdin line, print the returned line; panics inside `f` become `panic`.
pub fn each_line<F: FnMut(&str) -> String>(mut f: F) {
    let stdin = io::stdin();
    let stdout = io::stdout();
    let mut out = io::BufWriter::new(stdout.lock());
    std::panic::set_hook(Box::new(|_| {}));
    for line in stdin.lock().lines() {
        let line = line.unwrap();
        let r = std::panic::catch_unwind(std::panic::AssertUnwindSafe(|| f(line.trim())));
        match r {
            Ok(s) => writeln!(out, "{s}").unwrap(),
            Err(_) => writeln!(out, "panic").unwrap(),
        }
    }
    out.flush().unwrap();
}

/// consensus decoding of a hex value (clvmr), so the harness input path does not depend on
/// the code under test.
pub fn node_of_hex(a: &mut Allocator, h: &str) -> Option<NodePtr> {
    let b = hex::decode(h).ok()?;
    node_from_bytes(a, &b).ok()
}

pub fn hex_of_node(a: &Allocator, n: NodePtr) -> String {
    match node_to_bytes(a, n) {
        Ok(b) => hex::encode(b),
        Err(_) => "!ser".to_string(),
    }
}

pub fn run_consensus(a: &mut Allocator, p: NodePtr, e: NodePtr) -> Result<NodePtr, String> {
    let runner = DefaultProgramRunner::new();
    runner
        .run_program(a, p, e, None)
        .map(|r| r.1)
        .map_err(|e| format!("{e:?}"))
}

pub fn consensus_line(a: &mut Allocator, p: NodePtr, e: NodePtr) -> String {
    match run_consensus(a, p, e) {
        Ok(v) => format!("ok {}", hex_of_node(a, v)),
        Err(_) => "fail".to_string(),
    }
}
