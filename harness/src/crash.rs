// `cvh crash <work dir> [<per-case limit ms>]` (C14): every tool entry point on one input,
// in-process, on the real library.  One protocol line per case, one output line per case.
//
//   line:    `<entry point> <hex input> [<hex second input>]`   (`-` = empty input)
//   output:  `ok [detail]` | `err [detail]` | `out <hex of the first bytes the tool printed>` |
//            `bad-input` | `panic <file>:<line> <hex message>`
//
// A panic anywhere (also in helper threads of `launch_tool`) is caught: the panic hook records
// the first panic `Location` of the case.  An abort (stack overflow, allocation failure) kills
// this process: the python side (`lib._run_chunk`) attributes it to the line that has no output
// and restarts after it.  A watchdog thread `_exit(124)`s when one case exceeds the wall-clock
// limit, which is attributed the same way (`abort rc=124` = timeout).  A stack overflow on the main
// thread is caught by a SIGSEGV handler on an alternate stack that writes `segv <addresses>` (the
// top return addresses, resolved by the check with `nm`) as the case's output line and exits 125.
//
// The process `chdir`s into the work dir (prepared by tools/props/c14.py with include files),
// uses it as the only search path, writes its own temp files there (`case-<pid>.*`) and sends
// fd 1 / fd 2 to /dev/null (the tools `println!`); the protocol goes to a dup of the old fd 1.
//
// entry points (the property's list):
//   cf      compile_file, dialect detected as compile_clvm_text does  -> `ok` | `classic` | `unreadable` |
//           `err <hex file> <line>,<col>,<until> <hex msg>`           (location oracle)
//   ct ct1  compile_clvm_text (classic_with_opts = false / true): classic AND modern compilers
//   cfile   compile_clvm (file to file; the input bytes need not be UTF-8)
//   asm     binutils::assemble            opc   call_tool("opc")
//   dis     sexp_from_stream + disassemble (versions None, 0)    opd   call_tool("opd") on hex text
//   des     sexp_from_stream on raw bytes   hexm  hex_to_modern_sexp on text
//   run     launch_tool run <text>          runf  launch_tool run <file> (bytes written to a file)
//   brun    launch_tool brun <text> <env>   brunx brun -x   brunv brun -v   brunt brun -t
//   cldb    cmds::cldb <text> <env>         cldbx cldb -x   cldbt cldb -t   cldbp cldb -p
//   pre     launch_tool run -E
//   dep     gather_dependencies + launch_tool run -M <file>
//   unused  check_unused + launch_tool run --check-unused-args
//   repl    Repl::process_line per field (multi-line accumulation)
//           -> `ok <N|R>` | `err <index> <hex file> <loc> <hex msg>`
//   replt   the same as a per-line trace for the correspondence with `modeld replline`
// every output line ends in ` @<cpu microseconds the case took>` (budgeting aid, not compared)
use std::borrow::Borrow;
use std::collections::HashMap;
use std::io::{BufRead, Write};
use std::os::unix::io::FromRawFd;
use std::rc::Rc;
use std::sync::atomic::{AtomicU64, Ordering};
use std::sync::Mutex;

use chialisp::classic::clvm::__type_compatibility__::{Bytes, BytesFromType, Stream};
use chialisp::classic::clvm::serialize::{sexp_from_stream, SimpleCreateCLVMObject};
use chialisp::classic::clvm_tools::binutils::{assemble, assemble_from_ir, disassemble};
use chialisp::classic::clvm_tools::clvmc::{compile_clvm, compile_clvm_text};
use chialisp::classic::clvm_tools::cmds::{call_tool, cldb, launch_tool};
use chialisp::classic::clvm_tools::debug::check_unused;
use chialisp::classic::clvm_tools::ir::reader::read_ir;
use chialisp::classic::clvm::OPERATORS_LATEST_VERSION;
use chialisp::classic::clvm_tools::stages::stage_0::{DefaultProgramRunner, RunProgramOption, TRunProgram};
use chialisp::compiler::clvm::convert_to_clvm_rs;
use chialisp::compiler::sexp::parse_sexp;
use clvmr::allocator::NodePtr;
use clvmr::serde::node_from_bytes;
use chialisp::compiler::cldb::hex_to_modern_sexp;
use chialisp::compiler::compiler::{compile_file, DefaultCompilerOpts};
use chialisp::compiler::comptypes::{CompileErr, CompilerOpts};
use chialisp::compiler::dialect::detect_modern;
use chialisp::compiler::preprocessor::gather_dependencies;
use chialisp::compiler::repl::Repl;
use chialisp::compiler::srcloc::Srcloc;
use clvmr::allocator::Allocator;

pub const INPUT_NAME: &str = "*verif-input*";
/// cost bound handed to `run` / `brun` (`-m`): a diverging USER program is not a tool hang
const MAX_COST: &str = "60000000";

static PANIC_INFO: Mutex<Option<(String, u32, String)>> = Mutex::new(None);
/// wall-clock deadline of the running case in ms since start (0 = none)
static DEADLINE: AtomicU64 = AtomicU64::new(0);
/// CPU-time deadline of the running case in us of process CPU time (0 = none)
static CPU_DEADLINE: AtomicU64 = AtomicU64::new(0);

fn hex_arg(s: &str) -> Option<Vec<u8>> {
    if s == "-" {
        Some(Vec::new())
    } else {
        hex::decode(s).ok()
    }
}

fn text_arg(s: &str) -> Option<String> {
    String::from_utf8(hex_arg(s)?).ok()
}

fn short(s: &str) -> String {
    let b = s.as_bytes();
    hex::encode(&b[..b.len().min(48)])
}

fn loc_str(l: &Srcloc) -> String {
    let f: &String = l.file.borrow();
    let u = match &l.until {
        None => "-".to_string(),
        Some(u) => format!("{},{}", u.line, u.col),
    };
    format!("{} {},{},{}", hex::encode(f.as_bytes()), l.line, l.col, u)
}

fn cerr_str(e: &CompileErr) -> String {
    format!("{} {}", loc_str(&e.0), hex::encode(e.1.as_bytes()))
}

struct Ctx {
    dir: String,
    pid: u32,
}

impl Ctx {
    fn tmp(&self, ext: &str) -> String {
        format!("{}/case-{}.{}", self.dir, self.pid, ext)
    }

    fn opts(&self, name: &str) -> Rc<dyn CompilerOpts> {
        let o: Rc<dyn CompilerOpts> = Rc::new(DefaultCompilerOpts::new(name));
        o.set_search_paths(std::slice::from_ref(&self.dir))
    }

    fn tool(&self, tool: &str, stage: u32, extra: &[&str], pos: &[&str]) -> String {
        let mut args: Vec<String> = vec![tool.to_string()];
        args.push("-i".to_string());
        args.push(self.dir.clone());
        args.push("--symbol-output-file".to_string());
        args.push(self.tmp("sym"));
        args.push("-m".to_string());
        args.push(MAX_COST.to_string());
        for e in extra {
            args.push(e.to_string());
        }
        for p in pos {
            args.push(p.to_string());
        }
        let mut s = Stream::new(None);
        launch_tool(&mut s, &args, tool, stage);
        format!("out {}", short(&s.get_value().decode()))
    }

    fn cldb(&self, extra: &[&str], pos: &[&str]) -> String {
        let mut args: Vec<String> = vec!["cldb".to_string(), "-i".to_string(), self.dir.clone()];
        for e in extra {
            args.push(e.to_string());
        }
        for p in pos {
            args.push(p.to_string());
        }
        cldb(&args);
        "ok".to_string()
    }
}

fn compile_file_line(cx: &Ctx, src: &str) -> String {
    let mut a = Allocator::new();
    let Ok(ir) = read_ir(src) else {
        return "unreadable".to_string();
    };
    let Ok(assembled) = assemble_from_ir(&mut a, Rc::new(ir)) else {
        return "unreadable".to_string();
    };
    let dialect = detect_modern(&mut a, assembled);
    let Some(stepping) = dialect.stepping else {
        return "classic".to_string();
    };
    let runner = Rc::new(DefaultProgramRunner::new());
    let opts = cx
        .opts(INPUT_NAME)
        .set_dialect(dialect)
        .set_optimize(true)
        .set_frontend_opt(stepping == 22);
    let mut syms = HashMap::new();
    match compile_file(&mut a, runner, opts, src, &mut syms) {
        Ok(_) => "ok".to_string(),
        Err(e) => format!("err {}", cerr_str(&e)),
    }
}

/// `cldb` steps the USER's program without any cost limit, so a program that does not
/// terminate keeps the debugger busy for ever by design.  Such inputs are recognised beforehand
/// (same compile as `cldb` does, then the consensus evaluator under a cost limit) and skipped.
fn user_program_diverges(cx: &Ctx, text: &str, env: &str, hexmode: bool) -> bool {
    let mut a = Allocator::new();
    let (prog, envn) = if hexmode {
        let (Some(p), Some(e)) = (
            hex::decode(text.trim()).ok().and_then(|b| node_from_bytes(&mut a, &b).ok()),
            hex::decode(env.trim()).ok().and_then(|b| node_from_bytes(&mut a, &b).ok()),
        ) else {
            return false;
        };
        (p, e)
    } else {
        let Ok(ir) = read_ir(text) else { return false };
        let Ok(assembled) = assemble_from_ir(&mut a, Rc::new(ir)) else { return false };
        let dialect = detect_modern(&mut a, assembled);
        let mut opts = cx.opts("*command*").set_dialect(dialect.clone());
        if let Some(stepping) = dialect.stepping {
            opts = opts.set_optimize(stepping > 22).set_frontend_opt(stepping == 22);
        }
        let runner = Rc::new(DefaultProgramRunner::new());
        let mut syms = HashMap::new();
        let Ok(compiled) = compile_file(&mut a, runner, opts, text, &mut syms) else { return false };
        let Ok(p) = convert_to_clvm_rs(&mut a, Rc::new(compiled)) else { return false };
        let Ok(forms) = parse_sexp(Srcloc::start("*args*"), env.bytes()) else { return false };
        let e = if forms.is_empty() {
            NodePtr::NIL
        } else {
            let Ok(e) = convert_to_clvm_rs(&mut a, forms[0].clone()) else { return false };
            e
        };
        (p, e)
    };
    let runner = DefaultProgramRunner::new();
    let r = runner.run_program(
        &mut a,
        prog,
        envn,
        Some(RunProgramOption {
            max_cost: Some(20000000),
            pre_eval_f: None,
            strict: false,
            operators_version: OPERATORS_LATEST_VERSION,
        }),
    );
    match r {
        Ok(_) => false,
        Err(e) => format!("{e:?} {e}").to_lowercase().contains("cost"),
    }
}

fn repl_line(parts: &[&str]) -> String {
    let mut a = Allocator::new();
    let opts = Rc::new(DefaultCompilerOpts::new("*repl*"));
    let runner = Rc::new(DefaultProgramRunner::new());
    let mut repl = Repl::new(opts, runner);
    let mut last = "N";
    let mut errs: Vec<String> = Vec::new();
    for (i, h) in parts.iter().enumerate() {
        let Some(t) = text_arg(h) else {
            return "bad-input".to_string();
        };
        match repl.process_line(&mut a, t) {
            Ok(Some(_)) => last = "R",
            Ok(None) => last = "N",
            Err(e) => {
                last = "E";
                if errs.len() < 4 {
                    errs.push(format!("{} {}", i, cerr_str(&e)));
                }
            }
        }
    }
    if errs.is_empty() {
        format!("ok {last}")
    } else {
        // the session goes on after an error, as the real REPL does
        format!("err {}", errs.join(" | "))
    }
}

/// `replt`: the REPL line by line, one token per typed line (compared with `modeld replline`):
/// `N` = Ok(None), `R` = Ok(Some), `E:<line>,<col>,<until>:<hex msg>`; a panic ends the session
/// (the tokens so far are lost: the output is the `panic` line).
fn repl_trace(parts: &[&str]) -> String {
    let mut a = Allocator::new();
    let opts = Rc::new(DefaultCompilerOpts::new("*repl*"));
    let runner = Rc::new(DefaultProgramRunner::new());
    let mut repl = Repl::new(opts, runner);
    let mut toks: Vec<String> = Vec::new();
    for h in parts.iter() {
        let Some(t) = text_arg(h) else {
            return "bad-input".to_string();
        };
        let r = std::panic::catch_unwind(std::panic::AssertUnwindSafe(|| repl.process_line(&mut a, t)));
        match r {
            Err(_) => {
                toks.push("P".to_string());
                if let Ok(mut g) = PANIC_INFO.lock() {
                    // an expected outcome of this entry point: reported as the token, judged by the check
                    let site = g
                        .clone()
                        .map(|x| format!("{}:{}:{}", x.0, x.1, hex::encode(x.2.as_bytes())))
                        .unwrap_or_default();
                    toks.push(format!("@{site}"));
                    *g = None;
                }
                break;
            }
            Ok(Ok(Some(_))) => toks.push("R".to_string()),
            Ok(Ok(None)) => toks.push("N".to_string()),
            Ok(Err(e)) => {
                let u = match &e.0.until {
                    None => "-".to_string(),
                    Some(u) => format!("{},{}", u.line, u.col),
                };
                toks.push(format!("E:{},{},{}:{}", e.0.line, e.0.col, u, hex::encode(e.1.as_bytes())));
            }
        }
    }
    format!("trace {}", toks.join(" "))
}

fn one_case(cx: &Ctx, l: &str) -> String {
    let parts: Vec<&str> = l.split_whitespace().collect();
    if parts.len() < 2 {
        return "bad-input".to_string();
    }
    let ep = parts[0];
    if ep == "repl" {
        return repl_line(&parts[1..]);
    }
    if ep == "replt" {
        return repl_trace(&parts[1..]);
    }
    let Some(bytes) = hex_arg(parts[1]) else {
        return "bad-input".to_string();
    };
    let second: Option<String> = if parts.len() > 2 { text_arg(parts[2]) } else { None };
    let env = second.clone().unwrap_or_else(|| "()".to_string());
    // byte-level entry points
    match ep {
        "des" => {
            let mut a = Allocator::new();
            let mut stream = Stream::new(Some(Bytes::new(Some(BytesFromType::Raw(bytes)))));
            return match sexp_from_stream(&mut a, &mut stream, Box::new(SimpleCreateCLVMObject {})) {
                Ok(_) => "ok".to_string(),
                Err(_) => "err".to_string(),
            };
        }
        "dis" => {
            let mut a = Allocator::new();
            let mut stream = Stream::new(Some(Bytes::new(Some(BytesFromType::Raw(bytes)))));
            return match sexp_from_stream(&mut a, &mut stream, Box::new(SimpleCreateCLVMObject {})) {
                Ok(x) => {
                    let t0 = disassemble(&a, x.1, None);
                    let t1 = disassemble(&a, x.1, Some(0));
                    format!("ok {}", t0.len() + t1.len())
                }
                Err(_) => "err".to_string(),
            };
        }
        "cfile" | "runf" | "dep" => {
            let path = cx.tmp("clsp");
            if std::fs::write(&path, &bytes).is_err() {
                return "bad-input".to_string();
            }
            let r = match ep {
                "cfile" => {
                    let outp = cx.tmp("hex");
                    let _ = std::fs::remove_file(&outp);
                    let mut st = HashMap::new();
                    let r = compile_clvm(&path, &outp, std::slice::from_ref(&cx.dir), &mut st);
                    let _ = std::fs::remove_file(&outp);
                    match r {
                        Ok(_) => "ok".to_string(),
                        Err(_) => "err".to_string(),
                    }
                }
                "runf" => cx.tool("run", 2, &[], &[&path]),
                _ => {
                    let api = match String::from_utf8(bytes.clone()) {
                        Ok(text) => match gather_dependencies(cx.opts(&path), &path, &text) {
                            Ok(v) => format!("ok {}", v.len()),
                            Err(e) => format!("err {}", cerr_str(&e)),
                        },
                        Err(_) => "nonutf8".to_string(),
                    };
                    let t = cx.tool("run", 2, &["-M"], &[&path]);
                    format!("{api} | {t}")
                }
            };
            let _ = std::fs::remove_file(&path);
            let _ = std::fs::remove_file(cx.tmp("sym"));
            return r;
        }
        _ => {}
    }
    // text-level entry points
    let Ok(text) = String::from_utf8(bytes) else {
        return "bad-input".to_string();
    };
    let r = match ep {
        "cf" => compile_file_line(cx, &text),
        "ct" | "ct1" => {
            let mut a = Allocator::new();
            let mut st = HashMap::new();
            match compile_clvm_text(&mut a, cx.opts(INPUT_NAME), &mut st, &text, INPUT_NAME, ep == "ct1") {
                Ok(_) => "ok".to_string(),
                Err(e) => format!("err {}", short(&e.format(&a, cx.opts(INPUT_NAME)))),
            }
        }
        "asm" => {
            let mut a = Allocator::new();
            match assemble(&mut a, &text) {
                Ok(_) => "ok".to_string(),
                Err(_) => "err".to_string(),
            }
        }
        "opc" | "opd" => {
            let mut a = Allocator::new();
            let mut s = Stream::new(None);
            match call_tool(&mut s, &mut a, ep, &[ep.to_string(), text.clone()]) {
                Ok(_) => format!("out {}", short(&s.get_value().decode())),
                Err(e) => format!("err {}", short(&e)),
            }
        }
        "hexm" => {
            let mut a = Allocator::new();
            match hex_to_modern_sexp(&mut a, &HashMap::new(), Srcloc::start("*hex*"), &text) {
                Ok(_) => "ok".to_string(),
                Err(_) => "err".to_string(),
            }
        }
        "run" => cx.tool("run", 2, &[], &[&text]),
        "brun" => cx.tool("brun", 0, &[], &[&text, &env]),
        "brunx" => cx.tool("brun", 0, &["-x"], &[&text, &second.clone().unwrap_or_else(|| "80".to_string())]),
        "brunv" => cx.tool("brun", 0, &["-v"], &[&text, &env]),
        "brunt" => cx.tool("brun", 0, &["-t"], &[&text, &env]),
        "cldb" | "cldbx" | "cldbt" | "cldbp" => {
            let hexmode = ep == "cldbx";
            let env = if hexmode { second.clone().unwrap_or_else(|| "80".to_string()) } else { env };
            if user_program_diverges(cx, &text, &env, hexmode) {
                "skip-user-program-diverges".to_string()
            } else {
                match ep {
                    "cldb" => cx.cldb(&[], &[&text, &env]),
                    "cldbx" => cx.cldb(&["-x"], &[&text, &env]),
                    "cldbt" => cx.cldb(&["-t"], &[&text, &env]),
                    _ => cx.cldb(&["-p"], &[&text, &env]),
                }
            }
        }
        "pre" => cx.tool("run", 2, &["-E"], &[&text]),
        "unused" => {
            let api = match check_unused(cx.opts(INPUT_NAME), &text) {
                Ok((ok, _)) => format!("ok {}", if ok { 1 } else { 0 }),
                Err(e) => format!("err {}", cerr_str(&e)),
            };
            let t = cx.tool("run", 2, &["--check-unused-args"], &[&text]);
            format!("{api} | {t}")
        }
        _ => "bad-input".to_string(),
    };
    let _ = std::fs::remove_file(cx.tmp("sym"));
    r
}

static PROTO_FD: std::sync::atomic::AtomicI32 = std::sync::atomic::AtomicI32::new(-1);
static EXE_BASE: std::sync::atomic::AtomicUsize = std::sync::atomic::AtomicUsize::new(0);

/// SIGSEGV / SIGBUS (stack overflow) on the alternate stack: write `segv <return addresses
/// relative to the load address of the executable>` as the output line of the running case and
/// leave.  No allocation, no formatting machinery.  The check resolves the addresses with `nm`
/// and names the recursion (the most frequent `chialisp::` function among the top frames).
extern "C" fn on_segv(_sig: libc::c_int) {
    unsafe {
        let mut frames: [*mut libc::c_void; 80] = [std::ptr::null_mut(); 80];
        let n = libc::backtrace(frames.as_mut_ptr(), 80);
        let base = EXE_BASE.load(Ordering::Relaxed);
        let mut out = [0u8; 80 * 18 + 16];
        let mut k = 0;
        for b in b"segv" {
            out[k] = *b;
            k += 1;
        }
        for f in frames.iter().take(n.max(0) as usize) {
            let a = (*f as usize).wrapping_sub(base);
            out[k] = b' ';
            k += 1;
            let mut started = false;
            for sh in (0..16).rev() {
                let d = ((a >> (sh * 4)) & 15) as u8;
                if d != 0 || started || sh == 0 {
                    started = true;
                    out[k] = if d < 10 { b'0' + d } else { b'a' + d - 10 };
                    k += 1;
                }
            }
        }
        for b in b" @0\n" {
            out[k] = *b;
            k += 1;
        }
        let fd = PROTO_FD.load(Ordering::Relaxed);
        libc::write(fd, out.as_ptr() as *const libc::c_void, k);
        libc::_exit(125);
    }
}

fn install_segv_handler() {
    unsafe {
        // load address of the executable (first mapping of /proc/self/exe)
        if let (Ok(maps), Ok(exe)) = (std::fs::read_to_string("/proc/self/maps"), std::env::current_exe()) {
            let exe = exe.to_string_lossy().to_string();
            for l in maps.lines() {
                if l.ends_with(&exe) {
                    if let Some(a) = l.split('-').next().and_then(|h| usize::from_str_radix(h, 16).ok()) {
                        EXE_BASE.store(a, Ordering::Relaxed);
                    }
                    break;
                }
            }
        }
        // the unwinder initialises itself lazily: do that now, not inside the handler
        let mut warm: [*mut libc::c_void; 4] = [std::ptr::null_mut(); 4];
        libc::backtrace(warm.as_mut_ptr(), 4);
        let size = 1 << 20;
        let stack = Box::leak(vec![0u8; size].into_boxed_slice());
        let ss = libc::stack_t { ss_sp: stack.as_mut_ptr() as *mut libc::c_void, ss_flags: 0, ss_size: size };
        libc::sigaltstack(&ss, std::ptr::null_mut());
        let mut sa: libc::sigaction = std::mem::zeroed();
        sa.sa_sigaction = on_segv as usize;
        sa.sa_flags = libc::SA_ONSTACK;
        libc::sigemptyset(&mut sa.sa_mask);
        libc::sigaction(libc::SIGSEGV, &sa, std::ptr::null_mut());
        libc::sigaction(libc::SIGBUS, &sa, std::ptr::null_mut());
    }
}

fn now_ms(t0: &std::time::Instant) -> u64 {
    t0.elapsed().as_millis() as u64 + 1
}

/// CPU time of the whole process in microseconds: the per-case limit is on CPU time, so that a
/// loaded machine does not turn slow cases into timeouts; a wall-clock backstop (15x) catches a
/// case that blocks without using the CPU.
fn cpu_us() -> u64 {
    let mut ts = libc::timespec { tv_sec: 0, tv_nsec: 0 };
    unsafe { libc::clock_gettime(libc::CLOCK_PROCESS_CPUTIME_ID, &mut ts) };
    ts.tv_sec as u64 * 1_000_000 + ts.tv_nsec as u64 / 1000
}

pub fn run(args: &[String]) {
    if args.is_empty() {
        eprintln!("usage: cvh crash <work dir> [<per-case limit ms>]");
        std::process::exit(2);
    }
    let dir = args[0].clone();
    let limit_ms: u64 = args.get(1).and_then(|s| s.parse().ok()).unwrap_or(20000);
    if std::env::set_current_dir(&dir).is_err() {
        eprintln!("cvh crash: cannot enter {dir}");
        std::process::exit(2);
    }
    // protocol channel = the old stdout; the tools' own prints go nowhere
    let proto_fd = unsafe { libc::dup(1) };
    unsafe {
        let null = libc::open(b"/dev/null\0".as_ptr() as *const libc::c_char, libc::O_WRONLY);
        if null >= 0 {
            libc::dup2(null, 1);
            libc::dup2(null, 2);
            libc::close(null);
        }
        // a runaway allocation must kill this process only
        let lim = libc::rlimit { rlim_cur: 6 << 30, rlim_max: 6 << 30 };
        libc::setrlimit(libc::RLIMIT_AS, &lim);
    }
    PROTO_FD.store(proto_fd, Ordering::Relaxed);
    install_segv_handler();
    let mut out = std::io::BufWriter::new(unsafe { std::fs::File::from_raw_fd(proto_fd) });
    std::panic::set_hook(Box::new(|info| {
        let (f, l) = match info.location() {
            Some(l) => (l.file().to_string(), l.line()),
            None => ("?".to_string(), 0),
        };
        let msg = if let Some(s) = info.payload().downcast_ref::<&str>() {
            s.to_string()
        } else if let Some(s) = info.payload().downcast_ref::<String>() {
            s.clone()
        } else {
            "?".to_string()
        };
        if let Ok(mut g) = PANIC_INFO.lock() {
            if g.is_none() {
                *g = Some((f, l, msg));
            }
        }
    }));
    let t0 = std::time::Instant::now();
    std::thread::spawn(move || loop {
        std::thread::sleep(std::time::Duration::from_millis(25));
        let d = DEADLINE.load(Ordering::SeqCst);
        let c = CPU_DEADLINE.load(Ordering::SeqCst);
        if (d != 0 && now_ms(&t0) > d) || (c != 0 && cpu_us() > c) {
            unsafe { libc::_exit(124) };
        }
    });
    let cx = Ctx { dir, pid: std::process::id() };
    let stdin = std::io::stdin();
    for line in stdin.lock().lines() {
        let line = line.unwrap();
        if let Ok(mut g) = PANIC_INFO.lock() {
            *g = None;
        }
        let c0 = cpu_us();
        DEADLINE.store(now_ms(&t0) + 15 * limit_ms, Ordering::SeqCst);
        CPU_DEADLINE.store(c0 + 1000 * limit_ms, Ordering::SeqCst);
        let r = std::panic::catch_unwind(std::panic::AssertUnwindSafe(|| one_case(&cx, line.trim())));
        DEADLINE.store(0, Ordering::SeqCst);
        CPU_DEADLINE.store(0, Ordering::SeqCst);
        let used = cpu_us() - c0;
        let info = PANIC_INFO.lock().ok().and_then(|g| g.clone());
        let res = match (r, info) {
            (Ok(s), None) => s,
            // a panic in a helper thread that the entry point survived is still a panic
            (_, Some((f, l, m))) => {
                let mb = m.as_bytes();
                format!("panic {}:{} {}", f.replace(' ', "_"), l, hex::encode(&mb[..mb.len().min(120)]))
            }
            (Err(_), None) => "panic ?:0 -".to_string(),
        };
        // ` @<cpu us>`: cost of the case (stripped by the check; used for budgeting only)
        writeln!(out, "{res} @{used}").unwrap();
        // one line per case must be on the wire before the next case can kill the process
        out.flush().unwrap();
    }
    let _ = std::fs::remove_file(cx.tmp("clsp"));
    let _ = std::fs::remove_file(cx.tmp("hex"));
    let _ = std::fs::remove_file(cx.tmp("sym"));
}
