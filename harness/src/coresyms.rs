// `cvh coresyms`: the real symbol table of a compilation, canonicalised to the key families
// the model covers, plus what `compose_run_function` (src/py/api.rs) computes for every
// function key: `hex_to_modern_sexp` → `extract_program_and_env` → `path_to_function` →
// `rewrite_in_program` → `convert_to_clvm_rs`.
//   line:   `<entry> <source text hex>`       (entries as in `cvh compile`)
//   output: `S <program hex> <table> <calls>` | `E <msg>`
//     table = `key:hex(value)` sorted by key, comma-separated; kept: 64-hex keys, `<hash>_arguments`,
//             `<hash>_left_env`, `__chia__main_arguments`; dropped: `source_file` (the caller's file name)
//     calls = `hash:path:hex(rewritten program)` per 64-hex key, sorted, comma-separated (`-` if none)
use std::collections::{BTreeMap, HashMap};
use std::rc::Rc;

use crate::common::*;
use crate::compile::compile_entry;
use chialisp::compiler::cldb::hex_to_modern_sexp;
use chialisp::compiler::clvm::convert_to_clvm_rs;
use chialisp::compiler::compiler::{extract_program_and_env, path_to_function, rewrite_in_program};
use chialisp::compiler::srcloc::Srcloc;
use clvmr::allocator::Allocator;

fn is_hash_key(k: &str) -> bool {
    k.len() == 64 && k.bytes().all(|c| c.is_ascii_digit() || (b'a'..=b'f').contains(&c))
}

fn modelled(k: &str) -> bool {
    if k == "__chia__main_arguments" || is_hash_key(k) {
        return true;
    }
    for suffix in ["_arguments", "_left_env"] {
        if let Some(h) = k.strip_suffix(suffix) {
            if is_hash_key(h) {
                return true;
            }
        }
    }
    false
}

fn join_or(v: Vec<String>) -> String {
    if v.is_empty() { "-".to_string() } else { v.join(",") }
}

pub fn run(_args: &[String]) {
    each_line(|l| {
        let parts: Vec<&str> = l.split_whitespace().collect();
        if parts.len() != 2 {
            return "bad-input".to_string();
        }
        let Ok(src) = hex::decode(parts[1]) else { return "bad-input".to_string() };
        let Ok(text) = String::from_utf8(src) else { return "bad-input".to_string() };
        let mut a = Allocator::new();
        let mut symbols = HashMap::new();
        let prog = match compile_entry(&mut a, parts[0], &text, &mut symbols, &[]) {
            Ok(p) => p,
            Err(e) => return format!("E {e}"),
        };
        let prog_hex = hex_of_node(&a, prog);
        let sorted: BTreeMap<String, String> = symbols.iter().map(|(k, v)| (k.clone(), v.clone())).collect();
        let table: Vec<String> = sorted
            .iter()
            .filter(|(k, _)| modelled(k))
            .map(|(k, v)| format!("{k}:{}", hex::encode(v.as_bytes())))
            .collect();
        let mut calls = Vec::new();
        for k in sorted.keys().filter(|k| is_hash_key(k)) {
            let loc = Srcloc::start("*verif*");
            let Ok(program) = hex_to_modern_sexp(&mut a, &symbols, loc, &prog_hex) else {
                calls.push(format!("{k}:badhex"));
                continue;
            };
            let Some(main_env) = extract_program_and_env(program) else {
                calls.push(format!("{k}:noenv"));
                continue;
            };
            let hash = hex::decode(k).unwrap_or_default();
            let Some(path) = path_to_function(main_env.1.clone(), &hash) else {
                calls.push(format!("{k}:none"));
                continue;
            };
            let rewritten = rewrite_in_program(path.clone(), main_env.1);
            match convert_to_clvm_rs(&mut a, Rc::new((*rewritten).clone())) {
                Ok(n) => calls.push(format!("{k}:{path}:{}", hex_of_node(&a, n))),
                Err(_) => calls.push(format!("{k}:{path}:!conv")),
            }
        }
        format!("S {} {} {}", prog_hex, join_or(table), join_or(calls))
    });
}
