// cvh — correspondence harness: runs the real clvm_tools_rs (chialisp crate) code on the
// same line protocol the Lean model driver (`modeld`) speaks.
mod common;
mod asm;
mod atomic;
mod base;
mod compile;
mod cerr;
mod classicenv;
mod cldb;
mod cldbsrc;
mod cldbtree;
mod conv;
mod crash;
mod coresyms;
mod deps;
mod entry;
mod fresh;
mod purity;
mod opt;
mod passes;
mod reader;
mod repl;
mod rich;
mod scope;
mod serde;
mod tables;
mod text;
mod step;
mod syms;
mod unused;

fn main() {
    let args: Vec<String> = std::env::args().collect();
    if args.len() < 2 {
        eprintln!("usage: cvh <sub-command> [args]");
        std::process::exit(2);
    }
    let rest: Vec<String> = args[2..].to_vec();
    match args[1].as_str() {
        "asm" => asm::run_asm(&rest),
        "dis" => asm::run_dis(&rest),
        "base" => base::run(&rest),
        "compile" => compile::run(&rest),
        "coresyms" => coresyms::run(&rest),
        "passes" => passes::run(&rest),
        "classicenv" => classicenv::run(&rest),
        "crash" => crash::run(&rest),
        "scope" => scope::run(&rest),
        "scope-worker" => scope::worker(&rest),
        "conv" => conv::run(&rest),
        "entry" => entry::run(&rest),
        "fresh" => fresh::run(&rest),
        "cldbmain" => entry::cldb_main(&rest),
        "purity" => purity::run(&rest),
        "text" => text::run(&rest),
        "serde" => serde::run(&rest),
        "tables" => tables::run(&rest),
        "opt" => opt::run(&rest),
        "atomic" => atomic::run(&rest),
        "atomic-child" => atomic::child(&rest),
        "deps" => deps::run(&rest),
        "deps-probe" => deps::probe(&rest),
        "step" => step::run(&rest),
        "cldb" => cldb::run(&rest),
        "cldb-compile" => cldbsrc::run(&rest),
        "cldb-tree" => cldbtree::run(&rest),
        "reader" => reader::run(&rest),
        "cerr" => cerr::run(&rest),
        "repl" => repl::run(&rest),
        "syms" => syms::run(&rest),
        "unused" => unused::run(&rest),
        other => {
            eprintln!("cvh: unknown sub-command {other}");
            std::process::exit(2);
        }
    }
}
