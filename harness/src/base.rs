// `cvh base`: consensus evaluator (clvmr through DefaultProgramRunner) on `<prog hex> <env hex>`.
use crate::common::*;
use clvmr::allocator::Allocator;

pub fn run(_args: &[String]) {
    each_line(|l| {
        let parts: Vec<&str> = l.split_whitespace().collect();
        if parts.len() != 2 {
            return "bad-input".to_string();
        }
        let mut a = Allocator::new();
        let (p, e) = match (node_of_hex(&mut a, parts[0]), node_of_hex(&mut a, parts[1])) {
            (Some(p), Some(e)) => (p, e),
            _ => return "bad-input".to_string(),
        };
        consensus_line(&mut a, p, e)
    });
}
