// text encoding of compiler::sexp::SExp on the line protocol:
// `N` | `I<decimal>;` | `Q<qq><hex>;` | `A<hex>;` | `C<a><d>`
#![allow(dead_code)]
use std::borrow::Borrow;
use std::rc::Rc;

use chialisp::compiler::sexp::SExp;
use chialisp::compiler::srcloc::Srcloc;
use num_bigint::BigInt;

pub fn enc_rich(s: &SExp, out: &mut String) {
    // iterative on the cdr so long lists do not overflow the stack
    let mut cur: &SExp = s;
    loop {
        match cur {
            SExp::Nil(_) => {
                out.push('N');
                return;
            }
            SExp::Integer(_, i) => {
                out.push('I');
                out.push_str(&i.to_string());
                out.push(';');
                return;
            }
            SExp::QuotedString(_, q, b) => {
                out.push('Q');
                out.push_str(&hex::encode([*q]));
                out.push_str(&hex::encode(b));
                out.push(';');
                return;
            }
            SExp::Atom(_, b) => {
                out.push('A');
                out.push_str(&hex::encode(b));
                out.push(';');
                return;
            }
            SExp::Cons(_, a, d) => {
                out.push('C');
                enc_rich(a.borrow(), out);
                cur = d.borrow();
            }
        }
    }
}

pub fn rich_string(s: &SExp) -> String {
    let mut o = String::new();
    enc_rich(s, &mut o);
    o
}

pub fn loc() -> Srcloc {
    Srcloc::start("*verif*")
}

fn dec(b: &[u8], pos: &mut usize) -> Option<SExp> {
    let c = *b.get(*pos)?;
    *pos += 1;
    match c {
        b'N' => Some(SExp::Nil(loc())),
        b'C' => {
            let a = dec(b, pos)?;
            let d = dec(b, pos)?;
            Some(SExp::Cons(loc(), Rc::new(a), Rc::new(d)))
        }
        b'I' | b'A' | b'Q' => {
            let start = *pos;
            while *b.get(*pos)? != b';' {
                *pos += 1;
            }
            let body = std::str::from_utf8(&b[start..*pos]).ok()?;
            *pos += 1;
            match c {
                b'I' => Some(SExp::Integer(loc(), body.parse::<BigInt>().ok()?)),
                b'A' => Some(SExp::Atom(loc(), hex::decode(body).ok()?)),
                _ => {
                    let v = hex::decode(body).ok()?;
                    if v.is_empty() {
                        return None;
                    }
                    Some(SExp::QuotedString(loc(), v[0], v[1..].to_vec()))
                }
            }
        }
        _ => None,
    }
}

pub fn dec_rich(s: &str) -> Option<SExp> {
    let b = s.as_bytes();
    let mut pos = 0;
    let r = dec(b, &mut pos)?;
    if pos == b.len() {
        Some(r)
    } else {
        None
    }
}
