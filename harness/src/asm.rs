// `cvh asm`: classic assembler on hex-encoded text → value hex; `cvh dis`: value hex → text
use crate::common::*;
use chialisp::classic::clvm_tools::binutils::{assemble, disassemble};
use clvmr::allocator::Allocator;

pub fn run_asm(_args: &[String]) {
    each_line(|l| {
        let Ok(b) = hex::decode(l.trim()) else { return "bad-input".to_string() };
        let Ok(t) = String::from_utf8(b) else { return "bad-input".to_string() };
        let mut a = Allocator::new();
        match assemble(&mut a, &t) {
            Ok(n) => hex_of_node(&a, n),
            Err(_) => "err".to_string(),
        }
    });
}

pub fn run_dis(_args: &[String]) {
    each_line(|l| {
        let mut a = Allocator::new();
        match node_of_hex(&mut a, l.trim()) {
            Some(n) => disassemble(&a, n, None),
            None => "bad-input".to_string(),
        }
    });
}
