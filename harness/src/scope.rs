// `cvh scope [seconds]` (C10): scoping checks of the modern compiler on the REAL code.
//
// The command is a SUPERVISOR: every input line is handed to a worker child process
// (`cvh scope-worker`); if the worker does not answer within the wall-clock limit it is killed
// and the line's result is `timeout`; if it dies (stack overflow, abort, signal) the result is
// `abort <status>`; a fresh worker is started for the next line.  So a compiler that loops or
// overflows its stack is observed as such instead of taking the check down.
//
// worker lines:
//   `t <item>;<item>;…` | `t -`   chialisp::util::toposort on items `<needs csv>|<has csv>` (keys
//                          are numbers) with the callbacks `toposort_assign_bindings` uses
//                          (needs = raw ∩ possible, has).
//                          -> `ok <index>:<needs csv>:<has csv>;…` (sets sorted) | `deadlock`
//   `d <pat>;<pat>;…`     frontend::compile_bodyform on `(assign <pat1> 1 <pat2> 1 … 0)` where a
//                          pattern is a csv of numbers k (names `n<k>`), one binding per source line
//                          -> `ok` | `dup <binding index> <k>` | `err <hex message>`
//   `c <0|1> <hex source>` compile_file with the library's option derivation (clvmc.rs):
//                          optimize = flag || stepping > 22, frontend_opt = stepping == 22
//                          -> `ok <program hex>` | `err <file 0|9> <line> <col> <uline> <ucol> <hex message>`
//                             | `classic` | `unreadable`
//   `i <abstract graph …> <hex source>` (inline model correspondence; last field) compile as `c 0`
//                          -> `ok` | `rec <name>` (recursive call to inline function <name>) | `err <hex message>`
//   `k <rich> <hex source>` (core strict-compile correspondence) compile as `c 0`
//                          -> `C <program hex>` | `E`
//   `q <rich template>`   frontend::compile_bodyform on `(qq <template>)` (qq_to_expression)
//                          -> the BodyForm: `Q<rich>` quoted | `E<rich>` a Value handed on for evaluation |
//                             `C(<a>,<d>)` the `(c a d)` call | `other` | `err`
use std::borrow::Borrow;
use std::collections::{HashMap, HashSet};
use std::io::{self, BufRead, BufReader, Write};
use std::process::{Child, ChildStdin, Command, Stdio};
use std::rc::Rc;
use std::sync::mpsc::{channel, Receiver, RecvTimeoutError};
use std::time::Duration;

use crate::common::*;
use chialisp::classic::clvm_tools::binutils::assemble_from_ir;
use chialisp::classic::clvm_tools::ir::reader::read_ir;
use chialisp::classic::clvm_tools::stages::stage_0::DefaultProgramRunner;
use chialisp::compiler::clvm::convert_to_clvm_rs;
use chialisp::compiler::compiler::{compile_file, DefaultCompilerOpts};
use chialisp::compiler::comptypes::{BodyForm, CompileErr, CompilerOpts};
use chialisp::compiler::dialect::detect_modern;
use chialisp::compiler::frontend::compile_bodyform;
use chialisp::compiler::sexp::{parse_sexp, SExp};
use crate::rich::{dec_rich, rich_string};
use chialisp::compiler::srcloc::Srcloc;
use chialisp::util::toposort;
use clvmr::allocator::Allocator;

pub const INPUT_NAME: &str = "*verif-scope*";

// ---------------------------------------------------------------------------------- worker

fn csv(s: &str) -> Option<Vec<u32>> {
    if s.is_empty() {
        return Some(vec![]);
    }
    s.split(',').map(|x| x.parse::<u32>().ok()).collect()
}

fn show_set(s: &HashSet<u32>) -> String {
    let mut v: Vec<u32> = s.iter().copied().collect();
    v.sort();
    v.iter().map(|x| x.to_string()).collect::<Vec<_>>().join(",")
}

struct RawItem {
    needs: HashSet<u32>,
    has: HashSet<u32>,
}

fn topo_line(spec: &str) -> String {
    let mut list: Vec<RawItem> = Vec::new();
    if spec != "-" {
        for it in spec.split(';') {
            let parts: Vec<&str> = it.split('|').collect();
            if parts.len() != 2 {
                return "bad-input".to_string();
            }
            let (Some(n), Some(h)) = (csv(parts[0]), csv(parts[1])) else {
                return "bad-input".to_string();
            };
            list.push(RawItem {
                needs: n.into_iter().collect(),
                has: h.into_iter().collect(),
            });
        }
    }
    // exactly the callbacks of toposort_assign_bindings (codegen.rs)
    let r = toposort(
        &list,
        (),
        |possible: &HashSet<u32>, b: &RawItem| -> Result<HashSet<u32>, ()> {
            let mut need_set_thats_possible = HashSet::new();
            for need in b.needs.intersection(possible) {
                need_set_thats_possible.insert(*need);
            }
            Ok(need_set_thats_possible)
        },
        |b: &RawItem| b.has.clone(),
    );
    match r {
        Err(()) => "deadlock".to_string(),
        Ok(items) => {
            let v: Vec<String> = items
                .iter()
                .map(|it| format!("{}:{}:{}", it.index, show_set(&it.needs), show_set(&it.has)))
                .collect();
            format!("ok {}", v.join(";"))
        }
    }
}

fn dup_line(spec: &str) -> String {
    let mut src = String::from("(assign\n");
    for pat in spec.split(';') {
        let Some(names) = csv(pat) else {
            return "bad-input".to_string();
        };
        if names.len() == 1 {
            src.push_str(&format!("n{} 1\n", names[0]));
        } else {
            let v: Vec<String> = names.iter().map(|k| format!("n{k}")).collect();
            src.push_str(&format!("({}) 1\n", v.join(" ")));
        }
    }
    src.push_str("0)");
    let parsed = match parse_sexp(Srcloc::start(INPUT_NAME), src.bytes()) {
        Ok(p) => p,
        Err(e) => return format!("err {}", hex::encode(e.1.as_bytes())),
    };
    let opts: Rc<dyn CompilerOpts> = Rc::new(DefaultCompilerOpts::new(INPUT_NAME));
    match compile_bodyform(opts, parsed[0].clone()) {
        Ok(_) => "ok".to_string(),
        Err(CompileErr(l, m)) => {
            if let Some(name) = m.strip_prefix("Duplicate binding n") {
                // binding i sits on source line i + 2
                format!("dup {} {}", l.line as i64 - 2, name)
            } else {
                format!("err {}", hex::encode(m.as_bytes()))
            }
        }
    }
}

pub enum Compiled {
    Ok(String),
    Err(CompileErr),
    Classic,
    Unreadable,
}

pub fn compile_source(optimize: bool, src: &str) -> Compiled {
    let mut a = Allocator::new();
    let Ok(ir) = read_ir(src) else {
        return Compiled::Unreadable;
    };
    let Ok(assembled) = assemble_from_ir(&mut a, Rc::new(ir)) else {
        return Compiled::Unreadable;
    };
    let dialect = detect_modern(&mut a, assembled);
    let Some(stepping) = dialect.stepping else {
        return Compiled::Classic;
    };
    let runner = Rc::new(DefaultProgramRunner::new());
    let opts: Rc<dyn CompilerOpts> = Rc::new(DefaultCompilerOpts::new(INPUT_NAME));
    let opts = opts
        .set_dialect(dialect)
        .set_optimize(optimize || stepping > 22)
        .set_frontend_opt(stepping == 22);
    let mut syms = HashMap::new();
    match compile_file(&mut a, runner, opts, src, &mut syms) {
        Ok(code) => match convert_to_clvm_rs(&mut a, Rc::new(code)) {
            Ok(n) => Compiled::Ok(hex_of_node(&a, n)),
            Err(e) => Compiled::Err(CompileErr(
                Srcloc::start(INPUT_NAME),
                format!("convert_to_clvm_rs: {e:?}"),
            )),
        },
        Err(e) => Compiled::Err(e),
    }
}

fn src_arg(h: &str) -> Option<String> {
    String::from_utf8(hex::decode(h).ok()?).ok()
}

fn compile_line(flag: &str, h: &str) -> String {
    let Some(src) = src_arg(h) else {
        return "bad-input".to_string();
    };
    match compile_source(flag == "1", &src) {
        Compiled::Ok(p) => format!("ok {p}"),
        Compiled::Classic => "classic".to_string(),
        Compiled::Unreadable => "unreadable".to_string(),
        Compiled::Err(CompileErr(l, m)) => {
            let f: &String = l.file.borrow();
            let (ul, uc) = match &l.until {
                None => (l.line, l.col),
                Some(u) => (u.line, u.col),
            };
            format!(
                "err {} {} {} {} {} {}",
                if f == INPUT_NAME { 0 } else { 9 },
                l.line,
                l.col,
                ul,
                uc,
                hex::encode(m.as_bytes())
            )
        }
    }
}

fn inline_line(h: &str) -> String {
    let Some(src) = src_arg(h) else {
        return "bad-input".to_string();
    };
    match compile_source(false, &src) {
        Compiled::Ok(_) => "ok".to_string(),
        Compiled::Err(CompileErr(_, m)) => {
            if let Some(n) = m.strip_prefix("recursive call to inline function ") {
                format!("rec {n}")
            } else {
                format!("err {}", hex::encode(m.as_bytes()))
            }
        }
        _ => "bad-input".to_string(),
    }
}

fn core_line(h: &str) -> String {
    let Some(src) = src_arg(h) else {
        return "bad-input".to_string();
    };
    match compile_source(false, &src) {
        Compiled::Ok(p) => format!("C {p}"),
        Compiled::Err(_) => "E".to_string(),
        _ => "bad-input".to_string(),
    }
}

fn show_qq(b: &BodyForm) -> String {
    match b {
        BodyForm::Quoted(x) => format!("Q{}", rich_string(x)),
        BodyForm::Value(x) => format!("E{}", rich_string(x)),
        BodyForm::Call(_, parts, None) if parts.len() == 3 => {
            let head: &BodyForm = parts[0].borrow();
            match head {
                BodyForm::Value(SExp::Atom(_, c)) if c == b"c" => {
                    format!("C({},{})", show_qq(parts[1].borrow()), show_qq(parts[2].borrow()))
                }
                _ => "other".to_string(),
            }
        }
        _ => "other".to_string(),
    }
}

fn qq_line(r: &str) -> String {
    let Some(tmpl) = dec_rich(r) else {
        return "bad-input".to_string();
    };
    let l = Srcloc::start(INPUT_NAME);
    let form = SExp::Cons(
        l.clone(),
        Rc::new(SExp::Atom(l.clone(), b"qq".to_vec())),
        Rc::new(SExp::Cons(l.clone(), Rc::new(tmpl), Rc::new(SExp::Nil(l)))),
    );
    let opts: Rc<dyn CompilerOpts> = Rc::new(DefaultCompilerOpts::new(INPUT_NAME));
    match compile_bodyform(opts, Rc::new(form)) {
        Ok(b) => show_qq(&b),
        Err(_) => "err".to_string(),
    }
}

fn worker_line(l: &str) -> String {
    let parts: Vec<&str> = l.split_whitespace().collect();
    match (parts.first().copied(), parts.len()) {
        (Some("t"), 2) => topo_line(parts[1]),
        (Some("d"), 2) => dup_line(parts[1]),
        (Some("q"), 2) => qq_line(parts[1]),
        (Some("c"), 3) => compile_line(parts[1], parts[2]),
        (Some("i"), n) if n >= 3 => inline_line(parts[n - 1]),
        (Some("k"), n) if n >= 3 => core_line(parts[n - 1]),
        _ => "bad-input".to_string(),
    }
}

/// like `each_line`, but every answer is flushed at once (the supervisor waits for it).
pub fn worker(_args: &[String]) {
    let stdin = io::stdin();
    let stdout = io::stdout();
    std::panic::set_hook(Box::new(|_| {}));
    for line in stdin.lock().lines() {
        let line = line.unwrap();
        let r = std::panic::catch_unwind(std::panic::AssertUnwindSafe(|| worker_line(line.trim())));
        let mut out = stdout.lock();
        match r {
            Ok(s) => writeln!(out, "{s}").unwrap(),
            Err(_) => writeln!(out, "panic").unwrap(),
        }
        out.flush().unwrap();
    }
}

// ------------------------------------------------------------------------------ supervisor

struct Worker {
    child: Child,
    stdin: ChildStdin,
    rx: Receiver<Option<String>>,
}

fn spawn_worker() -> Worker {
    let exe = std::env::current_exe().expect("current_exe");
    let mut child = Command::new(exe)
        .arg("scope-worker")
        .stdin(Stdio::piped())
        .stdout(Stdio::piped())
        .stderr(Stdio::null())
        .spawn()
        .expect("spawn worker");
    let stdin = child.stdin.take().unwrap();
    let stdout = child.stdout.take().unwrap();
    let (tx, rx) = channel();
    std::thread::spawn(move || {
        let mut r = BufReader::new(stdout);
        loop {
            let mut line = String::new();
            match r.read_line(&mut line) {
                Ok(0) | Err(_) => {
                    let _ = tx.send(None);
                    return;
                }
                Ok(_) => {
                    if tx.send(Some(line.trim_end().to_string())).is_err() {
                        return;
                    }
                }
            }
        }
    });
    Worker { child, stdin, rx }
}

fn status_text(w: &mut Worker) -> String {
    match w.child.wait() {
        Ok(st) => {
            #[cfg(unix)]
            {
                use std::os::unix::process::ExitStatusExt;
                if let Some(sig) = st.signal() {
                    return format!("signal{sig}");
                }
            }
            format!("exit{}", st.code().unwrap_or(-1))
        }
        Err(_) => "unknown".to_string(),
    }
}

pub fn run(args: &[String]) {
    let limit = args
        .first()
        .and_then(|s| s.parse::<u64>().ok())
        .unwrap_or(20);
    let stdin = io::stdin();
    let stdout = io::stdout();
    let mut out = io::BufWriter::new(stdout.lock());
    let mut worker: Option<Worker> = None;
    // diagnostics only: CVH_SCOPE_TIMES=1 appends ` @<milliseconds>` to every answer
    let times = std::env::var("CVH_SCOPE_TIMES").is_ok();
    for line in stdin.lock().lines() {
        let line = line.unwrap();
        let l = line.trim();
        let t0 = std::time::Instant::now();
        if worker.is_none() {
            worker = Some(spawn_worker());
        }
        let w = worker.as_mut().unwrap();
        let sent = writeln!(w.stdin, "{l}").and_then(|_| w.stdin.flush());
        let res = if sent.is_err() {
            let st = status_text(w);
            worker = None;
            format!("abort {st}")
        } else {
            match w.rx.recv_timeout(Duration::from_secs(limit)) {
                Ok(Some(s)) => s,
                Ok(None) => {
                    let st = status_text(w);
                    worker = None;
                    format!("abort {st}")
                }
                Err(RecvTimeoutError::Timeout) => {
                    let _ = w.child.kill();
                    let _ = w.child.wait();
                    worker = None;
                    "timeout".to_string()
                }
                Err(RecvTimeoutError::Disconnected) => {
                    let st = status_text(w);
                    worker = None;
                    format!("abort {st}")
                }
            }
        };
        if times {
            writeln!(out, "{res} @{}", t0.elapsed().as_millis()).unwrap();
        } else {
            writeln!(out, "{res}").unwrap();
        }
    }
    out.flush().unwrap();
    if let Some(mut w) = worker {
        drop(w.stdin);
        let _ = w.child.wait();
    }
}
