// `cvh entry` (C11): what every compile entry point derives and emits, on the REAL code.
//
//   `k`                                  -> runtime KNOWN_DIALECTS, `name:stepping:strict:intfix,...` sorted by name
//   `d`                                  -> DefaultCompilerOpts::new defaults (same snapshot format as below)
//   `n <hex of a CLVM value>`            -> detect_modern on the value: `<stepping|->:<strict>:<intfix>`
//   `g <stepping|-> <optimize 0|1>`      -> get_optimizer outcome: err-old | err-new | S23 | Existing
//   `o <site> <dialect name|-> <flag 0|1> <sp 0|1>`
//        site = lib | libopt | py | cli | cldb | deps ; records the options the entry point really
//        hands to the compiler (recording CompilerOpts wrapper / the opts object) and which
//        pipeline produced its output (compared with independently computed candidates):
//        `modern dialect=.. stdenv=.. optimize=.. fe=.. sp=.. ver=.. post=0|1` | `classic sp=..`
//   `e <scratch dir> <args text hex> <path> <incdir>*` -> end-to-end outputs of all entry points for the file
//   `r <n> <path> <incdir>*`             -> distinct outputs of n identical library / compile_modern calls
//   `s <hex of text printed by run> <hex of text of compile_modern's result> <hex of its CLVM>`
//                                        -> the `txt` verdict of `e` on given texts: equal | same-clvm | differ
//   `x <scratch dir> <args text hex> <path> <incdir>*` -> same, verbose (raw texts) for replay diagnosis
use std::cell::RefCell;
use std::collections::HashMap;
use std::rc::Rc;

use crate::common::*;
use chialisp::classic::clvm::__type_compatibility__::Stream;
use chialisp::classic::clvm::OPERATORS_LATEST_VERSION;
use chialisp::classic::clvm_tools::binutils::assemble;
use chialisp::classic::clvm_tools::clvmc::{
    compile_clvm, compile_clvm_text, compile_clvm_text_maybe_opt,
};
use chialisp::classic::clvm_tools::cmds::launch_tool;
use chialisp::classic::clvm_tools::comp_input::RunAndCompileInputData;
use chialisp::classic::clvm_tools::stages::stage_0::{DefaultProgramRunner, TRunProgram};
use chialisp::classic::clvm_tools::stages::stage_2::operators::run_program_for_search_paths;
use chialisp::classic::platform::argparse::ArgumentValue;
use chialisp::compiler::clvm::convert_to_clvm_rs;
use chialisp::compiler::compiler::{compile_file, DefaultCompilerOpts};
use chialisp::compiler::comptypes::{CompilerOpts, HasCompilerOptsDelegation};
use chialisp::compiler::dialect::{detect_modern, AcceptedDialect, KNOWN_DIALECTS};
use chialisp::compiler::optimize::{get_optimizer, run_optimizer};
use chialisp::compiler::preprocessor::gather_dependencies;
use chialisp::compiler::sexp::{parse_sexp, SExp};
use chialisp::compiler::srcloc::Srcloc;
use clvmr::allocator::{Allocator, NodePtr};
use sha2::{Digest, Sha256};

/// every entry point is started from the history a fresh process has (counter 0): what varies
/// between the compared runs is the entry point only (history dependence is C05's subject).
fn reset_ctr() {
    chialisp::compiler::gensym::ARGNAME_CTR.store(0, std::sync::atomic::Ordering::SeqCst);
}

fn b01(b: bool) -> &'static str {
    if b {
        "1"
    } else {
        "0"
    }
}

fn dialect_str(d: &AcceptedDialect) -> String {
    format!(
        "{}:{}:{}",
        d.stepping.map(|s| s.to_string()).unwrap_or_else(|| "-".to_string()),
        b01(d.strict),
        b01(d.int_fix)
    )
}

fn snapshot(o: &Rc<dyn CompilerOpts>) -> String {
    format!(
        "dialect={} stdenv={} optimize={} fe={} sp={} ver={}",
        dialect_str(&o.dialect()),
        b01(o.stdenv()),
        b01(o.optimize()),
        b01(o.frontend_opt()),
        o.get_search_paths().join("|"),
        o.disassembly_ver().map(|v| v.to_string()).unwrap_or_else(|| "-".to_string())
    )
}

/// first use of a recorded options object: which getter, and the object itself
#[derive(Clone)]
struct FirstUse {
    getter: &'static str,
    opts: Rc<dyn CompilerOpts>,
}

/// CompilerOpts wrapper (by delegation): remembers the inner options object on which the
/// compiler first calls a getter, i.e. the options the entry point finally handed over.
struct Recorder {
    inner: Rc<dyn CompilerOpts>,
    log: Rc<RefCell<Option<FirstUse>>>,
}

impl Recorder {
    fn touch(&self, getter: &'static str) {
        let mut l = self.log.borrow_mut();
        if l.is_none() {
            *l = Some(FirstUse { getter, opts: self.inner.clone() });
        }
    }
}

impl HasCompilerOptsDelegation for Recorder {
    fn compiler_opts(&self) -> Rc<dyn CompilerOpts> {
        self.touch("other");
        self.inner.clone()
    }
    fn update_compiler_opts<F: FnOnce(Rc<dyn CompilerOpts>) -> Rc<dyn CompilerOpts>>(
        &self,
        f: F,
    ) -> Rc<dyn CompilerOpts> {
        Rc::new(Recorder { inner: f(self.inner.clone()), log: self.log.clone() })
    }
    fn override_dialect(&self) -> AcceptedDialect {
        self.touch("dialect");
        self.inner.dialect()
    }
    fn override_get_search_paths(&self) -> Vec<String> {
        self.touch("get_search_paths");
        self.inner.get_search_paths()
    }
}

fn base_opts(name: &str, sp: &[String]) -> Rc<dyn CompilerOpts> {
    Rc::new(DefaultCompilerOpts::new(name)).set_search_paths(sp)
}

fn probe_source(dialect: &str) -> String {
    // small program whose unoptimised, optimised and classic-compiled forms all differ
    let inc = if dialect == "-" { String::new() } else { format!("(include {dialect}) ") };
    // no helper functions: the classic optimiser only reaches the main expression, so this is
    // where the post-optimisation flag is observable
    format!("(mod (X Y) {inc}(c (f (c (+ X 1) ())) (r (c () (* Y 2)))))")
}

fn node_hex_of_sexp(a: &mut Allocator, s: Rc<SExp>) -> String {
    match convert_to_clvm_rs(a, s) {
        Ok(n) => hex_of_node(a, n),
        Err(_) => "!conv".to_string(),
    }
}

fn errhex(m: &str) -> String {
    let b = m.as_bytes();
    format!("E:{}", hex::encode(&b[..b.len().min(240)]))
}

/// the classic pipeline computed directly: run `(a (opt (com 2)) 3)` on `(program)`
fn classic_candidate(a: &mut Allocator, text: &str, path: &str, sp: &[String]) -> String {
    let Ok(prog) = assemble(a, text) else {
        return "!asm".to_string();
    };
    let script = assemble(a, "(a (opt (com 2)) 3)").unwrap();
    let Ok(input) = a.new_pair(prog, NodePtr::NIL) else {
        return "!alloc".to_string();
    };
    let rp = run_program_for_search_paths(path, sp, false);
    match rp.run_program(a, script, input, None) {
        Ok(r) => hex_of_node(a, r.1),
        Err(e) => errhex(&format!("{e:?}")),
    }
}

/// candidates for what the modern pipeline emits with given options: (unoptimised, finalised)
fn modern_candidates(a: &mut Allocator, opts: Rc<dyn CompilerOpts>, text: &str) -> (String, String) {
    let runner: Rc<dyn TRunProgram> = Rc::new(DefaultProgramRunner::new());
    let mut st = HashMap::new();
    match compile_file(a, runner.clone(), opts, text, &mut st) {
        Ok(x) => {
            let xr = Rc::new(x);
            let xh = node_hex_of_sexp(a, xr.clone());
            let yh = match run_optimizer(a, runner, xr) {
                Ok(y) => node_hex_of_sexp(a, y),
                Err(e) => errhex(&e.1),
            };
            (xh, yh)
        }
        Err(e) => (errhex(&e.1), errhex(&e.1)),
    }
}

fn classify(out: &str, a: &mut Allocator, opts: Rc<dyn CompilerOpts>, text: &str, path: &str) -> String {
    let sp = opts.get_search_paths();
    let (x, y) = modern_candidates(a, opts.clone(), text);
    let c = classic_candidate(a, text, path, &sp);
    let mut hits = Vec::new();
    if out == x {
        hits.push("modern-post0");
    }
    if out == y {
        hits.push("modern-post1");
    }
    if out == c {
        hits.push("classic");
    }
    if hits.len() == 1 {
        hits[0].to_string()
    } else if hits.is_empty() {
        "none".to_string()
    } else {
        format!("ambiguous({})", hits.join("+"))
    }
}

fn describe(kind: &str, opts: &Rc<dyn CompilerOpts>) -> String {
    match kind {
        "modern-post0" => format!("modern {} post=0", snapshot(opts)),
        "modern-post1" => format!("modern {} post=1", snapshot(opts)),
        "classic" => format!("classic sp={}", opts.get_search_paths().join("|")),
        other => format!("unidentified:{other} {}", snapshot(opts)),
    }
}

fn cli_args(
    code: ArgumentValue,
    flag: bool,
    sp: &[String],
    opver: bool,
) -> HashMap<String, ArgumentValue> {
    // the keys the argument parsers of `run` / `cldb` produce for these flags
    let mut m = HashMap::new();
    m.insert("path_or_code".to_string(), code);
    if flag {
        m.insert("optimize".to_string(), ArgumentValue::ArgBool(true));
    }
    m.insert(
        "include".to_string(),
        ArgumentValue::ArgArray(
            sp.iter().map(|s| ArgumentValue::ArgString(None, s.clone())).collect(),
        ),
    );
    if opver {
        m.insert(
            "operators_version".to_string(),
            ArgumentValue::ArgInt(OPERATORS_LATEST_VERSION as i64),
        );
    }
    m
}

fn run_tool_text(args: &[String]) -> String {
    let mut s = Stream::new(None);
    launch_tool(&mut s, args, "run", 2);
    s.get_value().decode()
}

/// hex of the CLVM a text denotes when read by the reader of the printer's own family (modern)
fn modern_hex(text: &str) -> String {
    let mut am = Allocator::new();
    match parse_sexp(Srcloc::start("*run-output*"), text.bytes()) {
        Ok(l) if l.len() == 1 => node_hex_of_sexp(&mut am, l[0].clone()),
        _ => "E:".to_string(),
    }
}

/// Does the text `run` printed stand for the program compile_modern emitted?  The property speaks of
/// the CLVM, not of its spelling: the same value has several spellings (`()` / `0` for nil, `z` / "z" /
/// 122 for one atom), and which SExp variant the compiler leaves in its result is not even a function of
/// the source (relabel's HashMap<SExp, _> lookups, see DESIGN.md section 11), so identical texts are
/// sufficient but not necessary.  When the texts differ they must read back - by one and the same
/// reader - to the same CLVM, or `run`'s text must read back to the very bytes compile_modern emitted.
fn text_verdict(run_text: &str, cm_text: &str, cm_hex: &str) -> &'static str {
    if run_text == cm_text {
        return "equal";
    }
    let r = modern_hex(run_text);
    if r.starts_with("E:") || r.starts_with('!') {
        return "differ";
    }
    if r == modern_hex(cm_text) || r == cm_hex {
        "same-clvm"
    } else {
        "differ"
    }
}

fn s_line(parts: &[&str]) -> String {
    if parts.len() != 4 {
        return "bad-input".to_string();
    }
    let dec = |h: &str| hex::decode(h).ok().and_then(|b| String::from_utf8(b).ok());
    match (dec(parts[1]), dec(parts[2])) {
        (Some(a), Some(b)) => text_verdict(&a, &b, parts[3]).to_string(),
        _ => "bad-input".to_string(),
    }
}

fn reassemble(a: &mut Allocator, text: &str) -> String {
    match assemble(a, text) {
        Ok(n) => hex_of_node(a, n),
        Err(_) => errhex(text),
    }
}

fn o_line(parts: &[&str]) -> String {
    if parts.len() != 5 {
        return "bad-input".to_string();
    }
    let site = parts[1];
    let dialect = parts[2];
    let flag = parts[3] == "1";
    let sp: Vec<String> = if parts[4] == "1" {
        vec!["/nonexistent/inc-a".to_string(), "/nonexistent/inc-b".to_string()]
    } else {
        vec![]
    };
    let text = probe_source(dialect);
    let mut a = Allocator::new();
    let path = "*probe*";
    match site {
        "lib" | "libopt" | "py" => {
            let log = Rc::new(RefCell::new(None));
            let rec: Rc<dyn CompilerOpts> =
                Rc::new(Recorder { inner: base_opts(path, &sp), log: log.clone() });
            let mut st = HashMap::new();
            let r = match site {
                "libopt" => compile_clvm_text_maybe_opt(&mut a, flag, rec, &mut st, &text, path, false),
                "py" => compile_clvm_text(&mut a, rec, &mut st, &text, path, true),
                _ => compile_clvm_text(&mut a, rec, &mut st, &text, path, false),
            };
            let out = match r {
                Ok(n) => hex_of_node(&a, n),
                Err(_) => return "compile-error".to_string(),
            };
            let Some(fu) = log.borrow().clone() else {
                return "no-getter-called".to_string();
            };
            let kind = classify(&out, &mut a, fu.opts.clone(), &text, path);
            // the first getter must fit the pipeline that produced the output
            let expect = if kind == "classic" { "get_search_paths" } else { "dialect" };
            if fu.getter != expect {
                return format!("unidentified:first-getter-{} {}", fu.getter, describe(&kind, &fu.opts));
            }
            describe(&kind, &fu.opts)
        }
        "cli" | "cldb" => {
            let pa = cli_args(ArgumentValue::ArgString(None, text.clone()), flag, &sp, site == "cli");
            let parsed = match RunAndCompileInputData::new(&mut a, &pa) {
                Ok(p) => p,
                Err(e) => return format!("input-error {e}"),
            };
            if parsed.do_optimize != flag {
                return format!("do_optimize={} for flag {}", parsed.do_optimize, flag);
            }
            let out = if site == "cli" {
                // the real tool, program given as code
                let mut args = vec!["run".to_string()];
                if flag {
                    args.push("-O".to_string());
                }
                for s in sp.iter() {
                    args.push("-i".to_string());
                    args.push(s.clone());
                }
                args.push("--symbol-output-file".to_string());
                args.push("/dev/null".to_string());
                args.push(text.clone());
                let t = run_tool_text(&args);
                reassemble(&mut a, &t)
            } else {
                let mut st = HashMap::new();
                match parsed.compile_modern(&mut a, &mut st) {
                    Ok(r) => node_hex_of_sexp(&mut a, r),
                    Err(e) => errhex(&e.1),
                }
            };
            let kind = classify(&out, &mut a, parsed.opts.clone(), &text, "*command*");
            describe(&kind, &parsed.opts)
        }
        "deps" => {
            let log = Rc::new(RefCell::new(None));
            let rec: Rc<dyn CompilerOpts> =
                Rc::new(Recorder { inner: base_opts(path, &sp), log: log.clone() });
            if gather_dependencies(rec, path, &text).is_err() {
                return "deps-error".to_string();
            }
            let Some(fu) = log.borrow().clone() else {
                return "no-getter-called".to_string();
            };
            format!("opts {}", snapshot(&fu.opts))
        }
        _ => "bad-input".to_string(),
    }
}

fn g_line(parts: &[&str]) -> String {
    if parts.len() != 3 {
        return "bad-input".to_string();
    }
    let stepping = if parts[1] == "-" { None } else { parts[1].parse::<i32>().ok() };
    let optimize = parts[2] == "1";
    let opts = Rc::new(DefaultCompilerOpts::new("*g*"))
        .set_dialect(AcceptedDialect { stepping, strict: false, int_fix: false })
        .set_optimize(optimize);
    let loc = Srcloc::start("*g*");
    match get_optimizer(&loc, opts.clone()) {
        Err(e) => {
            if e.1.starts_with("minimum") {
                "err-old".to_string()
            } else if e.1.starts_with("maximum") {
                "err-new".to_string()
            } else {
                format!("err-other {}", e.1)
            }
        }
        Ok(mut o) => {
            // identify the strategy by behaviour: ExistingStrategy only optimises macro code
            // when opts.optimize(), Strategy23 always does.
            let mut a = Allocator::new();
            let runner: Rc<dyn TRunProgram> = Rc::new(DefaultProgramRunner::new());
            let code = parse_sexp(loc.clone(), "(a (q . (+ 2 5)) (c 1 1))".bytes()).unwrap()[0].clone();
            let no_opt = opts.set_optimize(false);
            match o.macro_optimization(&mut a, runner, no_opt, code.clone()) {
                Ok(r) => {
                    if r.to_string() == code.to_string() {
                        "Existing".to_string()
                    } else {
                        "S23".to_string()
                    }
                }
                Err(e) => format!("probe-error {}", e.1),
            }
        }
    }
}

// ------------------------------------------------------------------------------------------
// end to end
// ------------------------------------------------------------------------------------------

/// atom-spelling independent skeleton of a printed s-expression: parentheses kept, every other
/// token (numbers, symbols, hex, quoted strings, the dot) becomes `A`. The debugger prints the
/// same value differently depending on how the program was loaded (`46` / `.` / `0x2e`), and
/// some spellings cannot be read back, so traces are compared on skeletons.
fn skeleton(t: &str) -> String {
    let b = t.as_bytes();
    let mut out = String::new();
    let mut i = 0;
    while i < b.len() {
        let c = b[i];
        if c == b'(' || c == b')' {
            out.push(c as char);
            i += 1;
        } else if c.is_ascii_whitespace() {
            i += 1;
        } else if c == b'"' || c == b'\'' {
            let q = c;
            i += 1;
            while i < b.len() && b[i] != q {
                i += if b[i] == b'\\' { 2 } else { 1 };
            }
            i += 1;
            out.push('A');
        } else {
            while i < b.len() && !b[i].is_ascii_whitespace() && b[i] != b'(' && b[i] != b')' {
                i += 1;
            }
            out.push('A');
        }
    }
    out
}

/// canonical digest of a `cldb` yaml trace: per row the keys that describe execution
/// (Operator / Arguments / Value / Final / Throw / Print as skeletons, Failure / Error as a
/// marker); locations, row numbers, function names (symbol table) dropped.
fn cldb_digest(out: &str, verbose: bool) -> String {
    let mut h = Sha256::new();
    // the part of the trace that does not depend on how atoms are spelled at all: the sequence
    // of operators and how the run ends (a bare atom like `paren(` defeats any tokenizer)
    let mut lite = Sha256::new();
    let mut rows = 0;
    let mut fin = "-".to_string();
    let mut shown = String::new();
    for line in out.lines() {
        let t = line.trim_start_matches(['-', ' ']);
        let Some((k, v)) = t.split_once(": ") else { continue };
        let keep = matches!(k, "Operator" | "Arguments" | "Value" | "Final" | "Failure" | "Throw" | "Print" | "Error");
        if !keep {
            continue;
        }
        let v = v.trim();
        // yaml scalars may be quoted
        let unq = if v.len() >= 2 && ((v.starts_with('\'') && v.ends_with('\'')) || (v.starts_with('"') && v.ends_with('"'))) {
            let inner = &v[1..v.len() - 1];
            if v.starts_with('\'') { inner.replace("''", "'") } else { inner.replace("\\\"", "\"").replace("\\\\", "\\") }
        } else {
            v.to_string()
        };
        let canon = match k {
            "Failure" | "Error" => String::new(),
            "Operator" => unq.clone(),
            _ => skeleton(&unq),
        };
        if k == "Operator" {
            rows += 1;
            lite.update(canon.as_bytes());
            lite.update([10]);
        }
        if matches!(k, "Final" | "Failure" | "Throw" | "Error") {
            fin = k.to_string();
            lite.update(k.as_bytes());
        }
        h.update(k.as_bytes());
        h.update([0]);
        h.update(canon.as_bytes());
        h.update([10]);
        if verbose {
            shown.push_str(&format!("{k}={canon};"));
        }
    }
    let d = hex::encode(h.finalize());
    let dl = hex::encode(lite.finalize());
    if verbose {
        format!("{}/{}/{}/{}/{}", &d[..16], rows, fin, &dl[..12], shown.replace(' ', "_"))
    } else {
        format!("{}/{}/{}/{}", &d[..16], rows, fin, &dl[..12])
    }
}

fn cldb_child(args: &[String], cwd: &str) -> String {
    let exe = std::env::current_exe().unwrap();
    let mut cmd = std::process::Command::new(exe);
    cmd.arg("cldbmain").args(args).current_dir(cwd);
    match cmd.output() {
        Ok(o) => {
            if !o.status.success() {
                format!("Error: child status {:?}\n{}", o.status.code(), String::from_utf8_lossy(&o.stdout))
            } else {
                String::from_utf8_lossy(&o.stdout).to_string()
            }
        }
        Err(e) => format!("Error: spawn {e}"),
    }
}

fn e_line(parts: &[&str], verbose: bool) -> String {
    if parts.len() < 4 {
        return "bad-input".to_string();
    }
    let scratch = parts[1].to_string();
    let parts = &parts[1..];
    let args_text = match hex::decode(parts[1]).ok().and_then(|b| String::from_utf8(b).ok()) {
        Some(t) => t,
        None => return "bad-input".to_string(),
    };
    let path = parts[2];
    let sp: Vec<String> = parts[3..].iter().map(|s| s.to_string()).collect();
    let Ok(text) = std::fs::read_to_string(path) else {
        return "unreadable".to_string();
    };
    let dir = scratch;
    let mut out: Vec<String> = Vec::new();
    let mut a = Allocator::new();
    let dialect = match assemble(&mut a, &text) {
        Ok(n) => dialect_str(&detect_modern(&mut a, n)),
        Err(_) => "unassemblable".to_string(),
    };
    out.push(format!("dialect={dialect}"));

    // library entry, both `classic_with_opts` flavours
    for (k, cwo) in [("lib0", false), ("lib1", true)] {
        let mut a = Allocator::new();
        let mut st = HashMap::new();
        reset_ctr();
        let r = compile_clvm_text(&mut a, base_opts(path, &sp), &mut st, &text, path, cwo);
        out.push(format!(
            "{k}={}",
            match r {
                Ok(n) => hex_of_node(&a, n),
                Err(e) => errhex(&e.format(&a, base_opts(path, &sp))),
            }
        ));
    }
    // file to file
    {
        let tmp = tempfile::Builder::new().prefix("c11-").suffix(".hex").tempfile_in(&dir);
        match tmp {
            Ok(t) => {
                let outp = t.path().to_string_lossy().to_string();
                drop(t); // the output must not exist (compile_clvm skips up-to-date targets)
                let mut st = HashMap::new();
                reset_ctr();
                let r = compile_clvm(path, &outp, &sp, &mut st);
                let v = match r {
                    Ok(_) => std::fs::read_to_string(&outp).map(|s| s.trim().to_string()).unwrap_or_else(|_| "!nofile".to_string()),
                    Err(e) => errhex(&e),
                };
                let _ = std::fs::remove_file(&outp);
                out.push(format!("f2f={v}"));
            }
            Err(_) => out.push("f2f=!tmp".to_string()),
        }
    }
    // command line, with and without -O; in-process compile_modern with the same flags
    let symout = format!("{dir}/c11-symbols-{}.out", std::process::id());
    let mut run_hex: Vec<String> = Vec::new();
    let mut cm_hex: Vec<String> = Vec::new();
    for flag in [true, false] {
        let mut args = vec!["run".to_string()];
        if flag {
            args.push("-O".to_string());
        }
        for s in sp.iter() {
            args.push("-i".to_string());
            args.push(s.clone());
        }
        args.push("--symbol-output-file".to_string());
        args.push(symout.clone());
        args.push(path.to_string());
        reset_ctr();
        let t = run_tool_text(&args);
        let mut a = Allocator::new();
        let h = reassemble(&mut a, &t);
        out.push(format!("run{}={h}", b01(flag)));
        out.push(format!("rt{}={}", b01(flag), &errhex(&t)[2..]));
        // the same text read by the reader of the printer's own family (modern)
        let hm = modern_hex(&t);
        out.push(format!("runm{}={hm}", b01(flag)));
        if verbose {
            out.push(format!("runtext{}={}", b01(flag), hex::encode(t.as_bytes())));
        }
        run_hex.push(h);
        // compile_modern as `run` / `cldb` call it
        let mut a = Allocator::new();
        let pa = cli_args(ArgumentValue::ArgString(Some(path.to_string()), text.clone()), flag, &sp, true);
        let mut cm_text: Option<String> = None;
        let v = match RunAndCompileInputData::new(&mut a, &pa) {
            Ok(p) => {
                let mut st = HashMap::new();
                reset_ctr();
                match p.compile_modern(&mut a, &mut st) {
                    Ok(r) => {
                        cm_text = Some(r.to_string());
                        node_hex_of_sexp(&mut a, r)
                    }
                    Err(e) => errhex(&format!("{}: {}", e.0, e.1)),
                }
            }
            Err(e) => errhex(&e),
        };
        out.push(format!("cm{}={v}", b01(flag)));
        // does `run` print the program compile_modern emitted?  equal texts, or texts that denote the same CLVM
        out.push(format!(
            "txt{}={}",
            b01(flag),
            match &cm_text {
                Some(ct) => text_verdict(&t, ct, &v),
                None => "-",
            }
        ));
        cm_hex.push(v);
    }
    let _ = std::fs::remove_file(&symout);
    // the debugger: trace of `cldb [-O] -i.. file args` against the trace of the program `run [-O]`
    // printed, loaded from hex
    let mut a = Allocator::new();
    let args_hex = match assemble(&mut a, &args_text) {
        Ok(n) => hex_of_node(&a, n),
        Err(_) => "80".to_string(),
    };
    for (i, flag) in [true, false].iter().enumerate() {
        let mut cargs: Vec<String> = Vec::new();
        if *flag {
            cargs.push("-O".to_string());
        }
        for s in sp.iter() {
            cargs.push("-i".to_string());
            cargs.push(s.clone());
        }
        cargs.push(path.to_string());
        cargs.push(args_text.clone());
        let src_trace = cldb_digest(&cldb_child(&cargs, &dir), verbose);
        out.push(format!("cldb{}={src_trace}", b01(*flag)));
        // sigil programs: the program compile_modern emitted (compared with `run`'s text
        // separately); others: what `run` printed
        let h = if cm_hex[i].starts_with("E:") { &run_hex[i] } else { &cm_hex[i] };
        if h.starts_with("E:") {
            out.push(format!("cldbx{}=-", b01(*flag)));
        } else {
            // the hex goes through a file (`cldb` reads a path argument), programs can exceed argv limits
            let hexfile = format!("{dir}/c11-prog-{}-{}.hex", std::process::id(), i);
            let _ = std::fs::write(&hexfile, h);
            let xargs = vec!["-x".to_string(), hexfile.clone(), args_hex.clone()];
            let x_trace = cldb_digest(&cldb_child(&xargs, &dir), verbose);
            let _ = std::fs::remove_file(&hexfile);
            out.push(format!("cldbx{}={x_trace}", b01(*flag)));
        }
    }
    out.join(" ")
}

/// generated programs can nest deeper than the 8 MiB main-thread stack allows (a crash there is
/// C14's subject); every entry point is given the same roomy stack so that outputs can be compared.
fn with_big_stack<F: FnOnce() + Send + 'static>(f: F) {
    let h = std::thread::Builder::new().stack_size(1 << 30).spawn(f).unwrap();
    if h.join().is_err() {
        std::process::exit(101);
    }
}

pub fn cldb_main(args: &[String]) {
    let mut v = vec!["cldb".to_string()];
    v.extend(args.iter().cloned());
    with_big_stack(move || chialisp::classic::clvm_tools::cmds::cldb(&v));
}

pub fn run(_args: &[String]) {
    with_big_stack(run_lines);
}

fn run_lines() {
    each_line(|l| {
        let parts: Vec<&str> = l.split_whitespace().collect();
        if parts.is_empty() {
            return "bad-input".to_string();
        }
        match parts[0] {
            "k" => {
                let mut v: Vec<String> = KNOWN_DIALECTS
                    .iter()
                    .map(|(k, d)| format!("{k}:{}", dialect_str(&d.accepted)))
                    .collect();
                v.sort();
                v.join(",")
            }
            "d" => {
                let o: Rc<dyn CompilerOpts> = Rc::new(DefaultCompilerOpts::new("*d*"));
                snapshot(&o)
            }
            "n" => {
                if parts.len() != 2 {
                    return "bad-input".to_string();
                }
                let mut a = Allocator::new();
                match node_of_hex(&mut a, parts[1]) {
                    Some(n) => dialect_str(&detect_modern(&mut a, n)),
                    None => "bad-input".to_string(),
                }
            }
            "g" => g_line(&parts),
            "p" => {
                // debugging aid: `p <dialect name|-> <optimize> <fe> <source hex>` -> X Y classic
                if parts.len() != 5 {
                    return "bad-input".to_string();
                }
                let text = String::from_utf8(hex::decode(parts[4]).unwrap_or_default()).unwrap_or_default();
                let mut a = Allocator::new();
                let d = KNOWN_DIALECTS.get(parts[1]).map(|d| d.accepted.clone()).unwrap_or_default();
                let o = base_opts("*p*", &[]).set_dialect(d).set_optimize(parts[2] == "1").set_frontend_opt(parts[3] == "1");
                let (x, y) = modern_candidates(&mut a, o, &text);
                let c = classic_candidate(&mut a, &text, "*p*", &[]);
                format!("{x} {y} {c}")
            }
            "o" => o_line(&parts),
            "e" => e_line(&parts, false),
            "s" => s_line(&parts),
            "r" => {
                // `r <n> <path> <incdir>*`: the SAME calls repeated n times in this process ->
                // the distinct outputs of the library entry and of compile_modern (-O / no -O)
                if parts.len() < 3 {
                    return "bad-input".to_string();
                }
                let n: usize = parts[1].parse().unwrap_or(4);
                let path = parts[2];
                let sp: Vec<String> = parts[3..].iter().map(|s| s.to_string()).collect();
                let Ok(text) = std::fs::read_to_string(path) else {
                    return "unreadable".to_string();
                };
                let mut libs: Vec<String> = Vec::new();
                let mut cms: [Vec<String>; 2] = [Vec::new(), Vec::new()];
                for _ in 0..n {
                    let mut a = Allocator::new();
                    let mut st = HashMap::new();
                    reset_ctr();
                    libs.push(match compile_clvm_text(&mut a, base_opts(path, &sp), &mut st, &text, path, false) {
                        Ok(nd) => hex_of_node(&a, nd),
                        Err(_) => "E".to_string(),
                    });
                    for (i, flag) in [true, false].iter().enumerate() {
                        let mut a = Allocator::new();
                        let pa = cli_args(ArgumentValue::ArgString(Some(path.to_string()), text.clone()), *flag, &sp, true);
                        cms[i].push(match RunAndCompileInputData::new(&mut a, &pa) {
                            Ok(p) => {
                                let mut st = HashMap::new();
                                reset_ctr();
                                match p.compile_modern(&mut a, &mut st) {
                                    Ok(r) => node_hex_of_sexp(&mut a, r),
                                    Err(_) => "E".to_string(),
                                }
                            }
                            Err(_) => "E".to_string(),
                        });
                    }
                }
                let uniq = |v: &mut Vec<String>| {
                    v.sort();
                    v.dedup();
                    v.join(",")
                };
                let (mut c1, mut c0) = (cms[0].clone(), cms[1].clone());
                format!("lib={} cm1={} cm0={}", uniq(&mut libs), uniq(&mut c1), uniq(&mut c0))
            }
            "x" => e_line(&parts, true),
            _ => "bad-input".to_string(),
        }
    });
}
